(* Errors_driver.ml — prints the C12 contract table extracted from coq/ErrorsModel.v:
   one line per row:  <scenario> <kinds> <Exn>,<Exn>,...     (no stdin; built with plain=True) *)
let bit b k = if b then 1 lsl k else 0
let chr (a : Errors.ascii) : char = match a with
  | Errors.Ascii (b0, b1, b2, b3, b4, b5, b6, b7) ->
      Char.chr (bit b0 0 + bit b1 1 + bit b2 2 + bit b3 3 + bit b4 4 + bit b5 5 + bit b6 6 + bit b7 7)
let rec str (s : Errors.string) : Stdlib.String.t = match s with
  | Errors.EmptyString -> ""
  | Errors.String (a, r) -> Stdlib.String.make 1 (chr a) ^ str r
let exn_s = function
  | Errors.KeyError -> "KeyError" | Errors.FormatError -> "FormatError" | Errors.ValueError -> "ValueError"
  | Errors.IndexError -> "IndexOutOfBoundsError" | Errors.TypeError -> "TypeError" | Errors.ClassError -> "ClassError"
  | Errors.ResourceError -> "ResourceError" | Errors.IOError -> "IOError" | Errors.OutOfMemoryError -> "OutOfMemoryError"
  | Errors.BusyError -> "BusyError"
let () =
  List.iter (fun ((sc, kinds), es) ->
    print_endline (str sc ^ " " ^ str kinds ^ " " ^ Stdlib.String.concat "," (List.map exn_s es))) Errors.contract
