(* Header_driver.ml — C19: one case per line
     <ngc 0|1> <T> <K> <V> <producer> <op,op,...>
   argv[1] = model : transcript of the extracted model (Header.v), same format as harness/header_matrix.c
   argv[1] = spec  : what the property text demands of that cell *)

let tname_of_string s = match s with
  | "Int" -> TInt | "Float" -> TFloat | "String" -> TString | "Ref" -> TRef | "Tuple" -> TTuple
  | "Array" -> TArray | "List" -> TList | "Table" -> TTable | "Tree" -> TTree | "Function" -> TFunction
  | "Type" -> TType
  | "S1" -> TUser (nat_of_int 101) | "S4" -> TUser (nat_of_int 104) | "S12" -> TUser (nat_of_int 112) | "S20" -> TUser (nat_of_int 120)
  | "Box" -> TUser (nat_of_int 10) | "Range" -> TUser (nat_of_int 11) | "File" -> TUser (nat_of_int 12) | "Mutex" -> TUser (nat_of_int 13)
  | _ when String.length s > 1 && s.[0] = 'U' -> TUser (nat_of_int (int_of_string (String.sub s 1 (String.length s - 1))))
  | _ -> failwith ("type " ^ s)

let string_of_tname t = match t with
  | TInt -> "Int" | TFloat -> "Float" | TString -> "String" | TRef -> "Ref" | TTuple -> "Tuple"
  | TArray -> "Array" | TList -> "List" | TTable -> "Table" | TTree -> "Tree" | TFunction -> "Function"
  | TType -> "Type"
  | TUser n -> (match int_of_nat n with 10 -> "Box" | 11 -> "Range" | 12 -> "File" | 13 -> "Mutex" | 101 -> "S1" | 104 -> "S4" | 112 -> "S12" | 120 -> "S20" | k -> "U" ^ string_of_int k)

let cont_of_string s =
  (* "+g" = the container was grown and shrunk before the element was obtained: same producer *)
  let s = match String.index_opt s '+' with Some i -> String.sub s 0 i | None -> s in
  match s with
  | "Array" -> CArray | "List" -> CList | "TableK" -> CTableK | "TableV" -> CTableV
  | "TreeK" -> CTreeK | "TreeV" -> CTreeV | _ -> failwith ("container " ^ s)

let inner_of_string s = match s with
  | "stack" -> IStack | "raw" -> INewRaw | "elem" -> IArrayElem | _ -> failwith ("inner " ^ s)

let producer_of_string s =
  match String.split_on_char ':' s with
  | ["new"] -> PNew | ["new_raw"] -> PNewRaw | ["new_root"] -> PNewRoot
  | ["alloc"] -> PAlloc | ["alloc_raw"] -> PAllocRaw | ["alloc_root"] -> PAllocRoot
  | ["copy"] -> PCopy | ["stack"] -> PStack | ["static_obj"] -> PStaticObj | ["static"] | ["static"; _] -> PStatic | ["rtype"] -> PRuntimeType
  | ["get"; c] -> PGet (cont_of_string c)
  | ["iter"; c] | ["last"; c] | ["next"; c] | ["prev"; c] -> PIter (cont_of_string c)
  | ["slice"; c] -> PSlice (cont_of_string c)
  | ["filter"; c] -> PFilter (cont_of_string c)
  | ["map"; c] -> PMap (cont_of_string c)
  | ["range_stack"] -> PRangeStack | ["range_heap"] -> PRangeHeap
  | ["zip_stack"] -> PZipStack | ["zip_heap"] -> PZipHeap
  | ["tget"; i] -> PTupleGet (inner_of_string i)
  | ["titer"; i] -> PTupleIter (inner_of_string i)
  | _ -> failwith ("producer " ^ s)

let op_of_string s =
  (* "@e/@s/@q/@l": size class of the argument (empty, shorter, equal, longer); the model has no sizes *)
  let s = match String.index_opt s '@' with Some i -> String.sub s 0 i | None -> s in
  match s with
  | "del" -> OpDel | "del_raw" -> OpDelRaw | "del_root" -> OpDelRoot
  | "dealloc" -> OpDealloc | "dealloc_raw" -> OpDeallocRaw | "dealloc_root" -> OpDeallocRoot
  | "destruct" -> OpDestruct | "assign" -> OpAssign | "assign_iter" -> OpAssignIter | "resize" -> OpResize | "concat" -> OpConcat
  | "append" -> OpAppend | "print_to" -> OpPrintTo | "push" -> OpPush | "pop" -> OpPop
  | "push_at" -> OpPushAt | "pop_at" -> OpPopAt | "rem" -> OpRem | "sweep" -> OpSweep | "del_stopped" -> OpDelStopped
  | _ -> failwith ("op " ^ s)

let string_of_outcome o = match o with
  | OOk -> "ok"
  | ORaise ResourceError -> "raise:ResourceError"
  | ORaise ValueError -> "raise:ValueError"
  | ORaise OtherError -> "raise:Other"
  | ONa -> "n/a"

let cnt f l = List.length (List.filter f l)
let b2s b = if b then "1" else "0"

let is_deleting o = match o with
  | OpDel | OpDelRaw | OpDelRoot | OpDealloc | OpDeallocRaw | OpDeallocRoot | OpDelStopped -> true | _ -> false

let () =
  let mode = if Array.length Sys.argv > 1 then Sys.argv.(1) else "model" in
  read_lines (fun line ->
    let out =
      try
        match String.split_on_char ' ' (String.trim line) with
        | [ngc; t; k; v; p; ops] ->
          let ngc = (ngc = "1") in
          let t = tname_of_string t and k = tname_of_string k and v = tname_of_string v in
          let p = producer_of_string p in
          let ops = List.map op_of_string (split_on ',' ops) in
          if not h_rules_ok then "MODEL-RULES-BROKEN"
          else if not (h_valid p t k v) then "INVALID"
          else if mode = "model" then begin
            let o0 = h_produce ngc p t k v in
            let steps = h_run ngc ops o0 in
            let buf = Buffer.create 128 in
            (* D: the type the container / view declares for its items (iter_type, key_type, val_type) is the
               header type; in the model both are spec_type by c19_true_type_and_class *)
            Buffer.add_string buf (Printf.sprintf "T=%s A=%d R=%s D=%s" (string_of_tname (h_type_of o0))
              (int_of_nat o0.o_alloc) (match o0.o_reg with RNone -> "0" | _ -> "1")
              (if h_type_of o0 = h_spec_type p t k v then "1" else "0"));
            let prev = ref o0 in
            List.iter2 (fun op ((o', out), evs) ->
              let o = !prev in prev := o';
              let fo = cnt (fun e -> e = FreeObj) evs and ro = cnt (fun e -> e = ReallocObj) evs in
              let fb = cnt (fun e -> match e with FreeBuf _ -> true | _ -> false) evs in
              let rb = cnt (fun e -> match e with ReallocBuf _ -> true | _ -> false) evs in
              (* flags are relative to the state before the step *)
              let h = (o'.o_type = o.o_type && o'.o_alloc = o.o_alloc && o'.o_magic = o.o_magic) in
              let show = (fo + ro + fb + rb = 0) && (match out with ORaise _ -> true | ONa -> false | OOk -> is_deleting op || op = OpSweep) in
              Buffer.add_string buf (Printf.sprintf " | %s fo=%d ro=%d fb=%d rb=%d i=%s%s%s" (string_of_outcome out) fo ro fb (min rb 1)
                (b2s h) (if show then b2s (o'.o_body = o.o_body) else "-") (if show then b2s (o'.o_bufc = o.o_bufc) else "-"))) ops steps;
            Buffer.contents buf
          end else begin
            let buf = Buffer.create 128 in
            Buffer.add_string buf (Printf.sprintf "T=%s A=%d" (string_of_tname (h_spec_type p t k v))
              (int_of_nat (h_code_of (h_spec_class p))));
            List.iter (fun op ->
              let d = match h_demand p t k v op with
                | DAny -> "any"
                | DNotFreed nh -> "nf" ^ b2s nh
                | DAttempt nh -> "att" ^ b2s nh ^ (if h_f7 ngc op then "!f7" else "") in
              Buffer.add_string buf (" | " ^ d)) ops;
            Buffer.add_string buf (" | total=" ^ (match h_matched ngc p ops with Some n -> string_of_int (int_of_nat n) | None -> "-"));
            Buffer.contents buf
          end
        | _ -> "BADCASE"
      with Failure m -> "BADCASE " ^ m in
    print_string out; print_newline ())
