(* RoundTrip_driver.ml — correspondence driver for the round-trip model (C15).
   stdin: one case per line (format: see harness/roundtrip.c)
     <K>:<prehex>:<resthex>:<mode>|<tok> <tok> ...
   argv[1] = model | spec ; one output line per case
     model:  W<hex of sink content>;<wpos>|R<v>,<v>,...;<rpos>      (R!FormatError when the reader raises)
     spec:   R<v>,<v>,...        the values that were written (what must come back) *)
let hexdig = "0123456789abcdef"
let hv c = match c with
  | '0'..'9' -> Char.code c - 48 | 'a'..'f' -> Char.code c - 87 | 'A'..'F' -> Char.code c - 55
  | _ -> failwith "bad hex"
let bytes_of_hex (h : string) : n list =
  let n = String.length h / 2 in
  List.init n (fun i -> n_of_int (hv h.[2*i] * 16 + hv h.[2*i+1]))
let hex_of_bytes (l : n list) : string =
  let b = Buffer.create 64 in
  List.iter (fun x -> let v = int_of_n x in
    Buffer.add_char b hexdig.[(v lsr 4) land 15]; Buffer.add_char b hexdig.[v land 15]) l;
  Buffer.contents b
(* 64-bit patterns do not fit OCaml's int: go through bit lists *)
let n_of_hex (h : string) : n =
  let acc = ref None in
  String.iter (fun c -> let v = hv c in
    for k = 3 downto 0 do
      let bit = (v lsr k) land 1 = 1 in
      acc := (match !acc with
        | None -> if bit then Some XH else None
        | Some p -> Some (if bit then XI p else XO p))
    done) h;
  match !acc with None -> N0 | Some p -> Npos p
let hex16_of_n (x : n) : string =
  let rec bits p = match p with XH -> [1] | XO q -> 0 :: bits q | XI q -> 1 :: bits q in
  let l = match x with N0 -> [] | Npos p -> bits p in
  let a = Array.make 64 0 in
  List.iteri (fun i b -> if i < 64 then a.(i) <- b) l;
  String.init 16 (fun i -> let top = 63 - 4*i in
    hexdig.[a.(top)*8 + a.(top-1)*4 + a.(top-2)*2 + a.(top-3)])
(* "+08li" -> nspec *)
let parse_spec (s : string) : nspec =
  let i = ref 0 and n = String.length s in
  let plus = ref false and space = ref false and zero = ref false and alt = ref false in
  let continue = ref true in
  while !continue && !i < n do
    (match s.[!i] with
     | '+' -> plus := true | '_' | ' ' -> space := true | '0' -> zero := true | '#' -> alt := true
     | _ -> continue := false);
    if !continue then incr i
  done;
  let w = ref 0 in
  while !i < n && s.[!i] >= '0' && s.[!i] <= '9' do w := !w * 10 + Char.code s.[!i] - 48; incr i done;
  let prec = ref None in
  if !i < n && s.[!i] = '.' then begin
    incr i; let p = ref 0 in
    while !i < n && s.[!i] >= '0' && s.[!i] <= '9' do p := !p * 10 + Char.code s.[!i] - 48; incr i done;
    prec := Some (nat_of_int !p) end;
  (* length modifiers: l ll j z t q name 64-bit types; h = short, hh = char *)
  let long = ref false and short = ref 0 in
  while !i < n && String.contains "hljztq" s.[!i] do
    (if s.[!i] = 'h' then incr short else long := true); incr i done;
  if !i <> n - 1 then failwith ("bad spec " ^ s);
  rt_mkspec (n_of_int (Char.code s.[!i])) !long !plus !space !zero !alt (nat_of_int !w) !prec (nat_of_int !short)
let is_float_spec s = let c = s.[String.length s - 1] in c = 'f' || c = 'F'
let val_s = function
  | VInt z -> "i" ^ z_to_dec z | VFloat b -> "f" ^ hex16_of_n b | VStr s -> "s" ^ hex_of_bytes s
let parse_tok (t : string) : pitem * sitem option * value option =
  let rest k = String.sub t k (String.length t - k) in
  match t.[0] with
  | 'L' -> let b = bytes_of_hex (rest 1) in (PLit b, Some (SLit b), None)
  | '$' ->
    let v = (match t.[1] with
      | 'i' -> VInt (z_of_dec (rest 2)) | 'f' -> VFloat (n_of_hex (rest 2)) | 's' -> VStr (bytes_of_hex (rest 2))
      | _ -> failwith "bad $") in
    (PShow v, Some (SLook (rt_ty_of v)), Some v)
  | 'N' ->
    let sl = String.index t '/' and co = String.index t ':' in
    let ps = String.sub t 1 (sl - 1) and ss = String.sub t (sl + 1) (co - sl - 1) in
    let vs = rest (co + 1) in
    let v = if is_float_spec ps then VFloat (n_of_hex vs) else VInt (z_of_dec vs) in
    (PNum (parse_spec ps, v), Some (SNum (parse_spec ss)), Some v)
  | 'X' ->
    let co = String.index t ':' in
    let ss = String.sub t 1 (co - 1) in
    (PLit (bytes_of_hex (rest (co + 1))), Some (SNum (parse_spec ss)), None)
  | _ -> failwith ("bad token " ^ t)
let () =
  let mode = Sys.argv.(1) in
  if not rt_shape_ok then (print_endline "SHAPE"; exit 2);
  read_lines (fun line ->
    match String.index_opt line '|' with
    | None -> print_endline "BADCASE"
    | Some bar ->
      (try
        let hd = String.sub line 0 bar and body = String.sub line (bar + 1) (String.length line - bar - 1) in
        (match String.split_on_char ':' hd with
         | [k; preh; resth; _m] ->
           let pre = bytes_of_hex preh and rest = bytes_of_hex resth in
           let toks = List.filter (fun s -> s <> "") (String.split_on_char ' ' body) in
           let parsed = List.map parse_tok toks in
           let pits = List.map (fun (p, _, _) -> p) parsed in
           let sits = List.filter_map (fun (_, s, _) -> s) parsed in
           let vals = List.filter_map (fun (_, _, v) -> v) parsed in
           if mode = "spec" then
             print_endline ("R" ^ String.concat "," (List.map val_s vals))
           else begin
             let txt = rt_print pits in
             let start = List.length pre in
             let (content, wp) = if k = "S" then rt_print_to_string pre (nat_of_int start) pits
                                 else rt_print_to_file pre (nat_of_int start) pits in
             let wpos = int_of_nat wp in
             let res = if k = "S" then rt_scan_str (content @ rest) (nat_of_int start) sits []
                       else rt_scan_file (txt @ rest) (nat_of_int start) sits [] in
             let r = match res with
               | SOk (vs, p) -> "R" ^ String.concat "," (List.map val_s vs) ^ ";" ^ string_of_int (int_of_nat p)
               | SRaise _ -> "R!FormatError" in
             let texts = List.filter_map (fun (p, _, _) -> match p with
               | PNum (_, _) -> Some (hex_of_bytes (rt_print [p])) | _ -> None) parsed in
             print_endline ("W" ^ hex_of_bytes content ^ ";" ^ string_of_int wpos ^ ";" ^ String.concat "," texts ^ "|" ^ r)
           end
         | _ -> print_endline "BADCASE")
      with Failure m -> print_endline ("BADCASE " ^ m) | Not_found -> print_endline "BADCASE nf"))
