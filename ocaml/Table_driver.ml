(* Table_driver.ml — correspondence driver for the Table model (C02).
   stdin: one case per line   <hashspec>|<op> <op> ...
     hashspec:  id            hash k = k as uint64 (Int keys)
                k:h,k:h,...   scripted hash (probe key type), identity for unlisted keys
     ops: n<k>:<v>,...  (only first: new with initial pairs)   s<k>,<v>  r<k>  g<k>  m<k>  z<n>  c
   argv[1] = model | spec ; one output line per case, ops separated by " | ":
     model:  <out>;<len>;<slot>,<slot>,...;<k>:<v>,...      slot = _ or <home+1>:<k>:<v>
     spec:   <out>;<len>;<k>:<v>,... sorted by key *)
let hash_of spec : z -> n =
  let tbl = Hashtbl.create 16 in
  if spec <> "id" then
    List.iter (fun kv -> match String.split_on_char ':' kv with
      | [k; h] -> Hashtbl.replace tbl k (n_of_dec h)
      | _ -> ()) (split_on ',' spec);
  fun k ->
    match Hashtbl.find_opt tbl (z_to_dec k) with
    | Some h -> h
    | None -> int_hash k
let exn_s = function
  | KeyError -> "KeyError" | FormatError -> "FormatError" | ValueError -> "ValueError"
  | IndexError -> "IndexOutOfBoundsError" | TypeError -> "TypeError" | ClassError -> "ClassError"
  | ResourceError -> "ResourceError" | IOError -> "IOError" | OutOfMemoryError -> "OutOfMemoryError"
  | BusyError -> "BusyError"
let out_s = function
  | OUnit -> "ok" | OVal v -> "v" ^ z_to_dec v | OBool b -> if b then "true" else "false"
  | ORaise e -> exn_s e | OCrash -> "CRASH" | OFuel -> "OUTOFFUEL"
let parse_op s : (z, z) op =
  let rest = String.sub s 1 (String.length s - 1) in
  match s.[0] with
  | 's' -> (match String.split_on_char ',' rest with
            | [k; v] -> TSet (z_of_dec k, z_of_dec v) | _ -> failwith "bad s")
  | 'r' -> TRem (z_of_dec rest) | 'g' -> TGet (z_of_dec rest) | 'm' -> TMem (z_of_dec rest)
  | 'z' -> TResize (nat_of_int (int_of_string rest))
  | 'c' | 'a' -> TSelfCopy
  | _ -> failwith ("bad op " ^ s)
(* operations whose arguments are read from the table itself (the harness passes pointers into the
   slot array; in the model arguments are values, so they are plain compositions):
     S<k>,<k2>  set k (get k2)      K<k>,<v>  set k v (key object taken from the iteration)
     X<k>,<k2>  set (get k) (get k2)     G<k> get (get k)    M<k> mem (get k)    R<k> rem (get k)
   a failing inner get gives its KeyError as the outcome and changes nothing *)
let run_op (step : 'st -> (z, z) op -> 'st * z out) (st : 'st) (s : string) : 'st * z out =
  let rest = String.sub s 1 (String.length s - 1) in
  let two () = match String.split_on_char ',' rest with
    | [a; b] -> (z_of_dec a, z_of_dec b) | _ -> failwith "bad pair" in
  let via k f = match step st (TGet k) with
    | (_, OVal v) -> f v
    | (_, o) -> (st, o) in
  match s.[0] with
  | 'S' -> let (k, k2) = two () in via k2 (fun v -> step st (TSet (k, v)))
  | 'K' -> let (k, v) = two () in step st (TSet (k, v))
  | 'X' -> let (k, k2) = two () in via k (fun kk -> via k2 (fun v -> step st (TSet (kk, v))))
  | 'G' -> via (z_of_dec rest) (fun kk -> step st (TGet kk))
  | 'M' -> via (z_of_dec rest) (fun kk -> step st (TMem kk))
  | 'R' -> via (z_of_dec rest) (fun kk -> step st (TRem kk))
  | _ -> step st (parse_op s)
let kv_s (k, v) = z_to_dec k ^ ":" ^ z_to_dec v
(* typed cases  t<ksize>.<vsize>;<hashspec> : element sizes (0 = builtin Int, 8 bytes); the model
   adds the slot layout  L<step minus headers>.<reserved key bytes>.<reserved value bytes> *)
let layout = ref ""
let dump_model t =
  let sl = zt_slots t in
  let ss = List.map (function None -> "_" | Some (h, (k, v)) ->
      string_of_int (int_of_nat h + 1) ^ ":" ^ z_to_dec k ^ ":" ^ z_to_dec v) sl in
  string_of_int (int_of_nat (zt_nitems t)) ^ ";" ^ !layout ^ String.concat "," ss ^ ";" ^
  String.concat "," (List.map kv_s (zt_iter t))
let zcmp a b = if z_ltb a b then -1 else if z_ltb b a then 1 else 0
let dump_spec m =
  let m = List.sort (fun (a, _) (b, _) -> zcmp a b) m in
  string_of_int (List.length m) ^ ";" ^ String.concat "," (List.map kv_s m)
let parse_pairs rest =
  List.map (fun kv -> match String.split_on_char ':' kv with
    | [k; v] -> (z_of_dec k, z_of_dec v) | _ -> failwith "bad pair") (split_on ',' rest)
let () =
  let mode = Sys.argv.(1) in
  read_lines (fun line ->
    match String.split_on_char '|' line with
    | [hs; ops] ->
      let hs =
        if String.length hs > 0 && hs.[0] = 't' then begin
          let semi = String.index hs ';' in
          let sizes = String.sub hs 1 (semi - 1) in
          (match String.split_on_char '.' sizes with
           | [a; b] ->
             let sz x = let n = int_of_string x in if n = 0 then 8 else n in
             let ks = nat_of_int (sz a) and vs = nat_of_int (sz b) in
             layout := Printf.sprintf "L%d.%d.%d;" (int_of_nat (zt_slot_body ks vs))
                         (int_of_nat (zt_size_round ks)) (int_of_nat (zt_size_round vs))
           | _ -> failwith "bad sizes");
          String.sub hs (semi + 1) (String.length hs - semi - 1)
        end else (layout := ""; hs) in
      let hash = hash_of hs in
      let ops = List.filter (fun s -> s <> "") (String.split_on_char ' ' ops) in
      let init, ops = match ops with
        | o :: r when o.[0] = 'n' -> parse_pairs (String.sub o 1 (String.length o - 1)), r
        | _ -> [], ops in
      let buf = Buffer.create 256 in
      if mode = "model" then begin
        let t0 = match zt_new hash init with Some t -> t | None -> zt_empty in
        Buffer.add_string buf ("new;" ^ dump_model t0);
        let _ = List.fold_left (fun t o ->
          let (t', out) = run_op (zt_step hash) t o in
          Buffer.add_string buf (" | " ^ out_s out ^ ";" ^ dump_model t'); t') t0 ops in ()
      end else begin
        let m0 = List.fold_left (fun m (k, v) -> fst (zs_step m (TSet (k, v)))) [] init in
        Buffer.add_string buf ("new;" ^ dump_spec m0);
        let _ = List.fold_left (fun m o ->
          let (m', out) = run_op zs_step m o in
          Buffer.add_string buf (" | " ^ out_s out ^ ";" ^ dump_spec m'); m') m0 ops in ()
      end;
      print_endline (Buffer.contents buf)
    | _ -> print_endline "BADCASE")
