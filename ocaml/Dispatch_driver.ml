(* Dispatch_driver.ml — correspondence driver for the dispatch model (C08).
   Built by props/C08.py WITHOUT `open Dispatch` (the extracted module defines a type `string`); everything extracted is
   reached as D.xxx.

   stdin: one case per line, fields separated by '|':
     R|<classes>|<decl>|<ops of thread 0>/<ops of thread 1>/...|<seed>
        classes: comma list, class id = position:  @Name = the builtin class object Name,  +Name = a fresh run-time
                 class object whose name is Name.  (@Cast is appended implicitly when absent: cast() looks it up.)
        decl:    comma list  <class id>:<mask>   the instances handed to new(Type, ...), in order; instance id = position;
                 bit k of mask = member k non-NULL (3 member slots)
     B|<TypeName>|-|<ops>|0        a builtin type object; class id = index in the generated list of builtin objects
     ops (space separated):
        i<c> type_instance   o<c> instance(obj)   p<c> type_implements   q<c> implements(obj)
        m<c>.<k> type_method_at_offset   n<c>.<k> method_at_offset(obj)
        h<c>.<k> type_implements_method_at_offset   g<c>.<k> implements_method_at_offset(obj)
        M<c>.<k> method(obj, C, mk) macro incl. the call   Y<c>.<k> type_method(T, C, mk, obj) macro incl. the call
        H<c>.<k> type_implements_method macro   G<c>.<k> implements_method macro
        c= cast(obj, its own type)   c! cast(obj, another type)
   argv[1] = model | spec.  One output line per case:
     one thread :  <op>=<result>;c=<slot>:<inst>,...;m=<triple>:<class id>,...  per op (model; spec prints <op>=<result> only)
                   followed by " # inv=ok"
     several    :  results per thread separated by " / ", then " # inv=ok" *)
module D = Dispatch

let rec nat_of_int i = if i <= 0 then D.O else D.S (nat_of_int (i - 1))
let int_of_nat n = let rec go a = function D.O -> a | D.S m -> go (a + 1) m in go 0 n
let cstr_of (s : string) : D.string =
  let r = ref D.EmptyString in
  for i = String.length s - 1 downto 0 do
    let c = Char.code s.[i] in
    let b k = (c lsr k) land 1 = 1 in
    r := D.String (D.Ascii (b 0, b 1, b 2, b 3, b 4, b 5, b 6, b 7), !r)
  done; !r
let ostr_of (s : D.string) : string =
  let buf = Buffer.create 16 in
  let rec go = function
    | D.EmptyString -> ()
    | D.String (D.Ascii (b0, b1, b2, b3, b4, b5, b6, b7), r) ->
      let v k b = if b then 1 lsl k else 0 in
      Buffer.add_char buf (Char.chr (v 0 b0 + v 1 b1 + v 2 b2 + v 3 b3 + v 4 b4 + v 5 b5 + v 6 b6 + v 7 b7)); go r in
  go s; Buffer.contents buf
let split_on c s = if s = "" then [] else String.split_on_char c s
let words s = List.filter (fun x -> x <> "") (String.split_on_char ' ' s)

(* argv[2] = nocache: the library was built with CELLO_CACHE switched off (no cache words, no wiring) *)
let nocache = Array.length Sys.argv > 2 && Sys.argv.(2) = "nocache"
let cache_num = if nocache then D.O else D.d_cache_num
let objects = List.map ostr_of D.d_objects
let wiring_names = List.map (fun (i, n) -> (int_of_nat i, ostr_of n)) D.d_wiring
let types = List.map (fun (t, l) -> (ostr_of t, l)) D.d_types

type cse = { cn : D.cls -> D.string; wiring : (D.nat * D.cls) list; mutable t0 : D.trec; imem : D.inst -> D.nat -> bool;
             decls : (D.trec * int array) array; cur_masks : int array ref;      (* life cycle: op D<k> *)
             t2 : D.trec; imem2 : D.inst -> D.nat -> bool;      (* the second type of '~' elements *)
             ttype : D.trec option;      (* the record of the builtin type Type (None: the case's own type IS Type) *)
             cast_id : int; threads : string list list; seed : int }

let parse_case line : cse =
  match String.split_on_char '|' line with
  | [ "R"; classes; decl; ops; seed ] ->
    let cl = List.map (fun s -> (s.[0], String.sub s 1 (String.length s - 1))) (split_on ',' classes) in
    let cl = if List.mem ('@', "Cast") cl then cl else cl @ [ ('@', "Cast") ] in
    let arr = Array.of_list cl in
    let names = Array.map (fun (_, n) -> cstr_of n) arr in
    let cn c = let i = int_of_nat c in if i < Array.length names then names.(i) else D.EmptyString in
    let find_at name = let r = ref (-1) in Array.iteri (fun i (k, n) -> if !r < 0 && k = '@' && n = name then r := i) arr; !r in
    let wiring = if nocache then [] else
        List.filter_map (fun (slot, n) -> let i = find_at n in
                          if i < 0 then None else Some (nat_of_int slot, nat_of_int i)) wiring_names in
    let parse_decl d = List.map (fun s -> match String.split_on_char ':' s with
        | [ c; m ] -> (int_of_string c, int_of_string m) | _ -> failwith "bad decl") (split_on ',' (if d = "-" then "" else d)) in
    let decls = Array.of_list (List.map (fun d -> let dl = parse_decl d in
        (D.cold_type cache_num (List.mapi (fun pos (c, _) -> (names.(c), nat_of_int pos)) dl), Array.of_list (List.map snd dl)))
        (String.split_on_char ';' decl)) in
    let t0, masks = decls.(0) in
    let cur_masks = ref masks in
    let imem i m = let i = int_of_nat i and m = int_of_nat m in
      i < Array.length !cur_masks && m < 3 && (!cur_masks.(i) lsr m) land 1 = 1 in
    let imem2 i m = let i = int_of_nat i and m = int_of_nat m in
      i < Array.length masks && m < 3 && ((masks.(i) lxor 5) lsr m) land 1 = 1 in
    let type_decl = List.mapi (fun pos (n, _) -> (n, nat_of_int pos)) (List.assoc "Type" types) in
    { cn; wiring; t0; imem; decls; cur_masks; t2 = t0; imem2; ttype = Some (D.cold_type cache_num type_decl); cast_id = find_at "Cast";
      threads = List.map words (String.split_on_char '/' ops); seed = int_of_string seed }
  | [ "B"; tname; _; ops; seed ] ->
    let insts = List.assoc tname types in
    let rec idx n = function [] -> -1 | x :: r -> if x = "Cast" then n else idx (n + 1) r in
    { cn = D.cn_of D.d_objects; wiring = (if nocache then [] else D.wiring_ids D.d_objects D.d_wiring);
      t0 = D.cold_type cache_num (D.builtin_decl insts); imem = D.builtin_imem insts; decls = [||]; cur_masks = ref [||];
      t2 = (let i2 = List.assoc (if tname = "Int" then "Float" else "Int") types in D.cold_type cache_num (D.builtin_decl i2));
      imem2 = D.builtin_imem (List.assoc (if tname = "Int" then "Float" else "Int") types);
      ttype = (if tname = "Type" then None else Some (D.cold_type cache_num (D.builtin_decl (List.assoc "Type" types))));
      cast_id = idx 0 objects; threads = List.map words (String.split_on_char '/' ops); seed = int_of_string seed }
  | _ -> failwith "bad case"

(* op token -> (kind, class id, member, letter) *)
let parse_op cs tok =
  let l = tok.[0] in
  let rest = String.sub tok 1 (String.length tok - 1) in
  match l with
  | 'c' -> (D.KInstance, cs.cast_id, 0, l, rest)
  | 'i' | 'o' -> (D.KInstance, int_of_string rest, 0, l, "")
  | 'p' | 'q' -> ((if D.d_implements_cached then D.KInstance else D.KScan), int_of_string rest, 0, l, "")
  | _ -> (match String.split_on_char '.' rest with
      | [ c; k ] -> ((match l with 'm' | 'n' | 'M' | 'Y' -> D.KInstance | _ -> if D.d_implements_method_cached then D.KInstance else D.KScan), int_of_string c, int_of_string k, l, "")
      | _ -> failwith ("bad op " ^ tok))

let vstr = function None -> "-" | Some i -> string_of_int (int_of_nat i)

(* what the API reports, given the instance the lookup produced *)
let result cs (l, m, rest) (v : D.inst option) : string =
  match l with
  | 'i' | 'o' -> vstr v
  | 'p' | 'q' -> if v = None then "0" else "1"
  | 'm' | 'n' -> (match D.method_result cs.imem true v (nat_of_int m) with
      | D.MInvoke (i, _) -> string_of_int (int_of_nat i) | D.MRaise D.ClassError -> "ClassError"
      | D.MRaise D.ValueError -> "ValueError" | D.MCrash -> "CRASH")
  | 'M' | 'Y' -> (match D.method_result cs.imem true v (nat_of_int m) with
      | D.MInvoke (i, k) -> Printf.sprintf "inv%d.%d" (int_of_nat i mod 16) (int_of_nat k)
      | D.MRaise D.ClassError -> "ClassError;noinv" | D.MRaise D.ValueError -> "ValueError;noinv" | D.MCrash -> "CRASH")
  | 'h' | 'g' | 'H' | 'G' -> if D.implements_method_result cs.imem v (nat_of_int m) then "1" else "0"
  | 'c' -> (match D.cast_result cs.imem v (nat_of_int 0) (nat_of_int (if rest = "=" then 0 else 1)) with
      (* c~: the target is a distinct type object (same name, other identity): like c!.  c^ is handled by the caller *)
      | D.CSelf -> "self" | D.CCustom i -> Printf.sprintf "custom%d" (int_of_nat i mod 16)
      | D.CRaise D.ValueError -> "ValueError;noinv" | D.CRaise D.ClassError -> "ClassError;noinv")
  | _ -> failwith "bad op letter"

(* S<elem>+<elem>...: calls back to back inside one try block; the first raise ends the sequence.
   look second c = instance the lookup on the first / second type produces (threads the model state, or the spec) *)
let seq_result cs (look : bool -> int -> D.inst option) tok : string =
  let els = String.split_on_char '+' (String.sub tok 1 (String.length tok - 1)) in
  let out = ref [] and stop = ref false in
  List.iter (fun el ->
      if not !stop then begin
        let second = el.[0] = '~' in
        let el = if second then String.sub el 1 (String.length el - 1) else el in
        let l = el.[0] in
        let c, k = match String.split_on_char '.' (String.sub el 1 (String.length el - 1)) with
          | [ c; k ] -> (int_of_string c, int_of_string k) | _ -> failwith ("bad seq element " ^ el) in
        let v = look second c in
        let imem = if second then cs.imem2 else cs.imem in
        match D.method_result imem true v (nat_of_int k) with
        | D.MInvoke (i, m) ->
          out := (if l = 'm' || l = 'n' then string_of_int (int_of_nat i)
                  else Printf.sprintf "inv%d.%d" ((int_of_nat i + (if second then 8 else 0)) mod 16) (int_of_nat m)) :: !out
        | D.MRaise _ -> out := (if l = 'm' || l = 'n' then "ClassError" else "ClassError;noinv") :: !out; stop := true
        | D.MCrash -> out := "CRASH" :: !out; stop := true
      end) els;
  String.concat "," (List.rev !out)

let dump (t : D.trec) =
  let cs = List.filteri (fun _ x -> x <> None) (List.mapi (fun i v -> match v with None -> None | Some x -> Some (i, int_of_nat x)) t.D.cache) in
  let cs = List.map (function Some (i, x) -> Printf.sprintf "%d:%d" i x | None -> "") cs in
  let ms = List.concat (List.mapi (fun k tr -> match tr.D.t_memo with None -> [] | Some c -> [ Printf.sprintf "%d:%d" k (int_of_nat c) ]) t.D.trips) in
  ";c=" ^ String.concat "," cs ^ ";m=" ^ String.concat "," ms

let () =
  let mode = Sys.argv.(1) in
  (try while true do
      let line = input_line stdin in
      let out =
        try
          let cs = parse_case line in
          let buf = Buffer.create 256 in
          (match cs.threads with
           | [ ops ] ->
             let ok = ref true in
             let t2 = ref cs.t2 in
             let ttr = ref (match cs.ttype with Some tt -> tt | None -> cs.t0) in
             let _ = List.fold_left (fun (t, first) tok ->
                 if not first then Buffer.add_char buf ' ';
                 if tok.[0] = 'D' then begin                  (* delete the type, build the k-th declaration: a fresh, cold type *)
                   let k = int_of_string (String.sub tok 1 (String.length tok - 1)) in
                   let (tk, mk) = cs.decls.(k) in
                   cs.t0 <- tk; cs.cur_masks := mk;
                   Buffer.add_string buf (if mode = "spec" then tok ^ "=new" else tok ^ "=new" ^ dump tk); (tk, false)
                 end else if tok = "z" then begin                      (* the harness makes the record cold again *)
                   Buffer.add_string buf (if mode = "spec" then "z=cold" else "z=cold" ^ dump cs.t0); (cs.t0, false)
                 end else if tok = "w" then begin             (* type_of(a type object) is Type *)
                   Buffer.add_string buf (if mode = "spec" then "w=Type" else "w=Type" ^ dump t); (t, false)
                 end else if tok = "c^" then begin
                   (* an object of the same-name twin (a type without instances) cast to T: another identity *)
                   let r = (match D.cast_result cs.imem None (nat_of_int 1) (nat_of_int 0) with
                       | D.CSelf -> "self" | D.CCustom _ -> "custom" | D.CRaise _ -> "ValueError;noinv") in
                   Buffer.add_string buf (if mode = "spec" then tok ^ "=" ^ r else tok ^ "=" ^ r ^ dump t); (t, false)
                 end else if tok.[0] = 't' || tok.[0] = 'u' then begin
                   (* instance(T, c) / implements(T, c) with the type object as OBJECT: a lookup on Type's record *)
                   let c = nat_of_int (int_of_string (String.sub tok 1 (String.length tok - 1))) in
                   let kind = if tok.[0] = 't' || D.d_implements_cached then D.KInstance else D.KScan in
                   let show v = if tok.[0] = 't' then vstr v else if v = None then "0" else "1" in
                   if mode = "spec" then begin
                     let trips = (match cs.ttype with Some tt -> tt.D.trips | None -> cs.t0.D.trips) in
                     Buffer.add_string buf (tok ^ "=" ^ show (D.spec_lookup cs.cn trips c)); (t, false)
                   end else
                     match cs.ttype with
                     | None -> (match D.lookup cs.cn cs.wiring D.d_skipnull D.d_reread kind c t with
                         | D.ROk (t', v) -> Buffer.add_string buf (tok ^ "=" ^ show v ^ dump t'); (t', false)
                         | _ -> Buffer.add_string buf (tok ^ "=CORRUPT"); (t, false))
                     | Some _ -> (match D.lookup cs.cn cs.wiring D.d_skipnull D.d_reread kind c !ttr with
                         | D.ROk (t', v) -> ttr := t'; Buffer.add_string buf (tok ^ "=" ^ show v ^ dump t); (t, false)
                         | _ -> Buffer.add_string buf (tok ^ "=CORRUPT"); (t, false))
                 end else if tok.[0] = 'S' then begin
                   if mode = "spec" then begin
                     Buffer.add_string buf (tok ^ "=" ^ seq_result cs (fun second c ->
                         D.spec_lookup cs.cn (if second then cs.t2 else cs.t0).D.trips (nat_of_int c)) tok); (t, false)
                   end else begin
                     let tr = ref t and bad = ref false in
                     let r = seq_result cs (fun second c ->
                         match D.lookup cs.cn cs.wiring D.d_skipnull D.d_reread D.KInstance (nat_of_int c) (if second then !t2 else !tr) with
                         | D.ROk (t', v) -> (if second then t2 := t' else tr := t'); v
                         | _ -> bad := true; None) tok in
                     Buffer.add_string buf (tok ^ "=" ^ (if !bad then "CORRUPT" else r) ^ dump !tr);
                     if not (D.check_inv cs.cn cs.wiring !tr) then ok := false;
                     (!tr, false)
                   end
                 end else
                 let (k, c, m, l, rest) = parse_op cs tok in
                 if mode = "spec" then begin
                   Buffer.add_string buf (tok ^ "=" ^ result cs (l, m, rest) (D.spec_lookup cs.cn cs.t0.D.trips (nat_of_int c))); (t, false)
                 end else
                   match D.lookup cs.cn cs.wiring D.d_skipnull D.d_reread k (nat_of_int c) t with
                   | D.ROk (t', v) ->
                     Buffer.add_string buf (tok ^ "=" ^ result cs (l, m, rest) v ^ dump t');
                     if not (D.check_inv cs.cn cs.wiring t') then ok := false;
                     (t', false)
                   | D.RCrash -> Buffer.add_string buf (tok ^ "=CORRUPT"); (t, false)
                   | D.RFuel -> Buffer.add_string buf (tok ^ "=OUTOFFUEL"); (t, false)) (cs.t0, true) ops in
             Buffer.add_string buf (if !ok then " # inv=ok" else " # inv=bad")
           | thr ->
             let parsed = List.map (fun ops -> List.map (fun tok -> (tok, parse_op cs tok)) ops) thr in
             if mode = "spec" then begin
               Buffer.add_string buf (String.concat " / " (List.map (fun ops ->
                   String.concat " " (List.map (fun (tok, (k, c, m, l, rest)) ->
                       tok ^ "=" ^ result cs (l, m, rest) (D.spec_lookup cs.cn cs.t0.D.trips (nat_of_int c))) ops)) parsed));
               Buffer.add_string buf " # inv=ok"
             end else begin
               let ths = List.map (fun ops -> D.idle_thread (List.map (fun (_, (k, c, _, _, _)) -> (k, nat_of_int c)) ops)) parsed in
               let st = ref (cs.t0, ths) in
               let rng = ref (cs.seed * 2 + 1) in
               let next () = rng := (!rng * 1103515245 + 12345) land 0x3fffffff; (!rng lsr 8) in
               let n = List.length ths in
               let small = List.length cs.t0.D.trips <= 16 in
               let ok = ref true and corrupt = ref false and steps = ref 0 in
               let unfinished () = List.filteri (fun _ x -> x) (List.map (fun th -> th.D.th_todo <> [] || th.D.th_cur <> None) (snd !st)) <> [] in
               (* bursts of random length: long runs of one thread as well as fine interleavings *)
               while unfinished () && not !corrupt do
                 let tid = next () mod n in
                 let burst = 1 + (if next () mod 4 = 0 then next () mod 40 else next () mod 3) in
                 for _ = 1 to burst do
                   if not !corrupt then
                     match D.sys_step cs.cn cs.wiring D.d_skipnull D.d_reread !st (nat_of_int tid) with
                     | None -> corrupt := true
                     | Some s -> st := s; incr steps;
                       if (small || !steps land 255 = 0) && not (D.check_inv cs.cn cs.wiring (fst s)) then ok := false
                 done
               done;
               if not (D.check_inv cs.cn cs.wiring (fst !st)) then ok := false;
               Buffer.add_string buf (String.concat " / " (List.map2 (fun ops th ->
                   let log = th.D.th_log in
                   if List.length log <> List.length ops then "INCOMPLETE" else
                     String.concat " " (List.map2 (fun (tok, (_, _, m, l, rest)) (_, v) -> tok ^ "=" ^ result cs (l, m, rest) v) ops log)) parsed (snd !st)));
               Buffer.add_string buf (if !corrupt then " # CORRUPT" else if !ok then " # inv=ok" else " # inv=bad")
             end);
          Buffer.contents buf
        with Failure m -> "BADCASE " ^ m | Not_found -> "BADCASE notfound" | Invalid_argument m -> "BADCASE " ^ m in
      print_endline out
    done with End_of_file -> ())
