(* Seq_driver.ml — correspondence driver for the Array / List / Tuple models (C04).
   stdin: one case per line   <K><flags>|<op> <op> ...   (flags: see harness/seq_wb.c)
     K: A = Array of Int, L = List of Int, T = heap Tuple of (distinct) Int objects,
        S = Tuple on the stack (cannot be reallocated), F = finding F3 probe (Tuple holding the
        same object twice; only `N` and dumps)
     (flag c<d>: `t` is sort_by with comparison d of SeqCmps.z_cmp; the specification prints OOR at a
      sort with a comparison outside the sort theorem's contract)
     first op (optional)  N<v>,<v>,...   new with initial values (N alone: empty)
     ops: u<v> push  o pop  i<k>,<v> push_at  d<k> pop_at  s<k>,<v> set  g<k> get  m<v> mem  r<v> rem
          c<K>:<v>,.. concat from a fresh container of kind K   a<v> append   z<n> resize   t sort
          n<K>:<v>,.. assign from a fresh container of kind K   y  self := copy(self)
   argv[1] = model | spec.  One line per case, steps separated by " | " (step 0 = after new):
     model: <out>;<len>;<G>;<N>;<I>;<M>;<W>
        G = get(0..len-1) joined by ","   N = get(-1..-len) ("=" when it is G reversed)
        I = forward iteration ("=" when equal to G)   M = mem of the probe values 0,1,2,7 as bits
        W = nslots (Array) or "-"
     spec:  <out>;<len>;<G>;<M>    or  OOR  from the first operation outside the container's
        in-range contract on (property C04 says nothing from there on) *)
let probes = [0; 1; 2; 7]
(* comparison handed to sort_by in this case (header flag c<digit>, SeqCmps.e_cmp); 0 = lt *)
let cmpk = ref 0
let za_step a o = Seq.za_step (nat_of_int !cmpk) a o
let zt_step t o = Seq.zt_step (nat_of_int !cmpk) t o
let zspec_step k l o = Seq.zspec_step (nat_of_int !cmpk) k l o
let exn_s = function
  | KeyError -> "KeyError" | FormatError -> "FormatError" | ValueError -> "ValueError"
  | IndexError -> "IndexOutOfBoundsError" | TypeError -> "TypeError" | ClassError -> "ClassError"
  | ResourceError -> "ResourceError" | IOError -> "IOError" | OutOfMemoryError -> "OutOfMemoryError"
  | BusyError -> "BusyError"
let out_s = function
  | OUnit -> "ok" | OVal (_, v) -> "v" ^ z_to_dec v | OBool b -> if b then "true" else "false"
  | ORaise e -> exn_s e | OCrash -> "CRASH" | OFuel -> "OUTOFFUEL"
let ctr = ref 0
let fresh v = incr ctr; (z_of_int !ctr, z_of_dec v)
let probe v = (z_of_int (-1), v)
let vals s = List.map fresh (split_on ',' s)
let after c s = let i = String.index s c in String.sub s (i + 1) (String.length s - i - 1)
let before c s = String.sub s 0 (String.index s c)
let rest s = String.sub s 1 (String.length s - 1)
let parse_op s =
  match s.[0] with
  | 'u' -> SPush (fresh (rest s)) | 'o' -> SPop
  | 'i' -> let r = rest s in SPushAt (z_of_dec (before ',' r), fresh (after ',' r))
  | 'd' -> SPopAt (z_of_dec (rest s))
  | 's' -> let r = rest s in SSet (z_of_dec (before ',' r), fresh (after ',' r))
  | 'g' -> SGet (z_of_dec (rest s))
  | 'm' -> SMem (probe (z_of_dec (rest s))) | 'r' -> SRem (probe (z_of_dec (rest s)))
  | 'c' -> SConcat (vals (after ':' s)) | 'a' -> SAppend (fresh (rest s))
  | 'z' -> SResize (nat_of_int (int_of_string (rest s))) | 't' -> SSort
  | 'n' -> SAssign (vals (after ':' s)) | 'y' -> SCopy
  | _ -> failwith ("bad op " ^ s)
let vs_s l = String.concat "," (List.map (fun (_, v) -> z_to_dec v) l)
let res_s = function Ok l -> vs_s l | Crash -> "CRASH" | Fuel -> "RUNAWAY"
(* dump through the model's own get / mem / iteration *)
(* how: '!' full dump, '^' indexed gets only, '~' iteration and mem only, ' ' len only *)
let how = ref '!'
let dump n (get : z -> string) (mem : z -> string) iter w =
  if !how = ' ' then string_of_int n else
  let ms () = String.concat "" (List.map (fun p -> mem (z_of_int p)) probes) in
  if !how = '~' then Printf.sprintf "%d;~;%s;%s" n iter (ms ()) else
  let g = List.init n (fun i -> get (z_of_int i)) in
  let ng = List.init n (fun i -> get (z_of_int (-(i + 1)))) in
  let gs = String.concat "," g in
  let ns = if ng = List.rev g then "=" else String.concat "," ng in
  if !how = '^' then Printf.sprintf "%d;^;%s;%s" n gs ns else
  let is = if iter = gs then "=" else iter in
  Printf.sprintf "%d;%s;%s;%s;%s;%s" n gs ns is (ms ()) w
let val_s = function OVal (_, v) -> z_to_dec v | o -> "!" ^ out_s o
let bit_s = function OBool true -> "1" | OBool false -> "0" | o -> "!" ^ out_s o
let dump_a a =
  dump (int_of_nat (za_nitems a)) (fun k -> val_s (snd (za_step a (SGet k))))
    (fun v -> bit_s (snd (za_step a (SMem (probe v))))) (res_s (za_iter a))
    (string_of_int (int_of_nat (za_nslots a)))
let dump_l l =
  dump (int_of_nat (zl_nitems l)) (fun k -> val_s (snd (zl_step l (SGet k))))
    (fun v -> bit_s (snd (zl_step l (SMem (probe v))))) (res_s (zl_iter l)) "-"
let dump_t t =
  match zt_len t with
  | None -> "CRASH"
  | Some n ->
    dump (int_of_nat n) (fun k -> val_s (snd (zt_step t (SGet k))))
      (fun v -> bit_s (snd (zt_step t (SMem (probe v))))) (res_s (zt_iter t)) "-"
let dump_spec l =
  let ms = String.concat "" (List.map (fun p ->
      bit_s (snd (zspec_step KArray l (SMem (probe (z_of_int p)))))) probes) in
  match !how with
  | ' ' -> string_of_int (List.length l)
  | '~' -> Printf.sprintf "%d;~;%s;%s" (List.length l) (vs_s l) ms
  | '^' -> Printf.sprintf "%d;^;%s" (List.length l) (vs_s l)
  | _ -> Printf.sprintf "%d;%s;%s" (List.length l) (vs_s l) ms
(* explicit dump mode: an operation token may end in '!', '^' or '~' (see harness/seq_wb.c) *)
let explicit = ref false
let split_how o =
  if not !explicit then (how := '!'; o) else begin
    let n = String.length o in
    if n > 1 && (o.[n - 1] = '!' || o.[n - 1] = '^' || o.[n - 1] = '~')
    then (how := o.[n - 1]; String.sub o 0 (n - 1)) else (how := ' '; o) end
let run_model kind init ops =
  let buf = Buffer.create 1024 in
  let go new_ step dump =
    let s0 = new_ init in
    how := '!';
    Buffer.add_string buf ("new;" ^ dump s0);
    let sn = List.fold_left (fun s o ->
      let o = split_how o in
      let (s', out) = step s (parse_op o) in
      Buffer.add_string buf (" | " ^ out_s out ^ ";" ^ dump s'); s') s0 ops in
    if !explicit then (how := '!'; Buffer.add_string buf (" | end;" ^ dump sn)) in
  (match kind with
   | "A" -> go za_new za_step dump_a
   | "L" -> go zl_new zl_step dump_l
   | "T" -> go (fun vs -> zt_new vs true) zt_step dump_t
   | "S" -> go (fun vs -> zt_new vs false) zt_step dump_t
   | "F" ->
     (* the same object twice: Tuple iteration by pointer identity never ends (model: out of
        fuel for every fuel; the harness cuts off after 1000 steps) *)
     let p = fresh "5" in
     let t = zt_raw [TObj p; TObj p; TTerm] true in
     Buffer.add_string buf ("new;2;" ^ res_s (zt_iter_fuel (nat_of_int 1000) t))
   | _ -> Buffer.add_string buf "BADCASE");
  Buffer.contents buf
let mutating_realloc o = match o with
  | SPush _ | SAppend _ | SPop | SPushAt _ | SPopAt _ | SRem _ | SConcat _ | SResize _ | SAssign _ -> true
  | _ -> false
let run_spec kind init ops =
  let buf = Buffer.create 1024 in
  let k = match kind with "A" -> KArray | "L" -> KList | _ -> KTuple in
  let heap = ref (kind <> "S") in
  if kind = "F" then Buffer.add_string buf "new;2;5,5"
  else begin
    how := '!';
    Buffer.add_string buf ("new;" ^ dump_spec init);
    (try let ln = List.fold_left (fun l o ->
      let o = split_how o in
      let op = parse_op o in
      if not (zspec_in_range k l op) || (not !heap && mutating_realloc op)
         || (op = SSort && not (zcmp_in_contract (nat_of_int !cmpk))) then begin
        Buffer.add_string buf " | OOR"; raise Exit end;
      if op = SCopy then heap := true;
      let (l', out) = zspec_step k l op in
      Buffer.add_string buf (" | " ^ out_s out ^ ";" ^ dump_spec l'); l') init ops in
      if !explicit then (how := '!'; Buffer.add_string buf (" | end;" ^ dump_spec ln))
     with Exit -> ())
  end;
  Buffer.contents buf
let () =
  let mode = Sys.argv.(1) in
  read_lines (fun line ->
    ctr := 0;
    match String.index_opt line '|' with
    | Some b when b >= 1 ->
      let kind = String.sub line 0 1 in
      (* flags between the kind and '|': '*' explicit dump mode, e<size> struct elements (the
         models are the same for every element type) *)
      let flags = String.sub line 1 (b - 1) in
      explicit := String.contains flags '*';
      cmpk := (match String.index_opt flags 'c' with
               | Some i when i + 1 < String.length flags -> Char.code flags.[i + 1] - 48
               | _ -> 0);
      let ops = List.filter (fun s -> s <> "") (String.split_on_char ' ' (after '|' line)) in
      let init, ops = match ops with
        | o :: r when o.[0] = 'N' -> vals (rest o), r
        | _ -> [], ops in
      print_endline (try (if mode = "model" then run_model else run_spec) kind init ops
                     with Failure m -> "BADCASE " ^ m | Not_found -> "BADCASE")
    | _ -> print_endline "BADCASE")
