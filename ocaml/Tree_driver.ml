(* Tree_driver.ml — correspondence driver for the Tree model (C03).
   stdin: one case per line   <kt>|<op> <op> ...
     kt:  I  Int keys (decimal)      S  String keys (hex of the bytes, no 00 byte; empty = ""; printed as x<hex> in transcripts)
     ops: n<k>:<v>,...  (only first: new(Tree, K, Int, k, v, ...))
          s<k>,<v>  r<k>  g<k>  m<k>  z<n>  c (t := copy(t))  a<k>:<v>,... (assign from a Tree built by set)
   argv[1] = model | spec ; one output line per case, steps separated by " | ":
     model:  <out>;<len>;<shape>;<k>=<v>,...;<k>,...     shape = .  or  [<R|B><k>=<v>,<left>,<right>]
             4th field forward iteration (value through get), 5th backward iteration
     spec:   <out>;<len>;<k>=<v>,...                      descending key order *)
let exn_s = function TKeyError -> "KeyError" | TFormatError -> "FormatError"
let out_s = function
  | OUnit -> "ok" | OVal v -> "v" ^ z_to_dec v | OBool b -> if b then "true" else "false"
  | ORaise e -> exn_s e | OCrash -> "CRASH" | OFuel -> "OUTOFFUEL"

let hex_to_bytes (s : string) : n list =
  let l = String.length s / 2 in
  List.init l (fun i -> n_of_int (int_of_string ("0x" ^ String.sub s (2 * i) 2)))
let bytes_to_hex (b : n list) : string =
  "x" ^ String.concat "" (List.map (fun x -> Printf.sprintf "%02x" (int_of_n x)) b)

let split_pair c s =            (* split at the LAST occurrence of c *)
  match String.rindex_opt s c with
  | Some i -> String.sub s 0 i, String.sub s (i + 1) (String.length s - i - 1)
  | None -> failwith ("bad pair " ^ s)

let run_case mode empty step set_all fwd bwd lookup sstep sset_all key_of key_s ops =
  let parse_pairs rest =
    List.map (fun kv -> let k, v = split_pair ':' kv in (key_of k, z_of_dec v)) (split_on ',' rest) in
  let parse_op s =
    let rest = String.sub s 1 (String.length s - 1) in
    match s.[0] with
    | 's' -> let k, v = split_pair ',' rest in TSet (key_of k, z_of_dec v)
    | 'r' -> TRem (key_of rest) | 'g' -> TGet (key_of rest) | 'm' -> TMem (key_of rest)
    | 'z' -> TResize (nat_of_int (int_of_string rest))
    | 'c' -> TCopy
    | 'a' -> TAssign (parse_pairs rest)
    | _ -> failwith ("bad op " ^ s) in
  let kv_s (k, v) = key_s k ^ "=" ^ z_to_dec v in
  let rec shape b = function
    | E -> Buffer.add_char b '.'
    | T (c, l, k, v, r) ->
      Buffer.add_char b '[';
      Buffer.add_char b (match c with Red -> 'R' | Black -> 'B');
      Buffer.add_string b (kv_s (k, v)); Buffer.add_char b ',';
      shape b l; Buffer.add_char b ','; shape b r; Buffer.add_char b ']' in
  let dump_model b t =
    Buffer.add_string b (string_of_int (int_of_nat t.nitems)); Buffer.add_char b ';';
    shape b t.root; Buffer.add_char b ';';
    (match fwd t with
     | Ok ks -> Buffer.add_string b (String.concat "," (List.map (fun k ->
         match lookup t.root k with Some v -> kv_s (k, v) | None -> key_s k ^ "=KeyError") ks))
     | Crash -> Buffer.add_string b "ITERCRASH" | Fuel -> Buffer.add_string b "ITERFUEL");
    Buffer.add_char b ';';
    (match bwd t with
     | Ok ks -> Buffer.add_string b (String.concat "," (List.map key_s ks))
     | Crash -> Buffer.add_string b "ITERCRASH" | Fuel -> Buffer.add_string b "ITERFUEL") in
  let dump_spec b m =
    Buffer.add_string b (string_of_int (List.length m)); Buffer.add_char b ';';
    Buffer.add_string b (String.concat "," (List.map kv_s m)) in
  let init, ops = match ops with
    | o :: r when o.[0] = 'n' -> parse_pairs (String.sub o 1 (String.length o - 1)), r
    | _ -> [], ops in
  let buf = Buffer.create 1024 in
  if mode = "model" then begin
    (match set_all empty init with
     | Ok t0 ->
       Buffer.add_string buf "new;"; dump_model buf t0;
       let _ = List.fold_left (fun t o ->
           let (t', out) = step t (parse_op o) in
           Buffer.add_string buf (" | " ^ out_s out ^ ";"); dump_model buf t'; t') t0 ops in ()
     | Crash -> Buffer.add_string buf "CRASH" | Fuel -> Buffer.add_string buf "OUTOFFUEL")
  end else begin
    let m0 = sset_all [] init in
    Buffer.add_string buf "new;"; dump_spec buf m0;
    let _ = List.fold_left (fun m o ->
        let (m', out) = sstep m (parse_op o) in
        Buffer.add_string buf (" | " ^ out_s out ^ ";"); dump_spec buf m'; m') m0 ops in ()
  end;
  print_endline (Buffer.contents buf)

let () =
  let mode = Sys.argv.(1) in
  read_lines (fun line ->
    match String.index_opt line '|' with
    | Some i ->
      let kt = String.sub line 0 i and ops = String.sub line (i + 1) (String.length line - i - 1) in
      let ops = List.filter (fun s -> s <> "") (String.split_on_char ' ' ops) in
      (try
        if kt = "I" then
          run_case mode zt_empty zt_step zt_set_all zt_fwd zt_bwd zt_lookup zs_step zs_set_all z_of_dec z_to_dec ops
        else if kt = "S" then
          run_case mode st_empty st_step st_set_all st_fwd st_bwd st_lookup ss_step ss_set_all hex_to_bytes bytes_to_hex ops
        else print_endline "BADCASE"
      with Failure m -> print_endline ("BADCASE " ^ m))
    | None -> print_endline "BADCASE")
