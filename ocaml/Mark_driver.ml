(* Mark_driver.ml — correspondence driver for the mark/sweep model (C01).
   stdin: one case per line, the script language of harness/gc_graph.c.
   argv[1] = model | spec | model:<tls_recurses><mar_guarded><fin_widens> (e.g. model:001)
   An F node (finaliser probe) that a collection E frees runs its action Q: a new registered node is
   allocated BY THE FINALISER (event EFinAlloc) and published (stack slot / TLS entry / field); the model
   transcript then carries hs=<wxyz>, the hypothesis checkers on the state after sweep + finaliser allocations
   model:  per observation  "G m=<ids marked by the model's mark> a=<ids registered afterwards> h=<wxyz>"
           (h: the hypotheses wf, raw_wf, range_ok, order_ok of the theorems evaluated by the extracted
           checkers on the state the collection runs in, 1 = holds) or "M a=<ids>";
           OUTOFFUEL / CRASH end the transcript
   spec:   per observation  "G r=<ids of registered nodes reachable> k=<ids that must be kept> h=<wxyz>"
           nothing is ever collected on this side; r = executable closure reach_exec;
           k = marks of the extracted `mark true true` on that never-collected heap, which by theorem
           mark_exact are exactly registered /\ (root-flagged \/ reachable), provided the hypotheses
           hold (h = the extracted checkers on that state) *)
(* abstract addresses: 4096 + 16*id; the padded probe W (served by malloc from a fresh mapping) lives far away *)
let bigs : (int, unit) Hashtbl.t = Hashtbl.create 16
let far = 1 lsl 40
let addr id = n_of_int ((if Hashtbl.mem bigs id then far else 4096) + 16 * id)
let id_of_addr (a : n) = let v = int_of_n a in if v >= far then (v - far) / 16 else (v - 4096) / 16

type node = { k : char; root : bool; mutable f : int array; mutable items : int list;
              mutable kv : (int * int) list }

let kind_of = function
  | 'S' | 's' | 'W' | 'F' | 'P' -> KStruct | 'R' | 'r' -> KRef | 'B' -> KBox | 'A' -> KArray | 'L' -> KList
  | 'T' | 'Y' -> KTable | 'E' | 'Z' -> KTree | 'U' | 'u' | 'V' -> KTuple | _ -> KLeaf
let is_reg k = k >= 'A' && k <= 'Z'
let ptrs nd = match nd.k with
  | 'S' | 's' | 'W' | 'R' | 'r' | 'B' | 'P' -> Array.to_list nd.f
  | 'F' | 'I' | 'D' | 'G' -> []
  | 'V' -> List.filter (fun x -> x <> 0) (Array.to_list nd.f)      (* the Mark method skips NULL fields *)
  | 'T' | 'E' | 'Y' | 'Z' -> List.map snd nd.kv
  | _ -> nd.items
let contents nd = gm_contents (kind_of nd.k) (List.map (fun i -> if i = 0 then N0 else addr i) (ptrs nd))

let rec remove_nth i = function [] -> [] | x :: r -> if i = 0 then r else x :: remove_nth (i - 1) r
let ids_s l = String.concat "," (List.map string_of_int (List.sort compare l))

exception Stop of string

let run mode line =
  let tr, mg, fw, spec = match mode with
    | "spec" -> true, true, true, true
    | "model" -> gm_tls_recurses, gm_mar_guarded, gm_fin_widens, false
    | m when String.length m = 8 -> m.[6] = '1', m.[7] = '1', true, false
    | m when String.length m = 9 -> m.[6] = '1', m.[7] = '1', m.[8] = '1', false
    | _ -> failwith "mode" in
  Hashtbl.reset bigs;
  let qcfg : (int, int * char * string) Hashtbl.t = Hashtbl.create 8 in      (* F id -> late id, kind, place *)
  let fin_done : (int, unit) Hashtbl.t = Hashtbl.create 8 in
  let last_freed = ref [] in
  let nodes : (int, node) Hashtbl.t = Hashtbl.create 64 in
  let stack : (int, unit) Hashtbl.t = Hashtbl.create 16 in
  let tls : (int, int) Hashtbl.t = Hashtbl.create 16 in
  let st = ref gm_st0 in
  (* spec side: own heap / registry, nothing ever collected *)
  let sheap = ref gm_nempty and sreg = ref gm_nempty and sorder = ref [] in
  let garbage = ref 1_000_000 in
  let buf = Buffer.create 256 in
  let nobs = ref 0 in
  let do_step e =
    if not spec then
      match gm_step_with tr mg fw gm_next_mitems !st e with
      | Ok (s', fr) -> st := s'; last_freed := fr
      | Crash -> raise (Stop "CRASH")
      | OutOfFuel -> raise (Stop "OUTOFFUEL") in
  let stack_words () = Hashtbl.fold (fun i () acc -> addr i :: acc) stack [] in
  let tls_vals () = Hashtbl.fold (fun _ i acc -> addr i :: acc) tls [] in
  (* the root sets are handed to the model lazily, before the next event that can collect *)
  let roots_dirty = ref false in
  let roots () = roots_dirty := true in
  let flush_roots () =
    if !roots_dirty then begin
      roots_dirty := false;
      do_step (ERoots (gm_tls (tls_vals ()), stack_words ()))
    end in
  let store id =
    let nd = Hashtbl.find nodes id in
    if spec then sheap := gm_nset (addr id) (contents nd) !sheap
    else do_step (EStore (addr id, contents nd)) in
  let node_ids () = Hashtbl.fold (fun i nd acc -> if is_reg nd.k then i :: acc else acc) nodes [] in
  let obs tag fields =
    if !nobs > 0 then Buffer.add_string buf " | ";
    incr nobs;
    Buffer.add_string buf (tag ^ fields) in
  let alive () = List.filter (fun i -> gm_registered !st.st_reg (addr i)) (node_ids ()) in
  let reach () =
    let r = gm_reach !sheap !sreg (List.rev !sorder) (gm_tls (tls_vals ())) (stack_words ()) in
    List.filter (fun i -> Hashtbl.mem nodes i) (List.map id_of_addr r) in
  (* rank of raw objects: length of the longest chain of raw objects through Tuple items below *)
  let rank_memo : (int, int) Hashtbl.t = Hashtbl.create 16 in
  let rec rank id =
    match Hashtbl.find_opt nodes id with
    | None -> 0
    | Some nd when is_reg nd.k -> 0
    | Some nd ->
      (match Hashtbl.find_opt rank_memo id with
       | Some r -> r
       | None ->
         Hashtbl.replace rank_memo id 0;
         let r = if nd.k = 'u' then
             List.fold_left (fun acc t -> match Hashtbl.find_opt nodes t with
                 | Some tn when not (is_reg tn.k) -> max acc (1 + rank t) | _ -> acc) 0 nd.items
           else 0 in
         Hashtbl.replace rank_memo id r; r) in
  (* the finaliser of F node fid runs: allocate the late node, publish it *)
  let run_finaliser fid =
    match Hashtbl.find_opt qcfg fid with
    | Some (lid, k, place) when not (Hashtbl.mem nodes lid) ->
      let nd = { k; root = false; f = [|0; 0|]; items = []; kv = [] } in
      if k = 'W' then Hashtbl.replace bigs lid ();
      Hashtbl.replace nodes lid nd;
      if spec then begin
        sheap := gm_nset (addr lid) (contents nd) !sheap;
        sreg := gm_nset (addr lid) false !sreg;
        sorder := addr lid :: !sorder
      end else do_step (EFinAlloc (addr lid, contents nd, false));
      (match place.[0] with
       | 'K' -> Hashtbl.replace stack lid ()
       | 'T' -> Hashtbl.replace tls (int_of_string (String.sub place 1 (String.length place - 1))) lid
       | 'P' ->
         (match List.filter (fun x -> x <> "") (String.split_on_char '.' (String.sub place 1 (String.length place - 1))) with
          | [h; i] ->
            let h = int_of_string h and i = int_of_string i in
            (match Hashtbl.find_opt nodes h with
             | Some hn -> hn.f.(i) <- lid;
               if spec then sheap := gm_nset (addr h) (contents hn) !sheap
               else do_step (EStore (addr h, contents hn))
             | None -> ())
          | _ -> failwith "Q place")
       | _ -> failwith "Q place");
      roots_dirty := true
    | _ -> () in
  let last_keep = ref None in
  let must_keep () =
    let s = gm_full_state !sheap !sreg (List.rev !sorder) (gm_tls (tls_vals ())) (stack_words ()) in
    let (((h1, h2), h3), h4) = gm_hyp s (fun a -> nat_of_int (rank (id_of_addr a))) in
    let b x = if x then "1" else "0" in
    let k = match gm_mark true true s with
      | Ok m -> let l = List.filter (fun i -> gm_marked m (addr i)) (node_ids ()) in last_keep := Some l; ids_s l
      | Crash -> last_keep := None; "CRASH" | OutOfFuel -> last_keep := None; "OUTOFFUEL" in
    " k=" ^ k ^ " h=" ^ b h1 ^ b h2 ^ b h3 ^ b h4 in
  let f_nodes () = List.sort compare (Hashtbl.fold (fun i nd acc -> if nd.k = 'F' then i :: acc else acc) nodes []) in
  let ints s = List.map int_of_string (List.filter (fun x -> x <> "")
                 (String.split_on_char ' ' (String.map (fun c -> if (c >= '0' && c <= '9') then c else ' ') s))) in
  (try
    List.iter (fun tok ->
      if tok <> "" then begin
        Hashtbl.reset rank_memo;
        let rest = String.sub tok 1 (String.length tok - 1) in
        match tok.[0] with
        | 'N' ->
          let id = List.hd (ints rest) in
          let digits = String.length (string_of_int id) in
          let k = rest.[digits] in
          let root = String.length rest > digits + 1 && rest.[digits + 1] = '!' in
          let nd = { k; root; f = (match k with 'S' | 's' | 'W' | 'V' -> [|0; 0|] | 'R' | 'r' | 'B' -> [|0|] | _ -> [||]);
                     items = []; kv = [] } in
          if k = 'W' then Hashtbl.replace bigs id ();
          Hashtbl.replace nodes id nd;
          if is_reg k then begin
            if spec then begin
              sheap := gm_nset (addr id) (contents nd) !sheap;
              sreg := gm_nset (addr id) root !sreg;
              sorder := addr id :: !sorder
            end else (flush_roots (); do_step (EAlloc (addr id, contents nd, root)))
          end else store id;
          Hashtbl.replace stack id ();
          roots ()
        | 'O' -> ()      (* use of a view: nothing changes *)
        | 'V' ->
          (* V<id><k>=<a>[,<b>]: heap view object; its internal managed objects take the following ids *)
          let id = List.hd (ints rest) in
          let digits = String.length (string_of_int id) in
          let k = rest.[digits] in
          let ins = match ints (String.sub rest (digits + 1) (String.length rest - digits - 1)) with x -> x in
          let a = (match ins with x :: _ -> x | [] -> 0) and b = (match ins with _ :: y :: _ -> y | _ -> 0) in
          let mk id k f items =
            let nd = { k; root = false; f; items; kv = [] } in
            let empty = { nd with f = Array.map (fun _ -> 0) f; items = [] } in
            Hashtbl.replace nodes id nd;
            if spec then begin
              sheap := gm_nset (addr id) (contents nd) !sheap;
              sreg := gm_nset (addr id) false !sreg;
              sorder := addr id :: !sorder
            end else begin
              flush_roots (); do_step (EAlloc (addr id, contents empty, false)); do_step (EStore (addr id, contents nd))
            end in
          (* the view itself first (held in a stack slot), then what its constructor allocates *)
          (match k with
           | 'z' ->
             (* Zip_New: z->iters = new(Tuple); z->values = new(Tuple); assign(z->iters, args) *)
             mk id 'P' [|0; 0|] []; Hashtbl.replace stack id (); roots ();
             mk (id + 1) 'U' [||] []; (Hashtbl.find nodes id).f.(0) <- id + 1; store id;
             mk (id + 2) 'U' [||] []; (Hashtbl.find nodes id).f.(1) <- id + 2; store id;
             (Hashtbl.find nodes (id + 1)).items <- [a; b]; store (id + 1)
           | 'l' ->
             (* Slice_New: s->range = new(Range) — Range_New: r->value = new(Int) while the Range is only in a local —
                then slice_stack stores the input *)
             mk id 'P' [|0; 0|] []; Hashtbl.replace stack id (); roots ();
             mk (id + 1) 'P' [|0|] []; Hashtbl.replace stack (id + 1) (); roots ();
             mk (id + 2) 'I' [||] [];
             (Hashtbl.find nodes (id + 1)).f.(0) <- id + 2; store (id + 1);
             (Hashtbl.find nodes id).f.(1) <- id + 1; (Hashtbl.find nodes id).f.(0) <- a; store id;
             Hashtbl.remove stack (id + 1); roots ()
           | 'r' -> mk id 'P' [|0|] []; Hashtbl.replace stack id (); roots ();
                    mk (id + 1) 'I' [||] []; (Hashtbl.find nodes id).f.(0) <- id + 1; store id
           | 'm' | 'f' -> mk id 'P' [|a|] []; Hashtbl.replace stack id (); roots ()
           | _ -> failwith "V")
        | 'L' ->
          (* L<first>,<n>,<K>,<tail>: singly linked chain, the head stays in a stack slot *)
          (match String.split_on_char ',' rest with
           | [first; n; k; tail] ->
             let first = int_of_string first and n = int_of_string n and k = k.[0] and tail = int_of_string tail in
             let prev = ref tail in
             for i = 0 to n - 1 do
               let id = first + i in
               let nd = { k; root = false; f = (match k with 'S' | 'V' -> [|0; 0|] | 'R' | 'B' -> [|0|] | _ -> [||]);
                          items = []; kv = [] } in
               if !prev <> 0 then (if k = 'U' then nd.items <- [!prev] else nd.f.(0) <- !prev);
               Hashtbl.replace nodes id nd;
               if spec then begin
                 sheap := gm_nset (addr id) (contents nd) !sheap;
                 sreg := gm_nset (addr id) false !sreg;
                 sorder := addr id :: !sorder
               end else begin
                 (* the new node is created empty (collection point), then its pointer is stored *)
                 let empty = { nd with f = Array.map (fun _ -> 0) nd.f; items = [] } in
                 flush_roots (); do_step (EAlloc (addr id, contents empty, false));
                 do_step (EStore (addr id, contents nd))
               end;
               Hashtbl.replace stack id ();
               if !prev <> 0 && !prev >= first then Hashtbl.remove stack !prev;
               roots ();
               prev := id
             done
           | _ -> failwith "L")
        | 'B' ->
          (* B<c>,<m>,<n>,<first>: n fresh probe structs allocated while container c is being built; each
             allocation is a collection point at which c holds the elements inserted so far *)
          (match String.split_on_char ',' rest with
           | [c; m; n; first] ->
             let c = int_of_string c and n = int_of_string n and first = int_of_string first in
             let cn = Hashtbl.find nodes c in
             if m = "a" then begin cn.items <- []; store c end;
             for i = 0 to n - 1 do
               let id = first + i in
               let nd = { k = 'S'; root = false; f = [|0; 0|]; items = []; kv = [] } in
               Hashtbl.replace nodes id nd;
               if spec then begin
                 sheap := gm_nset (addr id) (contents nd) !sheap;
                 sreg := gm_nset (addr id) false !sreg;
                 sorder := addr id :: !sorder
               end else (flush_roots (); do_step (EAlloc (addr id, contents nd, false)));
               (match cn.k with
                | 'T' | 'E' | 'Y' | 'Z' -> cn.kv <- (id, id) :: List.remove_assoc id cn.kv
                | _ -> cn.items <- cn.items @ [id]);
               store c
             done
           | _ -> failwith "B")
        | 'Q' ->
          (* Q<fid>=<lid><K>,<place> *)
          let eq = String.index rest '=' and comma = String.index rest ',' in
          let fid = int_of_string (String.sub rest 0 eq) in
          let lid = int_of_string (String.sub rest (eq + 1) (comma - eq - 2)) in
          Hashtbl.replace qcfg fid (lid, rest.[comma - 1], String.sub rest (comma + 1) (String.length rest - comma - 1))
        | 'C' -> (match ints rest with
            | [id; src] ->
              let sn = Hashtbl.find nodes src in
              if sn.k = 'W' then Hashtbl.replace bigs id ();
              let nd = { k = sn.k; root = false; f = Array.copy sn.f; items = sn.items; kv = sn.kv } in
              Hashtbl.replace nodes id nd;
              if spec then begin
                sheap := gm_nset (addr id) (contents nd) !sheap;
                sreg := gm_nset (addr id) false !sreg;
                sorder := addr id :: !sorder
              end else (flush_roots (); do_step (EAlloc (addr id, contents nd, false)));
              Hashtbl.replace stack id ();
              roots ()
            | _ -> failwith "C")
        | 'P' -> (match ints rest with
            | [id; i; t] -> (Hashtbl.find nodes id).f.(i) <- t; store id
            | _ -> failwith "P")
        | 'I' -> (match ints rest with
            | [id; key; t] ->
              let nd = Hashtbl.find nodes id in
              (match nd.k with
               | 'T' | 'E' | 'Y' | 'Z' -> nd.kv <- (key, t) :: List.remove_assoc key nd.kv
               | _ -> nd.items <- nd.items @ [t]);
              store id
            | _ -> failwith "I")
        | 'D' -> (match ints rest with
            | [id; key] ->
              let nd = Hashtbl.find nodes id in
              (match nd.k with
               | 'T' | 'E' | 'Y' | 'Z' -> nd.kv <- List.remove_assoc key nd.kv
               | _ -> nd.items <- remove_nth key nd.items);
              store id
            | _ -> failwith "D")
        | 'K' -> let id = List.hd (ints rest) in
          if rest.[0] = '+' then Hashtbl.replace stack id () else Hashtbl.remove stack id;
          roots ()
        | 'T' -> (match ints rest with
            | [s; t] when rest.[0] = '+' -> Hashtbl.replace tls s t; roots ()
            | s :: _ -> Hashtbl.remove tls s; roots ()
            | _ -> failwith "T")
        | 'X' -> let id = List.hd (ints rest) in
          Hashtbl.remove stack id; roots ();
          if is_reg (Hashtbl.find nodes id).k then begin
            if spec then begin
              sreg := gm_ndel (addr id) !sreg;
              sheap := gm_ndel (addr id) !sheap;          (* an explicitly deleted object is gone *)
              sorder := List.filter (fun a -> a <> addr id) !sorder
            end else do_step (EDel (addr id))
          end
        | 'G' | 'H' | 'E' ->
          if spec then begin
            obs (String.make 1 tok.[0]) (" r=" ^ ids_s (reach ()) ^ must_keep ());
            (* an exact collection frees every F node that need not be kept: its finaliser runs *)
            if tok.[0] = 'E' then
              (match !last_keep with
               | Some keep ->
                 List.iter (fun fid ->
                   if not (Hashtbl.mem fin_done fid) && not (List.mem fid keep) then begin
                     Hashtbl.replace fin_done fid (); run_finaliser fid
                   end) (f_nodes ())
               | None -> ())
          end else begin
            flush_roots ();
            let m = match gm_mark tr mg !st with
              | Ok m -> m | Crash -> raise (Stop "CRASH") | OutOfFuel -> raise (Stop "OUTOFFUEL") in
            let mk = List.filter (fun i -> gm_marked m (addr i)) (node_ids ()) in
            let b x = if x then "1" else "0" in
            let hyp () = let (((h1, h2), h3), h4) = gm_hyp !st (fun a -> nat_of_int (rank (id_of_addr a))) in
              b h1 ^ b h2 ^ b h3 ^ b h4 in
            let h = hyp () in
            do_step ECollect;
            let freed = !last_freed in
            let ran = ref false in
            if tok.[0] = 'E' then
              List.iter (fun fid ->
                if not (Hashtbl.mem fin_done fid) && List.mem (addr fid) freed then begin
                  Hashtbl.replace fin_done fid (); ran := true; run_finaliser fid
                end) (f_nodes ());
            (* hypotheses on the state after the sweep and the allocations of the finalisers *)
            let hs = if !ran then " hs=" ^ hyp () else "" in
            obs (String.make 1 tok.[0]) (" m=" ^ ids_s mk ^ " a=" ^ ids_s (alive ()) ^ " h=" ^ h ^ hs)
          end
        | 'M' ->
          let n = List.hd (ints rest) in
          if spec then obs "M" (" r=" ^ ids_s (reach ()) ^ must_keep ())
          else begin
            flush_roots ();
            for _ = 1 to n do
              incr garbage;
              do_step (EAlloc (addr !garbage, NoPtr, false))
            done;
            obs "M" (" a=" ^ ids_s (alive ()))
          end
        | '@' -> ()      (* the implementation runs the script in a second thread; same model *)
        | _ -> failwith ("bad token " ^ tok)
      end) (String.split_on_char ' ' line)
  with Stop s -> (if !nobs > 0 then Buffer.add_string buf " | "; Buffer.add_string buf s; incr nobs));
  if !nobs = 0 then Buffer.add_string buf "NOOBS";
  print_endline (Buffer.contents buf)

let () =
  let mode = Sys.argv.(1) in
  read_lines (fun line -> try run mode line with e -> print_endline ("DRIVERERROR " ^ Printexc.to_string e))
