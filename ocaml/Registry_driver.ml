(* Registry_driver.ml — correspondence driver for the GC registry model (C17).
   argv[1] = model:
     stdin: one case per line   B=<dec>;<obj>,<obj>,...|<op> <op> ...
       B      hash of the arena base: object k lives at address 8*(B+off_k)
       obj    <k>:<off>[:<t>.<t>...[:<u>.<u>r...]]   id, word offset, ids its destructor deletes (in order),
              ids it allocates afterwards, in order (suffix r = alloc_root, suffix t = temporary:
              allocated and deleted again at once)
       ops    a<k> alloc   A<k> alloc_root   w<k> alloc_raw (no registry effect)
              d<k> del     x<k> del_raw (destructor runs)
              k[<w>.<w>...] words the stack scan will see from now on: <k> = address of
                            object k, u<k> = that address + 4 (unaligned)
              c  GC_Mark+GC_Sweep     z  GC_Sweep alone     S stop   T start    m<k> mem
              Q  toggle brief dumps: the slot field becomes #<FNV-1a-32 of the slot text>
     output: steps separated by " | ", each
       <out>;<events>;<nslots>;<nitems>;<mitems>;<min>;<max>;<running>;<npending>;<slot>,<slot>..;<membits>
       events  r<k> (GC_Rem issued while running) f<k> (finalised) s<k>:<root> (registered from a
               destructor) ! (outside the model's scope, see spawn_set), in order of occurrence
       slot    _  or  <home+1>:<k>:<root>:<marked>
       min/max word offsets relative to B, "-" when still at the initial value
   argv[1] = spec:
     stdin: one line per case:  <step> <step> ...   step = "-" or events A<k>:<r> r<k> f<k> s<k>:<r> !
            (what the IMPLEMENTATION did, as observed by the harness)
     output: per step the set the ledger function `led_list` of the Coq specification yields,
             sorted: <k>:<r>,<k>:<r>,...   steps separated by " | " *)
let n_of_i i = n_of_int i
let i_of_n n = int_of_n n

type objs = { ids : int list; off : (int, n) Hashtbl.t; own : (int, int list) Hashtbl.t;
              spw : (int, (int * bool * bool) list) Hashtbl.t }

let parse_objs s =
  let o = { ids = []; off = Hashtbl.create 16; own = Hashtbl.create 16; spw = Hashtbl.create 16 } in
  let ids = List.map (fun spec ->
    match String.split_on_char ':' spec with
    | k :: off :: rest ->
      let k = int_of_string k in
      Hashtbl.replace o.off k (n_of_dec off);
      let spawn_of u =
        let n = String.length u in
        let rec digits i = if i < n && u.[i] >= '0' && u.[i] <= '9' then digits (i + 1) else i in
        let j = digits 0 in
        let suf = String.sub u j (n - j) in
        (int_of_string (String.sub u 0 j), String.contains suf 'r', String.contains suf 't') in
      (match rest with
       | [ts] -> Hashtbl.replace o.own k (List.map int_of_string (split_on '.' ts)); Hashtbl.replace o.spw k []
       | [ts; us] -> Hashtbl.replace o.own k (List.map int_of_string (split_on '.' ts));
                     Hashtbl.replace o.spw k (List.map spawn_of (split_on '.' us))
       | _ -> Hashtbl.replace o.own k []; Hashtbl.replace o.spw k []);
      k
    | _ -> failwith "bad obj") (split_on ',' s) in
  { o with ids = ids }

let eight = n_of_i 8

let model_case line =
  match String.split_on_char '|' line with
  | [hd; ops] ->
    let (bs, objs) = match String.index_opt hd ';' with
      | Some i -> (String.sub hd 0 i, String.sub hd (i + 1) (String.length hd - i - 1))
      | None -> failwith "bad header" in
    let b = n_of_dec (String.sub bs 2 (String.length bs - 2)) in
    let o = parse_objs objs in
    let addr k = n_mul eight (n_add b (Hashtbl.find o.off k)) in
    let rev = Hashtbl.create 16 in
    List.iter (fun k -> Hashtbl.replace rev (n_to_dec (addr k)) k) o.ids;
    let id_of p = match Hashtbl.find_opt rev (n_to_dec p) with Some k -> string_of_int k | None -> "X" in
    let ow = List.map (fun k -> (addr k, List.map addr (Hashtbl.find o.own k))) o.ids in
    let sp = List.map (fun k -> (addr k, List.map (fun (t, r, tmp) ->
               if tmp then DTemp (addr t, r) else DSpawn (addr t, r)) (Hashtbl.find o.spw k))) o.ids in
    let step = rg_step ow sp rg_rem_fin rg_null_first in
    let out_s = function OOk -> "ok" | OBool b -> if b then "true" else "false"
                       | OCrash -> "CRASH" | OFuel -> "OUTOFFUEL" in
    let offs p = n_to_dec (n_sub (n_div p eight) b) in
    let brief = ref false in
    let stepno = ref 0 in
    let fnv s =
      let h = ref 2166136261 in
      String.iter (fun c -> h := ((!h lxor Char.code c) * 16777619) land 0xFFFFFFFF) s;
      Printf.sprintf "#%08x" !h in
    let dump g nev_before =
      let ev = evs g in
      let rec take l n = if n <= 0 then [] else match l with [] -> [] | x :: r -> x :: take r (n - 1) in
      let fresh = List.rev (take ev (List.length ev - nev_before)) in
      let es = String.concat "" (List.map (function
        | EvRem p -> "r" ^ id_of p | EvFin p -> "f" ^ id_of p
        | EvSpawn (p, r) -> "s" ^ id_of p ^ ":" ^ (if r then "1" else "0")
        | EvViol -> "!" | _ -> "") fresh) in
      let sl = slots g in
      let ss = List.map (function
        | None -> "_"
        | Some (h, e) -> Printf.sprintf "%d:%s:%d:%d" (int_of_nat h + 1) (id_of e.ptr)
                           (if e.root then 1 else 0) (if e.marked then 1 else 0)) sl in
      let mn = if n_eqb (minptr g) uintptr_max then "-" else offs (minptr g) in
      let mx = if n_eqb (maxptr g) (n_of_i 0) then "-" else offs (maxptr g) in
      let mem = String.concat "" (List.map (fun k ->
        if !brief && (k + !stepno) mod 8 <> 0 then "" else
        match rg_mem g (addr k) with Some true -> "1" | Some false -> "0" | None -> "F") o.ids) in
      Printf.sprintf "%s;%d;%d;%d;%s;%s;%d;%d;%s;%s" es (List.length sl) (int_of_nat (nitems g))
        (int_of_nat (mitems g)) mn mx (if running g then 1 else 0) (List.length (pending g))
        (let t = String.concat "," ss in if !brief then fnv t else t) mem in
    let buf = Buffer.create 512 in
    Buffer.add_string buf ("new;" ^ dump rg_init 0);
    let words = ref [] in
    let ops = List.filter (fun s -> s <> "") (String.split_on_char ' ' ops) in
    let _ = List.fold_left (fun g tok ->
      let rest = String.sub tok 1 (String.length tok - 1) in
      let nev = List.length (evs g) in
      incr stepno;
      let apply o = let (g', out) = step g o in
        Buffer.add_string buf (" | " ^ out_s out ^ ";" ^ dump g' nev); g' in
      let same () = Buffer.add_string buf (" | ok;" ^ dump g nev); g in
      match tok.[0] with
      | 'a' -> apply (OAlloc (addr (int_of_string rest), false, !words))
      | 'A' -> apply (OAlloc (addr (int_of_string rest), true, !words))
      | 'w' -> same ()
      | 'd' -> apply (ORem (addr (int_of_string rest)))
      | 'x' -> apply (OFinRaw (addr (int_of_string rest)))
      | 'k' ->
        words := List.map (fun w ->
          if w.[0] = 'u' then n_add (addr (int_of_string (String.sub w 1 (String.length w - 1)))) (n_of_i 4)
          else addr (int_of_string w)) (split_on '.' rest);
        same ()
      | 'c' -> apply (OCollect !words)
      | 'z' -> apply OSweep
      | 'Q' -> brief := not !brief; same ()
      | 'S' -> apply OStop
      | 'T' -> apply OStart
      | 'm' -> apply (OMem (addr (int_of_string rest)))
      | _ -> failwith ("bad op " ^ tok)) rg_init ops in
    Buffer.contents buf
  | _ -> "BADCASE"

(* events of one step, e.g. "A3:0r5f5" *)
let parse_events s =
  let n = String.length s in
  let rec num i = if i < n && s.[i] >= '0' && s.[i] <= '9' then num (i + 1) else i in
  let rec go i acc =
    if i >= n || s.[i] = '-' then List.rev acc else
    if s.[i] = '!' then go (i + 1) acc else
    let j = num (i + 1) in
    let k = n_of_i (int_of_string (String.sub s (i + 1) (j - i - 1))) in
    match s.[i] with
    | 'A' -> let r = s.[j + 1] = '1' in go (j + 2) (EvAlloc (k, r) :: acc)
    | 's' -> let r = s.[j + 1] = '1' in go (j + 2) (EvSpawn (k, r) :: acc)
    | 'r' -> go j (EvRem k :: acc)
    | 'f' -> go j (EvReclaim k :: acc)     (* a finalised object is no longer registered *)
    | _ -> failwith ("bad event in " ^ s) in
  go 0 []

let spec_case line =
  let steps = List.filter (fun s -> s <> "") (String.split_on_char ' ' line) in
  (* the ledger of the events so far = led_list of the log; extended one event at a time with the
     extracted led_step (led_list (e :: l) = led_step e (led_list l) is the definition of led_list) *)
  let acc = ref (rg_led []) in
  let outs = List.map (fun st ->
    List.iter (fun e -> acc := rg_led_step e !acc) (parse_events st);
    let l = List.map (fun (p, r) -> (i_of_n p, r)) !acc in
    let l = List.sort compare l in
    String.concat "," (List.map (fun (k, r) -> Printf.sprintf "%d:%d" k (if r then 1 else 0)) l)) steps in
  String.concat " | " outs

let () =
  let mode = Sys.argv.(1) in
  read_lines (fun line ->
    print_endline (try if mode = "model" then model_case line else spec_case line
                   with e -> "DRIVERERROR " ^ Printexc.to_string e))
