(* Hash_driver.ml — correspondence driver for the hashing / equality model (C10).
   stdin: one case per line (same language as harness/val_hash.c):
     M <hex>            -> h=<dec>
     V <term> <term>    -> cmp=<ab>,<ba> ha=<dec> hb=<dec> wf=<0|1> cp=<..> as=<..> sw=<..>
     W <term> <op>=<term> ...  -> h=<dec> | h=<dec> | ...   (hash of the value after each step)
   cmp: sign, E when the model has no result (the C call raises or the combination is not modelled),
        n for a non-zero result when a map is involved (only equality of maps is modelled).
   cp/as/sw: what the MODEL says about copy(a), assign(b', a), swap(a, b):  1 = result eq to the
        source with the same hash / exchanged, 0 = not, - = not applicable.
   argv[1] = model (the only mode: the reference for the oracle is the property itself). *)
let hexv c = match c with
  | '0'..'9' -> Char.code c - 48 | 'a'..'f' -> Char.code c - 87 | 'A'..'F' -> Char.code c - 55
  | _ -> failwith "hex"
let is_hex c = match c with '0'..'9' | 'a'..'f' | 'A'..'F' -> true | _ -> false
let n_of_hex (s : string) : n =
  let r = ref N0 in
  String.iter (fun c -> let v = hexv c in
    for b = 3 downto 0 do
      r := if (v lsr b) land 1 = 1 then n_succ_double !r else n_double !r
    done) s; !r
let bytes_of_hex s =
  let n = String.length s / 2 in
  List.init n (fun i -> n_of_int (hexv s.[2*i] * 16 + hexv s.[2*i+1]))

(* recursive descent over the term language *)
let parse_term (s : string) (pos : int ref) : value =
  let len = String.length s in
  let peek () = if !pos < len then s.[!pos] else '\000' in
  let take_while p = let b = !pos in while !pos < len && p s.[!pos] do incr pos done; String.sub s b (!pos - b) in
  let rec term () =
    let k = peek () in incr pos;
    match k with
    | 'I' -> let b = !pos in if peek () = '-' then incr pos;
             let _ = take_while (fun c -> c >= '0' && c <= '9') in
             VInt (z_of_dec (String.sub s b (!pos - b)))
    | 'F' -> VFloat (n_of_hex (take_while is_hex))
    | 'S' -> VStr (bytes_of_hex (take_while is_hex))
    | 'P' -> VBlob (bytes_of_hex (take_while is_hex))
    | 'T' -> let nm = take_while (fun c -> (c >= 'a' && c <= 'z') || (c >= 'A' && c <= 'Z') || (c >= '0' && c <= '9')) in
             VType (List.init (String.length nm) (fun i -> n_of_int (Char.code nm.[i])))
    | 'R' -> VRef (n_of_hex (take_while is_hex))
    | 'B' -> VBox (n_of_hex (take_while is_hex))
    | 'A' -> VSeq (KArray, items ']')
    | 'L' -> VSeq (KList, items ']')
    | 'U' -> VSeq (KTuple, items ']')
    | 'H' -> VMap (KTable, pairs ())
    | 'E' -> VMap (KTree, pairs ())
    | _ -> failwith "bad term"
  and items close =
    incr pos;
    let acc = ref [] in
    while peek () <> close && peek () <> '\000' do
      acc := term () :: !acc;
      if peek () = ',' then incr pos
    done;
    incr pos; List.rev !acc
  and pairs () =
    incr pos;
    let acc = ref [] in
    while peek () <> '}' && peek () <> '\000' do
      let k = term () in
      if peek () = ':' then incr pos;
      let v = term () in
      acc := (k, v) :: !acc;
      if peek () = ',' then incr pos
    done;
    incr pos; List.rev !acc
  in term ()

let is_map = function VMap _ -> true | _ -> false
let zsign z = if z_ltb z Z0 then -1 else if z_ltb Z0 z then 1 else 0
(* two doubles at top level are compared with Float_Cmp in the shape the source has
   (h_float_cmp = float_cmp_of_form float_cmp_form; proved equal to the model's float_cmp) *)
let top_cmp a b = match a, b with
  | VFloat x, VFloat y -> Some (h_float_cmp x y)
  | _ -> h_cmp a b
let cmp_s a b =
  match top_cmp a b with
  | None -> "E"
  | Some c -> let g = zsign c in
    if g <> 0 && (is_map a || is_map b) then "n" else string_of_int g
let eq0 a b = match h_cmp a b with Some c -> zsign c = 0 | None -> false
let same a b = eq0 a b && eq0 b a && n_eqb (h_hash a) (h_hash b)
let () =
  read_lines (fun line ->
    let n = String.length line in
    if n >= 2 && line.[0] = 'M' && line.[1] = ' ' then
      print_endline ("h=" ^ n_to_dec (h_data (bytes_of_hex (String.sub line 2 (n - 2)))))
    else if n >= 2 && line.[0] = 'V' && line.[1] = ' ' then begin
      match (try let pos = ref 2 in
                 let a = parse_term line pos in
                 while !pos < n && line.[!pos] = ' ' do incr pos done;
                 let b = parse_term line pos in Some (a, b)
             with _ -> None) with
      | None -> print_endline "BADCASE"
      | Some (a, b) ->
        let cp = match h_copy a with Some c -> if same c a then "1" else "0" | None -> "-" in
        let asg = match h_assign b a with
          | Some y -> (match h_cmp y a with
                       | None -> "-"      (* e.g. a Box assigned from a Ref: the two cannot be compared *)
                       | Some _ -> if eq0 y a && n_eqb (h_hash y) (h_hash a) then "1" else "0")
          | None -> "-" in
        let sw = match a, b with
          | VBlob x, VBlob y when List.length x = List.length y ->
            (* memswap as the source has it (the plan read from its text) on the two byte images *)
            if h_memswap x y = (y, x) then "1" else "0"
          | _ -> (match h_swap a b with
                  | Some (x, y) -> if same x b && same y a then "1" else "0" | None -> "-") in
        print_endline (Printf.sprintf "cmp=%s,%s ha=%s hb=%s wf=%d cp=%s as=%s sw=%s"
          (cmp_s a b) (cmp_s b a) (n_to_dec (h_hash a)) (n_to_dec (h_hash b))
          (if h_wf a && h_wf b then 1 else 0) cp asg sw)
    end else if n >= 2 && line.[0] = 'W' && line.[1] = ' ' then begin
      (* value history: the model's hash of the value the object must have after each step
         (the term on the right of '='; the first token is the initial value) *)
      let toks = List.filter (fun t -> t <> "") (String.split_on_char ' ' (String.sub line 2 (n - 2))) in
      let hs = List.mapi (fun i t ->
        let src = if i = 0 then t else
          (match String.index_opt t '=' with Some j -> String.sub t (j + 1) (String.length t - j - 1) | None -> "") in
        (try "h=" ^ n_to_dec (h_hash (parse_term src (ref 0))) with _ -> "BADTERM")) toks in
      print_endline (String.concat " | " hs)
    end else print_endline "BADCASE")
