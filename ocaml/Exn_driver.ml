(* Exn_driver.ml — correspondence driver for the exception machine (C07).
   stdin: one program tree per line, prefix notation, tokens separated by blanks:
     .            skip
     t<n>         observable statement n
     ; P Q        P; Q
     !<o>,<m>     throw(X_o, "m%i", m), or throw(X_o, "") when m = 0; object o = 10*kind + variant:
                  objects of one kind are distinct but `eq` to each other
     T<o>.<o>.. B H   try { B } catch (e in X_o1, X_o2, ..) { H }   (T alone = catch everything)
     a first token @T / @I / @S (how the harness realises the objects: Type objects of equal name,
     heap Ints, heap Strings) is skipped
     C P          call of a function whose body is P
     B / K / R    break; / continue; (in a catch handler) / return; (from the enclosing function: C body,
                  Show method, or the program)
   F<o>,<m> P    throw(X_o, "%$m%i", a, m) / throw(X_o, "%$", a): showing the argument a runs program P
   argv[1] = spec | model, argv[2] = three digits: clear_active_on_catch, throw_records_obj_after_format,
   try_keeps_obj (111 = the repaired code);
   one output line per case:
     <event> <event> ... <final>
     event:  t<n>@<d>  |  h<o>,<m>@<d>     (o = identity of the object bound in the handler)
     final:  N@<d> (normal, depth at the end)  |  D<k>,<m> (died: Uncaught object of KIND k, message m;
             the diagnostic shows the object's value, not its identity)
             | J<t> (model only: jump in flight to buffer t)  |  ABORT  |  WILD
     spec prints OUTOFSCOPE for trees nested deeper than EXCEPTION_MAX_DEPTH *)
let parse (line : string) : prog =
  let toks = ref (List.filter (fun s -> s <> "" && s.[0] <> '@') (String.split_on_char ' ' line)) in
  let next () = match !toks with [] -> failwith "eof" | t :: r -> toks := r; t in
  let num s = nat_of_int (int_of_string s) in
  let rec go () =
    let t = next () in
    let rest = String.sub t 1 (String.length t - 1) in
    match t.[0] with
    | '.' -> PSkip
    | 't' -> PTick (num rest)
    | ';' -> let p = go () in let q = go () in PSeq (p, q)
    | '!' -> (match String.split_on_char ',' rest with
              | [k; m] -> PThrow (num k, num m, PSkip) | _ -> failwith "bad throw")
    | 'F' -> (match String.split_on_char ',' rest with
              | [k; m] -> let f = go () in PThrow (num k, num m, f) | _ -> failwith "bad throw")
    | 'T' -> let fs = List.map num (List.filter (fun s -> s <> "") (String.split_on_char '.' rest)) in
             let b = go () in let h = go () in PTry (b, fs, h)
    | 'C' -> PCall (go ())
    | 'B' -> PExit XBreak | 'K' -> PExit XCont | 'R' -> PExit XReturn
    | _ -> failwith ("bad token " ^ t) in
  let p = go () in
  if !toks <> [] then failwith "trailing tokens";
  p
let i = int_of_nat
let ev_s = function
  | ETick (n, d) -> Printf.sprintf "t%d@%d" (i n) (i d)
  | EHandler (k, m, d) -> Printf.sprintf "h%d,%d@%d" (i k) (i m) (i d)
let line_of evs fin = String.concat " " (List.map ev_s evs @ [fin])
let () =
  let mode = Sys.argv.(1) in
  read_lines (fun line ->
    match (try Some (parse line) with _ -> None) with
    | None -> print_endline "BADCASE"
    | Some p ->
      if mode = "spec" then begin
        if i (exn_nesting p) > i exn_max then print_endline "OUTOFSCOPE"
        else
          let ((evs, r), _) = exn_ref O O p in
          print_endline (line_of evs (match r with
            | RNormal | RExit XReturn -> "N@0"
            | RExit _ -> "BADEXIT"
            | RRaised (k, m) -> Printf.sprintf "D%d,%d" (i (exn_kind_of k)) (i m)))
      end else begin
        let fl = if Array.length Sys.argv > 2 then Sys.argv.(2) else "111" in
        let b i = String.length fl > i && fl.[i] = '1' in
        let run = match mode with
          | "model" -> exn_mach_clr (b 0) (b 1) (b 2)
          | _ -> failwith "mode: spec | model <clr><oaf><tko>" in
        let ((evs, r), st) = run p exn_init in
        print_endline (line_of evs (match r with
          | MNormal | MExit XReturn -> Printf.sprintf "N@%d" (i (exn_depth st))
          | MExit _ -> "BADEXIT"
          | MJump t -> Printf.sprintf "J%d" (i t)
          | MDied (Some k, m) -> Printf.sprintf "D%d,%d" (i (exn_kind_of k)) (i m)
          | MDied (None, m) -> Printf.sprintf "DNULL,%d" (i m)
          | MAbort -> "ABORT" | MWild -> "WILD"))
      end)
