(* Iter_driver.ml — correspondence driver for the iteration model (C11).
   stdin: one case per line, an iterable expression in prefix form (grammar: harness/iter_walk.c).
   argv[1] = model ; one transcript line per case, same format as harness/iter_walk.c:
     len=..;leaf=..;fwd=..;bwd=..;get=..;gx=..;sl=..;tab=..       or  build=E:<exn> *)
type ast =
  | Leaf of string * string list            (* kind, ints *)
  | Hist of string * string list            (* kind (arrh listh tuph tabh treeh), operations *)
  | Range of string list
  | Slice of string list * ast
  | Rev of ast
  | Zip of ast list
  | Enum of ast
  | Filter of int * ast
  | Map of int * ast

let ints s = if s = "-" then [] else String.split_on_char ',' s

let rec parse toks = match toks with
  | ("arr" | "list" | "tup" | "tupr" | "tab" | "tree" as k) :: xs :: r -> Leaf (k, ints xs), r
  | ("arrh" | "listh" | "tuph" | "tabh" | "treeh" as k) :: h :: r ->
    Hist (k, (if h = "-" then [] else String.split_on_char '/' h)), r
  | "range" :: a :: r -> Range (ints a), r
  | "slice" :: a :: r -> let u, r = parse r in Slice (ints a, u), r
  | "rev" :: r -> let u, r = parse r in Rev u, r
  | "enum" :: r -> let u, r = parse r in Enum u, r
  | "zip" :: n :: r ->
    let rec go k r acc = if k = 0 then List.rev acc, r else let u, r = parse r in go (k - 1) r (u :: acc) in
    let us, r = go (min 8 (int_of_string n)) r [] in Zip us, r
  | "filter" :: i :: r -> let u, r = parse r in Filter (int_of_string i, u), r
  | "map" :: i :: r -> let u, r = parse r in Map (int_of_string i, u), r
  | _ -> failwith "bad case"

let exn_s = function
  | EClass -> "ClassError" | EIndex -> "IndexOutOfBoundsError" | EValue -> "ValueError"
  | EFormat -> "FormatError" | EKey -> "KeyError"

exception Build of string
let ok = function
  | OVal a -> a
  | ORaise e -> raise (Build ("E:" ^ exn_s e))
  | OCrash -> raise (Build "CRASH")
  | OFuel -> raise (Build "OUTOFFUEL")

let arg s = if s = "_" then None else Some (z_of_dec s)
let posmod a m = ((a mod m) + m) mod m

(* built node: iterable, basesz, haslen, hasget *)
type info = { it : iterable; basesz : int; haslen : bool; hasget : bool }
let raised = ref 0
(* identities: the elements of the leaf containers are numbered in the order the leaves (prefix order) yield them *)
let next_id = ref 0
let obj v = match v with VInt z -> let i = !next_id in incr next_id; VObj (z_of_int i, z) | _ -> v
let objs vs = List.map obj vs
let obj_slots sl = List.map (function Some v -> Some (obj v) | None -> None) sl
let rec obj_tree t = match t with
  | TLeaf -> TLeaf
  | TNode (l, k, r) -> let l' = obj_tree l in let k' = obj k in let r' = obj_tree r in TNode (l', k', r')
let slices : rng list ref = ref []          (* prefix order *)
let leaves : (iterable * int) list ref = ref []
let tabs : val0 option list list ref = ref []

let rec show v = match v with
  | VInt z -> z_to_dec z
  | VObj (id, z) -> z_to_dec z ^ "@" ^ z_to_dec id
  | VTup vs -> "(" ^ String.concat " " (List.map show vs) ^ ")"
let acc : string list ref = ref []      (* items the probe function (map 7) was applied to, newest first *)

let rec build (a : ast) : info =
  match a with
  | Leaf (k, xs) ->
    let zs = List.map z_of_dec xs in
    let n = List.length xs in
    let vs = List.map (fun z -> VInt z) zs in
    let it, hasget = match k with
      | "arr" -> IArray (objs vs), true
      | "list" -> IList (objs vs), true
      | "tup" -> ITuple (List.mapi (fun i v -> (nat_of_int i, v)) (objs vs)), true
      | "tupr" -> ITuple (List.map (fun z -> let id = (int_of_z z) land 63 in (nat_of_int id, VInt (z_of_int id))) zs), true
      | "tab" -> let sl = table_slots zs in tabs := !tabs @ [sl]; ITable (obj_slots sl), false
      | _ -> ITree (obj_tree (tree_build zs)), false in
    if k = "tab" || k = "tree" then leaves := !leaves @ [(it, n)];
    { it; basesz = n; haslen = true; hasget }
  | Hist (k, ops) ->
    let rest s = String.sub s 1 (String.length s - 1) in
    let zints s = List.map z_of_dec (ints (if s = "" then "-" else s)) in
    if k = "tabh" || k = "treeh" then begin
      let kops = List.filter_map (fun o -> if o = "" then None else match o.[0] with
        | 'k' -> Some (KSet (z_of_dec (rest o))) | 'r' -> Some (KRem (z_of_dec (rest o)))
        | 'z' -> Some (KResize (nat_of_int (int_of_string (rest o)))) | _ -> None) ops in
      let it = if k = "tabh" then begin
          let (sl, r) = table_hist kops in raised := !raised + int_of_nat r; tabs := !tabs @ [sl]; ITable (obj_slots sl) end
        else begin let (t, r) = tree_hist kops in raised := !raised + int_of_nat r; ITree (obj_tree t) end in
      leaves := !leaves @ [(it, 64)];
      { it; basesz = 64; haslen = true; hasget = false }
    end else begin
      let init, ops = match ops with o :: r when o <> "" && o.[0] = 'n' -> zints (rest o), r | _ -> [], ops in
      let hops = List.filter_map (fun o -> if o = "" then None else match o.[0] with
        | 'p' -> Some (HPush (z_of_dec (rest o))) | 'o' -> Some HPop | 'x' -> Some (HPopAt (z_of_dec (rest o)))
        | 'r' -> Some (HRem (z_of_dec (rest o)))
        | 'a' -> (match String.split_on_char ':' (rest o) with [i; v] -> Some (HPushAt (z_of_dec i, z_of_dec v)) | _ -> None)
        | 'z' -> Some (HResize (z_of_dec (rest o))) | 'c' -> Some (HConcat (zints (rest o))) | 's' -> Some HSort
        | _ -> None) ops in
      let sk = if k = "arrh" then KArr else if k = "listh" then KList else KTup in
      let (zs, r) = m_hist sk init hops O in
      raised := !raised + int_of_nat r;
      let vs = objs (List.map (fun z -> VInt z) zs) in
      let it = match sk with
        | KArr -> IArray vs | KList -> IList vs
        | KTup -> ITuple (List.mapi (fun i v -> (nat_of_int i, v)) vs) in
      { it; basesz = 64; haslen = true; hasget = true }
    end
  | Range args ->
    let it = ok (m_range (List.map arg args)) in
    let l = match m_len it with OVal z -> int_of_z z | _ -> 0 in
    { it; basesz = (if l < 0 || l > 1000 then 1000 else l); haslen = true; hasget = true }
  | Slice (_, u) | Rev u ->
    (* the Slice node precedes the slices of its operand (prefix order) *)
    let mark = ref (mkrng_dummy ()) in
    let pos = List.length !slices in
    slices := !slices @ [!mark];
    let ui = build u in
    let it = match a with
      | Slice (args, _) -> ok (m_slice ui.it (List.map arg args))
      | _ -> ok (m_reverse ui.it) in
    (match it with ISlice (_, r) -> slices := List.mapi (fun i x -> if i = pos then r else x) !slices | _ -> ());
    { it; basesz = ui.basesz; haslen = true; hasget = ui.hasget }
  | Zip us ->
    let is = List.map build us in
    { it = IZip (List.map (fun i -> i.it) is);
      basesz = List.fold_left (fun s i -> s + i.basesz) 0 is;
      haslen = List.for_all (fun i -> i.haslen) is; hasget = List.for_all (fun i -> i.hasget) is }
  | Enum u ->
    let ui = build u in
    { it = ok (m_enumerate ui.it); basesz = 2 * ui.basesz; haslen = ui.haslen; hasget = ui.hasget }
  | Filter (id, u) ->
    let ui = build u in
    { it = IFilter (m_pred (nat_of_int (posmod id 9)), ui.it); basesz = ui.basesz; haslen = false; hasget = false }
  | Map (id, u) ->
    let ui = build u in
    let fid = posmod id 8 in
    let f = if fid = 7 then (fun v -> acc := show v :: !acc; m_fun (nat_of_int 7) v) else m_fun (nat_of_int fid) in
    { it = IMap (f, ui.it); basesz = ui.basesz; haslen = ui.haslen; hasget = ui.hasget }
and mkrng_dummy () = { r_start = Z0; r_stop = Z0; r_step = Z0 }

let fuel = nat_of_int 20000

let walk_s d cut it =
  let (vs, e) = m_walk fuel d (nat_of_int cut) it in
  let items = List.map show vs in
  let tail = match e with
    | WDone -> [] | WRunaway -> ["RUNAWAY"] | WRaise x -> ["E:" ^ exn_s x] | WCrash -> ["CRASH"] | WFuel -> ["OUTOFFUEL"] in
  String.concat "," (items @ tail)

let () =
  read_lines (fun line ->
    slices := []; leaves := []; tabs := []; raised := 0; next_id := 0;
    try
      let a, rest = parse (String.split_on_char ' ' line) in
      if rest <> [] then failwith "trailing";
      let i = build a in
      let buf = Buffer.create 256 in
      let n = match m_len i.it with
        | OVal z -> Buffer.add_string buf ("len=" ^ z_to_dec z); Some (int_of_z z)
        | ORaise e -> Buffer.add_string buf ("len=E:" ^ exn_s e); None
        | OCrash -> Buffer.add_string buf "len=CRASH"; None
        | OFuel -> Buffer.add_string buf "len=OUTOFFUEL"; None in
      let nn = match n with Some k -> k | None -> -1 in
      let cutoff = if nn >= 0 then (if nn > 5000 then 10004 else 2 * nn + 4) else 2 * i.basesz + 4 in
      Buffer.add_string buf (";leaf=" ^ String.concat "/" (List.map (fun (it, sz) -> walk_s Fwd (2 * sz + 4) it) !leaves));
      let acc_s () = let l = List.rev !acc in acc := []; String.concat "," l in
      acc := [];
      let fw = walk_s Fwd cutoff i.it in
      Buffer.add_string buf (";fwd=" ^ fw ^ ";af=" ^ acc_s ());
      let bw = walk_s Bwd cutoff i.it in
      Buffer.add_string buf (";bwd=" ^ bw ^ ";ab=" ^ acc_s ());
      Buffer.add_string buf ";get=";
      if nn >= 0 && i.hasget then begin
        let rec go k acc =
          if k >= nn || k >= 5000 then List.rev acc
          else match m_get i.it (z_of_int k) with
            | OVal v -> go (k + 1) (show v :: acc)
            | ORaise e -> List.rev (("E:" ^ exn_s e) :: acc)
            | OCrash -> List.rev ("CRASH" :: acc)
            | OFuel -> List.rev ("OUTOFFUEL" :: acc) in
        Buffer.add_string buf (String.concat "," (go 0 []))
      end else Buffer.add_string buf "-";
      Buffer.add_string buf ";gx=";
      (match a with
       | Range _ when nn >= 0 ->
         let zn = z_of_int nn in
         let keys = [z_of_int (-1); z_of_int (- nn); z_of_int (- nn - 1); zn;
                     z_of_dec "9223372036854775807"; z_of_dec "-9223372036854775808"] in
         Buffer.add_string buf (String.concat "," (List.map (fun k -> match m_get i.it k with
           | OVal v -> show v | ORaise e -> "E:" ^ exn_s e | OCrash -> "CRASH" | OFuel -> "OUTOFFUEL") keys))
       | _ -> Buffer.add_string buf "-");
      Buffer.add_string buf (";sl=" ^ String.concat "," (List.map (fun r ->
        z_to_dec r.r_start ^ ":" ^ z_to_dec r.r_stop ^ ":" ^ z_to_dec r.r_step) !slices));
      Buffer.add_string buf (";tab=" ^ String.concat "/" (List.map (fun sl ->
        String.concat "," (List.map (function None -> "_" | Some v -> show v) sl)) !tabs));
      Buffer.add_string buf (";hist=" ^ string_of_int !raised);
      print_endline (Buffer.contents buf)
    with
    | Build s -> print_endline ("build=" ^ s)
    | Failure _ | Not_found | Invalid_argument _ -> print_endline "BADCASE")
