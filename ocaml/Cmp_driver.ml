(* Cmp_driver.ml — correspondence driver for the cmp models (C09).
   stdin: one case per line
     C <sort> <a> <b> <c>        all nine ordered comparisons among three values
     K <sort> <k1> <k2> ... <kn> the keys are set into a Tree (value = index), then each is looked up
   operand of a C case: a value, or P(v,v,@0,...) = a Tuple given slot by slot, @j = the SAME object
         pointer as slot j (aliasing); top level only
   value:  i<dec> | f<16 hex digits: binary64 bit pattern> | s<hex bytes> | t<hex bytes: type name>
         | b<tid>.<hex bytes: plain struct> | A(v,..) | L(v,..) | T(v,..)  (Array List Tuple)
         | M(k:v,..)  (Tree, bindings in insertion order)
   sort:   I | F | S | Y | B<tid>.<size> | Q(<sort>) | M(<sort>,<sort>) | ?   (? = no common sort)
   argv[1] = model | spec; one output line per case:
     C: nine fields "<cmp>:<eq><neq><lt><gt><le><ge>" or "raise"; spec prints the sign demanded by
        the reference order, or "?" where the values are outside the stated sort
     K: n fields, the index found for each key ("none", "raise"); for Int and String keys a field "|"
        and n more fields: the same lookups in a Table *)
exception Bad of string

let z_of_hex (s : string) : z =
  let bits = ref [] in
  String.iter (fun c ->
    let v = int_of_string ("0x" ^ String.make 1 c) in
    bits := !bits @ [v land 8 <> 0; v land 4 <> 0; v land 2 <> 0; v land 1 <> 0]) s;
  let rec strip = function false :: r -> strip r | l -> l in
  match strip !bits with
  | [] -> Z0
  | _ :: rest -> Zpos (List.fold_left (fun acc b -> if b then XI acc else XO acc) XH rest)

let bytes_of_hex (s : string) : n list =
  if String.length s mod 2 <> 0 then raise (Bad "odd hex");
  List.init (String.length s / 2) (fun i -> n_of_int (int_of_string ("0x" ^ String.sub s (2 * i) 2)))

(* recursive descent over a string *)
let parse_value (spec : bool) (s : string) : value =
  let pos = ref 0 in
  let n = String.length s in
  let peek () = if !pos < n then s.[!pos] else '\000' in
  let adv () = incr pos in
  let take_while p = let b = !pos in while !pos < n && p s.[!pos] do incr pos done; String.sub s b (!pos - b) in
  let is_hex c = (c >= '0' && c <= '9') || (c >= 'a' && c <= 'f') in
  let is_dec c = (c >= '0' && c <= '9') || c = '-' in
  let rec value () : value =
    let c = peek () in adv ();
    match c with
    | 'i' -> VInt (z_of_dec (take_while is_dec))
    | 'f' -> VFloat (float_of_bits (z_of_hex (take_while is_hex)))
    | 's' -> VStr (bytes_of_hex (take_while is_hex))
    | 't' -> VType (bytes_of_hex (take_while is_hex))
    | 'b' -> let id = take_while is_dec in
             if peek () <> '.' then raise (Bad "struct"); adv ();
             VStruct (n_of_dec id, bytes_of_hex (take_while is_hex))
    | 'A' -> VSeq (KArray, items ())
    | 'L' -> VSeq (KList, items ())
    | 'T' -> VSeq (KTuple, items ())
    | 'M' -> let ps = pairs () in
             if spec then VTree (spec_tree_of_sets ps)
             else VTree (match tree_of_sets [] ps with Some t -> t | None -> raise (Bad "tree"))
    | _ -> raise (Bad ("value at " ^ string_of_int !pos))
  and items () =
    if peek () <> '(' then raise (Bad "("); adv ();
    if peek () = ')' then (adv (); []) else begin
      let acc = ref [value ()] in
      while peek () = ',' do adv (); acc := value () :: !acc done;
      if peek () <> ')' then raise (Bad ")"); adv ();
      List.rev !acc end
  and pairs () =
    if peek () <> '(' then raise (Bad "("); adv ();
    if peek () = ')' then (adv (); []) else begin
      let pair () = let k = value () in if peek () <> ':' then raise (Bad ":"); adv (); let v = value () in (k, v) in
      let acc = ref [pair ()] in
      while peek () = ',' do adv (); acc := pair () :: !acc done;
      if peek () <> ')' then raise (Bad ")"); adv ();
      List.rev !acc end
  in
  let v = value () in
  if !pos <> n then raise (Bad "trailing"); v

let parse_sort (s : string) : sort option =
  if s = "?" then None else begin
    let pos = ref 0 in
    let n = String.length s in
    let peek () = if !pos < n then s.[!pos] else '\000' in
    let adv () = incr pos in
    let take_dec () = let b = !pos in while !pos < n && s.[!pos] >= '0' && s.[!pos] <= '9' do incr pos done; String.sub s b (!pos - b) in
    let rec sort () =
      let c = peek () in adv ();
      match c with
      | 'I' -> SInt | 'F' -> SFloat | 'S' -> SStr | 'Y' -> SType
      | 'B' -> let id = take_dec () in adv (); let sz = take_dec () in SStruct (n_of_dec id, nat_of_int (int_of_string sz))
      | 'Q' -> adv (); let e = sort () in adv (); SSeq e
      | 'M' -> adv (); let k = sort () in adv (); let v = sort () in adv (); STree (k, v)
      | _ -> raise (Bad "sort") in
    Some (sort ()) end

let bit = function true -> "1" | false -> "0"

let model_pair a b =
  match value_cmp a b with
  | None -> "raise"
  | Some c ->
    let g = function Some x -> bit x | None -> "x" in
    z_to_dec c ^ ":" ^ g (v_eq a b) ^ g (v_neq a b) ^ g (v_lt a b) ^ g (v_gt a b) ^ g (v_le a b) ^ g (v_ge a b)

(* operands: a plain value, or P(v,v,@0,..): a Tuple slot by slot, @j = the same pointer as slot j *)
let split_top (s : string) : string list =
  (* split the inside of P(...) at top-level commas *)
  let depth = ref 0 and cur = Buffer.create 16 and out = ref [] in
  String.iter (fun c ->
    if c = '(' then incr depth; if c = ')' then decr depth;
    if c = ',' && !depth = 0 then (out := Buffer.contents cur :: !out; Buffer.clear cur)
    else Buffer.add_char cur c) s;
  if Buffer.length cur > 0 || !out <> [] then out := Buffer.contents cur :: !out;
  List.rev !out

let parse_operand (spec : bool) (s : string) : operand =
  if String.length s >= 3 && s.[0] = 'P' && s.[1] = '(' then begin
    let inner = String.sub s 2 (String.length s - 3) in
    let toks = split_top inner in
    let items = ref [] in
    List.iteri (fun i t ->
      if t <> "" && t.[0] = '@' then begin
        let j = int_of_string (String.sub t 1 (String.length t - 1)) in
        if j >= i then raise (Bad "alias");
        items := !items @ [List.nth !items j]
      end else items := !items @ [(n_of_int i, parse_value spec t)]) toks;
    OTup !items
  end else OVal (parse_value spec s)

let model_operand_pair a b =
  match a, b with
  | OVal x, OVal y -> model_pair x y
  | _ ->
    (match operand_cmp a b with
     | WRaise -> "raise" | WFuel -> "TIMEOUT"
     | WRes c -> z_to_dec c ^ ":" ^ String.concat "" (List.map bit (preds_of c)))

let spec_pair a b =
  match value_ord a b with
  | Lt -> "-1:011010" | Eq -> "0:100011" | Gt -> "1:010101"

let () =
  let mode = Sys.argv.(1) in
  read_lines (fun line ->
    try
      match String.split_on_char ' ' line with
      | "C" :: so :: vs when List.length vs = 3 ->
        let vs = List.map (parse_operand (mode <> "model")) vs in
        let so = parse_sort so in
        let indom = match so with None -> false | Some s -> List.for_all (fun o -> has_sort s (operand_value o)) vs in
        let f = if mode = "model" then model_operand_pair
                else if indom then (fun a b -> spec_pair (operand_value a) (operand_value b)) else (fun _ _ -> "?") in
        print_endline (String.concat " " (List.concat_map (fun a -> List.map (fun b -> f a b) vs) vs))
      | "K" :: so :: ks ->
        let ks = List.map (parse_value (mode <> "model")) ks in
        let so = parse_sort so in
        let ins = List.mapi (fun i k -> (k, VInt (z_of_int i))) ks in
        let show = function VInt z -> z_to_dec z | _ -> "?" in
        let with_table = (match so with Some SInt | Some SStr -> true | _ -> false) in
        if mode = "model" then begin
          match tree_of_sets [] ins with
          | None -> print_endline "BADVALUE"
          | Some t ->
            let tree = List.map (fun k ->
              match assoc_get t k with None -> "raise" | Some None -> "none" | Some (Some v) -> show v) ks in
            let table = if not with_table then [] else "|" :: List.map (fun k ->
              match eq_get ins k with None -> "raise" | Some None -> "none" | Some (Some v) -> show v) ks in
            print_endline (String.concat " " (tree @ table))
        end else begin
          let indom = match so with None -> false | Some s -> List.for_all (has_sort s) ks in
          let one = List.map (fun k ->
            if not indom then "?" else match spec_get ins k with None -> "none" | Some v -> show v) ks in
          print_endline (String.concat " " (one @ (if with_table then "|" :: one else [])))
        end
      | _ -> print_endline "BADCASE"
    with Bad m -> print_endline "BADVALUE")
