(* StringM_driver.ml — correspondence driver for the String model (C16).
   stdin: one case per line   <init-hex>|<op> <op> ...      (init N = new(String) without arguments)
     a<hex> assign   c<hex> concat   p<hex> append   z<n> resize   r<hex> rem   m<hex> mem
     k<hex> cmp      e<hex> eq       l len           s c_str       h hash
     y  replace the String by a copy of itself (assign into a fresh object), delete the original
     A C P R M K E   assign / concat / append / rem / mem / cmp / eq with the String itself as argument
     f<pos>:<piece>,<piece>,...  print_to at pos; piece = L<hex> literal | S<hex> %s | D<int> %li | X %s with the String itself
   argv[1] = model | spec ; one line per case, steps separated by " | ", first step = "new":
     model:  <out>;<chars-hex>;<alloc>;<cells>      cells: two hex digits per byte, ?? = indeterminate
     spec:   <out>;<chars-hex>
   out: ok | n<dec> | true | false | lt | eq | gt | h<dec> | s<hex> | ValueError | CRASH
   (a model run stops at the first CRASH: nothing is defined after undefined behaviour) *)
let bytes_of_hex (h : string) : nat list =
  let n = String.length h / 2 in
  List.init n (fun i -> nat_of_int (int_of_string ("0x" ^ String.sub h (2 * i) 2)))
let hex_of_bytes (l : nat list) : string =
  String.concat "" (List.map (fun b -> Printf.sprintf "%02x" (int_of_nat b)) l)
let out_s = function
  | SUnit -> "ok" | SNat n -> "n" ^ string_of_int (int_of_nat n)
  | SBool b -> if b then "true" else "false"
  | SSign Lt -> "lt" | SSign Eq -> "eq" | SSign Gt -> "gt"
  | SHash h -> "h" ^ n_to_dec h
  | SChars s -> "s" ^ hex_of_bytes s
  | SRaise -> "ValueError"   (* sexn has one constructor: extraction drops the argument *)
  | SCrash -> "CRASH"
let rest s = String.sub s 1 (String.length s - 1)
let parse_piece s =
  match s.[0] with
  | 'L' -> PLit (bytes_of_hex (rest s))
  | 'S' -> PStr (bytes_of_hex (rest s))
  | 'D' -> PInt (z_of_dec (rest s))
  | 'X' -> PSelf
  | _ -> failwith ("bad piece " ^ s)
let parse_op s : sop =
  let r = rest s in
  match s.[0] with
  | 'a' -> OAssign (bytes_of_hex r) | 'c' -> OConcat (bytes_of_hex r) | 'p' -> OAppend (bytes_of_hex r)
  | 'z' -> OResize (nat_of_int (int_of_string r))
  | 'r' -> ORem (bytes_of_hex r) | 'm' -> OMem (bytes_of_hex r)
  | 'k' -> OCmp (bytes_of_hex r) | 'e' -> OEq (bytes_of_hex r)
  | 'l' -> OLen | 's' -> OCStr | 'h' -> OHash
  | 'A' -> OAssignSelf | 'C' | 'P' -> OConcatSelf | 'R' -> ORemSelf | 'M' -> OMemSelf
  | 'K' -> OCmpSelf | 'E' -> OEqSelf | 'y' -> OCopy
  | 'f' -> (match String.index_opt r ':' with
            | Some i -> OPrint (nat_of_int (int_of_string (String.sub r 0 i)),
                                List.map parse_piece (split_on ',' (String.sub r (i + 1) (String.length r - i - 1))))
            | None -> failwith "bad f")
  | _ -> failwith ("bad op " ^ s)
let dump_model b =
  let chars = match sm_cstr b with Some s -> hex_of_bytes s | None -> "UNTERMINATED" in
  chars ^ ";" ^ string_of_int (List.length b) ^ ";" ^
  String.concat "" (List.map (function None -> "??" | Some c -> Printf.sprintf "%02x" (int_of_nat c)) b)
let () =
  let mode = Sys.argv.(1) in
  read_lines (fun line ->
    match String.split_on_char '|' line with
    | [init; ops] ->
      let noarg = (init = "N") in
      let init = if noarg then [] else bytes_of_hex init in
      let ops = List.filter (fun s -> s <> "") (String.split_on_char ' ' ops) in
      let buf = Buffer.create 256 in
      (try
        if mode = "model" then begin
          match (if noarg then Some sm_new_empty else sm_new init) with
          | None -> Buffer.add_string buf "CRASH"
          | Some b0 ->
            Buffer.add_string buf ("new;" ^ dump_model b0);
            let rec go b = function
              | [] -> ()
              | o :: r ->
                let (b', out) = sm_step b (parse_op o) in
                (match out with
                 | SCrash -> Buffer.add_string buf " | CRASH"
                 | _ -> Buffer.add_string buf (" | " ^ out_s out ^ ";" ^ dump_model b'); go b' r) in
            go b0 ops
        end else begin
          Buffer.add_string buf ("new;" ^ hex_of_bytes init);
          let _ = List.fold_left (fun s o ->
            let (s', out) = ss_step s (parse_op o) in
            Buffer.add_string buf (" | " ^ out_s out ^ ";" ^ hex_of_bytes s'); s') init ops in ()
        end
      with Failure m -> Buffer.add_string buf (" | BADCASE " ^ m));
      print_endline (Buffer.contents buf)
    | _ -> print_endline "BADCASE")
