(* Ownership_driver.ml — correspondence driver for the ownership model (C05).
   stdin: one case per line, ops as in harness/own_ledger.c.  argv[1] = model | spec (same output).
   one output line per case, ops separated by " | ":
     C<n>;D<v,..sorted>;Z<n>;live=<n>;<dump>
   dump: containers separated by '/':  <id>A[v,v]#len  <id>T{k=v,..sorted}#len  <id>B(v)  <id>-
   (tokens are model-internal and not printed; "SKIP"-able ops are no-ops in the model as in the harness) *)
let ints s = List.map z_of_dec (List.filter (fun x -> x <> "") (String.split_on_char ',' (String.map (fun c -> if c = ':' then ',' else c) s)))
let rec pairs = function a :: b :: r -> (a, b) :: pairs r | _ -> []
let nat_of_z z = nat_of_int (int_of_z z)
let parse_op (s : string) : sop option =
  let rest = String.sub s 1 (String.length s - 1) in
  let a = ints rest in
  match s.[0], a with
  | ('A' | 'E'), vs -> Some (SOp (ONewSeq (KArray, vs))) (* E F G H: other element types, same semantics *)
  | ('L' | 'F'), vs -> Some (SOp (ONewSeq (KList, vs))) 
  | ('T' | 'G'), vs -> Some (SOp (ONewMap (KTable, pairs vs))) 
  | ('R' | 'H'), vs -> Some (SOp (ONewMap (KTree, pairs vs))) 
  | 'B', [v] -> Some (SOp (ONewBox v))
  | 'p', [c; v] -> Some (SOp (OPush (nat_of_z c, v))) 
  | 'o', [c] -> Some (SOp (OPop (nat_of_z c))) 
  | 'i', [c; i; v] -> Some (SPushAt (nat_of_z c, i, v))
  | 'x', [c; i] -> Some (SPopAt (nat_of_z c, i))
  | 's', [c; i; v] -> Some (SSet (nat_of_z c, i, v))
  | 'r', [c; v] -> Some (SOp (ORem (nat_of_z c, v))) 
  | 'c', [c; d] -> Some (SOp (OConcat (nat_of_z c, nat_of_z d))) 
  | 'z', [c; n] -> Some (SOp (OResize (nat_of_z c, nat_of_z n))) 
  | 'q', [c] -> Some (SOp (OSort (nat_of_z c))) 
  | 'a', [c; d] -> Some (SOp (OAssign (nat_of_z c, nat_of_z d))) 
  | 'y', [d] -> Some (SOp (OCopy (nat_of_z d))) 
  | 'd', [c] -> Some (SOp (ODel (nat_of_z c))) 
  | 'm', [c; k; v] -> Some (SOp (OMSet (nat_of_z c, k, v))) 
  | 'n', [c; k] -> Some (SOp (OMRem (nat_of_z c, k))) 
  | _ -> None
let zcmp a b = if z_ltb a b then -1 else if z_ltb b a then 1 else 0
let dump w =
  String.concat "/" (List.mapi (fun i oc ->
    string_of_int i ^ (match oc with
      | None -> "-"
      | Some (CSeq (k, l)) ->
          (match k with KArray -> "A[" | _ -> "L[") ^ String.concat "," (List.map (fun c -> z_to_dec c.cval) l) ^ "]#" ^ string_of_int (List.length l)
      | Some (CMap (k, l)) ->
          let l = List.sort (fun (a, _) (b, _) -> zcmp a.cval b.cval) l in
          (match k with KTable -> "T{" | _ -> "R{") ^ String.concat "," (List.map (fun (a, b) -> z_to_dec a.cval ^ "=" ^ z_to_dec b.cval) l) ^ "}#" ^ string_of_int (List.length l)
      | Some (CBox None) -> "B()"
      | Some (CBox (Some c)) -> "B(" ^ z_to_dec c.cval ^ ")")) (conts w))
let () =
  read_lines (fun line ->
    let toks = List.filter (fun x -> x <> "") (String.split_on_char ' ' line) in
    let w = ref w_init in
    let outs = List.map (fun t ->
      let before = !w in
      (match parse_op t with Some o -> w := sstep before o | None -> ());
      let nd0 = List.length (dead before) in
      let killed = List.filteri (fun i _ -> i >= nd0) (dead !w) in
      let dv = List.sort zcmp (List.map snd killed) in
      let nc = int_of_nat (next !w) - int_of_nat (next before) in
      let nz = int_of_nat (zdead !w) - int_of_nat (zdead before) in
      let live = int_of_nat (next !w) - List.length (dead !w) in
      Printf.sprintf "C%d;D%s;Z%d;live=%d;%s" nc (String.concat "," (List.map z_to_dec dv)) nz live (dump !w)) toks in
    print_endline (String.concat " | " outs))
