(* Config_driver.ml — correspondence driver for the configuration model (C18), sequence API of Array.c.
   stdin: one case per line    seq|<v>,<v>,...|<op> <op> ...
     initial elements (may be empty), then operations:
       g<i> get   s<i>,<v> set   p<v> push   P<v>,<i> push_at   o pop   O<i> pop_at   l len   m<v> mem   r<v> rem
   argv[1] = model0 (default build: checks on) | model1 (CELLO_NDEBUG: checks off) | spec | fires
   one output line per case, operations separated by " | ":
     model:  <out>;<len>;<v>,<v>,...     out = ok | v<z> | IndexOutOfBoundsError | ValueError | CRASH (ends the line)
     spec:   same, or OOC (outside the contract; ends the line)
     fires:  1 if some bounds test succeeds along the history (all-checks build), else 0 *)
let exn_s = function
  | XIndexOutOfBounds -> "IndexOutOfBoundsError" | XValueError -> "ValueError" | XKeyError -> "KeyError"
  | XOutOfMemory -> "OutOfMemoryError" | XResourceError -> "ResourceError" | XClassError -> "ClassError"
  | XTypeError -> "TypeError" | XFormatError -> "FormatError" | XUser n -> "User" ^ string_of_int (int_of_nat n)
let out_s = function
  | ODone -> "ok" | OVal v -> "v" ^ z_to_dec v | ORaise e -> exn_s e | OCrash -> "CRASH"
let two s = match String.split_on_char ',' s with
  | [a; b] -> (z_of_dec a, z_of_dec b) | _ -> failwith ("bad pair " ^ s)
let parse_op s : aop =
  let rest = String.sub s 1 (String.length s - 1) in
  match s.[0] with
  | 'g' -> AGet (z_of_dec rest)
  | 's' -> let (i, v) = two rest in ASet (i, v)
  | 'p' -> APush (z_of_dec rest)
  | 'P' -> let (v, i) = two rest in APushAt (v, i)
  | 'o' -> APop
  | 'O' -> APopAt (z_of_dec rest)
  | 'l' -> ALen
  | 'm' -> AMem (z_of_dec rest)
  | 'r' -> ARem (z_of_dec rest)
  | _ -> failwith ("bad op " ^ s)
let state_s (s : z list) =
  string_of_int (List.length s) ^ ";" ^ String.concat "," (List.map z_to_dec s)
(* heap programs (collector switch):   hp|<nregs>|<op> <op> ...
     A<dst>,<v>[,<path>]*   R<path>   W<path>,<v>   S<path>,<i>,<path>   M<dst>,<path>   D<dst>   C (forced collection: no model step)
     path = root[.index]*        argv[1] = heap0 (no collector) | heap1 (collector: sweep_unreferenced before every operation)
   output: ok | v<z> | bad  per operation *)
let parse_path s : nat * nat list =
  match List.map int_of_string (String.split_on_char '.' s) with
  | r :: is -> (nat_of_int r, List.map nat_of_int is)
  | [] -> failwith "bad path"
let parse_gop s : gop option =
  let rest = String.sub s 1 (String.length s - 1) in
  let f = String.split_on_char ',' rest in
  match s.[0], f with
  | 'A', dst :: v :: ps -> Some (GAlloc (nat_of_int (int_of_string dst), z_of_dec v, List.map parse_path ps))
  | 'R', [p] -> Some (GRead (parse_path p))
  | 'W', [p; v] -> Some (GWrite (parse_path p, z_of_dec v))
  | 'S', [p; i; q] -> Some (GSetField (parse_path p, nat_of_int (int_of_string i), parse_path q))
  | 'M', [dst; p] -> Some (GMove (nat_of_int (int_of_string dst), parse_path p))
  | 'D', [dst] -> Some (GDrop (nat_of_int (int_of_string dst)))
  | 'C', _ -> None
  | _ -> failwith ("bad heap op " ^ s)
let gout_s = function GUnit -> "ok" | GVal v -> "v" ^ z_to_dec v | GBad -> "bad"
let heap_case mode nregs ops =
  let toks = List.filter (fun s -> s <> "") (String.split_on_char ' ' ops) in
  let gops = List.map parse_gop toks in
  let real = List.filter_map (fun x -> x) gops in
  let (_, outs) = grun (mode = "heap1") g_collect O real (g_init (nat_of_int (int_of_string nregs))) in
  (* re-insert the forced collections, which print ok *)
  let rec merge gs os = match gs, os with
    | [], _ -> []
    | None :: r, _ -> "ok" :: merge r os
    | Some _ :: r, o :: os' -> gout_s o :: merge r os'
    | Some _ :: _, [] -> ["MODELERROR"] in
  String.concat " | " (merge gops outs)
let () =
  let mode = Sys.argv.(1) in
  read_lines (fun line ->
    match String.split_on_char '|' line with
    | ["hp"; nregs; ops] -> print_string (heap_case mode nregs ops); print_newline ()
    | [_; init; ops] ->
      let s0 = List.map z_of_dec (split_on ',' init) in
      let ops = List.map parse_op (List.filter (fun s -> s <> "") (String.split_on_char ' ' ops)) in
      let buf = Buffer.create 256 in
      let sep () = if Buffer.length buf > 0 then Buffer.add_string buf " | " in
      (match mode with
       | "fires" -> Buffer.add_string buf (if afires ops s0 then "1" else "0")
       | "spec" ->
         (* step by step so that the state after every operation can be printed *)
         let rec go s = function
           | [] -> ()
           | o :: r ->
             (match aspec_history [o] s with
              | (s', [Some out]) -> sep (); Buffer.add_string buf (out_s out ^ ";" ^ state_s s'); go s' r
              | _ -> sep (); Buffer.add_string buf "OOC")
         in go s0 ops
       | _ ->
         let c = cfg_build (mode = "model1") false false in
         let rec go s = function
           | [] -> ()
           | o :: r ->
             (match arun c [o] s with
              | (_, [OCrash]) -> sep (); Buffer.add_string buf "CRASH"
              | (s', [out]) -> sep (); Buffer.add_string buf (out_s out ^ ";" ^ state_s s'); go s' r
              | _ -> sep (); Buffer.add_string buf "MODELERROR")
         in go s0 ops);
      print_string (Buffer.contents buf); print_newline ()
    | _ -> print_string "BADCASE"; print_newline ())
