(* Format_driver.ml — correspondence driver for the print-formatting model (C14).
   stdin: one case per line
       <pos>|<init>|<fmt>|<items>|<args>~<refs>
     pos    start position (decimal)
     init   hex of the sink's initial content (String: its text; File: what the file already holds)
     fmt    hex of the format text
     items  ';'-separated grammar items the generator built the format from:
              L<hex> literal | P "%%" | C<flags>,<width>,<prec>,<len>,<conv> (hex each) | D "%$"
     args   ';'-separated argument descriptors (only their NUMBER matters here)
     refs   ';'-separated, one per item: hex of the reference text of that item (libc's snprintf of the
            one specification with the C value the property assigns; show text for %$), '-' when the
            item has no argument.  These stand for the Section variables render/show of the model.
   argv[1] = model: the extracted print_to (scanner + sinks) is run on the format BYTES
               S:<exn>:<ret>:<hex> | F:<exn>:<ret>:<hex> | C:<exn>:<ret>:<call>,<call>...
               hex = the sink's bytes afterwards (String: cut at the first NUL = its C string)
               call = F<pos>.<piecehex> (format_to) or S<pos>.<arg#> (show_to)
   argv[1] = spec: the grammar-level meaning (Format.texts over the ITEMS)
               S:<exn>:<ret>:<prefix>:<text> | F:<exn>:<ret>:<hex>      '*' when FormatError
               prefix = the bytes of init before pos (all of init when pos is beyond), text = what
               must appear at [pos,ret); File: init followed by text *)
let hexdig = "0123456789abcdef"
let bytes_of_hex (s : string) : nat list =
  let n = String.length s / 2 in
  List.init n (fun i -> nat_of_int (int_of_string ("0x" ^ String.sub s (2 * i) 2)))
let hex_of_bytes (l : nat list) : string =
  let b = Buffer.create 64 in
  List.iter (fun c -> let c = int_of_nat c in
    Buffer.add_char b hexdig.[(c lsr 4) land 15]; Buffer.add_char b hexdig.[c land 15]) l;
  Buffer.contents b
let parse_item (s : string) : item =
  match s.[0] with
  | 'L' -> Lit (bytes_of_hex (String.sub s 1 (String.length s - 1)))
  | 'P' -> Percent
  | 'D' -> ShowDollar
  | 'C' -> (match String.split_on_char ',' (String.sub s 1 (String.length s - 1)) with
            | [f; w; p; l; c] ->
              (match bytes_of_hex c with
               | [cc] -> Conv (bytes_of_hex f, bytes_of_hex w, bytes_of_hex p, bytes_of_hex l, cc)
               | _ -> failwith "bad conv char")
            | _ -> failwith "bad C item")
  | _ -> failwith "bad item"
let marker = List.map nat_of_int [60; 63; 62]     (* "<?>" : the model asked for a rendering the generator did not intend *)
let kind_eq a b = match a, b with
  | KInt, KInt | KFloat, KFloat | KStr, KStr | KPtr, KPtr -> true | _ -> false
let rec cut0 = function [] -> [] | c :: r -> if c = O then [] else c :: cut0 r
let exn_of = function ODone _ -> "ok" | ORaise _ -> "FormatError" | OCrash -> "CRASH" | OFuel -> "OUTOFFUEL"
let () =
  let mode = Sys.argv.(1) in
  read_lines (fun line ->
    try
      let case, refs = match String.index_opt line '~' with
        | Some i -> String.sub line 0 i, String.sub line (i + 1) (String.length line - i - 1)
        | None -> line, "" in
      match String.split_on_char '|' case with
      | [pos; init; fmt; items; args] ->
        let pos = nat_of_int (int_of_string pos) in
        let init = bytes_of_hex init and fmt = bytes_of_hex fmt in
        let items = List.map parse_item (split_on ';' items) in
        let nargs = List.length (split_on ';' args) in
        let refs = Array.of_list (List.map (fun r -> if r = "-" then None else Some (bytes_of_hex r))
                                    (String.split_on_char ';' refs)) in
        if Array.length refs < List.length items then failwith "refs";
        if f_unparse items <> fmt then failwith "format text is not the unparsing of the items";
        if not (f_wf_items items) then failwith "items not well-formed";
        (* consumer #k -> (item, reference text) *)
        let cons = Array.of_list (List.filter (fun (it, _) -> f_consumes it)
                                    (List.mapi (fun i it -> (it, refs.(i))) items)) in
        let render piece kind (v : int) =
          if v >= Array.length cons then Some marker else
          match cons.(v) with
          | (Conv (_, _, _, _, c) as it, Some r) when f_unparse_item it = piece && kind_eq kind (f_conv_kind c) -> Some r
          | _ -> Some marker in
        let show (v : int) =
          if v >= Array.length cons then marker else
          match cons.(v) with (ShowDollar, Some r) -> r | _ -> marker in
        let argl = List.init nargs (fun i -> i) in
        if mode = "model" then begin
          let run k = f_print_to render show k pos fmt argl in
          let sec tag o =
            match o with
            | ODone st | ORaise st ->
              Printf.sprintf "%s:%s:%d:%s" tag (exn_of o) (match o with ODone _ -> int_of_nat st.p_pos | _ -> -1)
                (hex_of_bytes (match st.p_sink with SString s -> cut0 s | SFile s -> s))
            | _ -> Printf.sprintf "%s:%s" tag (exn_of o) in
          let os = run (SString init) and ofl = run (SFile init) in
          let calls = match os with
            | ODone st | ORaise st ->
              Printf.sprintf "C:%s:%d:%s" (exn_of os) (match os with ODone _ -> int_of_nat st.p_pos | _ -> -1)
                (String.concat "," (List.rev_map (function
                   | CFmt (p, piece, _) -> Printf.sprintf "F%d.%s" (int_of_nat p) (hex_of_bytes piece)
                   | CShow (p, a) -> Printf.sprintf "S%d.%d" (int_of_nat p) (int_of_nat a)) st.p_calls))
            | _ -> "C:" ^ exn_of os in
          print_endline (sec "S" os ^ " | " ^ sec "F" ofl ^ " | " ^ calls)
        end else begin
          let rnd piece kind (v : int) = render piece kind v in
          match f_texts rnd show items argl with
          | None -> print_endline "S:FormatError:-1:*:* | F:FormatError:-1:*"
          | Some ts ->
            let w = List.concat ts in
            let n = List.length w and p = int_of_nat pos in
            let rec take k l = if k <= 0 then [] else match l with [] -> [] | x :: r -> x :: take (k - 1) r in
            Printf.printf "S:ok:%d:%s:%s | F:ok:%d:%s\n" (p + n) (hex_of_bytes (take p init)) (hex_of_bytes w)
              (p + n) (hex_of_bytes (init @ w))
        end
      | _ -> print_endline "BADCASE"
    with e -> print_endline ("BADCASE " ^ Printexc.to_string e))
