(* Threads_driver.ml — correspondence driver for the interleaving machine of Threads.v (C13).
   stdin: one case per line
       <nmutex>[g][s]|<sched>|<prog0>|<prog1>|...
     sched = comma separated thread ids (a schedule prefix; the run is completed round-robin)
     prog  = tokens separated by blanks:
       a0 a1  u<i>  c  s<k>,<v>  g<k>  m<k>  r<k>  e<v>  w<k>,<n>  o  y  z<ms>  t<e>
       (S<t> on a Thread object whose run has finished and been joined calls it again: trace marker R)
       [ body ]<e>,<e>.. handler }        try { body } catch (x in e,e..) { handler }
       L<m> U<m> T<m>  W<m>( body )  Q<m>( body )  i<m>  S<t> J<t> P<t>      (Q = if (trylock) { body; unlock })
   argv[1]:
     model  the machine under the given schedule:   t0:<ev>,<ev>.. / t1:.. # c0=<n>,.. # P<t>=[..];.. # <flags>
     spec   every thread on its own (lstep iterated), the counters as the number of stores
            executed, what a peek after join must read:      same format
     sched2 like model but under the reversed/rotated schedule (sanity of schedule independence) *)
let rec parse_block (toks : string list) (stop : string -> bool) : op list * string list =
  match toks with
  | [] -> ([], [])
  | t :: rest when stop t -> ([], toks)
  | t :: rest ->
    let num s = nat_of_int (int_of_string s) in
    let arg = String.sub t 1 (String.length t - 1) in
    let pair s = match String.split_on_char ',' s with
      | [a; b] -> (num a, num b) | _ -> failwith ("bad pair " ^ t) in
    let (o, rest) =
      match t.[0] with
      | 'a' -> (OAlloc (arg = "1"), rest)
      | 'u' -> (OUnroot (num arg), rest)
      | 'c' -> (OCollect, rest)
      | 's' -> let (k, v) = pair arg in (OTlsSet (k, v), rest)
      | 'g' -> (OTlsGet (num arg), rest)
      | 'm' -> (OTlsMem (num arg), rest)
      | 'r' -> (OTlsRem (num arg), rest)
      | 'e' -> (OEmit (num arg), rest)
      | 'p' -> (OPub (num arg), rest)           (* p0 = new_root result, p1 = new_raw result *)
      | 'h' -> (OAlloc true, rest)              (* h<j>: managed object rooted ONLY through the thread's TLS (key __t<j> / t<j>) *)
      | 'w' -> let (k, n) = pair arg in (OWork (k, n), rest)
      | 'o' -> (OObs, rest)
      | 'y' -> (OYield, rest)
      | 'x' -> (OThrow (nat_of_int (6 + int_of_string arg mod 6)), rest)   (* a signal raised in this thread = its exception (exception_signals) *)
      | 'd' -> (OYield, rest)      (* del() of another thread's object: nothing *)
      | 'D' -> (OYield, rest)      (* the owner releases a published result *)
      | 'z' -> (OYield, rest)          (* z<ms>: sleep — nothing for the machine *)
      | 't' -> (OThrow (num arg), rest)
      | '[' ->
        let (body, r1) = parse_block rest (fun s -> s.[0] = ']') in
        (match r1 with
         | c :: r2 ->
           let cs = List.map num (split_on ',' (String.sub c 1 (String.length c - 1))) in
           let (h, r3) = parse_block r2 (fun s -> s = "}") in
           (match r3 with
            | _ :: r4 -> (OTry (body, cs, h), r4)
            | [] -> failwith "unterminated handler")
         | [] -> failwith "unterminated try")
      | 'L' -> (OLock (num arg), rest)
      | 'B' -> (OLock (num arg), rest)      (* lock() after a failed trylock(): a blocking acquisition *)
      | 'U' -> (OUnlock (num arg), rest)
      | 'T' -> (OTrySpin (num arg), rest)
      | 'W' ->
        let m = num (String.sub arg 0 (String.length arg - 1)) in
        let (body, r1) = parse_block rest (fun s -> s = ")") in
        (match r1 with _ :: r2 -> (OWith (m, body), r2) | [] -> failwith "unterminated with")
      | 'Q' ->
        let m = num (String.sub arg 0 (String.length arg - 1)) in
        let (body, r1) = parse_block rest (fun s -> s = ")") in
        (match r1 with _ :: r2 -> (OTryOnce (m, body), r2) | [] -> failwith "unterminated try-once")
      | 'i' -> (OIncr (num arg), rest)
      | 'S' -> (OSpawn (num arg), rest)
      | 'K' -> let (v, u) = pair arg in (OSpawnCopy (v, u), rest)      (* K<v>,<u>: thr v = copy(Thread of u); call *)
      | 'J' -> (OJoin (num arg), rest)
      | 'P' -> (OPeek (num arg), rest)
      | _ -> failwith ("bad token " ^ t) in
    let (more, rest') = parse_block rest stop in
    (o :: more, rest')

let parse_prog (s : string) : op list =
  let toks = List.filter (fun x -> x <> "") (String.split_on_char ' ' s) in
  let (p, rest) = parse_block toks (fun _ -> false) in
  if rest <> [] then failwith "trailing tokens"; p

let i = int_of_nat
let oids me l =
  "{" ^ String.concat "+" (List.map (fun (o, s) ->
      (if i o <> me then "!" ^ string_of_int (i o) ^ "." else "") ^ string_of_int (i s)) l) ^ "}"
let ev_s me = function
  | EvEmit v -> "e" ^ string_of_int (i v)
  | EvPub (k, sn) -> "p" ^ string_of_int (i k) ^ "." ^ string_of_int (i sn)
  | EvWork (k, n) -> "w" ^ string_of_int (i k) ^ "." ^ string_of_int (i n)
  | EvGet (k, v) -> "g" ^ string_of_int (i k) ^ "=" ^ string_of_int (i v)
  | EvMem (k, b) -> "m" ^ string_of_int (i k) ^ "=" ^ (if b then "1" else "0")
  | EvObs (d, a, nt, nr) -> Printf.sprintf "o%d.%d.%d.%d" (i d) (if a then 1 else 0) (i nt) (i nr)
  | EvCaught e -> "C" ^ string_of_int (i e)
  | EvFin l -> "f" ^ oids me l
  | EvFatal e -> "F" ^ string_of_int (i e)
  | EvExit l -> "x" ^ oids me l
  | EvRestart -> "R"
let trace_s me (out : ev list) = String.concat "," (List.rev_map (ev_s me) out)

let head_store (l : lstate) = match l.code with KStore m :: _ -> Some (i m) | _ -> None

let () =
  let mode = Sys.argv.(1) in
  read_lines (fun line ->
    try
      match String.split_on_char '|' line with
      | nm :: sched :: progs ->
        (* a trailing g = the Thread objects are owned by the main thread's collector (nothing for the machine) *)
        let nm = int_of_string (String.concat "" (String.split_on_char 'x' (String.concat "" (String.split_on_char 'n' (String.concat "" (String.split_on_char 's' (String.concat "" (String.split_on_char 'g' nm)))))))) in
        let progs = List.map parse_prog progs in
        let n = List.length progs in
        let sched = List.map (fun s -> nat_of_int (int_of_string s)) (split_on ',' sched) in
        let buf = Buffer.create 256 in
        if mode = "spec" then begin
          let cells = Array.make (max nm 1) 0 in
          (* how often every Thread object is called: the number of S<u> anywhere (at least one run) *)
          let rec spawns (p : op list) = List.concat_map (function
              | OSpawn u -> [i u] | OSpawnCopy (v, _) -> [i v] | OTry (b, _, h) -> spawns b @ spawns h | OWith (_, b) -> spawns b
              | OTryOnce (_, b) -> spawns b | _ -> []) p in
          let all_spawns = List.concat_map spawns progs in
          let rounds t = max 1 (List.length (List.filter (fun u -> u = t) all_spawns)) in
          (* after_run.(t) = the thread's whole trace after its 1st, 2nd, ... run (newest first) *)
          let after_run = Array.make n [] in
          (* a Thread object made by copy() starts with a snapshot of the source's TLS: of the copying thread itself at
             that instruction, or the final TLS of a finished source (threads are simulated on demand, memoised) *)
          let snap = Array.make n [] in
          let memo = Array.make n None in
          let progs_a = Array.of_list progs in
          let rec final t =
            match memo.(t) with
            | Some l -> l
            | None ->
              let p = progs_a.(t) in
              let l = ref (set_tls (th_linit (nat_of_int t) p) snap.(t)) in
              for r = 1 to rounds t do
                if r > 1 then l := restart !l p;
                let fuel = ref 100000 in
                while not (!l).done0 && not (!l).fatal && !fuel > 0 do
                  (match head_store !l with Some m when m < nm -> cells.(m) <- cells.(m) + 1 | _ -> ());
                  (match (!l).code with
                   | KOp (OSpawnCopy (v, u)) :: _ when i v < n && i u < n ->
                     snap.(i v) <- (if i u = t then (!l).tls else (final (i u)).tls)
                   | _ -> ());
                  l := th_lstep true !l; decr fuel
                done;
                after_run.(t) <- (!l).out :: after_run.(t)
              done;
              memo.(t) <- Some !l;
              !l in
          let finals = List.mapi (fun t _ -> final t) progs in
          Buffer.add_string buf (String.concat " / " (List.mapi (fun t l ->
              Printf.sprintf "t%d:%s" t (trace_s t l.out)) finals));
          Buffer.add_string buf " # ";
          Buffer.add_string buf (String.concat "," (List.init nm (fun m -> Printf.sprintf "c%d=%d" m cells.(m))));
          Buffer.add_string buf " # ";
          (* what a peek must read: the peeked thread's trace through its latest run called by the peeker so far *)
          let rec flat (p : op list) = List.concat_map (function
              | OTry (b, _, _) -> flat b | OWith (_, b) -> flat b | o -> [o]) p in
          let peek_items t (p : op list) =
            let called = Hashtbl.create 8 in
            List.concat_map (function
              | OSpawn u | OSpawnCopy (u, _) -> Hashtbl.replace called (i u) (1 + (try Hashtbl.find called (i u) with Not_found -> 0)); []
              | OPeek u ->
                let u = i u in
                let r = (try Hashtbl.find called u with Not_found -> 0) in
                let tr = if u < n && r >= 1 && r <= List.length after_run.(u)
                  then trace_s u (List.nth (List.rev after_run.(u)) (r - 1)) else "?" in
                [Printf.sprintf "%d:P%d=[%s]" t u tr]
              | _ -> []) (flat p) in
          Buffer.add_string buf (String.concat ";" (List.concat (List.mapi peek_items progs)));
          Buffer.add_string buf " # ";
          (* contract check: the machine under the case's schedule must terminate cleanly (no abort, no
             undefined behaviour, nobody stuck, no mutex left held) *)
          let g = th_rr (nat_of_int 20000) (nat_of_int n) (th_run sched (th_ginit progs)) in
          let bad = g.aborted || List.exists (fun (_, s) -> s.ub || s.holding <> []) g.thr
                    || not (th_all_done g) in
          if List.exists (fun l -> l.fatal) finals then Buffer.add_string buf "ABORTED"
          else if bad then Buffer.add_string buf "OUTOFCONTRACT"
          else Buffer.add_string buf "ok"
        end else begin
          let sched = if mode = "sched2" then List.rev sched else sched in
          let g = th_run sched (th_ginit progs) in
          let g = th_rr (nat_of_int 20000) (nat_of_int n) g in
          Buffer.add_string buf (String.concat " / " (List.mapi (fun t (l, _) ->
              Printf.sprintf "t%d:%s" t (trace_s t l.out)) g.thr));
          Buffer.add_string buf " # ";
          Buffer.add_string buf (String.concat "," (List.init nm (fun m ->
              Printf.sprintf "c%d=%d" m (i (g.cells (nat_of_int m))))));
          Buffer.add_string buf " # ";
          Buffer.add_string buf (String.concat ";" (List.concat (List.mapi (fun t (_, s) ->
              List.rev_map (fun (u, tr) -> Printf.sprintf "%d:P%d=[%s]" t (i u) (trace_s (i u) tr)) s.seen) g.thr)));
          Buffer.add_string buf " # ";
          let flags = (if g.aborted then ["ABORTED"] else [])
                      @ (if List.exists (fun (_, s) -> s.ub) g.thr then ["UB"] else [])
                      @ (if not g.aborted && not (th_all_done g) then ["STUCK"] else [])
                      @ (List.concat (List.mapi (fun t (_, s) ->
                          if s.holding <> [] then [Printf.sprintf "HELD%d" t] else []) g.thr)) in
          Buffer.add_string buf (if flags = [] then "ok" else String.concat "," flags)
        end;
        print_endline (Buffer.contents buf)
      | _ -> print_endline "BADCASE"
    with Failure m -> print_endline ("BADCASE " ^ m))
