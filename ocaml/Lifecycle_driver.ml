(* Lifecycle_driver.ml — correspondence driver for the life-cycle machine (C06).
   stdin: one case per line   <mode>|<op> <op> ...      (mode is for the C harness only)
     ops:  n<id> b<id>   new managed plain / Box        N<id> B<id>  new_root      w<id> W<id>  new_raw
           k<id>,<src>  copy of <src> (a new managed plain object)
           optional  :<m>,<m>,..   marks used if the allocation triggers a threshold collection
           l<b>,<o>  the Box b now owns o     l<b>,-  cleared
           d<id> del    D<id> del_root   x<id> del_raw
           c<m>,<m>,.. forced collection with these marks     s stop   S start   t teardown
           u<id>  (harness only: forget the stack reference; no model event)
           any op may carry  @<id>[r][*],<id>[r][*],...  = registry slot order and marks observed
           from the real library right before its sweep (overrides the scripted marks)
   argv[1] = model | spec ; one output line per case, ops separated by " | ":
     model:  <C|-|M|U>;<id>:<fin>:<free>,...;<id>[r],...;<nitems>,<mitems>,<running>   (flags BAD/OOF appended)
     spec:   <id>,<id>,...  = objects that must have been finalised exactly once by now (sorted) *)
let ios = int_of_string
let ids_of s = List.map (fun x -> nat_of_int (ios x)) (split_on ',' s)
let parse_obs s =
  (* "3*,5r,7" -> order, marks *)
  let items = split_on ',' s in
  let order = ref [] and marks = ref [] in
  List.iter (fun it ->
    let n = String.length it in
    let starred = n > 0 && it.[n-1] = '*' in
    let core = String.concat "" (List.filter (fun c -> c <> "*" && c <> "r") (List.map (String.make 1) (List.of_seq (String.to_seq it)))) in
    if core <> "" && core <> "?" then begin
      let i = nat_of_int (ios core) in
      order := i :: !order; if starred then marks := i :: !marks end) items;
  (List.rev !order, List.rev !marks)
(* one token -> what the machine needs:
     mk      : first observation (order, marks) -> the main event
     spawn   : objects the destructor of the new object allocates (ESpawn after the ENew)
     obs     : the observations (order, marks) of the sweeps the library made during this operation
     observed: the token carried observations
   or None for harness-only ops *)
type tok = { mk : (nat list * nat list) -> ev; spawn : (nat * nat list) option;
             obs : (nat list * nat list) list; observed : bool; scripted : nat list }
(* objects whose destructor opens a stop/start window of its own: allocation tokens with `~` after the id *)
let wins : int list ref = ref []
let win (o : nat) : bool = List.mem (int_of_nat o) !wins
let strip_tilde b = String.concat "" (String.split_on_char '~' b)
let scan_wins ops =
  wins := List.filter_map (fun o ->
    let b = match String.index_opt o '@' with Some i -> String.sub o 0 i | None -> o in
    let b = match String.index_opt b ':' with Some i -> String.sub b 0 i | None -> b in
    match String.index_opt b '~' with
    | Some i when i >= 2 -> (try Some (int_of_string (String.sub b 1 (i - 1))) with _ -> None)
    | _ -> None) ops
let parse_op s : tok option =
  let body, obs = match String.index_opt s '@' with
    | Some i -> String.sub s 0 i, Some (String.sub s (i+1) (String.length s - i - 1))
    | None -> s, None in
  let body, marks = match String.index_opt body ':' with
    | Some i -> String.sub body 0 i, ids_of (String.sub body (i+1) (String.length body - i - 1))
    | None -> body, [] in
  let body = strip_tilde body in
  (* a<id>+c+c / q<id>+c+c : managed / raw object whose destructor allocates c, c, ... *)
  let body, children = match String.index_opt body '+' with
    | Some i -> String.sub body 0 i,
                List.map (fun x -> nat_of_int (ios x)) (List.filter (fun x -> x <> "") (String.split_on_char '+' (String.sub body i (String.length body - i))))
    | None -> body, [] in
  (* k<id>,<src> : copy = a new managed plain object *)
  let body = if body.[0] = 'k' then (match String.index_opt body ',' with Some i -> "n" ^ String.sub body 1 (i - 1) | None -> body) else body in
  let rest = String.sub body 1 (String.length body - 1) in
  let obsl, observed = match obs with
    | Some o -> List.map parse_obs (String.split_on_char '/' o), true
    | None -> [], false in
  let ret ?(spawn = None) ?(scripted = marks) mk = Some { mk; spawn; obs = obsl; observed; scripted } in
  let nw k b =
    let o = nat_of_int (ios rest) in
    ret ~spawn:(if children = [] then None else Some (o, children)) (fun (ord, mk) -> ENew (k, b, o, ord, mk)) in
  match body.[0] with
  | 'n' | 'a' -> nw KManaged false | 'b' -> nw KManaged true
  | 'N' -> nw KRoot false | 'B' -> nw KRoot true
  | 'w' | 'q' -> nw KRaw false | 'W' -> nw KRaw true
  | 'l' -> (match String.split_on_char ',' rest with
            | [b; "-"] -> ret (fun _ -> ELink (nat_of_int (ios b), None))
            | [b; o] -> ret (fun _ -> ELink (nat_of_int (ios b), Some (nat_of_int (ios o))))
            | _ -> failwith "bad l")
  | 'd' -> ret (fun _ -> EDel (KManaged, nat_of_int (ios rest)))
  | 'D' -> ret (fun _ -> EDel (KRoot, nat_of_int (ios rest)))
  | 'x' -> ret (fun _ -> EDel (KRaw, nat_of_int (ios rest)))
  | 'c' -> ret ~scripted:(ids_of rest) (fun (ord, mk) -> ECollect (ord, mk))
  | 's' -> ret (fun _ -> EStop) | 'S' -> ret (fun _ -> EStart)
  | 't' -> ret (fun (ord, _) -> ETeardown ord)
  | 'u' -> None
  | _ -> failwith ("bad op " ^ s)
(* run one token on the machine; returns the new state and the tag
     C  sweeps happened and every observation was consumed, none was missing
     -  no sweep, no observation
     M  the machine swept more often than the library showed     U  observations left over *)
let nsent = 4
let model_token (s : st) (t : tok) : st * string =
  let probe = t.mk ([], []) in
  let will = lc_will_sweep s probe in
  let first, queue =
    if will then (match t.obs with o :: r -> o, r | [] -> ([], t.scripted), [])
    else ([], t.scripted), t.obs in
  let sentinels = List.init nsent (fun _ -> ([], t.scripted)) in
  let s1 = lc_step win s (EObs (queue @ sentinels)) in
  let s2 = lc_step win s1 (t.mk first) in
  let s3 = match t.spawn with Some (o, cs) -> lc_step win s2 (ESpawn (o, cs)) | None -> s2 in
  let left = List.length s3.obsq in
  let missing = (will && t.obs = [] && t.observed) || (will && not t.observed) || left < nsent in
  let tag = if missing then "M" else if left > nsent then "U" else if t.obs <> [] then "C" else "-" in
  (s3, tag)
let route_of = function
  | 'r' -> RReturn | 'e' -> RExit | 'w' -> RExitInBlock | 't' -> RThrow | 's' -> RExitStatus | 'j' -> RExitAfterThread
  | 'T' | 'I' | 'F' -> RSigUncaught | 'a' -> RSigCaughtReturn | 'b' -> RSigCaughtThrow | 'c' -> RSigCaughtExit
  | c -> failwith ("bad route " ^ String.make 1 c)
let sorted_ids l = List.sort compare (List.map int_of_nat l)
let dump_model (s : st) =
  let ids = sorted_ids s.ids in
  let led = String.concat "," (List.map (fun i ->
    let o = nat_of_int i in
    Printf.sprintf "%d:%d:%d" i (int_of_nat (lc_fin s o)) (int_of_nat (lc_free s o))) ids) in
  let tail =
    if s.torn then "T;T" else
    let r = List.sort compare (List.map (fun (o, rt) -> (int_of_nat o, rt)) s.reg) in
    String.concat "," (List.map (fun (o, rt) -> string_of_int o ^ (if rt then "r" else "")) r) ^ ";" ^
    Printf.sprintf "%d,%d,%d" (int_of_nat (lc_nitems s)) (int_of_nat s.mitems) (if s.running then 1 else 0) in
  led ^ ";" ^ tail ^ (if s.bad then ";BAD" else "") ^ (if s.oof then ";OOF" else "")
(* spec step:  <must: finalised exactly once by now>/<kept: roots only del_root may finalise>[;BAD] *)
let dump_spec ((s, k) : sp * (nat list * nat list)) =
  let kept = List.filter (fun o -> not (lc_s_in (snd k) o)) (fst k) in
  String.concat "," (List.map string_of_int (sorted_ids s.s_must)) ^ "/" ^
  String.concat "," (List.map string_of_int (sorted_ids kept)) ^ (if s.s_bad then ";BAD" else "")
let () =
  let mode = Sys.argv.(1) in
  if mode = "rule" then
    (* the collection threshold rule of the tree, tabulated for the generator's own simulation *)
    print_endline (String.concat " " (List.init 1500 (fun i -> string_of_int (int_of_nat (lc_rule (nat_of_int i))))))
  else if mode = "params" then
    Printf.printf "rem_fix=%b sweep_fix=%b defer_fix=%b shape=%b main_atexit=%b main_after_return=%b error_exits=%b start_stop_keep_pending=%b\n" lc_rem_fix lc_sweep_fix lc_defer_fix lc_shape lc_main_atexit lc_main_after lc_err_exit lc_start_keep
  else
  read_lines (fun line ->
    match String.split_on_char '|' line with
    | [_; ops] ->
      let ops = List.filter (fun s -> s <> "") (String.split_on_char ' ' ops) in
      scan_wins ops;
      let buf = Buffer.create 256 in
      let first = ref true in
      let sep () = if !first then first := false else Buffer.add_string buf " | " in
      (try
        if mode = "model" then begin
          let _ = List.fold_left (fun s o ->
            if o.[0] = 'T' then begin
              (* program exit through route o.[1]: the wrapper's teardown arrangement decides *)
              let s' = lc_terminate win (route_of o.[1]) [] s in
              sep (); Buffer.add_string buf ("X;" ^ dump_model s'); s' end else
            match parse_op o with
            | None -> s
            | Some t ->
              let (s', tag) = model_token s t in
              sep (); Buffer.add_string buf (tag ^ ";" ^ dump_model s'); s') lc_init ops in ()
        end else begin
          let _ = List.fold_left (fun (s, k) o ->
            if o.[0] = 'T' then begin
              (* the specification: every way of ending the program is a teardown *)
              let s' = lc_sp_step s (ETeardown []) in
              sep (); Buffer.add_string buf (dump_spec (s', k)); (s', k) end else
            match parse_op o with
            | None -> (s, k)
            | Some t ->
              let e = t.mk ([], []) in
              let s' = lc_sp_step s e in
              let k' = lc_keep_step k e in
              sep (); Buffer.add_string buf (dump_spec (s', k')); (s', k')) (lc_sp_init, ([], [])) ops in ()
        end
      with Failure m -> (sep (); Buffer.add_string buf ("BADCASE " ^ m)));
      print_endline (Buffer.contents buf)
    | _ -> print_endline "BADCASE")
