#!/usr/bin/env python3
"""check.py <ID> [--tier quick|thorough]   |   check.py replay <file>"""
import sys, os, json, importlib, traceback
sys.path.insert(0, os.path.dirname(os.path.abspath(__file__)))
import vlib


def main():
    a = sys.argv[1:]
    if not a:
        print(__doc__); return 2
    if a[0] == 'replay':
        rp = json.load(open(a[1]))
        pid = rp['property']
        os.environ['VERIF_REPLAY'] = os.path.abspath(a[1])
        tier = rp.get('tier', 'quick')
        seed = rp.get('seed', 0)
    else:
        pid = a[0]
        tier = os.environ.get('VERIF_TIER', 'quick')
        if '--tier' in a:
            tier = a[a.index('--tier') + 1]
        seed = int(os.environ.get('VERIF_SEED', '1'))
    mod = importlib.import_module('props.' + pid)
    ctx = vlib.Ctx(pid, tier, seed)
    try:
        mod.run(ctx)
    except vlib.BuildError as e:
        # the repository no longer builds: nothing can be shown to hold
        ctx.notes.append('build error: %s' % e)
        ctx.violation('build', {'kind': 'build failure', 'detail': str(e)[-3000:],
                                'theorem_or_file': 'library build from working tree'}, no_failing_input=True)
    except vlib.ModelBuildError as e:
        ctx.notes.append('model build error: %s' % e)
        ctx.violation('model', {'kind': 'the Coq model no longer builds against coq/Generated.v regenerated from the source',
                                'detail': str(e)[-3000:], 'theorem_or_file': 'Extract_*.v / Generated.v'},
                      no_failing_input=True)
    except vlib.HarnessBuildError as e:
        ctx.notes.append('harness build error: %s' % e)
        ctx.violation('harness', {'kind': 'correspondence harness no longer builds against the source',
                                  'detail': str(e)[-3000:], 'theorem_or_file': 'correspondence harness'},
                      no_failing_input=True)
    except Exception as e:
        traceback.print_exc()
        ctx.notes.append('internal error: %r' % e)
        ctx.violation('internal', {'kind': 'check machinery error', 'detail': traceback.format_exc()[-3000:],
                                   'theorem_or_file': 'check.py'}, no_failing_input=True)
    return ctx.finish()


if __name__ == '__main__':
    sys.exit(main())
