/* lifecycle.c — correspondence harness for the object life cycle (C06), white-box.
 * Textually includes the working tree's src/GC.c (struct GC, the entries, the pending list are
 * visible) and is linked against every library object except GC.o.  The only `realloc` in GC.c
 * is the first statement of GC_Sweep: it is redirected to a hook, which therefore runs after
 * the mark phase and before the sweep — it records the registry's slot order with the mark
 * bits (the order of the pending list follows from it) and, in scripted mode, replaces the
 * marks by the ones the case dictates.  No edit of the repository is involved.
 *
 * Case:  <mode>|<op> <op> ...        (ops: see ocaml/Lifecycle_driver.ml)
 *   mode letters:  M main thread (collector created as the `main` macro does, teardown = Cello_Exit())
 *                  X like M, but teardown = exit() with atexit(Cello_Exit) as the `main` macro registers it
 *                  T the whole case runs in a Cello Thread; teardown = the thread function returns
 *                  O marks of every collection are overridden by the script (default)
 *                  V natural marks (real mark phase: references are held in a stack array, `u<id>` drops one)
 *                  R probe memory is really freed (default: quarantined until the case ends, so that
 *                    identities stay readable whatever the library does)
 * Transcript, per op:  <C<slot order>|->;<id>:<fin>:<free>,...;<id>[r],...;<nitems>,<mitems>,<running>
 *   and a trailer  " ## ph=<n> th=<n> ms=<n> sw=<n>"  (finaliser-issued dels that hit the pending list /
 *   the table / nothing; number of sweeps).                                                          */
#include "Cello.h"
static void* lc_hook_realloc(void* p, size_t n);
#define realloc lc_hook_realloc
#include "GC.c"
#undef realloc
#include "hcommon.h"

#define MAXID 4096
struct PObj { var val; int64_t id; int64_t isbox; };

static int      fin_cnt[MAXID], free_cnt[MAXID];
static var      objs[MAXID];          /* static memory: not seen by the collector */
static char     known[MAXID];
static int      maxid_seen;
static void*    quarantine[MAXID]; static int nquar;
static int      opt_override = 1, opt_reallyfree = 0;
static char     opt_where = 'M';
static struct GC* G;
static int64_t  next_id, next_isbox;
static int64_t  newborn = -1;
static int      cur_marks[MAXID]; static int ncur_marks;
static char     obsbuf[65536]; static int obslen; static int obs_set;
static long     n_ph, n_th, n_ms, n_sw, n_nest;
static int      in_teardown;
#define MAXSPAWN 4
static int      spawn[MAXID][MAXSPAWN]; static int nspawn[MAXID];   /* objects the destructor of <id> allocates */
static int      brkt[MAXID];          /* the destructor of <id> opens a stop/start window of its own */
static long     n_win;               /* windows opened while a sweep's pending list was non-empty */
static var      PObj;

static int64_t id_of(var p) {
  if (p == NULL) return -1;
  if (type_of(p) != PObj) return -1;
  int64_t id = ((struct PObj*)p)->id;
  return (id >= 0 && id < MAXID) ? id : -1;
}

static var PObj_Alloc(void) {
  struct Header* head = calloc(1, sizeof(struct Header) + sizeof(struct PObj));
  struct PObj* o = header_init(head, PObj, AllocHeap);
  o->id = next_id; o->isbox = next_isbox;      /* identity from birth: GC_Set may collect before construction */
  return o;
}
static void PObj_Dealloc(var self) {
  int64_t id = ((struct PObj*)self)->id;
  if (id >= 0 && id < MAXID) free_cnt[id]++;
  void* mem = ((char*)self) - sizeof(struct Header);
  if (opt_reallyfree) free(mem);
  else if (nquar < MAXID) quarantine[nquar++] = mem;
}
static void PObj_New(var self, var args) { }
/* copy(x) = alloc(type_of(x)) + assign: the copy gets its identity in PObj_Alloc; it owns nothing */
static void PObj_Assign(var self, var obj) { }
static void PObj_Del(var self) {
  struct PObj* o = self;
  if (o->id >= 0 && o->id < MAXID) fin_cnt[o->id]++;
  if (o->id >= 0 && o->id < MAXID && fin_cnt[o->id] == 1) {
    /* a destructor that allocates: new managed plain probes, referenced from nowhere */
    int me = (int)o->id;
    if (brkt[me] && G) {
      /* critical section around releasing a C resource: keep the collector quiet, then restore it */
      var gc = current(GC);
      bool was = running(gc);
      if (G->freenum > 0 && was) n_win++;
      stop(gc);
      { void* res = malloc(16); free(res); }
      if (was) start(gc);
    }
    int64_t save_newborn = newborn;
    for (int k = 0; k < nspawn[me]; k++) {
      int c = spawn[me][k];
      if (c < 0 || c >= MAXID || known[c]) continue;
      known[c] = 1; if (c > maxid_seen) maxid_seen = c;
      next_id = c; next_isbox = 0; newborn = c;
      objs[c] = new(PObj);
    }
    newborn = save_newborn;
  }
  if (o->isbox) {
    if (o->val && G && G->running) {
      int hit = 0;
      for (size_t i = 0; i < G->freenum; i++) if (G->freelist[i] == o->val) hit = 1;
      if (hit) n_ph++; else if (GC_Mem_Ptr(G, o->val)) n_th++; else n_ms++;
    }
    /* the real Box destructor (src/Pointer.c Box_Del): del(val); val = NULL — struct Box is {var val;} */
    struct New* bn = type_instance(Box, New);
    bn->destruct(self);
  }
}
static var PObj = Cello(PObj,
  Instance(New, PObj_New, PObj_Del),
  Instance(Assign, PObj_Assign),
  Instance(Alloc, PObj_Alloc, PObj_Dealloc));

static void* lc_hook_realloc(void* p, size_t n) {
  struct GC* gc = G;
  n_sw++;
  if (gc && gc->freenum > 0) n_nest++;       /* a collection started from inside a running sweep */
  if (gc) {
    if (obs_set && obslen < (int)sizeof(obsbuf) - 8) { obsbuf[obslen++] = '/'; obsbuf[obslen] = 0; }
    else { obslen = 0; obsbuf[0] = 0; }
    obs_set = 1;
    int first_item = 1;
    for (size_t i = 0; i < gc->nslots; i++) {
      if (gc->entries[i].hash == 0) continue;
      int64_t id = id_of(gc->entries[i].ptr);
      if (opt_override) {
        /* the real mark phase marks every root; a teardown has no mark phase */
        bool m = (id >= 0 && id == newborn) || (gc->entries[i].root && !in_teardown);
        for (int k = 0; k < ncur_marks && !m; k++) if (cur_marks[k] == id) m = true;
        gc->entries[i].marked = m;
      }
      if (obslen < (int)sizeof(obsbuf) - 32) {
        if (id < 0) obslen += sprintf(obsbuf + obslen, "%s?", first_item ? "" : ",");
        else obslen += sprintf(obsbuf + obslen, "%s%" PRId64 "%s%s", first_item ? "" : ",", id,
                               gc->entries[i].root ? "r" : "", gc->entries[i].marked ? "*" : "");
        first_item = 0;
      }
    }
  }
  return (realloc)(p, n);
}

static int cmp_i64(const void* a, const void* b) {
  int64_t x = *(const int64_t*)a, y = *(const int64_t*)b; return x < y ? -1 : x > y;
}

static int first_out = 1;
static void emit_state(int torn) {
  if (!first_out) P(" | "); first_out = 0;
  if (obs_set) P("C%s;", obsbuf); else P("-;");
  obs_set = 0;
  int f = 1;
  for (int i = 0; i <= maxid_seen; i++) if (known[i]) { P("%s%d:%d:%d", f ? "" : ",", i, fin_cnt[i], free_cnt[i]); f = 0; }
  if (torn || !G) { P(";T;T"); return; }
  static int64_t regd[MAXID * 2]; int nr = 0;
  for (size_t i = 0; i < G->nslots; i++) {
    if (G->entries[i].hash == 0) continue;
    int64_t id = id_of(G->entries[i].ptr);
    if (nr < MAXID * 2) regd[nr++] = id * 2 + (G->entries[i].root ? 1 : 0);
  }
  qsort(regd, nr, sizeof(int64_t), cmp_i64);
  P(";");
  for (int i = 0; i < nr; i++) P("%s%" PRId64 "%s", i ? "," : "", regd[i] / 2, (regd[i] & 1) ? "r" : "");
  P(";%zu,%zu,%d", G->nitems, G->mitems, G->running ? 1 : 0);
}

static void parse_marks(const char* s) {
  ncur_marks = 0;
  while (s && *s) {
    char* e; long v = strtol(s, &e, 10);
    if (e == s) break;
    if (ncur_marks < MAXID) cur_marks[ncur_marks++] = (int)v;
    s = (*e == ',') ? e + 1 : e;
    if (*e != ',') break;
  }
}

static int usable(long id) { return id >= 0 && id < MAXID && known[id] && fin_cnt[id] == 0 && objs[id] != NULL; }

/* runs the ops; the stack array `keep` holds the references the mark phase can see (mode V).
   returns 1 when the case ends with the teardown op */
static int __attribute__((noinline)) run_ops(char* ops) {
  volatile var keep[MAXID / 8];
  const int NK = MAXID / 8;
  for (int i = 0; i < NK; i++) keep[i] = NULL;
  char* s = ops; char* tok;
  while ((tok = next_tok(&s, ' ')) != NULL) {
    if (*tok == 0) continue;
    char* at = strchr(tok, '@'); if (at) *at = 0;          /* observations are for the model driver */
    char* colon = strchr(tok, ':');
    char c = tok[0];
    ncur_marks = 0; newborn = -1;
    if (c == 'n' || c == 'b' || c == 'N' || c == 'B' || c == 'w' || c == 'W' || c == 'a' || c == 'q') {
      if (colon) { *colon = 0; parse_marks(colon + 1); }
      char* plus = strchr(tok, '+'); if (plus) *plus = 0;
      int tilde = strchr(tok, '~') != NULL;
      long id = strtol(tok + 1, NULL, 10);
      if (id < 0 || id >= MAXID || known[id]) { P(" | BADCASE"); return 0; }
      brkt[id] = tilde;
      nspawn[id] = 0;
      while (plus && nspawn[id] < MAXSPAWN) {
        char* e; long cidv = strtol(plus + 1, &e, 10);
        spawn[id][nspawn[id]++] = (int)cidv;
        plus = (*e == '+') ? e : NULL;
      }
      known[id] = 1; if (id > maxid_seen) maxid_seen = (int)id;
      next_id = id; next_isbox = (c == 'b' || c == 'B' || c == 'W'); newborn = id;
      var o = (c == 'n' || c == 'b' || c == 'a') ? new(PObj) : (c == 'N' || c == 'B') ? new_root(PObj) : new_raw(PObj);
      objs[id] = o;
      if (id < NK) keep[id] = o;
      newborn = -1;
    } else if (c == 'k') {
      /* k<id>,<src>: copy of a live probe = a new managed object */
      if (colon) { *colon = 0; parse_marks(colon + 1); }
      char* comma = strchr(tok, ',');
      if (!comma) { P(" | BADCASE"); return 0; }
      *comma = 0;
      long id = strtol(tok + 1, NULL, 10), src = strtol(comma + 1, NULL, 10);
      if (id < 0 || id >= MAXID || known[id] || !usable(src)) { P(" | BADCASE"); return 0; }
      known[id] = 1; if (id > maxid_seen) maxid_seen = (int)id;
      nspawn[id] = 0;
      next_id = id; next_isbox = 0; newborn = id;
      var o = copy(objs[src]);
      objs[id] = o;
      if (id < NK) keep[id] = o;
      newborn = -1;
    } else if (c == 'l') {
      char* comma = strchr(tok, ',');
      if (!comma) { P(" | BADCASE"); return 0; }
      *comma = 0;
      long b = strtol(tok + 1, NULL, 10);
      if (!usable(b) || !((struct PObj*)objs[b])->isbox) { P(" | BADCASE"); return 0; }
      if (comma[1] == '-') ((struct PObj*)objs[b])->val = NULL;
      else {
        long o = strtol(comma + 1, NULL, 10);
        if (!usable(o)) { P(" | BADCASE"); return 0; }
        ((struct PObj*)objs[b])->val = objs[o];
      }
    } else if (c == 'd' || c == 'D' || c == 'x') {
      if (colon) { *colon = 0; parse_marks(colon + 1); }
      long id = strtol(tok + 1, NULL, 10);
      if (!usable(id)) { P(" | BADCASE"); return 0; }
      var o = objs[id];
      if (id < NK) keep[id] = NULL;
      if (c == 'd') del(o); else if (c == 'D') del_root(o); else del_raw(o);
    } else if (c == 'u') {
      long id = strtol(tok + 1, NULL, 10);
      if (id >= 0 && id < NK) keep[id] = NULL;
      continue;                                             /* no model event, no output */
    } else if (c == 'c') {
      parse_marks(tok + 1);
      GC_Mark(G); GC_Sweep(G);
    } else if (c == 's') { stop(current(GC)); }
    else if (c == 'S') { start(current(GC)); }
    else if (c == 't') { in_teardown = 1; return 1; }
    else { P(" | BADCASE"); return 0; }
    emit_state(0);
  }
  return 0;
}

static void trailer(void) { P(" ## ph=%ld th=%ld ms=%ld sw=%ld nest=%ld win=%ld", n_ph, n_th, n_ms, n_sw, n_nest, n_win); }

static void at_exit_dump(void) { G = NULL; emit_state(1); trailer(); fflush(OUT); }

static char* g_ops;
static var thread_fn(var args) {
  G = current(GC);
  run_ops(g_ops);        /* teardown = returning: Thread_Init_Run deletes this thread's collector */
  return NULL;
}

static void one_case(char* line) {
  char* bar = strchr(line, '|');
  if (!bar) { P("BADCASE"); return; }
  *bar = 0;
  for (char* m = line; *m; m++) {
    if (*m == 'M' || *m == 'X' || *m == 'T') opt_where = *m;
    else if (*m == 'O') opt_override = 1;
    else if (*m == 'V') opt_override = 0;
    else if (*m == 'R') opt_reallyfree = 1;
  }
  char* ops = bar + 1;
  int has_t = 0;
  { size_t n = strlen(ops); while (n && ops[n-1] == ' ') n--;
    if (n >= 1 && ops[n-1] == 't' && (n == 1 || ops[n-2] == ' ')) has_t = 1;
    /* `t@...` (observed form) */
    char* lt = strrchr(ops, ' '); lt = lt ? lt + 1 : ops; if (lt[0] == 't') has_t = 1; }
  if (opt_where == 'T') {
    g_ops = ops;
    var t = new_raw(Thread, $(Function, thread_fn));
    call(t);
    join(t);
    G = NULL;
    if (has_t) emit_state(1);
    trailer();
    return;
  }
  var bottom = NULL;
  G = new_raw(GC, $R(&bottom));          /* as the `main` macro of Cello.h */
  if (opt_where == 'X') {
    atexit(at_exit_dump);                /* registered first = runs after Cello_Exit */
    atexit(Cello_Exit);
    int t = run_ops(ops);
    if (t) { fflush(OUT); exit(0); }
    trailer(); fflush(OUT); _exit(0);
  }
  int t = run_ops(ops);
  if (t) { Cello_Exit(); G = NULL; emit_state(1); }
  trailer();
}

#undef main      /* Cello.h turns `main` into a macro that creates a collector; each case makes its own */
#include <sys/personality.h>
#include <sys/mman.h>
/* The slot order of the registry depends on the addresses malloc hands out.  To make every case
   behave the same alone (replay, shrinking) and inside a batch: address-space randomisation off
   (re-exec once), and the parent's heap is identical at every fork (line buffer and stdout
   buffer live outside the malloc heap). */
int main(int argc, char** argv) {
  if (!getenv("LC_NOASLR")) {
    int p = personality(0xffffffff);
    setenv("LC_NOASLR", "1", 1);
    if (p != -1 && !(p & ADDR_NO_RANDOMIZE) && personality(p | ADDR_NO_RANDOMIZE) != -1)
      execv("/proc/self/exe", argv);
  }
  size_t cap = 1 << 22;
  char* line = mmap(NULL, cap, PROT_READ | PROT_WRITE, MAP_PRIVATE | MAP_ANONYMOUS, -1, 0);
  char* obuf = mmap(NULL, 1 << 16, PROT_READ | PROT_WRITE, MAP_PRIVATE | MAP_ANONYMOUS, -1, 0);
  char* ibuf = mmap(NULL, 1 << 16, PROT_READ | PROT_WRITE, MAP_PRIVATE | MAP_ANONYMOUS, -1, 0);
  if (line == MAP_FAILED || obuf == MAP_FAILED || ibuf == MAP_FAILED) return 2;
  setvbuf(stdout, obuf, _IOFBF, 1 << 16);
  setvbuf(stdin, ibuf, _IOFBF, 1 << 16);
  if (getenv("H_NOFORK")) H_NOFORK = 1;
  if (getenv("H_TIMEOUT")) H_TIMEOUT = atoi(getenv("H_TIMEOUT"));
  while (fgets(line, (int)cap, stdin)) {
    size_t n = strlen(line);
    if (n > 0 && line[n-1] == '\n') line[n-1] = 0;
    run_case_forked(one_case, line);
  }
  return 0;
}
