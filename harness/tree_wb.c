/* tree_wb.c — correspondence harness for Tree (C03), white-box.
 * Textually includes the working tree's src/Tree.c (so the static functions and `struct Tree`
 * are visible) and is linked against every library object except Tree.o.
 * Input/transcript format: see ocaml/Tree_driver.ml.
 * After EVERY operation: outcome; len; the shape in preorder with colours, keys and values;
 * forward iteration (each value through get); backward iteration.
 * The functional model has no parent pointers, so THIS harness checks them: the root's parent
 * is NULL and every child's parent field (colour bit masked) is the node it hangs from; a
 * violation appends "!PARENT" to the shape field.  "!CYCLE" = more nodes reachable than a tree
 * of that many items can have. */
#include "Tree.c"
#include "hcommon.h"

static int strkeys;

static var mkkey(const char* tok) {
  if (!strkeys) return new_raw(Int, $I(strtoll(tok, NULL, 10)));
  static char buf[4096];
  size_t n = strlen(tok) / 2;
  if (n > sizeof buf - 1) n = sizeof buf - 1;
  for (size_t i = 0; i < n; i++) {
    unsigned x = 0; sscanf(tok + 2 * i, "%2x", &x); buf[i] = (char)x;
  }
  buf[n] = 0;
  return new_raw(String, $S(buf));
}

static void pkey(var k) {
  if (!strkeys) { P("%" PRId64, (int64_t)c_int(k)); return; }
  const unsigned char* s = (const unsigned char*)c_str(k);
  P("x");
  for (; *s; s++) P("%02x", (unsigned)*s);
}

static int parent_bad; static size_t visited, vlimit;

static void shape(struct Tree* m, var node, var parent) {
  if (node is NULL) { P("."); return; }
  if (++visited > vlimit) { P("!CYCLE"); return; }
  if (Tree_Get_Parent(m, node) isnt parent) parent_bad = 1;
  P("[%c", Tree_Is_Red(m, node) ? 'R' : 'B');
  pkey(Tree_Key(m, node));
  P("=%" PRId64 ",", (int64_t)c_int(Tree_Val(m, node)));
  shape(m, *Tree_Left(m, node), node);
  P(",");
  shape(m, *Tree_Right(m, node), node);
  P("]");
}

static void dump(var tv) {
  struct Tree* m = tv;
  P(";%zu;", len(tv));
  parent_bad = 0; visited = 0; vlimit = 2 * m->nitems + 64;
  shape(m, m->root, NULL);
  if (parent_bad) P("!PARENT");
  P(";");
  if (parent_bad || visited > vlimit) {
    /* Tree_Iter_Next/Prev climb through the parent links: on inconsistent links they may never return */
    P("SKIPPED;SKIPPED");
    return;
  }
  size_t cnt = 0; int first = 1;
  try {
    foreach (k in tv) {
      if (!first) P(",");
      first = 0;
      pkey(k);
      P("=%" PRId64, (int64_t)c_int(get(tv, k)));
      if (++cnt > m->nitems + 8) { P(",RUNAWAY"); break; }
    }
  } catch (e) { P("%s%s", first ? "" : ",", exn_name(e)); }
  P(";");
  cnt = 0; first = 1;
  try {
    for (var k = iter_last(tv); k isnt Terminal; k = iter_prev(tv, k)) {
      if (!first) P(",");
      first = 0;
      pkey(k);
      if (++cnt > m->nitems + 8) { P(",RUNAWAY"); break; }
    }
  } catch (e) { P("%s%s", first ? "" : ",", exn_name(e)); }
}

/* "k:v,k:v" -> calls f(key, value) for every pair; the split is at the LAST ':' of a pair */
static void each_pair(char* q, void (*f)(var, var, var), var target) {
  char* pr;
  while ((pr = next_tok(&q, ',')) != NULL) {
    char* c = strrchr(pr, ':'); if (!c) continue; *c = 0;
    var k = mkkey(pr);
    var v = new_raw(Int, $I(strtoll(c + 1, NULL, 10)));
    f(target, k, v);
  }
}
static void push_pair(var args, var k, var v) { push(args, k); push(args, v); }
static void set_pair(var t, var k, var v) { set(t, k, v); del_raw(k); del_raw(v); }

static void one_case(char* line) {
  char* bar = strchr(line, '|');
  if (!bar) { P("BADCASE"); return; }
  *bar = 0;
  char* ops = bar + 1;
  if (strcmp(line, "I") == 0) strkeys = 0;
  else if (strcmp(line, "S") == 0) strkeys = 1;
  else { P("BADCASE"); return; }
  var KT = strkeys ? String : Int;
  var t = NULL;
  char* s = ops; char* tok;
  int started = 0;
  while ((tok = next_tok(&s, ' ')) != NULL) {
    if (*tok == 0) continue;
    if (!started) {
      started = 1;
      if (tok[0] == 'n') {
        var args = new_raw(Tuple);
        push(args, KT); push(args, Int);
        each_pair(tok + 1, push_pair, args);
        t = new_raw_with(Tree, args);
        P("new"); dump(t);
        continue;
      }
      t = new_raw(Tree, KT, Int);
      P("new"); dump(t);
    }
    const char* res = "ok"; char rbuf[64];
    try {
      switch (tok[0]) {
        case 's': { char* c = strrchr(tok, ','); *c = 0;
          var k = mkkey(tok + 1);
          set(t, k, $I(strtoll(c + 1, NULL, 10))); del_raw(k); break; }
        case 'r': { var k = mkkey(tok + 1); rem(t, k); del_raw(k); break; }
        case 'g': { var k = mkkey(tok + 1);
          var v = get(t, k); snprintf(rbuf, sizeof rbuf, "v%" PRId64, (int64_t)c_int(v)); res = rbuf; del_raw(k); break; }
        case 'm': { var k = mkkey(tok + 1); res = mem(t, k) ? "true" : "false"; del_raw(k); break; }
        case 'z': resize(t, (size_t)strtoull(tok + 1, NULL, 10)); break;
        case 'c': { var t2 = assign(alloc_raw(Tree), t); del_raw(t); t = t2; break; }
        case 'a': { var src = new_raw(Tree, KT, Int);
          each_pair(tok + 1, set_pair, src);
          assign(t, src); del_raw(src); break; }
        default: res = "BADOP";
      }
    } catch (e) { res = exn_name(e); }
    P(" | %s", res); dump(t);
    fflush(OUT);
  }
  if (!started) { t = new_raw(Tree, KT, Int); P("new"); dump(t); }
}

int main(int argc, char** argv) {
  run_all_cases(one_case);
  return 0;
}
