/* gcreg_wb.c — correspondence harness for the collector's registry (C17), white-box.
 * Textually includes the working tree's src/GC.c (statics and struct GC visible), linked
 * against every library object except GC.o.  Input/transcript format: ocaml/Registry_driver.ml.
 *
 * - Probe type whose Alloc instance hands out addresses 8*(B+off_k) scripted by the case
 *   (pages mapped on demand at fixed addresses), so that registry collisions modulo every
 *   registry size are scripted, and whose destructor deletes the objects the case says it
 *   owns (removals issued while a sweep / another removal is in progress).
 * - The conservative stack scan is the one part of the collector that is replaced: the
 *   function-like macro below renames the *definition* of GC_Mark_Stack in GC.c, while the
 *   reference `noinline ? GC_Mark_Stack : ...` in GC_Mark (no parenthesis after the name)
 *   binds to the harness's GC_Mark_Stack, which hands the case's word list to the real
 *   GC_Mark_Item.  No source file is edited.  If the source ever stops reaching the hook,
 *   the transcript says HOOKLOST.
 */
#include "Cello.h"
struct GC;
static void GC_Mark_Stack(struct GC* gc);
#define GC_Mark_Stack(x) GC_Mark_Stack_Original(x)
#include "GC.c"
#undef GC_Mark_Stack
#include "hcommon.h"
#include <sys/mman.h>
#include <errno.h>
#ifndef MAP_FIXED_NOREPLACE
#define MAP_FIXED_NOREPLACE 0x100000
#endif

#define MAXOBJ 2048
#define MAXOWN 8
#define MAXW 256

static uint64_t BASEH;                     /* B: hash of the arena base */
static int nobj;
static int oid[MAXOBJ];
static uint64_t ooff[MAXOBJ];
static int nown[MAXOBJ]; static int oown[MAXOBJ][MAXOWN];
static int nspw[MAXOBJ]; static int ospw[MAXOBJ][MAXOWN]; static int ospr[MAXOBJ][MAXOWN];
static var the_gc;
static int next_alloc = -1;                /* index (not id) the next Probe allocation gets */
static uintptr_t words[MAXW]; static int nwords;
static int hook_calls, hook_lost;
static char alive[MAXOBJ];                 /* the allocator's view: handed out and not yet released */
static int stepno;
static int h_brief;                         /* Q toggles: slot field = #<fnv1a-32 of the slot text> */
static int sorted_idx[MAXOBJ];             /* object indices sorted by address */

struct Probe { int64_t idx; int64_t pad; };

static int idx_of_id(int id) { for (int i = 0; i < nobj; i++) if (oid[i] == id) return i; return -1; }
static uintptr_t addr_of(int idx) { return (uintptr_t)8 * (BASEH + ooff[idx]); }
static int idx_of_ptr(var p) {
  int lo = 0, hi = nobj - 1;
  while (lo <= hi) {
    int mid = (lo + hi) / 2; uintptr_t a = addr_of(sorted_idx[mid]);
    if (a == (uintptr_t)p) return sorted_idx[mid];
    if (a < (uintptr_t)p) lo = mid + 1; else hi = mid - 1;
  }
  return -1;
}
static int cmp_idx(const void* a, const void* b) {
  uint64_t x = ooff[*(const int*)a], y = ooff[*(const int*)b];
  return x < y ? -1 : x > y ? 1 : 0;
}

static int map_pages(uintptr_t lo, uintptr_t hi) {
  uintptr_t a = lo & ~(uintptr_t)4095, b = (hi + 4095) & ~(uintptr_t)4095;
  for (uintptr_t p = a; p < b; p += 4096) {
    void* r = mmap((void*)p, 4096, PROT_READ | PROT_WRITE,
                   MAP_PRIVATE | MAP_ANONYMOUS | MAP_FIXED_NOREPLACE, -1, 0);
    if (r == MAP_FAILED && errno != EEXIST) return 0;
    if (r != MAP_FAILED && r != (void*)p) { munmap(r, 4096); return 0; }
  }
  return 1;
}

static var Probe_Alloc(void);
static void Probe_Dealloc(var self);
static void Probe_New(var self, var args) { }
static void Probe_Del(var self);

static var Probe = Cello(Probe,
  Instance(Alloc, Probe_Alloc, Probe_Dealloc),
  Instance(New, Probe_New, Probe_Del));

static var Probe_Alloc(void) {
  int idx = next_alloc;
  uintptr_t a = addr_of(idx);
  struct Header* head = (struct Header*)(a - sizeof(struct Header));
  memset(head, 0, sizeof(struct Header) + sizeof(struct Probe));
  var self = header_init(head, Probe, AllocHeap);
  ((struct Probe*)self)->idx = idx;
  alive[idx] = 1;
  return self;
}

static void Probe_Dealloc(var self) {
  /* the block is released: from now on the scripted allocator may hand the address out again */
  alive[(int)((struct Probe*)self)->idx] = 0;
}

static void do_del(int idx) {
  if (running(the_gc)) P("r%d", oid[idx]);
  del((var)addr_of(idx));
}

/* alloc / alloc_root from inside a destructor.  Not done (and flagged `!`) while the block at
   that address is still handed out (no allocator would return it); an address whose previous
   owner was finalised and released earlier, even in the same sweep, is fine.  A temporary is
   deleted again at once. */
static void do_spawn(int idx, int flags) {
  int root = flags & 1, temp = flags & 2;
  if (!running(the_gc)) return;
  if (alive[idx]) { P("!"); return; }
  P("s%d:%d", oid[idx], root);
  next_alloc = idx;
  if (root) { var q = alloc_root(Probe); (void)q; } else { var q = alloc(Probe); (void)q; }
  if (temp) do_del(idx);
}

static void Probe_Del(var self) {
  int idx = (int)((struct Probe*)self)->idx;
  P("f%d", oid[idx]);
  for (int i = 0; i < nown[idx]; i++) do_del(oown[idx][i]);
  for (int i = 0; i < nspw[idx]; i++) do_spawn(ospw[idx][i], ospr[idx][i]);
}

/* replacement of the stack scan: the case's words go through the real GC_Mark_Item */
static void GC_Mark_Stack(struct GC* gc) {
  hook_calls++;
  for (int i = 0; i < nwords; i++) GC_Mark_Item(gc, (void*)words[i]);
}

static void dump(void) {
  struct GC* gc = the_gc;
  P(";%zu;%zu;%zu;", gc->nslots, gc->nitems, gc->mitems);
  if (gc->minptr == UINTPTR_MAX) P("-;"); else P("%" PRId64 ";", (int64_t)(gc->minptr / 8 - BASEH));
  if (gc->maxptr == 0) P("-;"); else P("%" PRId64 ";", (int64_t)(gc->maxptr / 8 - BASEH));
  P("%d;%zu;", (int)running(the_gc), (size_t)gc->freenum);
  {
    char* sb = NULL; size_t sl = 0; FILE* sf = open_memstream(&sb, &sl);
    for (size_t i = 0; i < gc->nslots; i++) {
      if (i) fputc(',', sf);
      if (gc->entries[i].hash == 0) { fputc('_', sf); continue; }
      int idx = idx_of_ptr(gc->entries[i].ptr);
      if (idx < 0) fprintf(sf, "%" PRIu64 ":X:%d:%d", gc->entries[i].hash, (int)gc->entries[i].root, (int)gc->entries[i].marked);
      else fprintf(sf, "%" PRIu64 ":%d:%d:%d", gc->entries[i].hash, oid[idx], (int)gc->entries[i].root, (int)gc->entries[i].marked);
    }
    fclose(sf);
    if (h_brief) {
      uint32_t h = 2166136261u;
      for (size_t i = 0; i < sl; i++) { h ^= (unsigned char)sb[i]; h *= 16777619u; }
      P("#%08x", h);
    } else P("%s", sb ? sb : "");
    free(sb);
  }
  P(";");
  /* h_brief mode: only every 8th object (rotating with the step number) is queried */
  for (int i = 0; i < nobj; i++)
    if (!h_brief || (oid[i] + stepno) % 8 == 0) P("%d", mem(the_gc, (var)addr_of(i)) ? 1 : 0);
  if (hook_lost) P("HOOKLOST");
}

static void one_case(char* line) {
  char* bar = strchr(line, '|');
  char* semi = strchr(line, ';');
  if (!bar || !semi || semi > bar || line[0] != 'B' || line[1] != '=') { P("BADCASE"); return; }
  *bar = 0; *semi = 0;
  BASEH = strtoull(line + 2, NULL, 10);
  char* s = semi + 1; char* tok;
  nobj = 0;
  while ((tok = next_tok(&s, ',')) != NULL && nobj < MAXOBJ) {
    char* c1 = strchr(tok, ':'); if (!c1) continue; *c1 = 0;
    char* c2 = strchr(c1 + 1, ':'); if (c2) *c2 = 0;
    char* c3 = c2 ? strchr(c2 + 1, ':') : NULL; if (c3) *c3 = 0;
    oid[nobj] = atoi(tok); ooff[nobj] = strtoull(c1 + 1, NULL, 10); nown[nobj] = 0; nspw[nobj] = 0;
    nobj++;
    if (c3) {
      char* q = c3 + 1; char* t;
      while ((t = next_tok(&q, '.')) != NULL && nspw[nobj-1] < MAXOWN) {
        int fl = (strchr(t, 'r') ? 1 : 0) | (strchr(t, 't') ? 2 : 0);
        ospw[nobj-1][nspw[nobj-1]] = atoi(t); ospr[nobj-1][nspw[nobj-1]] = fl; nspw[nobj-1]++;
      }
    }
    if (c2) {
      /* owned ids are resolved to indices after all objects are read: store ids first */
      char* q = c2 + 1; char* t;
      while ((t = next_tok(&q, '.')) != NULL && nown[nobj-1] < MAXOWN) oown[nobj-1][nown[nobj-1]++] = atoi(t);
    }
  }
  for (int i = 0; i < nobj; i++)
    for (int j = 0; j < nown[i]; j++) oown[i][j] = idx_of_id(oown[i][j]);
  for (int i = 0; i < nobj; i++)
    for (int j = 0; j < nspw[i]; j++) ospw[i][j] = idx_of_id(ospw[i][j]);
  for (int i = 0; i < nobj; i++) sorted_idx[i] = i;
  qsort(sorted_idx, nobj, sizeof(int), cmp_idx);
  h_brief = 0;
  for (int i = 0; i < nobj; i++) {
    uintptr_t a = addr_of(i);
    if (!map_pages(a - sizeof(struct Header), a + sizeof(struct Probe))) { P("NOMAP"); return; }
  }
  var bottom = NULL;
  the_gc = new_raw(GC, $R(&bottom));
  nwords = 0; hook_calls = 0; hook_lost = 0; memset(alive, 0, sizeof alive);
  stepno = 0;
  P("new;"); dump();
  s = bar + 1;
  while ((tok = next_tok(&s, ' ')) != NULL) {
    if (*tok == 0) continue;
    const char* res = "ok";
    int idx = (tok[1] >= '0' && tok[1] <= '9') ? idx_of_id(atoi(tok + 1)) : -1;
    struct GC* g = the_gc;
    P(" | ");
    /* events are printed by the hooks while the operation runs, so the outcome comes after
       them in a second field; the transcript line is  <out>;<events>;...  => buffer events */
    char* evbuf = NULL; size_t evlen = 0;
    FILE* real = OUT; FILE* evf = open_memstream(&evbuf, &evlen);
    OUT = evf;
    try {
      switch (tok[0]) {
        case 'a': next_alloc = idx; { var p = alloc(Probe); (void)p; } break;
        case 'A': next_alloc = idx; { var p = alloc_root(Probe); (void)p; } break;
        case 'w': next_alloc = idx; { var p = alloc_raw(Probe); (void)p; } break;
        case 'd': do_del(idx); break;
        case 'x': del_raw((var)addr_of(idx)); break;
        case 'k': {
          nwords = 0; char* q = tok + 1; char* t;
          while ((t = next_tok(&q, '.')) != NULL && nwords < MAXW) {
            if (t[0] == 'u') words[nwords++] = addr_of(idx_of_id(atoi(t + 1))) + 4;
            else words[nwords++] = addr_of(idx_of_id(atoi(t)));
          }
          break; }
        case 'c': { int h0 = hook_calls; size_t n0 = g->nitems;
                    GC_Mark(g);
                    if (n0 != 0 && hook_calls != h0 + 1) hook_lost = 1;
                    GC_Sweep(g); break; }
        case 'z': GC_Sweep(g); break;
        case 'Q': h_brief = !h_brief; break;
        case 'S': stop(the_gc); break;
        case 'T': start(the_gc); break;
        case 'm': res = mem(the_gc, (var)addr_of(idx)) ? "true" : "false"; break;
        default: res = "BADOP";
      }
    } catch (e) { res = exn_name(e); }
    fflush(evf); OUT = real; fclose(evf);
    P("%s;%s", res, evbuf ? evbuf : ""); free(evbuf);
    stepno++;
    dump();
    fflush(OUT);
  }
}

int main(int argc, char** argv) {
  run_all_cases(one_case);
  return 0;
}
