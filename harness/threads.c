/* threads.c — correspondence harness for C13 (threads are isolated; join publishes; Mutex excludes).
 *
 * One case per line:   <nmutex>|<sched>|<prog0>|<prog1>|...      (same text the OCaml driver reads)
 *   prog0 is executed by the main thread, prog<u> by a Cello Thread created by the `S<u>` of its parent
 *   (prog0 or another worker program); only the creator joins (`J<u>`) and reads (`P<u>`) it.
 *   tokens:  a0 a1  u<i>  c  s<k>,<v>  g<k>  m<k>  r<k>  e<v>  w<k>,<n>  o  y  z<ms>  t<e>
 *            B<m> = lock after a failed trylock;  case flag n (first field) = no stand-alone phase
 *            a second S<u> by the creator after J<u> calls the SAME Thread object again (trace marker R)
 *            [ body ]<e>,<e> handler }      try { body } catch (x in e,e) { handler }   (0..2 classes)
 *            L<m> U<m> T<m>  W<m>( body )  Q<m>( body )  i<m>     S<t> J<t> P<t>     (Q: if (trylock) { body; unlock })
 *   <sched> only seeds the yield injection here (the kernel decides the real schedule).
 * Transcript:
 *   A: t1:<events> / t2:<events> ...          every worker program run ALONE (one thread at a time)
 *   ## C: t0:<events> / t1:... # c0=<n>,.. # 0:P<u>=[<events read after join>];.. # ok
 *   ## X: overlap=<n> miss=<n> maxpar=<n> cross=<n> double=<n> unfin=<n> rootkill=<n> stale=<n>
 * Events (same spelling as the model driver): e<v>  w<k>.<n>=<digest>  g<k>=<v>  m<k>=<b>
 *   o<depth>.<active>.<ntls>.<nroots>  C<e>  f{s+s+..} (probes finalised by this thread since its
 *   last f event, `!owner.` prefix when it is another thread's object)  x{..} (finalised when the
 *   thread's collector was torn down; appended by the joiner after join returned).
 * The harness' own notion of "which thread am I" is a C `__thread` pointer, independent of Cello. */
#include "Cello.h"
#include "hcommon.h"
#include <pthread.h>
#include <sched.h>
#include <time.h>
#include <stdarg.h>

struct GC;
void GC_Mark(struct GC* gc);
void GC_Sweep(struct GC* gc);

#define MAXT 20
#define MAXM 8
#define MAXOBJ 512
#define NROOTS 64
#define NKEYS 8
#define NEXN 12

struct Node {
  char kind; long a, b;
  struct Node *body, *handler, *next;
  int ncs; int cs[4];
};

struct Led { int ctor_tid, dtor_tid, ndtor, pub; };

struct TCtx {
  int tid, phase;
  struct Node* prog;
  char* buf; size_t len, cap;
  var* roots; int nroots;
  int serial;
  int fin[MAXOBJ]; int finown[MAXOBJ]; int nfin;
  uint64_t rnd;
  int alone;
  int spawned, joined, parent;
  var* kids;                   /* Thread objects this thread created: an array in ITS frame (root of ITS collector) */
  long incs[MAXM];
  int open[MAXM];
  var pubs[64]; int pubser[64]; int pubkind[64]; int npubs;      /* results published with new_root / new_raw (outlive the thread) */
  uintptr_t tlsptr[NROOTS]; int tlsser[NROOTS]; int tlsodd[NROOTS];   /* root i is held ONLY by the thread's TLS (roots[i] == NULL) */
  uintptr_t excptr, gcptr; int live;             /* the thread's current(Exception) / current(GC) while it runs */              /* index of the open section-log entry per mutex */
};

static struct TCtx ctx[2][MAXT];
static struct Led led[2][MAXT][MAXOBJ];
static __thread struct TCtx* me = NULL;

static var EX[NEXN];
static var mx[MAXM];
static volatile long cell[MAXM];
static volatile int inside[MAXM];
static volatile int insec[MAXM];
static int n_qskip, n_unjoined, n_startctx, n_ctxshared, n_pubdead;
static int n_overlap, n_miss, n_cross, n_double, n_rootkill, n_stale, n_running, n_maxpar;
static int nthreads, nmutex;
static var thr[MAXT];        /* handles of the Thread objects (not a root: each creator keeps its own in kids[], in its frame) */
static var shared_arr;       /* an Array every thread may use under mx[0] (work kind 8); case flag s: owned by the main thread's collector */
static int managed_threads;  /* case flag g: Thread objects are new(Thread, ..), i.e. owned by the main thread's collector */
static var targ[MAXT];
static int cur_phase;
static volatile int go_flag;
static int total_spawns, done_spawns;

/* ------------------------------------------------------------------ transcript buffer */
static void tlog(struct TCtx* c, const char* fmt, ...) {
  char tmp[256];
  va_list va; va_start(va, fmt);
  int n = vsnprintf(tmp, sizeof tmp, fmt, va);
  va_end(va);
  if (c->len + (size_t)n + 2 > c->cap) { c->cap = (c->cap + n + 64) * 2; c->buf = realloc(c->buf, c->cap); }
  if (c->len) c->buf[c->len++] = ',';
  memcpy(c->buf + c->len, tmp, (size_t)n); c->len += (size_t)n; c->buf[c->len] = 0;
}

static void maybe_yield(struct TCtx* c) {
  c->rnd = c->rnd * 6364136223846793005ULL + 1442695040888963407ULL;
  unsigned r = (unsigned)(c->rnd >> 33);
  if ((r & 3) == 0) sched_yield();
  else if ((r & 63) == 1) { struct timespec ts = {0, 20000 + (r >> 8) % 80000}; nanosleep(&ts, NULL); }
}

/* ------------------------------------------------------------------ probe type (ledger) */
struct Probe { int phase, owner, serial; };

static void Probe_New(var self, var args) {
  struct Probe* p = self;
  p->phase = (int)c_int(get(args, $I(0)));
  p->owner = (int)c_int(get(args, $I(1)));
  p->serial = (int)c_int(get(args, $I(2)));
  led[p->phase][p->owner][p->serial].ctor_tid = me ? me->tid : -1;
}

static void Probe_Del(var self) {
  struct Probe* p = self;
  struct Led* l = &led[p->phase][p->owner][p->serial];
  int who = me ? me->tid : -1;
  if (__sync_add_and_fetch(&l->ndtor, 1) > 1) __sync_fetch_and_add(&n_double, 1);
  l->dtor_tid = who;
  if (p->phase != cur_phase) { __sync_fetch_and_add(&n_stale, 1); return; }
  if (who != p->owner) __sync_fetch_and_add(&n_cross, 1);
  struct TCtx* o = &ctx[p->phase][p->owner];
  for (int i = 0; i < o->nroots; i++)
    if (o->roots && (o->roots[i] == self || (o->roots[i] == NULL && o->tlsptr[i] == (uintptr_t)self))) __sync_fetch_and_add(&n_rootkill, 1);
  if (l->pub) return;      /* a published result (new_root / new_raw): outside the sweep, released by its owner only */
  if (me && me->nfin < MAXOBJ) { me->fin[me->nfin] = p->serial; me->finown[me->nfin] = p->owner; me->nfin++; }
}

static var Probe = Cello(Probe, Instance(New, Probe_New, Probe_Del));

static int cmp_fin(const void* a, const void* b) { return *(const int*)a - *(const int*)b; }

static void flush_fin(struct TCtx* c, char tag) {
  /* sort (owner, serial) by serial among own, foreign first marked */
  char tmp[4096]; size_t n = 0;
  int idx[MAXOBJ];
  for (int i = 0; i < c->nfin; i++) idx[i] = c->fin[i] + 100000 * (c->finown[i] == c->tid ? 0 : 1 + c->finown[i]);
  qsort(idx, (size_t)c->nfin, sizeof(int), cmp_fin);
  n += (size_t)snprintf(tmp + n, sizeof tmp - n, "%c{", tag);
  for (int i = 0; i < c->nfin && n < sizeof tmp - 40; i++) {
    if (i) tmp[n++] = '+';
    if (idx[i] >= 100000) n += (size_t)snprintf(tmp + n, sizeof tmp - n, "!%d.%d", idx[i] / 100000 - 1, idx[i] % 100000);
    else n += (size_t)snprintf(tmp + n, sizeof tmp - n, "%d", idx[i]);
  }
  tmp[n++] = '}'; tmp[n] = 0;
  c->nfin = 0;
  tlog(c, "%s", tmp);
}

/* ------------------------------------------------------------------ parser */
static struct Node* parse_block(char** s, int stop, char** stoptok) {
  /* stop: 0 = end of string, or ']' '}' ')' : the stopping token is consumed and handed back */
  struct Node *head = NULL, **tail = &head;
  char* t;
  if (stoptok) *stoptok = NULL;
  while ((t = next_tok(s, ' ')) != NULL) {
    if (*t == 0) continue;
    if (stop && t[0] == stop) { if (stoptok) *stoptok = t; return head; }
    struct Node* n = calloc(1, sizeof *n);
    n->kind = t[0];
    char* arg = t + 1;
    switch (t[0]) {
      case 's': case 'w': case 'K': case 'd': { char* c = strchr(arg, ','); n->a = atol(arg); n->b = c ? atol(c + 1) : 0; break; }
      case '[': {
        char* c = NULL;
        n->body = parse_block(s, ']', &c);     /* c = the "]e,e" token */
        n->ncs = 0;
        if (c) {
          char* p = c + 1;
          while (*p && n->ncs < 4) { n->cs[n->ncs++] = (int)strtol(p, &p, 10); if (*p == ',') p++; }
        }
        n->handler = parse_block(s, '}', NULL);
        break;
      }
      case 'W': case 'Q': n->a = atol(arg); n->body = parse_block(s, ')', NULL); break;
      default: n->a = atol(arg);
    }
    *tail = n; tail = &n->next;
  }
  return head;
}

/* ------------------------------------------------------------------ container work (opaque to the model) */
static uint64_t mix(uint64_t h, uint64_t v) { h ^= v; h *= 1099511628211ULL; return h; }

static uint64_t work(struct TCtx* c, long kind, long n) {
  uint64_t h = 1469598103934665603ULL;
  switch (kind) {
    case 0: {   /* Array of Int: push, get, iterate */
      var a = new(Array, Int);
      for (long i = 0; i < n; i++) { push(a, $I(i * i % 1000 + c->tid * 0)); if ((i & 7) == 0) maybe_yield(c); }
      foreach (x in a) { h = mix(h, (uint64_t)c_int(x)); }
      for (long i = 0; i < n; i += 3) h = mix(h, (uint64_t)c_int(get(a, $I(i))));
      h = mix(h, len(a));
      break;
    }
    case 1: {   /* Table String -> Int */
      var t = new(Table, String, Int);
      char key[32];
      for (long i = 0; i < n; i++) { snprintf(key, sizeof key, "key%ld", i * 7 % 101); set(t, $S(key), $I(i)); if ((i & 7) == 0) maybe_yield(c); }
      for (long i = 0; i < 101; i++) { snprintf(key, sizeof key, "key%ld", i); if (mem(t, $S(key))) h = mix(h, (uint64_t)c_int(get(t, $S(key))) + (uint64_t)i * 1000); }
      for (long i = 0; i < n; i += 2) { snprintf(key, sizeof key, "key%ld", i * 7 % 101); if (mem(t, $S(key))) rem(t, $S(key)); }
      h = mix(h, len(t));
      break;
    }
    case 2: {   /* List of Int */
      var l = new(List, Int);
      for (long i = 0; i < n; i++) { push(l, $I(i ^ 5)); if ((i & 7) == 0) maybe_yield(c); }
      for (long i = 0; i < n / 2; i++) pop(l);
      foreach (x in l) { h = mix(h, (uint64_t)c_int(x)); }
      h = mix(h, len(l));
      break;
    }
    case 3: {   /* allocation-heavy: many short-lived managed objects => automatic collections */
      for (long i = 0; i < n * 8; i++) {
        var s = new(String, $S("cello"));
        append(s, $S("-x"));
        h = mix(h, len(s) + (uint64_t)i);
        if ((i & 15) == 0) maybe_yield(c);
      }
      break;
    }
    case 4: {   /* exception-heavy: library-raised errors caught at once */
      var t = new(Table, String, Int);
      set(t, $S("present"), $I(1));
      for (long i = 0; i < n; i++) {
        try { get(t, $S("missing")); h = mix(h, 999); }
        catch (e in KeyError) { h = mix(h, (uint64_t)i + 1); }
        if ((i & 3) == 0) maybe_yield(c);
      }
      break;
    }
    case 6: {   /* thread-local-storage-heavy: the thread's TLS table grows, rehashes and shrinks */
      char key[32];
      for (long r = 0; r < n; r++) {
        for (int i = 0; i < 40; i++) { snprintf(key, sizeof key, "h%d", i); set(current(Thread), $S(key), targ[i % MAXT]); }
        for (int i = 0; i < 40; i++) { snprintf(key, sizeof key, "h%d", i); h = mix(h, (uint64_t)c_int(get(current(Thread), $S(key)))); }
        for (int i = 0; i < 40; i++) { snprintf(key, sizeof key, "h%d", i); rem(current(Thread), $S(key)); }
        if ((r & 3) == 0) maybe_yield(c);
      }
      break;
    }
    case 8: {   /* a container shared by all threads, every access inside a section of mutex 0 */
      for (long r = 0; r < n; r++) {
        with (held in mx[0]) {
          for (int i = 0; i < 50; i++) push(shared_arr, $I(i));
          for (int i = 0; i < 50; i++) pop(shared_arr);
          h = mix(h, len(shared_arr));
        }
        if ((r & 3) == 0) maybe_yield(c);
      }
      break;
    }
    case 7: {   /* collection-heavy: n forced collections of the current thread's collector */
      for (long r = 0; r < n; r++) {
        var s = new(String, $S("junk"));
        h = mix(h, len(s));
        s = NULL;
        struct GC* gc = current(GC);
        GC_Mark(gc); GC_Sweep(gc);
      }
      break;
    }
    default: {  /* Tree Int -> Int */
      var t = new(Tree, Int, Int);
      for (long i = 0; i < n; i++) { set(t, $I(i * 37 % 64), $I(i)); if ((i & 7) == 0) maybe_yield(c); }
      foreach (k in t) { h = mix(h, (uint64_t)c_int(k) * 31 + (uint64_t)c_int(get(t, k))); }
      h = mix(h, len(t));
    }
  }
  return h;
}

/* ------------------------------------------------------------------ interpreter */
static int exn_index(var e) { for (int i = 0; i < NEXN; i++) if (e is EX[i]) return i; return 99; }

static void exec_block(struct TCtx* c, struct Node* n);

/* every critical section is logged with monotonic timestamps taken INSIDE it (after the lock returned, before the
   unlock): two sections of one mutex whose intervals intersect have overlapped, whatever the wall-clock load */
struct SecEv { long m; int tid; double enter, leave; };
#define MAXSEC 8192
static struct SecEv seclog[MAXSEC];
static int n_sec;
static double now_s(void) { struct timespec ts; clock_gettime(CLOCK_MONOTONIC, &ts); return (double)ts.tv_sec + ts.tv_nsec * 1e-9; }

static void enter_section(long m) {
  if (__sync_lock_test_and_set(&inside[m], 1)) __sync_fetch_and_add(&n_overlap, 1);
  int i = __sync_fetch_and_add(&n_sec, 1);
  if (me) me->open[m] = i < MAXSEC ? i : -1;
  if (i < MAXSEC) { seclog[i].m = m; seclog[i].tid = me ? me->tid : -1; seclog[i].leave = 0; seclog[i].enter = now_s(); }
}
static void leave_section(long m) {
  if (me && me->open[m] >= 0) seclog[me->open[m]].leave = now_s();
  /* the flag must still be ours: somebody who entered meanwhile has overwritten nothing, but an exit of
     somebody else would have cleared it */
  if (__sync_val_compare_and_swap(&inside[m], 1, 0) != 1) __sync_fetch_and_add(&n_overlap, 1);
}

static void do_spawn(struct TCtx* c, long u);
static void do_spawn_copy(struct TCtx* c, long v, long u);
static void check_pubs(struct TCtx* o);
void add_seen(int t, int u, const char* s);
static void do_join(struct TCtx* c, long u);

static void exec_node(struct TCtx* c, struct Node* n) {
  char key[16];
  maybe_yield(c);
  switch (n->kind) {
    case 'a': {
      int s = c->serial++;
      var p = new(Probe, $I(c->phase), $I(c->tid), $I(s));
      if (n->a && c->nroots < NROOTS) c->roots[c->nroots++] = p;
      p = NULL;
      break;
    }
    case 'u':
      if (n->a < c->nroots) {
        if (c->roots[n->a] == NULL && c->tlsptr[n->a]) {      /* held by the TLS only: forget it there */
          snprintf(key, sizeof key, c->tlsodd[n->a] ? "t%d" : "__t%d", c->tlsser[n->a]);
          rem(current(Thread), $S(key));
        }
        for (int i = (int)n->a; i + 1 < c->nroots; i++) {
          c->roots[i] = c->roots[i + 1]; c->tlsptr[i] = c->tlsptr[i + 1]; c->tlsser[i] = c->tlsser[i + 1]; c->tlsodd[i] = c->tlsodd[i + 1];
        }
        c->nroots--; c->roots[c->nroots] = NULL; c->tlsptr[c->nroots] = 0;
      }
      break;
    case 'h': {     /* a managed object reachable ONLY through the thread's TLS (key __t<serial> or t<serial>) */
      int s = c->serial++;
      var p = new(Probe, $I(c->phase), $I(c->tid), $I(s));
      if (c->nroots < NROOTS) {
        snprintf(key, sizeof key, (n->a & 1) ? "t%d" : "__t%d", s);
        set(current(Thread), $S(key), p);
        c->roots[c->nroots] = NULL; c->tlsptr[c->nroots] = (uintptr_t)p; c->tlsser[c->nroots] = s; c->tlsodd[c->nroots] = (int)(n->a & 1);
        c->nroots++;
      }
      p = NULL;
      break;
    }
    case 'p': {     /* publish a result that the collector's sweep does not own: p0 new_root, p1 new_raw */
      int s = c->serial++;
      var p = (n->a == 0) ? (var)new_root(Probe, $I(c->phase), $I(c->tid), $I(s)) : new_raw(Probe, $I(c->phase), $I(c->tid), $I(s));
      led[c->phase][c->tid][s].pub = 1;
      if (c->npubs < 64) { c->pubs[c->npubs] = p; c->pubser[c->npubs] = s; c->pubkind[c->npubs] = (int)n->a; c->npubs++; }
      tlog(c, "p%ld.%d", n->a, s);
      break;
    }
    case 'c': {
      struct GC* gc = current(GC);
      GC_Mark(gc); GC_Sweep(gc);
      flush_fin(c, 'f');
      break;
    }
    case 's': snprintf(key, sizeof key, "k%ld", n->a); set(current(Thread), $S(key), new_raw(Int, $I(n->b))); break;
    case 'g': { snprintf(key, sizeof key, "k%ld", n->a); var v = get(current(Thread), $S(key)); tlog(c, "g%ld=%ld", n->a, (long)c_int(v)); break; }
    case 'm': snprintf(key, sizeof key, "k%ld", n->a); tlog(c, "m%ld=%d", n->a, mem(current(Thread), $S(key)) ? 1 : 0); break;
    case 'r': snprintf(key, sizeof key, "k%ld", n->a); rem(current(Thread), $S(key)); break;
    case 'e': tlog(c, "e%ld", n->a); break;
    case 'w': { uint64_t h = work(c, n->a, n->b); tlog(c, "w%ld.%ld=%016" PRIx64, n->a, n->b, h); break; }
    case 'o': {
      int nt = 0;
      for (int k = 0; k < NKEYS; k++) { snprintf(key, sizeof key, "k%d", k); if (mem(current(Thread), $S(key))) nt++; }
      var x = current(Exception);
      tlog(c, "o%d.%d.%d.%d", (int)len(x), running(x) ? 1 : 0, nt, c->nroots);
      break;
    }
    case 'y': sched_yield(); break;
    case 'x': {     /* a signal raised in THIS thread: must arrive as this thread's exception */
      static const int sigs[6] = { SIGFPE, SIGSEGV, SIGTERM, SIGINT, SIGILL, SIGABRT };
      raise(sigs[n->a % 6]);
      break;
    }
    case 'd': {     /* del() of an object that belongs to ANOTHER thread's collector: must do nothing */
      struct TCtx* o = &ctx[c->phase][n->a % MAXT];
      if (c->alone || o == c) break;
      var p = NULL;
      if (n->b < 100) { if (n->b < o->npubs) p = o->pubs[n->b]; }
      else { var* r = o->roots; int i = (int)n->b - 100; if (r && i < o->nroots) p = r[i]; }
      if (p) del(p);
      break;
    }
    case 'D':       /* the owner releases a result it published: del_root / del_raw */
      if (n->a < c->npubs && c->pubs[n->a]) {
        if (c->pubkind[n->a] == 0) del_root(c->pubs[n->a]); else del_raw(c->pubs[n->a]);
        c->pubs[n->a] = NULL;
      }
      break;
    case 'z': { long ms = n->a > 20000 ? 20000 : n->a; struct timespec ts = {ms / 1000, (ms % 1000) * 1000000L}; nanosleep(&ts, NULL); break; }
    case 't': throw(EX[n->a % NEXN], "thrown %i by %i", $I(n->a), $I(c->tid)); break;
    case '[': {
      var c0 = n->ncs > 0 ? EX[n->cs[0] % NEXN] : NULL;
      var c1 = n->ncs > 1 ? EX[n->cs[1] % NEXN] : NULL;
      if (n->ncs == 0) {
        try { exec_block(c, n->body); } catch (e) { tlog(c, "C%d", exn_index(e)); exec_block(c, n->handler); }
      } else if (n->ncs == 1) {
        try { exec_block(c, n->body); } catch (e in c0) { tlog(c, "C%d", exn_index(e)); exec_block(c, n->handler); }
      } else {
        try { exec_block(c, n->body); } catch (e in c0, c1) { tlog(c, "C%d", exn_index(e)); exec_block(c, n->handler); }
      }
      break;
    }
    case 'L': lock(mx[n->a]); enter_section(n->a); break;
    case 'U': leave_section(n->a); unlock(mx[n->a]); break;
    case 'B':      /* lock() after a failed trylock() */
      if (!trylock(mx[n->a])) { __sync_fetch_and_add(&n_miss, 1); lock(mx[n->a]); }
      enter_section(n->a);
      break;
    case 'T': while (!trylock(mx[n->a])) { __sync_fetch_and_add(&n_miss, 1); sched_yield(); } enter_section(n->a); break;
    case 'W':
      with (held in mx[n->a]) {
        enter_section(n->a);
        exec_block(c, n->body);
        leave_section(n->a);
      }
      break;
    case 'Q':      /* try once: enter the section only if the mutex is free right now */
      if (trylock(mx[n->a])) {
        enter_section(n->a);
        exec_block(c, n->body);
        leave_section(n->a);
        unlock(mx[n->a]);
      } else {
        __sync_fetch_and_add(&n_qskip, 1);
      }
      break;
    case 'i': {
      long m = n->a;
      if (insec[m]) __sync_fetch_and_add(&n_overlap, 1);
      insec[m] = 1;
      long v = cell[m];
      maybe_yield(c);
      cell[m] = v + 1;
      insec[m] = 0;
      c->incs[m]++;
      break;
    }
    case 'S': if (!c->alone) do_spawn(c, n->a); break;
    case 'K': if (!c->alone) do_spawn_copy(c, n->a, n->b); break;
    case 'J': if (!c->alone) do_join(c, n->a); break;
    case 'P':
      if (!c->alone) {
        struct TCtx* o = &ctx[c->phase][n->a];
        add_seen(c->tid, (int)n->a, o->buf ? o->buf : "");
      }
      break;
  }
}

static char* seenbuf = NULL; static size_t seenlen = 0, seencap = 0;
static pthread_mutex_t seenmx = PTHREAD_MUTEX_INITIALIZER;
void add_seen(int t, int u, const char* s) {
  pthread_mutex_lock(&seenmx);
  size_t need = strlen(s) + 40;
  if (seenlen + need > seencap) { seencap = (seencap + need) * 2; seenbuf = realloc(seenbuf, seencap); }
  seenlen += (size_t)sprintf(seenbuf + seenlen, "%s%d:P%d=[%s]", seenlen ? ";" : "", t, u, s);
  pthread_mutex_unlock(&seenmx);
}

static void exec_block(struct TCtx* c, struct Node* n) {
  for (; n; n = n->next) exec_node(c, n);
}

static void run_prog(struct TCtx* c) {
  var roots[NROOTS];
  memset(roots, 0, sizeof roots);
  c->roots = roots; c->nroots = 0;
  me = c;
  int r = __sync_add_and_fetch(&n_running, 1);
  int mp; while (r > (mp = n_maxpar)) { if (__sync_bool_compare_and_swap(&n_maxpar, mp, r)) break; }
  var kids[MAXT];
  memset(kids, 0, sizeof kids);
  c->kids = kids;
  exec_block(c, c->prog);
  __sync_fetch_and_sub(&n_running, 1);
  if (c->tid != 0 && !c->alone) {
    /* a thread must not end before the threads it created (their Thread objects may belong to its collector) */
    for (int u = 1; u < nthreads; u++) {
      struct TCtx* o = &ctx[c->phase][u];
      if (o->spawned && o->parent == c->tid && !o->joined) { join(thr[u]); o->joined = 1; flush_fin(o, 'x'); __sync_fetch_and_add(&n_unjoined, 1); }
    }
  }
  c->kids = NULL;
  /* objects held only by the TLS: the table outlives this run (the Thread object may be called again) */
  for (int i = 0; i < c->nroots; i++) if (c->roots[i] == NULL && c->tlsptr[i]) {
    char key[16]; snprintf(key, sizeof key, c->tlsodd[i] ? "t%d" : "__t%d", c->tlsser[i]);
    if (mem(current(Thread), $S(key))) rem(current(Thread), $S(key));
    c->tlsptr[i] = 0;
  }
  /* the roots die with this frame */
  c->nroots = 0; c->roots = NULL;
}

static var worker_fn(var args) {
  int u = (int)c_int(get(args, $I(0)));
  struct TCtx* c = &ctx[cur_phase][u];
  me = c;
  if (!c->alone) { while (!go_flag) sched_yield(); }
  /* the thread's own exception context and collector: fresh (depth 0, inactive) and nobody else's */
  {
    var x = current(Exception);
    if (len(x) != 0 || running(x)) __sync_fetch_and_add(&n_startctx, 1);
    c->excptr = (uintptr_t)x; c->gcptr = (uintptr_t)current(GC);
    for (int t = 0; t < nthreads; t++) {
      struct TCtx* o = &ctx[cur_phase][t];
      if (o != c && o->live && (o->excptr == c->excptr || o->gcptr == c->gcptr)) __sync_fetch_and_add(&n_ctxshared, 1);
    }
    c->live = 1;
  }
  run_prog(c);
  c->live = 0;
  return NULL;
}

static var worker_function_object = NULL;

static void do_spawn(struct TCtx* c, long u) {
  struct TCtx* o = &ctx[c->phase][u];
  if (u <= 0 || u >= nthreads) return;
  if (o->spawned) {
    /* the SAME Thread object is called again (only by its creator, only after its previous run was joined) */
    if (!o->joined || o->parent != c->tid) return;
    tlog(o, "R");
    o->joined = 0;
    call(thr[u], targ[u]);
    return;
  }
  o->spawned = 1; o->parent = c->tid;
  c->kids[u] = thr[u] = managed_threads ? new(Thread, worker_function_object) : new_raw(Thread, worker_function_object);
  call(thr[u], targ[u]);
  if (c->tid == 0 && ++done_spawns >= total_spawns) go_flag = 1;
}

/* thr[v] = copy(Thread object of u) — u is the current thread or a finished, joined thread — then call it */
static void do_spawn_copy(struct TCtx* c, long v, long u) {
  struct TCtx* o = &ctx[c->phase][v];
  if (v <= 0 || v >= nthreads || u < 0 || u >= nthreads || o->spawned) return;
  if (u != c->tid && !(ctx[c->phase][u].spawned && ctx[c->phase][u].joined)) return;
  var src = (u == c->tid) ? current(Thread) : thr[u];
  o->spawned = 1; o->parent = c->tid;
  c->kids[v] = thr[v] = copy(src);        /* Thread_Assign: same function, a copy of the TLS table */
  call(thr[v], targ[v]);
}

static void check_pubs(struct TCtx* o) {
  for (int i = 0; i < o->npubs; i++) {
    if (o->pubs[i] == NULL) continue;      /* released by its owner */
    struct Led* l = &led[o->phase][o->tid][o->pubser[i]];
    if (l->ndtor) { __sync_fetch_and_add(&n_pubdead, 1); continue; }
    struct Probe* p = o->pubs[i];
    if (p->serial != o->pubser[i] || p->owner != o->tid || type_of(p) isnt Probe) __sync_fetch_and_add(&n_pubdead, 1);
  }
}

static void do_join(struct TCtx* c, long u) {
  struct TCtx* o = &ctx[c->phase][u];
  if (u <= 0 || u >= nthreads || !o->spawned || o->joined || o->parent != c->tid) return;   /* only the creator joins */
  if (c->tid == 0) go_flag = 1;
  join(thr[u]);
  o->joined = 1;
  /* probes finalised while the thread's collector was torn down (recorded by the thread itself) */
  flush_fin(o, 'x');
  check_pubs(o);      /* what the thread published must be alive and readable right after join */
}

static int count_kind(struct Node* n, char k) {
  int r = 0;
  for (; n; n = n->next) { if (n->kind == k) r++; r += count_kind(n->body, k) + count_kind(n->handler, k); }
  return r;
}

static int count_spawn_of(struct Node* n, long u) {
  int r = 0;
  for (; n; n = n->next) { if (n->kind == 'S' && n->a == u) r++; r += count_spawn_of(n->body, u) + count_spawn_of(n->handler, u); }
  return r;
}

static int count_copy_of(struct Node* n, long v) {
  int r = 0;
  for (; n; n = n->next) { if (n->kind == 'K' && n->a == v) r++; r += count_copy_of(n->body, v) + count_copy_of(n->handler, v); }
  return r;
}

static int count_copies(struct Node** progs, int np, long v) {
  int r = 0;
  for (int t = 0; t < np; t++) r += count_copy_of(progs[t], v);
  return r;
}

static int count_spawns(struct Node** progs, int np, long u) {
  int r = 0;
  for (int t = 0; t < np; t++) r += count_spawn_of(progs[t], u);
  return r;
}

static void print_traces(int phase, int from) {
  for (int t = from; t < nthreads; t++)
    P("%st%d:%s", t > from ? " / " : "", t, ctx[phase][t].buf ? ctx[phase][t].buf : "");
}

static void one_case(char* line) {
  char* s = line;
  char* f_nm = next_tok(&s, '|');
  char* f_sched = next_tok(&s, '|');
  if (!f_nm || !f_sched) { P("BADCASE"); return; }
  char f_nm_copy[32]; snprintf(f_nm_copy, sizeof f_nm_copy, "%s", f_nm);
  nmutex = atoi(f_nm); if (nmutex > MAXM) nmutex = MAXM;
  managed_threads = strchr(f_nm, 'g') != NULL;
  memset(thr, 0, sizeof thr);
  uint64_t seed = 1469598103934665603ULL;
  for (char* p = f_sched; *p; p++) seed = mix(seed, (uint64_t)*p);
  struct Node* progs[MAXT];
  nthreads = 0;
  /* programs are separated by '|'; an empty program is a thread that does nothing */
  while (nthreads < MAXT && s != NULL) {
    char* bar = strchr(s, '|');
    if (bar) *bar = 0;
    char* q = s;
    progs[nthreads++] = parse_block(&q, 0, NULL);
    s = bar ? bar + 1 : NULL;
  }
  if (nthreads == 0) { P("BADCASE"); return; }

  EX[0] = KeyError; EX[1] = ValueError; EX[2] = TypeError; EX[3] = IOError; EX[4] = IndexOutOfBoundsError; EX[5] = ClassError;
  /* what exception_signals() turns SIGFPE, SIGSEGV, SIGTERM, SIGINT, SIGILL, SIGABRT into */
  EX[6] = DivisionByZeroError; EX[7] = SegmentationError; EX[8] = ProgramTerminationError;
  EX[9] = ProgramInterruptedError; EX[10] = IllegalInstructionError; EX[11] = ProgramAbortedError;
  if (strchr(f_nm_copy, 'x')) exception_signals();      /* case flag x: signals become exceptions (process-wide handlers) */
  var fobj = $(Function, worker_fn);
  worker_function_object = fobj;
  for (int m = 0; m < MAXM; m++) mx[m] = new_raw(Mutex);
  for (int t = 0; t < MAXT; t++) targ[t] = new_raw(Int, $I(t));
  var shared_root = strchr(f_nm_copy, 's') ? new(Array, Int) : new_raw(Array, Int);
  shared_arr = shared_root;

  /* ---- phase A: every worker alone */
  cur_phase = 0;
  for (int t = 1; t < nthreads && !strchr(f_nm_copy, 'n'); t++) {      /* flag n: no stand-alone phase (long-hold scenarios) */
    struct TCtx* c = &ctx[0][t];
    memset(c, 0, sizeof *c);
    c->tid = t; c->phase = 0;
    if (count_copies(progs, nthreads, t)) continue;      /* a copy of a Thread starts with its source's TLS: no stand-alone run */
    c->prog = progs[t]; c->alone = 1; c->rnd = seed + (uint64_t)t * 77;
    for (int m = 0; m < MAXM; m++) { cell[m] = 0; inside[m] = 0; insec[m] = 0; }
    var th = new_raw(Thread, fobj);
    int rounds = count_spawns(progs, nthreads, t);
    for (int r = 0; r < (rounds < 1 ? 1 : rounds); r++) {     /* as often as the Thread object is called together */
      if (r) tlog(c, "R");
      call(th, targ[t]);
      join(th);
      flush_fin(c, 'x');
    }
    del_raw(th);
  }
  P("A: "); if (!strchr(f_nm_copy, 'n')) print_traces(0, 1);
  n_sec = 0;
  int a_overlap = n_overlap;

  /* ---- phase C: all together */
  cur_phase = 1;
  for (int m = 0; m < MAXM; m++) { cell[m] = 0; inside[m] = 0; insec[m] = 0; }
  n_running = 0; n_maxpar = 0; n_miss = 0; n_qskip = 0;
  for (int t = 0; t < nthreads; t++) {
    struct TCtx* c = &ctx[1][t];
    memset(c, 0, sizeof *c);
    c->tid = t; c->phase = 1; c->prog = progs[t]; c->alone = 0; c->rnd = seed * 31 + (uint64_t)t * 1315423911ULL;
  }
  total_spawns = count_kind(progs[0], 'S'); done_spawns = 0; go_flag = 0;
  ctx[1][0].spawned = 1;
  run_prog(&ctx[1][0]);
  me = &ctx[1][0];
  go_flag = 1;
  int unjoined = 0;
  for (int t = 1; t < nthreads; t++)
    if (ctx[1][t].spawned && ctx[1][t].parent == 0 && !ctx[1][t].joined) { unjoined++; join(thr[t]); ctx[1][t].joined = 1; flush_fin(&ctx[1][t], 'x'); }
  tlog(&ctx[1][0], "x{}");
  P(" ## C: "); print_traces(1, 0);
  P(" # ");
  for (int m = 0; m < nmutex; m++) P("%sc%d=%ld", m ? "," : "", m, cell[m]);
  P(" # %s # ok", seenbuf ? seenbuf : "");

  /* ---- ledger: every probe of a joined worker finalised exactly once, by its owner */
  int unfin = 0;
  for (int ph = 0; ph < 2; ph++)
    for (int t = 1; t < nthreads; t++) {
      if (ph == 1 && !ctx[1][t].joined) continue;
      for (int i = 0; i < ctx[ph][t].serial && i < MAXOBJ; i++) {
        if (led[ph][t][i].ndtor == 0 && !led[ph][t][i].pub) unfin++;
      }
    }
  char lost[256]; size_t ln = 0; lost[0] = 0;
  for (int m = 0; m < nmutex; m++) {
    long sum = 0;
    for (int t = 0; t < nthreads; t++) sum += ctx[1][t].incs[m];
    if (sum != cell[m]) ln += (size_t)snprintf(lost + ln, sizeof lost - ln, "%sc%d:%ld-of-%ld", ln ? "," : "", m, cell[m], sum);
  }
  int tsover = 0, nsec = n_sec < MAXSEC ? n_sec : MAXSEC;
  for (int a = 0; a < nsec; a++)
    for (int b2 = a + 1; b2 < nsec; b2++)
      if (seclog[a].m == seclog[b2].m && seclog[a].leave > 0 && seclog[b2].leave > 0 &&
          seclog[a].enter < seclog[b2].leave && seclog[b2].enter < seclog[a].leave) tsover++;
  for (int t = 1; t < nthreads; t++) if (ctx[1][t].joined) check_pubs(&ctx[1][t]);
  P(" ## X: startctx=%d ctxshared=%d pubdead=%d tsover=%d sections=%d qskip=%d lost=%s overlap=%d miss=%d maxpar=%d cross=%d double=%d unfin=%d rootkill=%d stale=%d unjoined=%d",
    n_startctx, n_ctxshared, n_pubdead, tsover, nsec, n_qskip, ln ? lost : "0", n_overlap + a_overlap * 0, n_miss, n_maxpar, n_cross, n_double, unfin, n_rootkill, n_stale, unjoined + n_unjoined);
}

int main(int argc, char** argv) {
  run_all_cases(one_case);
  return 0;
}
