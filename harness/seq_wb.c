/* seq_wb.c — correspondence harness for Array, List and Tuple (C04), white-box for Array.
 * Textually includes the working tree's src/Array.c and src/List.c (so `struct Array`, nslots,
 * `struct List` and its links are visible) and is linked against every object except those two.
 * Input / transcript format: see ocaml/Seq_driver.ml.  Elements are Int objects; a Tuple gets a
 * fresh heap Int per element (distinct pointers: finding F3 is probed separately, kind F). */
#include "Array.c"
#include "List.c"
#include "hcommon.h"

/* Case header  <K><flags>|  with flags: '*' = explicit dump mode (a step is dumped only when its
 * operation token ends in '!' (full dump, ascending gets), '^' (gets at descending indices),
 * '~' (iteration and mem only); a final full dump " | end;..." closes the case) — so that state
 * depending on the ACCESS PATTERN (a cached cursor, say) is not reset by the observation itself;
 * 'e<size>' = elements are plain structs of <size> bytes (own Cello type, no instances: assign =
 * memcpy, cmp = memcmp, swap = memswap) whose every byte is a function of the value 0..250. */
#define DEFELEM(N) struct E##N { uint8_t b[N]; }; static var E##N = Cello(E##N);
DEFELEM(1) DEFELEM(2) DEFELEM(4) DEFELEM(6) DEFELEM(12) DEFELEM(20)
static var ETYPE = NULL;     /* NULL: elements are Int */
static size_t ESIZE = 0;
static int EXPLICIT = 0;
static int CMPK = -1;        /* -1: `t` is sort(t); 0..7: `t` is sort_by(t, CMPS[CMPK]) (flag c<d>, coq/SeqCmps.v) */

static uint64_t uabs(int64_t x) { return x < 0 ? (uint64_t)0 - (uint64_t)x : (uint64_t)x; }
static bool f_lt(var a, var b) { return c_int(a) < c_int(b); }
static bool f_gt(var a, var b) { return c_int(a) > c_int(b); }
static bool f_le(var a, var b) { return c_int(a) <= c_int(b); }
static bool f_ge(var a, var b) { return c_int(a) >= c_int(b); }
static bool f_abs(var a, var b) { return uabs(c_int(a)) < uabs(c_int(b)); }
static bool f_key(var a, var b) { return uabs(c_int(a)) / 4 < uabs(c_int(b)) / 4; }
static bool f_never(var a, var b) { return false; }
static bool f_always(var a, var b) { return true; }
static bool (*CMPS[8])(var, var) = { f_lt, f_gt, f_le, f_ge, f_abs, f_key, f_never, f_always };

#define NPROBE 4
static const int64_t PROBES[NPROBE] = {0, 1, 2, 7};
#define MAXV 4096

static char KIND;          /* A L T S F */

static int64_t num(const char* s) { return (int64_t)strtoll(s, NULL, 10); }

/* element object handed to the container: Array/List copy it, Tuple keeps the pointer */
static var elem(int64_t v) {
  if (ETYPE is NULL) return new_raw(Int, $I(v));
  uint8_t* p = alloc_raw(ETYPE);
  for (size_t k = 0; k < ESIZE; k++) p[k] = (uint8_t)(v * (int64_t)(2 * k + 1));
  return p;
}
/* value of an element; a struct element whose bytes do not all belong to one value is torn and
 * reads as a negative number no model value can have */
static int64_t val(var x) {
  if (ETYPE is NULL) return c_int(x);
  uint8_t* p = x; int64_t v = p[0];
  for (size_t k = 1; k < ESIZE; k++)
    if (p[k] != (uint8_t)(v * (int64_t)(2 * k + 1))) return -1000000 - (int64_t)k * 1000 - p[k];
  return v;
}

/* "v,v,v" -> fresh container of kind k holding those values */
static var make(char k, char* list) {
  var args = new_raw(Tuple);
  if (k isnt 'T') push(args, ETYPE ? ETYPE : Int);
  char* q = list; char* tok;
  while ((tok = next_tok(&q, ',')) != NULL) { if (*tok) push(args, elem(num(tok))); }
  if (k is 'A') return new_raw_with(Array, args);
  if (k is 'L') return new_raw_with(List, args);
  return new_raw_with(Tuple, args);
}

/* white-box view of a List: the links agree with nitems, and a cached cursor (a pointer field with
 * a companion index field, if the struct has one: -DLIST_CURSOR_PTR=.. -DLIST_CURSOR_IDX=..) still
 * points at the node with that index */
static const char* list_links(struct List* l) {
  size_t n = 0; var prev = NULL; var item = l->head;
  while (item) {
    if (*List_Prev(l, item) isnt prev) return "LINKS:prev";
    if (++n > l->nitems + 1) return "LINKS:long";
    prev = item; item = *List_Next(l, item);
  }
  if (prev isnt l->tail) return "LINKS:tail";
  if (n != l->nitems) return "LINKS:count";
#ifdef LIST_CURSOR_PTR
  if (l->LIST_CURSOR_PTR) {
    item = l->head;
    for (size_t i = 0; item and i < (size_t)l->LIST_CURSOR_IDX; i++) item = *List_Next(l, item);
    if (item isnt l->LIST_CURSOR_PTR) return "CURSOR:stale";
  }
#endif
  return "-";
}

static void wbox(var t) {
  if (KIND is 'A') P(";%zu", ((struct Array*)t)->nslots);
  else if (KIND is 'L') P(";%s", list_links(t));
  else P(";-");
}

static void dump(var t) {
  size_t n = 0;
  try { n = len(t); } catch (e) { P(";!%s", exn_name(e)); return; }
  static int64_t g[MAXV]; static char gok[MAXV];
  P(";%zu;", n);
  size_t m = n < MAXV ? n : MAXV;
  for (size_t i = 0; i < m; i++) {
    gok[i] = 0;
    try { g[i] = val(get(t, $I((int64_t)i))); gok[i] = 1; } catch (e) { g[i] = 0; }
    if (i) P(",");
    if (gok[i]) P("%" PRId64, g[i]); else P("!E");
  }
  /* negative indices -1 .. -len: "=" when they mirror the positive ones */
  int same = 1;
  static int64_t h[MAXV]; static char hok[MAXV];
  for (size_t i = 0; i < m; i++) {
    hok[i] = 0;
    try { h[i] = val(get(t, $I(-(int64_t)(i + 1)))); hok[i] = 1; } catch (e) { h[i] = 0; }
    if (hok[i] != gok[m - 1 - i] || h[i] != g[m - 1 - i]) same = 0;
  }
  P(";");
  if (same) P("="); else for (size_t i = 0; i < m; i++) { if (i) P(","); if (hok[i]) P("%" PRId64, h[i]); else P("!E"); }
  /* forward iteration: "=" when equal to the positive gets */
  static int64_t it[MAXV]; size_t cnt = 0; int runaway = 0; const char* ierr = NULL;
  try {
    foreach (x in t) {
      if (cnt >= m + 4 || cnt >= MAXV) { runaway = 1; break; }
      it[cnt++] = val(x);
    }
  } catch (e) { ierr = exn_name(e); }
  same = (!runaway && !ierr && cnt == m);
  for (size_t i = 0; same && i < m; i++) if (!gok[i] || it[i] != g[i]) same = 0;
  /* backward iteration (iter_last / iter_prev): must be the exact reverse of the positive gets */
  static int64_t bk[MAXV]; size_t bcnt = 0; int brun = 0; const char* berr = NULL;
  try {
    var x = iter_last(t);
    while (x isnt Terminal) {
      if (bcnt >= m + 4 || bcnt >= MAXV) { brun = 1; break; }
      bk[bcnt++] = val(x);
      x = iter_prev(t, x);
    }
  } catch (e) { berr = exn_name(e); }
  int bsame = (!brun && !berr && bcnt == m);
  for (size_t i = 0; bsame && i < m; i++) if (!gok[m - 1 - i] || bk[i] != g[m - 1 - i]) bsame = 0;
  P(";");
  if (same && bsame) P("=");
  else if (runaway) P("RUNAWAY");
  else if (ierr) P("!%s", ierr);
  else if (!same) for (size_t i = 0; i < cnt; i++) { if (i) P(","); P("%" PRId64, it[i]); }
  else if (brun) P("BACKWARD-RUNAWAY");
  else if (berr) P("BACKWARD!%s", berr);
  else { P("BACKWARD:"); for (size_t i = 0; i < bcnt; i++) { if (i) P(","); P("%" PRId64, bk[i]); } }
  P(";");
  for (int p = 0; p < NPROBE; p++) {
    try { P("%d", mem(t, elem(PROBES[p])) ? 1 : 0); } catch (e) { P("!"); }
  }
  wbox(t);
}

/* '^': gets at descending indices n-1..0, then -n..-1 (no sweep from index 0 upwards) */
static void dump_desc(var t) {
  size_t n = 0;
  try { n = len(t); } catch (e) { P(";!%s", exn_name(e)); return; }
  static int64_t g[MAXV]; static char gok[MAXV]; static int64_t h[MAXV]; static char hok[MAXV];
  size_t m = n < MAXV ? n : MAXV;
  for (size_t i = m; i-- > 0; ) {
    gok[i] = 0;
    try { g[i] = val(get(t, $I((int64_t)i))); gok[i] = 1; } catch (e) { g[i] = 0; }
  }
  int same = 1;
  for (size_t j = m; j-- > 0; ) {           /* key -(j+1) */
    hok[j] = 0;
    try { h[j] = val(get(t, $I(-(int64_t)(j + 1)))); hok[j] = 1; } catch (e) { h[j] = 0; }
    if (hok[j] != gok[m - 1 - j] || h[j] != g[m - 1 - j]) same = 0;
  }
  P(";%zu;^;", n);
  for (size_t i = 0; i < m; i++) { if (i) P(","); if (gok[i]) P("%" PRId64, g[i]); else P("!E"); }
  P(";");
  if (same) P("="); else for (size_t i = 0; i < m; i++) { if (i) P(","); if (hok[i]) P("%" PRId64, h[i]); else P("!E"); }
}

/* '~': forward iteration and mem only (no indexed access at all) */
static void dump_iter(var t) {
  size_t n = 0;
  try { n = len(t); } catch (e) { P(";!%s", exn_name(e)); return; }
  P(";%zu;~;", n);
  size_t cnt = 0; const char* ierr = NULL;
  try {
    foreach (x in t) {
      if (cnt >= n + 4 || cnt >= MAXV) { P("%sRUNAWAY", cnt ? "," : ""); break; }
      if (cnt) P(",");
      P("%" PRId64, val(x)); cnt++;
    }
  } catch (e) { ierr = exn_name(e); }
  if (ierr) P("!%s", ierr);
  P(";");
  for (int p = 0; p < NPROBE; p++) {
    try { P("%d", mem(t, elem(PROBES[p])) ? 1 : 0); } catch (e) { P("!"); }
  }
}

static void dump_none(var t) {
  try { P(";%zu", len(t)); } catch (e) { P(";!%s", exn_name(e)); }
}

static void one_case(char* line) {
  char* bar = strchr(line, '|');
  if (line[0] == 0 || bar == NULL) { P("BADCASE"); return; }
  KIND = line[0]; ETYPE = NULL; ESIZE = 0; EXPLICIT = 0; CMPK = -1;
  for (char* f = line + 1; f < bar; f++) {
    if (*f == '*') EXPLICIT = 1;
    else if (*f == 'c' && f[1] >= '0' && f[1] <= '7') { CMPK = f[1] - '0'; f++; }
    else if (*f == 'e') {
      ESIZE = (size_t)strtoul(f + 1, &f, 10); f--;
      ETYPE = ESIZE == 1 ? E1 : ESIZE == 2 ? E2 : ESIZE == 4 ? E4 : ESIZE == 6 ? E6 : ESIZE == 12 ? E12 : ESIZE == 20 ? E20 : NULL;
      if (ETYPE is NULL) { P("BADCASE"); return; }
    } else { P("BADCASE"); return; }
  }
  char* s = bar + 1; char* tok;
  var volatile t = NULL;
  var stackitems[256];

  if (KIND is 'F') {
    /* finding F3: the same object twice; iteration by pointer identity does not advance */
    var p = elem(5);
    var f = new_raw(Tuple, p, p);
    P("new;%zu;", len(f));
    size_t cnt = 0; int runaway = 0;
    foreach (x in f) {
      if (cnt >= 1000) { runaway = 1; break; }
      cnt++;
    }
    if (runaway) P("RUNAWAY"); else { for (size_t i = 0; i < cnt; i++) P(i ? ",5" : "5"); }
    return;
  }

  int started = 0;
  while ((tok = next_tok(&s, ' ')) != NULL || !started) {
    if (tok != NULL && *tok == 0) continue;
    if (!started) {
      started = 1;
      char* init = (tok != NULL && tok[0] == 'N') ? tok + 1 : NULL;
      char empty[1] = {0};
      if (KIND is 'S') {
        size_t k = 0; char* q = init ? init : empty; char* v;
        while ((v = next_tok(&q, ',')) != NULL && k < 255) { if (*v) stackitems[k++] = elem(num(v)); }
        stackitems[k] = Terminal;
        t = $(Tuple, stackitems);
      } else {
        t = make(KIND, init ? init : empty);
      }
      P("new"); dump(t);
      if (tok == NULL) break;
      if (init) continue;
    }
    char how = EXPLICIT ? ' ' : '!';
    size_t tl = strlen(tok);
    if (EXPLICIT && tl > 1 && (tok[tl - 1] == '!' || tok[tl - 1] == '^' || tok[tl - 1] == '~')) { how = tok[tl - 1]; tok[tl - 1] = 0; }
    const char* res = "ok"; char rbuf[64];
    try {
      switch (tok[0]) {
        case 'u': push(t, elem(num(tok + 1))); break;
        case 'o': pop(t); break;
        case 'i': { char* c = strchr(tok, ','); *c = 0; push_at(t, elem(num(c + 1)), $I(num(tok + 1))); break; }
        case 'd': pop_at(t, $I(num(tok + 1))); break;
        case 's': { char* c = strchr(tok, ','); *c = 0; set(t, $I(num(tok + 1)), elem(num(c + 1))); break; }
        case 'g': { var v = get(t, $I(num(tok + 1)));
                    snprintf(rbuf, sizeof rbuf, "v%" PRId64, (int64_t)val(v)); res = rbuf; break; }
        case 'm': res = mem(t, elem(num(tok + 1))) ? "true" : "false"; break;
        case 'r': rem(t, elem(num(tok + 1))); break;
        case 'c': concat(t, make(tok[1], tok + 3)); break;
        case 'a': append(t, elem(num(tok + 1))); break;
        case 'z': resize(t, (size_t)strtoull(tok + 1, NULL, 10)); break;
        case 't': {
          /* a Tuple sorts pointers: the result must hold exactly the pointers it held (by identity) */
          static var before[MAXV]; size_t nb = 0;
          if (KIND is 'T' or KIND is 'S') { nb = len(t); if (nb > MAXV) nb = MAXV; for (size_t i = 0; i < nb; i++) before[i] = get(t, $I((int64_t)i)); }
          if (CMPK < 0) sort(t); else sort_by(t, CMPS[CMPK]);
          if (KIND is 'T' or KIND is 'S') {
            if (len(t) != nb) res = "ok!LEN";
            for (size_t i = 0; i < nb and i < len(t); i++) {
              var x = get(t, $I((int64_t)i)); size_t j = 0;
              while (j < nb and before[j] isnt x) j++;
              if (j == nb) { res = "ok!POINTERS"; break; }
              before[j] = NULL;
            }
          }
          break; }
        case 'n': assign(t, make(tok[1], tok + 3)); break;
        /* D21 witnesses: a wrong-typed element (String into a container of Int) */
        case 'x': push(t, new_raw(String, $S("x"))); break;
        case 'X': { var src = make('T', tok + 2); push(src, new_raw(String, $S("x"))); push(src, elem(99));
                    concat(t, src); break; }
        case 'y': { var t2 = assign(alloc_raw(type_of(t)), t); t = t2; if (KIND is 'S') KIND = 'T'; break; }
        default: res = "BADOP";
      }
    } catch (e) { res = exn_name(e); }
    P(" | %s", res);
    if (how == '!') dump(t); else if (how == '^') dump_desc(t); else if (how == '~') dump_iter(t); else dump_none(t);
    fflush(OUT);
  }
  if (EXPLICIT) { P(" | end"); dump(t); }
}

int main(int argc, char** argv) {
  run_all_cases(one_case);
  return 0;
}
