/* seq_wb.c — correspondence harness for Array, List and Tuple (C04), white-box for Array.
 * Textually includes the working tree's src/Array.c (so `struct Array` and nslots are visible)
 * and is linked against every library object except Array.o.
 * Input / transcript format: see ocaml/Seq_driver.ml.  Elements are Int objects; a Tuple gets a
 * fresh heap Int per element (distinct pointers: finding F3 is probed separately, kind F). */
#include "Array.c"
#include "hcommon.h"

#define NPROBE 4
static const int64_t PROBES[NPROBE] = {0, 1, 2, 7};
#define MAXV 4096

static char KIND;          /* A L T S F */

static int64_t num(const char* s) { return (int64_t)strtoll(s, NULL, 10); }

/* element object handed to the container: Array/List copy it, Tuple keeps the pointer */
static var elem(int64_t v) { return new_raw(Int, $I(v)); }

/* "v,v,v" -> fresh container of kind k holding those values */
static var make(char k, char* list) {
  var args = new_raw(Tuple);
  if (k isnt 'T') push(args, Int);
  char* q = list; char* tok;
  while ((tok = next_tok(&q, ',')) != NULL) { if (*tok) push(args, elem(num(tok))); }
  if (k is 'A') return new_raw_with(Array, args);
  if (k is 'L') return new_raw_with(List, args);
  return new_raw_with(Tuple, args);
}

static void pval(var x) { P("%" PRId64, (int64_t)c_int(x)); }

static void dump(var t) {
  size_t n = 0;
  try { n = len(t); } catch (e) { P(";!%s", exn_name(e)); return; }
  static int64_t g[MAXV]; static char gok[MAXV];
  P(";%zu;", n);
  size_t m = n < MAXV ? n : MAXV;
  for (size_t i = 0; i < m; i++) {
    gok[i] = 0;
    try { g[i] = c_int(get(t, $I((int64_t)i))); gok[i] = 1; } catch (e) { g[i] = 0; }
    if (i) P(",");
    if (gok[i]) P("%" PRId64, g[i]); else P("!E");
  }
  /* negative indices -1 .. -len: "=" when they mirror the positive ones */
  int same = 1;
  static int64_t h[MAXV]; static char hok[MAXV];
  for (size_t i = 0; i < m; i++) {
    hok[i] = 0;
    try { h[i] = c_int(get(t, $I(-(int64_t)(i + 1)))); hok[i] = 1; } catch (e) { h[i] = 0; }
    if (hok[i] != gok[m - 1 - i] || h[i] != g[m - 1 - i]) same = 0;
  }
  P(";");
  if (same) P("="); else for (size_t i = 0; i < m; i++) { if (i) P(","); if (hok[i]) P("%" PRId64, h[i]); else P("!E"); }
  /* forward iteration: "=" when equal to the positive gets */
  static int64_t it[MAXV]; size_t cnt = 0; int runaway = 0; const char* ierr = NULL;
  try {
    foreach (x in t) {
      if (cnt >= m + 4 || cnt >= MAXV) { runaway = 1; break; }
      it[cnt++] = c_int(x);
    }
  } catch (e) { ierr = exn_name(e); }
  same = (!runaway && !ierr && cnt == m);
  for (size_t i = 0; same && i < m; i++) if (!gok[i] || it[i] != g[i]) same = 0;
  /* backward iteration (iter_last / iter_prev): must be the exact reverse of the positive gets */
  static int64_t bk[MAXV]; size_t bcnt = 0; int brun = 0; const char* berr = NULL;
  try {
    var x = iter_last(t);
    while (x isnt Terminal) {
      if (bcnt >= m + 4 || bcnt >= MAXV) { brun = 1; break; }
      bk[bcnt++] = c_int(x);
      x = iter_prev(t, x);
    }
  } catch (e) { berr = exn_name(e); }
  int bsame = (!brun && !berr && bcnt == m);
  for (size_t i = 0; bsame && i < m; i++) if (!gok[m - 1 - i] || bk[i] != g[m - 1 - i]) bsame = 0;
  P(";");
  if (same && bsame) P("=");
  else if (runaway) P("RUNAWAY");
  else if (ierr) P("!%s", ierr);
  else if (!same) for (size_t i = 0; i < cnt; i++) { if (i) P(","); P("%" PRId64, it[i]); }
  else if (brun) P("BACKWARD-RUNAWAY");
  else if (berr) P("BACKWARD!%s", berr);
  else { P("BACKWARD:"); for (size_t i = 0; i < bcnt; i++) { if (i) P(","); P("%" PRId64, bk[i]); } }
  P(";");
  for (int p = 0; p < NPROBE; p++) {
    try { P("%d", mem(t, $I(PROBES[p])) ? 1 : 0); } catch (e) { P("!"); }
  }
  if (KIND is 'A') P(";%zu", ((struct Array*)t)->nslots); else P(";-");
}

static void one_case(char* line) {
  if (line[0] == 0 || line[1] != '|') { P("BADCASE"); return; }
  KIND = line[0];
  char* s = line + 2; char* tok;
  var volatile t = NULL;
  var stackitems[256];

  if (KIND is 'F') {
    /* finding F3: the same object twice; iteration by pointer identity does not advance */
    var p = elem(5);
    var f = new_raw(Tuple, p, p);
    P("new;%zu;", len(f));
    size_t cnt = 0; int runaway = 0;
    foreach (x in f) {
      if (cnt >= 1000) { runaway = 1; break; }
      cnt++;
    }
    if (runaway) P("RUNAWAY"); else { for (size_t i = 0; i < cnt; i++) P(i ? ",5" : "5"); }
    return;
  }

  int started = 0;
  while ((tok = next_tok(&s, ' ')) != NULL || !started) {
    if (tok != NULL && *tok == 0) continue;
    if (!started) {
      started = 1;
      char* init = (tok != NULL && tok[0] == 'N') ? tok + 1 : NULL;
      char empty[1] = {0};
      if (KIND is 'S') {
        size_t k = 0; char* q = init ? init : empty; char* v;
        while ((v = next_tok(&q, ',')) != NULL && k < 255) { if (*v) stackitems[k++] = elem(num(v)); }
        stackitems[k] = Terminal;
        t = $(Tuple, stackitems);
      } else {
        t = make(KIND, init ? init : empty);
      }
      P("new"); dump(t);
      if (tok == NULL) break;
      if (init) continue;
    }
    const char* res = "ok"; char rbuf[64];
    try {
      switch (tok[0]) {
        case 'u': push(t, elem(num(tok + 1))); break;
        case 'o': pop(t); break;
        case 'i': { char* c = strchr(tok, ','); *c = 0; push_at(t, elem(num(c + 1)), $I(num(tok + 1))); break; }
        case 'd': pop_at(t, $I(num(tok + 1))); break;
        case 's': { char* c = strchr(tok, ','); *c = 0; set(t, $I(num(tok + 1)), elem(num(c + 1))); break; }
        case 'g': { var v = get(t, $I(num(tok + 1)));
                    snprintf(rbuf, sizeof rbuf, "v%" PRId64, (int64_t)c_int(v)); res = rbuf; break; }
        case 'm': res = mem(t, $I(num(tok + 1))) ? "true" : "false"; break;
        case 'r': rem(t, $I(num(tok + 1))); break;
        case 'c': concat(t, make(tok[1], tok + 3)); break;
        case 'a': append(t, elem(num(tok + 1))); break;
        case 'z': resize(t, (size_t)strtoull(tok + 1, NULL, 10)); break;
        case 't': sort(t); break;
        case 'n': assign(t, make(tok[1], tok + 3)); break;
        /* D21 witnesses: a wrong-typed element (String into a container of Int) */
        case 'x': push(t, new_raw(String, $S("x"))); break;
        case 'X': { var src = make('T', tok + 2); push(src, new_raw(String, $S("x"))); push(src, elem(99));
                    concat(t, src); break; }
        case 'y': { var t2 = assign(alloc_raw(type_of(t)), t); t = t2; if (KIND is 'S') KIND = 'T'; break; }
        default: res = "BADOP";
      }
    } catch (e) { res = exn_name(e); }
    P(" | %s", res); dump(t);
    fflush(OUT);
  }
}

int main(int argc, char** argv) {
  run_all_cases(one_case);
  return 0;
}
