/* hcommon.h — shared scaffolding of the correspondence harnesses.
 * Each harness reads one case per line on stdin and prints exactly one transcript line
 * per case on stdout.  Every case runs in a forked child with a watchdog, so that a crash
 * or a hang of the library is an observation (" | CRASH(sig)" / " | TIMEOUT") and not the
 * end of the run.  The child writes its transcript into a pipe. */
#ifndef HCOMMON_H
#define HCOMMON_H
#include <stdio.h>
#include <stdlib.h>
#include <string.h>
#include <stdint.h>
#include <inttypes.h>
#include <unistd.h>
#include <signal.h>
#include <sys/wait.h>
#include <sys/types.h>

static FILE* OUT;              /* transcript sink of the current case (pipe in the child) */
static int H_TIMEOUT = 20;     /* seconds per case */
static int H_NOFORK = 0;

#define P(...) fprintf(OUT, __VA_ARGS__)

/* name of a Cello exception object */
static const char* exn_name(var e) {
  if (e is KeyError) return "KeyError";
  if (e is FormatError) return "FormatError";
  if (e is ValueError) return "ValueError";
  if (e is IndexOutOfBoundsError) return "IndexOutOfBoundsError";
  if (e is TypeError) return "TypeError";
  if (e is ClassError) return "ClassError";
  if (e is ResourceError) return "ResourceError";
  if (e is IOError) return "IOError";
  if (e is OutOfMemoryError) return "OutOfMemoryError";
  if (e is BusyError) return "BusyError";
  if (e is SegmentationError) return "SegmentationError";
  if (e is DivisionByZeroError) return "DivisionByZeroError";
  return "OtherError";
}

typedef void (*case_fn)(char* line);

static void run_case_forked(case_fn f, char* line) {
  if (H_NOFORK) { OUT = stdout; f(line); fputc('\n', stdout); fflush(stdout); return; }
  int fd[2];
  if (pipe(fd) != 0) { perror("pipe"); exit(2); }
  fflush(stdout);
  pid_t pid = fork();
  if (pid == 0) {
    close(fd[0]);
    OUT = fdopen(fd[1], "w");
    alarm(H_TIMEOUT);
    f(line);
    fflush(OUT);
    _exit(0);
  }
  close(fd[1]);
  char buf[65536];
  ssize_t n;
  while ((n = read(fd[0], buf, sizeof buf)) > 0) {
    /* a transcript never contains a newline; be safe */
    for (ssize_t i = 0; i < n; i++) if (buf[i] == '\n') buf[i] = ' ';
    fwrite(buf, 1, (size_t)n, stdout);
  }
  close(fd[0]);
  int st = 0;
  waitpid(pid, &st, 0);
  if (WIFSIGNALED(st)) {
    if (WTERMSIG(st) == SIGALRM) printf(" | TIMEOUT");
    else printf(" | CRASH(%d)", WTERMSIG(st));
  } else if (WIFEXITED(st) && WEXITSTATUS(st) != 0) {
    printf(" | EXIT(%d)", WEXITSTATUS(st));
  }
  fputc('\n', stdout);
  fflush(stdout);
}

static void run_all_cases(case_fn f) {
  char* line = NULL; size_t cap = 0; ssize_t n;
  if (getenv("H_NOFORK")) H_NOFORK = 1;
  if (getenv("H_TIMEOUT")) H_TIMEOUT = atoi(getenv("H_TIMEOUT"));
  while ((n = getline(&line, &cap, stdin)) >= 0) {
    if (n > 0 && line[n-1] == '\n') line[n-1] = 0;
    run_case_forked(f, line);
  }
  free(line);
}

/* simple tokenizer over a mutable string */
static char* next_tok(char** s, char sep) {
  if (*s == NULL || **s == 0) return NULL;
  char* b = *s;
  char* e = strchr(b, sep);
  if (e) { *e = 0; *s = e + 1; } else { *s = b + strlen(b); }
  return b;
}

#endif
