/* config_workload.c — correspondence harness for C18 (build configurations agree).
 * Compiled once per library configuration (the configuration macros reach this file through the
 * library's own flags, so the object-header layout always matches the library it is linked with).
 *
 * Two kinds of case (one per stdin line, one transcript line each, every case in a forked child):
 *
 *   seq|<v>,<v>,...|<op> <op> ...     the sequence API of Array.c on an Array of Int; the transcript is
 *                                     the one of ocaml/Config_driver.ml (extracted model / specification)
 *   hp|<nregs>|<op> <op> ...          heap programs of the collector model (gop of coq/Config.v): objects are
 *                                     collector-managed structs reached only through the register file; the
 *                                     transcript is the one of ocaml/Config_driver.ml (heap0 / heap1)
 *   wl|<op> <op> ...                  the in-contract workload interpreter: a register machine over Cello
 *                                     objects.  EVERY operation normalises its arguments into the contract
 *                                     of the call it makes (indices modulo the current length, keys looked
 *                                     up only when present, pops only when non-empty, …) or prints `-`, so
 *                                     any token list is an in-contract program and can be shrunk freely.
 *                                     The transcript never contains an address (they are scrubbed from
 *                                     `show` output), a hash of a pointer, or anything finaliser-visible.
 *
 * Registers live on the C stack of run_workload() so that the conservative collector sees them.
 * Objects are created with new() (collector-managed when the library has one), dropped or del()ed by the
 * program; in GC builds `gc` forces a full collection (GC_Mark + GC_Sweep).
 * Avoided on purpose (open defects of other properties, DESIGN.md section 8): backward iteration of an
 * Array (D9), slices whose walk does not end exactly at the end (D12), String rem (D6), show of strings
 * with escapes (D7), tuples with a repeated pointer (F3), cyclic tuples (D17), Box (D18), nested handlers
 * that both match (D3), Range get with negative keys (D11). */
#include "Cello.h"
#include "hcommon.h"

#ifndef CELLO_NGC
void GC_Mark(struct GC* gc);
void GC_Sweep(struct GC* gc);
#endif

#define NREG 10

/* ------------------------------------------------------------------ a user type with its own instances */
struct Pt { int64_t x; int64_t y; };
static void Pt_New(var self, var args) {
  struct Pt* p = self;
  p->x = c_int(get(args, $I(0)));
  p->y = c_int(get(args, $I(1)));
}
static void Pt_Assign(var self, var obj) {
  struct Pt* p = self; struct Pt* o = cast(obj, type_of(self));
  p->x = o->x; p->y = o->y;
}
static int Pt_Cmp(var a, var b) {
  struct Pt* p = a; struct Pt* q = cast(b, type_of(a));
  if (p->x != q->x) return p->x < q->x ? -1 : 1;
  if (p->y != q->y) return p->y < q->y ? -1 : 1;
  return 0;
}
static uint64_t Pt_Hash(var a) { struct Pt* p = a; return (uint64_t)(p->x * 31 + p->y); }
static int Pt_Show(var self, var out, int pos) {
  struct Pt* p = self;
  return print_to(out, pos, "Pt(%i,%i)", $I(p->x), $I(p->y));
}
static int64_t Pt_C_Int(var self) { struct Pt* p = self; return p->x * 1000 + p->y; }
static double Pt_C_Float(var self) { struct Pt* p = self; return (double)p->x + (double)p->y / 16.0; }
static var Pt = Cello(Pt,
  Instance(New, Pt_New, NULL), Instance(Assign, Pt_Assign), Instance(Cmp, Pt_Cmp),
  Instance(Hash, Pt_Hash), Instance(Show, Pt_Show, NULL), Instance(C_Int, Pt_C_Int), Instance(C_Float, Pt_C_Float));

/* an owned token: construction and destruction are counted, so that "every object is deleted exactly once"
   is visible in the transcript of the manual-memory scenarios (op `mm`) */
struct Tok { int64_t id; };
static int64_t tok_made = 0, tok_dead = 0, tok_sum = 0;
static void Tok_New(var self, var args) { struct Tok* t = self; t->id = c_int(get(args, $I(0))); tok_made++; }
static void Tok_Del(var self) { struct Tok* t = self; tok_dead++; tok_sum += t->id; }
static int Tok_Show(var self, var out, int pos) { struct Tok* t = self; return print_to(out, pos, "Tok%i", $I(t->id)); }
static int Tok_Cmp(var a, var b) { int64_t x = ((struct Tok*)a)->id, y = ((struct Tok*)cast(b, type_of(a)))->id; return x < y ? -1 : x > y; }
static var Tok = Cello(Tok, Instance(New, Tok_New, Tok_Del), Instance(Show, Tok_Show, NULL), Instance(Cmp, Tok_Cmp));
#define TOKSTAT() P("[%" PRId64 "/%" PRId64 ":%" PRId64 "]", tok_dead, tok_made, tok_sum)

/* the program's own exception objects */
static var ErrA = CelloEmpty(ErrA);
static var ErrB = CelloEmpty(ErrB);
static var ErrC = CelloEmpty(ErrC);

/* ------------------------------------------------------------------ helpers */
static int64_t imod(int64_t k, int64_t n) { int64_t r = k % n; return r < 0 ? r + n : r; }

static const char* VOC[] = { "ant", "bee", "cat", "dog", "eel", "fox", "gnu", "hen", "ibis", "jay",
                             "kiwi", "lynx", "mole", "newt", "owl", "pig" };
static void word(int64_t k, char* buf) {           /* alphanumeric only */
  k = imod(k, 4096);
  if (k < 16) sprintf(buf, "%s", VOC[k]);
  else if (k < 256) sprintf(buf, "%s%d", VOC[k % 16], (int)(k / 16));
  else sprintf(buf, "%s%s%d", VOC[k % 16], VOC[(k / 16) % 16], (int)(k / 256));
}

static var tcode(int64_t t) {
  switch (imod(t, 4)) { case 0: return Int; case 1: return Float; case 2: return String; default: return Pt; }
}

/* a fresh object of type T derived from k (collector-managed) */
static var mkval(var T, int64_t k) {
  if (T is Int) return new(Int, $I(k));
  if (T is Float) return new(Float, $F((double)k / 8.0));
  if (T is String) { char b[64]; word(k, b); return new(String, $S(b)); }
  if (T is Pt) return new(Pt, $I(imod(k, 50)), $I(imod(k * 7, 11)));
  /* containers as elements of containers: fixed inner shapes */
  if (T is Array) { var a = new(Array, Int); for (int64_t i = 0; i < imod(k, 4); i++) push(a, $I(k + 2 * i)); return a; }
  if (T is List) { var l = new(List, String); for (int64_t i = 0; i < imod(k, 3); i++) { char b[64]; word(k + i, b); push(l, $S(b)); } return l; }
  if (T is Table) { var t = new(Table, String, Int); for (int64_t i = 0; i < imod(k, 3); i++) { char b[64]; word(k + 5 * i, b); set(t, $S(b), $I(k + i)); } return t; }
  if (T is Tuple) { var t = new(Tuple); for (int64_t i = 0; i < 1 + imod(k, 3); i++) push(t, new(Int, $I(k + i))); return t; }
  return new(Int, $I(k));
}
static var ncode(int64_t t) {
  switch (imod(t, 4)) { case 0: return Array; case 1: return List; case 2: return Table; default: return Tuple; }
}

/* print a value through Show, addresses scrubbed */
static void scrub_print(const char* s) {
  for (size_t i = 0; s[i]; ) {
    if (s[i] == '0' && s[i+1] == 'x') {
      while (s[i] == '0' && s[i+1] == 'x') i += 2;
      while (isxdigit((unsigned char)s[i])) i++;
      P("@");
    } else if (s[i] == '\n' || s[i] == '|') { P("/"); i++; }
    else { fputc(s[i], OUT); i++; }
  }
}
static void pv(var x) {
  if (x is NULL) { P("null"); return; }
  if (x is Terminal) { P("Terminal"); return; }
  var s = new(String);
  print_to(s, 0, "%$", x);
  scrub_print(c_str(s));
}

static bool is_seq(var x) { var t = type_of(x); return t is Array or t is List; }
static bool is_map(var x) { var t = type_of(x); return t is Table or t is Tree; }
static bool is_valtype(var t) { return t is Int or t is Float or t is String or t is Pt; }

static int64_t FPARAM = 2;
static var f_pred(var x) {            /* Filter predicate: c_int(x) % FPARAM == 0 */
  int64_t v = type_of(x) is Float ? (int64_t)c_float(x) : (type_of(x) is Int or type_of(x) is Pt) ? c_int(x) : (int64_t)len(x);
  return imod(v, FPARAM) == 0 ? x : NULL;
}
static var f_map(var x) {             /* Map function: a fresh Int */
  int64_t v = type_of(x) is Float ? (int64_t)(c_float(x) * 8.0) : (type_of(x) is Int or type_of(x) is Pt) ? c_int(x) : (int64_t)len(x);
  return new(Int, $I(v * 3 + 1));
}
static var f_sum(var args) {          /* called with a tuple: sum of c_int */
  int64_t s = 0;
  foreach (a in args) { s += c_int(a); }
  return new(Int, $I(s));
}
static bool by_desc(var a, var b) { return cmp(a, b) > 0; }

/* body of a worker thread: container work, a collection-heavy loop, try/throw/catch; result through a
   heap Int owned by the caller */
static var thr_fn(var args) {
  struct Int* res = get(args, $I(0));
  int64_t n = c_int(get(args, $I(1))), k = c_int(get(args, $I(2)));
  var a = new(Array, Int);
  for (int64_t i = 0; i < n; i++) push(a, $I(imod(k * 7 + i * 13, 101)));
  sort(a);
  int64_t s = 0, j = 0;
  foreach (x in a) { s += c_int(x) * (++j); }
  var t = new(Table, String, Int);
  for (int64_t i = 0; i < n; i++) { char b[64]; word(k + i, b); set(t, $S(b), $I(i)); }
  s += 100000 * (int64_t)len(t);
  for (int64_t i = 0; i < 200; i++) { var g = new(Int, $I(i)); s += c_int(g) % 3; }   /* garbage for the thread's collector */
  volatile int64_t e = 0;
  try {
    if (imod(k, 2)) throw(ErrA, "in thread %i", $I(k));
    e = 1000;
  } catch (ex in ErrA) { e = 5000; }
  res->val = s + e;
  return NULL;
}

/* roots that only static memory and malloc'ed memory know */
static var RT_STATIC[128];
static void __attribute__((noinline)) rt_build(var* heapmem, int64_t n, int64_t k) {
  for (int64_t i = 0; i < n; i++) {
    var o;
    switch (imod(i + k, 3)) {
      case 0: o = new_root(Int, $I(k + i)); break;
      case 1: { char b[64]; word(k + i, b); o = new_root(String, $S(b)); break; }
      default: o = new_root(Array, Int, $I(i), $I(k), $I(i * k % 7)); break;
    }
    if (imod(i, 2)) heapmem[i] = o; else RT_STATIC[imod(i, 128)] = o;
  }
}

/* instances of run-time types (op `dy`) */
struct Amt { int64_t raw; };
static char AMT_BUF[2][32];
static void Amt_New(var self, var args) { struct Amt* a = self; a->raw = c_int(get(args, $I(0))); }
static int64_t AmtA_C_Int(var self) { return ((struct Amt*)self)->raw; }
static uint64_t AmtA_Hash(var self) { return (uint64_t)((struct Amt*)self)->raw; }
static size_t AmtA_Len(var self) { return 2; }
static char* AmtA_C_Str(var self) { sprintf(AMT_BUF[0], "a%d", (int)((struct Amt*)self)->raw); return AMT_BUF[0]; }
static int AmtA_Cmp(var a, var b) { int64_t x = ((struct Amt*)a)->raw, y = ((struct Amt*)b)->raw; return x < y ? -1 : x > y; }
static int64_t AmtB_C_Int(var self) { return ((struct Amt*)self)->raw / 100; }
static uint64_t AmtB_Hash(var self) { return (uint64_t)(((struct Amt*)self)->raw / 100) * 31; }
static size_t AmtB_Len(var self) { return 0; }
static char* AmtB_C_Str(var self) { sprintf(AMT_BUF[1], "b%d", (int)(((struct Amt*)self)->raw / 100)); return AMT_BUF[1]; }
static int AmtB_Cmp(var a, var b) { int64_t x = ((struct Amt*)a)->raw, y = ((struct Amt*)b)->raw; return x > y ? -1 : x < y; }

/* builds a heap view over fresh collector-allocated inputs and returns ONLY the view (the inputs too, through
   `keep`, for the manual-memory variant) */
static var __attribute__((noinline)) hv_build(int64_t kind, int64_t k, int64_t m, var* keep) {
  var a = new(Array, Int); var l = new(List, String);
  int64_t n = 1 + imod(m, 7);
  for (int64_t i = 0; i < n; i++) { push(a, $I(k + 3 * i)); char b[64]; word(k + i, b); push(l, $S(b)); }
  var v = NULL;
  switch (kind) {
    case 0: v = new(Zip, a, l); if (keep) { keep[0] = a; keep[1] = l; } break;
    case 1: v = new(Slice, l, $I(imod(k, n))); if (keep) { keep[0] = l; keep[1] = a; } else del(a); break;
    case 2: { var fn = new(Function, $(Function, f_map)); v = new(Map, a, fn); if (keep) { keep[0] = a; keep[1] = fn; keep[2] = l; } else del(l); break; }
    case 3: { var fn = new(Function, $(Function, f_pred)); FPARAM = 1 + imod(m, 3); v = new(Filter, a, fn); if (keep) { keep[0] = a; keep[1] = fn; keep[2] = l; } else del(l); break; }
    default: v = new(Range, $I(imod(k, 9)), $I(imod(k, 9) + n)); del(a); del(l); break;
  }
  return v;
}
/* overwrite what the builder's frame (and its callees') left on the stack */
static void __attribute__((noinline)) hv_scrub(void) {
  volatile var pad[512];
  for (int i = 0; i < 512; i++) pad[i] = NULL;
}

struct W { var R[NREG]; int64_t a[6]; int na; };

static void thrower(int depth, int64_t which, int64_t k) {
  if (depth > 0) { thrower(depth - 1, which, k); return; }
  switch (imod(which, 4)) {
    case 0: throw(ErrA, "a %i", $I(k)); break;
    case 1: throw(ErrB, "b %s", $S("x")); break;
    case 2: throw(ErrC, "c"); break;
    default: throw(KeyError, "user-level %i", $I(k)); break;   /* a program may throw library exception objects itself */
  }
}
static const char* uexn(var e) {
  if (e is ErrA) return "ErrA"; if (e is ErrB) return "ErrB"; if (e is ErrC) return "ErrC";
  return exn_name(e);
}

/* ------------------------------------------------------------------ the operations */
#define A(i) (w->a[i])
#define REG(i) (w->R[imod(A(i), NREG)])

static void op_new(struct W* w, const char* op) {
  var* r = &REG(0);
  switch (op[1]) {
    case 'i': *r = new(Int, $I(A(1))); break;
    case 'f': *r = new(Float, $F((double)A(1) / 8.0)); break;
    case 's': *r = mkval(String, A(1)); break;
    case 'p': *r = mkval(Pt, A(1)); break;
    case 'a': case 'l': {
      var T = tcode(A(1));
      var c = op[1] == 'a' ? new(Array, T) : new(List, T);
      int64_t n = imod(A(2), 24);
      for (int64_t i = 0; i < n; i++) push(c, mkval(T, A(3) + i * (A(3) % 5 + 1)));
      *r = c; break;
    }
    case 't': case 'r': {
      var K = imod(A(1), 3) == 0 ? Int : imod(A(1), 3) == 1 ? String : Pt;   /* Pt: the user type's own Hash / Cmp */
      var V = tcode(A(2));
      var c = op[1] == 't' ? new(Table, K, V) : new(Tree, K, V);
      int64_t n = imod(A(3), 24);
      for (int64_t i = 0; i < n; i++) set(c, mkval(K, A(4) + i * 3), mkval(V, A(4) * 2 + i));
      *r = c; break;
    }
    case 'u': {
      var t = new(Tuple);
      int64_t n = imod(A(1), 8);
      for (int64_t i = 0; i < n; i++)      /* distinct fresh objects; one type throughout when A(3) is odd */
        push(t, mkval(tcode(imod(A(3), 2) ? A(2) : A(2) + i), A(2) + i * (1 + imod(A(3), 5))));
      *r = t; break;
    }
    case 'R': { var x = REG(1); if (x and type_of(x) isnt Ref) *r = new(Ref, x); else { P("-"); return; } break; }
    case 'g': { *r = new(Range, $I(imod(A(1), 7)), $I(imod(A(1), 7) + imod(A(2), 9)), $I(1 + imod(A(3), 3))); break; }
    case 'n': {       /* containers whose elements / values are containers (embedded, allocation class Data) */
      var V = ncode(A(2));
      var c;
      switch (imod(A(1), 4)) {
        case 0: c = new(Array, V); break;
        case 1: c = new(List, V); break;
        case 2: c = new(Table, String, V); break;
        default: c = new(Tree, Int, V); break;
      }
      int64_t n = imod(A(3), 6);
      for (int64_t i = 0; i < n; i++) {
        if (is_seq(c)) push(c, mkval(V, A(4) + i));
        else set(c, mkval(key_type(c), A(4) + 3 * i), mkval(V, A(4) + i));
      }
      *r = c; break;
    }
    default: P("?"); return;
  }
  P("ok");
}

static void op_exec(struct W* w, const char* op) {
  var x = w->na > 0 ? REG(0) : NULL;
  var T = x ? type_of(x) : NULL;
  if (op[0] == 'n') { op_new(w, op); return; }
  if (strcmp(op, "gc") == 0) {
#ifndef CELLO_NGC
    GC_Mark(current(GC)); GC_Sweep(current(GC));
#endif
    P("ok"); return;
  }
  if (strcmp(op, "tc") == 0) {        /* try / throw through `depth` frames / catch */
    int64_t which = A(0), depth = imod(A(1), 6), k = A(2);
    volatile int reached = 0;
    try {
      if (w->R[0] and is_seq(w->R[0]) and iter_type(w->R[0]) is Int) push(w->R[0], $I(k));  /* effect before the throw stays */
      if (imod(A(3), 5) != 0) thrower((int)depth, which, k);
      reached = 1;
    } catch (e in ErrA, ErrB, ErrC, KeyError) {
      P("caught:%s", uexn(e));
      reached = 2;
    }
    P("%sdepth=%d", reached == 1 ? "nothrow," : reached == 2 ? "," : "?,", (int)len(current(Exception)));
    return;
  }
  if (strcmp(op, "tn") == 0) {        /* inner handler does not match: propagates to the outer one */
    int64_t which = imod(A(0), 2);    /* ErrA or ErrB */
    try {
      try {
        thrower((int)imod(A(1), 4), which, A(2));
      } catch (e in ErrC) {
        P("inner?");
      }
      P("notreached");
    } catch (e in ErrA, ErrB) {
      P("outer:%s", uexn(e));
    }
    P(",depth=%d", (int)len(current(Exception)));
    return;
  }
  if (strcmp(op, "rg") == 0) {        /* stack Range: forward iteration, len, mem */
    int64_t st = imod(A(0), 9) - 3, n = imod(A(1), 7), step = 1 + imod(A(2), 3);
    var r = range($I(st), $I(st + n * step), $I(step));     /* aligned, non-empty or start == stop */
    P("[");
    foreach (i in r) { P("%" PRId64 " ", c_int(i)); }
    P("]mem=%d", (int)mem(r, $I(st + step)));
    if (n > 0) { P(",len=%zu,get=%" PRId64, len(r), c_int(get(r, $I(n - 1)))); }
    return;
  }
  if (strcmp(op, "fm") == 0) {        /* formatting into a String */
    var s = new(String);
    char b[64]; word(A(1), b);
    int pos = 0;
    switch (imod(A(0), 8)) {
      case 0: pos = print_to(s, 0, "%i|%5i|%-5i|%05i", $I(A(1)), $I(A(2)), $I(A(1)), $I(imod(A(2), 1000))); break;
      case 1: pos = print_to(s, 0, "%s:%10s:%-6s;", $S(b), $S(b), $S("ab")); break;
      case 2: pos = print_to(s, 0, "%f %5.2f %e", $F((double)A(1) / 8.0), $F((double)A(2) / 16.0), $F((double)A(1))); break;
      case 3: pos = print_to(s, 0, "%x %X %o %u", $I(imod(A(1), 1 << 20)), $I(imod(A(2), 1 << 20)), $I(imod(A(1), 4096)), $I(imod(A(2), 99999))); break;
      case 4: pos = print_to(s, 0, "%$ %$ %$", $I(A(1)), $S(b), $F((double)A(2) / 4.0)); break;
      case 5: pos = print_to(s, 0, "100%% %c%c", $I('a' + imod(A(1), 26)), $I('A' + imod(A(2), 26))); break;
      case 6: pos = print_to(s, 0, "%$", x ? x : (var)$I(0)); break;
      default: pos = print_to(s, 0, "%s", $S(b)); pos = print_to(s, pos, "+%i", $I(A(2))); pos = print_to(s, pos, "+%s", $S(b)); break;
    }
    P("%d:", pos); scrub_print(c_str(s));
    return;
  }
  if (strcmp(op, "sn") == 0) {        /* print_to then scan_from round trip */
    var s = new(String);
    char b[64]; word(A(1), b);
    print_to(s, 0, "%i %s %i", $I(imod(A(0), 1000000)), $S(b), $I(imod(A(2), 100000)));   /* non-negative (F6) */
    var i1 = new(Int), i2 = new(Int), s1 = new(String);
    resize(s1, 64);                     /* %s scans into the String's own buffer: the caller sizes it */
    int pos = scan_from(s, 0, "%i %s %i", i1, s1, i2);
    P("%d:%" PRId64 ",%s,%" PRId64, pos, c_int(i1), c_str(s1), c_int(i2));
    return;
  }
  if (strcmp(op, "ca") == 0) {        /* Function objects */
    var r = call($(Function, f_sum), $I(A(0)), $I(A(1)), $I(A(2)));
    P("%" PRId64, c_int(r));
    return;
  }
  if (strcmp(op, "th") == 0) {        /* two threads, each with its own collector and exception context */
    var r1 = new(Int, $I(0)), r2 = new(Int, $I(0));
    var n1 = new(Int, $I(imod(A(0), 40))), n2 = new(Int, $I(imod(A(1), 40)));
    var k1 = new(Int, $I(A(2))), k2 = new(Int, $I(A(2) + 1));
    var fn = $(Function, thr_fn);
    var t1 = new(Thread, fn), t2 = new(Thread, fn);
    call(t1, r1, n1, k1); call(t2, r2, n2, k2);
    join(t1); join(t2);
    P("%" PRId64 ",%" PRId64, c_int(r1), c_int(r2));
    return;
  }
  if (strcmp(op, "mx") == 0) {        /* Mutex in one thread: lock/unlock, trylock, with */
    var m = new(Mutex);
    lock(m); int a = 1; unlock(m);
    bool b = trylock(m); if (b) unlock(m);
    int c = 0;
    with (mm in m) { c += 1; }
    with (mm in m) { c += 1; }
    P("%d%d%d", a, (int)b, c);
    return;
  }
  if (strcmp(op, "fl") == 0) {        /* File: formatted and raw writes, reopen in a with block, read back */
    static int fcount = 0;
    const char* dir = getenv("H_TMPDIR");
    if (dir == NULL) { P("-"); return; }
    char path[600]; snprintf(path, sizeof path, "%s/cw_%d_%d.tmp", dir, (int)getpid(), fcount++);
    int n = 1 + (int)imod(A(0), 5);
    var f = new(File, $S(path), $S("w"));
    for (int i = 0; i < n; i++) {
      char b[64]; word(A(1) + i, b);
      print_to(f, 0, "%i %s\n", $I(imod(A(2) + i, 100000)), $S(b));
    }
    char raw[8] = { 'r', 0, 'a', (char)imod(A(1), 127), 0, 'w', '!', '\n' };
    swrite(f, raw, sizeof raw);
    sclose(f);
    with (g in new(File, $S(path), $S("r"))) {
      for (int i = 0; i < n; i++) {
        var iv = new(Int), sv = new(String); resize(sv, 64);
        scan_from(g, 0, "%i %s\n", iv, sv);
        P("%" PRId64 ":%s ", c_int(iv), c_str(sv));
      }
      P("@%" PRId64 " ", stell(g));
      char back[8]; memset(back, 'x', sizeof back);
      size_t got = sread(g, back, sizeof back);
      P("%zu:", got);
      for (size_t i = 0; i < sizeof back; i++) P("%02x", (unsigned char)back[i]);
      P(" eof=%d", (int)seof(g));
      sseek(g, 0, SEEK_SET); P(" @%" PRId64, stell(g));
    }
    remove(path);
    return;
  }
  if (strcmp(op, "hp") == 0) {        /* documentation of a built-in type through the Help class */
    var TS[] = { Int, Float, String, Array, List, Table, Tree, Tuple, Range, Ref, File, Function, Exception, Type };
    var t = TS[imod(A(0), (int64_t)(sizeof TS / sizeof TS[0]))];
    var s = new(String);
    int pos = help_to(s, 0, t);
    uint64_t h = 1469598103934665603ULL;
    for (char* c = c_str(s); *c; c++) { h ^= (unsigned char)*c; h *= 1099511628211ULL; }
    P("%s:%d,%zu,%" PRIx64, c_str(t), pos, len(s), h);
    return;
  }
  if (strcmp(op, "tf") == 0) {        /* throw out of a foreach over a container, catch-all handler */
    var c = w->R[imod(A(0), NREG)];
    if (c is NULL or not (is_seq(c) or is_map(c))) { P("-"); return; }
    volatile int64_t seen = 0; int64_t stop = imod(A(1), 6);
    try {
      foreach (i in c) { if (seen == stop) throw(ErrB, "at %i", $I(seen)); seen++; }
      P("end");
    } catch (e) {
      P("caught:%s", uexn(e));
    }
    P(",seen=%" PRId64 ",depth=%d", (int64_t)seen, (int)len(current(Exception)));
    return;
  }
  if (strcmp(op, "rw") == 0) {        /* raw and root allocation: objects the collector does not own / treats as roots */
    var a = new_raw(Array, Int);
    int64_t n = imod(A(0), 30), s1 = 0, s2 = 0;
    for (int64_t i = 0; i < n; i++) push(a, $I(A(1) + i));
    var b = new_root(List, String);
    for (int64_t i = 0; i < imod(A(1), 9); i++) { char wb[64]; word(A(2) + i, wb); push(b, $S(wb)); }
    for (int64_t i = 0; i < 300; i++) { var g = new(Int, $I(i)); s2 += c_int(g) % 2; }   /* garbage: may collect */
    foreach (x in a) { s1 += c_int(x); }
    foreach (x in b) { s2 += (int64_t)len(x); }
    P("%" PRId64 ",%" PRId64 ",%zu", s1, s2, len(b));
    del_raw(a); del_root(b);
    return;
  }
  /* ---- extended operations: in contract, but they touch defects of other properties that are still open on
          this head (DESIGN.md section 8); generated only when props/C18.py runs with C18_EXTENDED=1, i.e. once the
          repairs of those properties have been merged ---- */
  if (strcmp(op, "xt") == 0) {        /* D3: an exception handled by an inner handler must not reach the outer one */
    volatile int flow = 0;
    try {
      try { thrower((int)imod(A(1), 3), A(0), A(2)); } catch (e in ErrA, ErrB, ErrC, KeyError) { flow = flow * 10 + 1; }
      flow = flow * 10 + 2;
    } catch (e) { flow = flow * 10 + 3; }
    P("flow=%d,depth=%d", (int)flow, (int)len(current(Exception)));
    return;
  }
  if (strcmp(op, "xn") == 0) {        /* F6 and the scanner's handling of %% and literal pieces */
    var s = new(String);
    print_to(s, 0, "%i%% of %i", $I(A(0) % 1000), $I(A(1) % 100000));
    var i1 = new(Int), i2 = new(Int);
    int pos = scan_from(s, 0, "%i%% of %i", i1, i2);
    P("%d:%" PRId64 ",%" PRId64, pos, c_int(i1), c_int(i2));
    return;
  }
  if (strcmp(op, "xg") == 0) {        /* D11: ranges of every shape */
    int64_t st = imod(A(0), 11) - 5, sp = imod(A(1), 11) - 5, step = imod(A(2), 7) - 3;
    var r = range($I(st), $I(sp), $I(step));
    P("len=%zu[", len(r));
    foreach (i in r) { P("%" PRId64 " ", c_int(i)); }
    P("]back[");
    for (var i = iter_last(r); i isnt Terminal; i = iter_prev(r, i)) { P("%" PRId64 " ", c_int(i)); }
    P("]");
    if (len(r) > 0) { P("get=%" PRId64 ",%" PRId64, c_int(get(r, $I(0))), c_int(get(r, $I(-1)))); }
    return;
  }
  if (strcmp(op, "D") == 0) {         /* dump every register */
    for (int i = 0; i < NREG; i++) {
      if (w->R[i] is NULL) continue;
      P("r%d=", i); pv(w->R[i]);
      if (implements(w->R[i], Len) and type_of(w->R[i]) isnt Ref) P("#%zu", len(w->R[i]));
      P(" ");
    }
    P("depth=%d", (int)len(current(Exception)));
    return;
  }
  if (strcmp(op, "mm") == 0) {
    /* manual memory management: every object the scenario makes is deleted exactly once by the program (del of an
       owner deletes what it owns), with boundary contents: emptied Box, NULL Ref, empty containers, unopened File,
       unstarted Thread, never locked Mutex.  [dead/made:sum of dead ids] after every step. */
    int64_t k = A(1), m = A(2);
    tok_made = tok_dead = tok_sum = 0;
    var taken[8]; int nt = 0;
    switch (imod(A(0), 16)) {
      case 0: {       /* Box: full, emptied, re-pointed */
        var b = new(Box, new(Tok, $I(k))); P("full"); pv(deref(b)); del(b); TOKSTAT();
        b = new(Box, new(Tok, $I(k + 1))); var t = deref(b); ref(b, NULL); P("emptied:%d", (int)(deref(b) is NULL)); del(b); TOKSTAT();
        del(t); TOKSTAT();
        b = new(Box, new(Tok, $I(k + 2))); t = deref(b); ref(b, new(Tok, $I(k + 3))); del(b); TOKSTAT(); del(t); TOKSTAT();
        break;
      }
      case 1: case 2: {       /* Array / List of Box: some slots emptied, then pop / pop_at / clear / del */
        var c = imod(A(0), 16) == 1 ? (var)new(Array, Box) : (var)new(List, Box);
        int64_t n = 1 + imod(m, 6);
        for (int64_t i = 0; i < n; i++) push(c, new(Tok, $I(k + i)));
        for (int64_t i = 0; i < n; i++) if (imod(k >> i, 2)) { var sl = get(c, $I(i)); taken[nt++] = deref(sl); ref(sl, NULL); }
        P("n=%zu,taken=%d", len(c), nt); TOKSTAT();
        if (len(c) > 0) { pop(c); TOKSTAT(); }
        if (len(c) > 0) { pop_at(c, $I(0)); TOKSTAT(); }
        if (imod(m, 2)) { resize(c, 0); TOKSTAT(); }
        del(c); TOKSTAT();
        for (int i = 0; i < nt; i++) del(taken[i]);
        TOKSTAT(); break;
      }
      case 3: case 4: {       /* Table / Tree with Box values: rem of an emptied and of a full entry, overwrite, del */
        var c = imod(A(0), 16) == 3 ? (var)new(Table, Int, Box) : (var)new(Tree, Int, Box);
        int64_t n = 2 + imod(m, 5);
        for (int64_t i = 0; i < n; i++) set(c, $I(i), $B(new(Tok, $I(k + i))));
        var sl = get(c, $I(0)); taken[nt++] = deref(sl); ref(sl, NULL);
        if (n > 3) { sl = get(c, $I(3)); taken[nt++] = deref(sl); ref(sl, NULL); }
        rem(c, $I(0)); TOKSTAT();                       /* emptied entry */
        rem(c, $I(1)); TOKSTAT();                       /* full entry: its token dies */
        if (n > 2) {      /* overwrite: a Table destructs the value it replaces; a Tree assigns over it, so there the
                             owner takes the old token out first and deletes it */
          if (type_of(c) is Table) { set(c, $I(2), $B(new(Tok, $I(k + 100)))); }
          else { var old = deref(get(c, $I(2))); set(c, $I(2), $B(new(Tok, $I(k + 100)))); del(old); }
          TOKSTAT();
        }
        P("n=%zu", len(c)); del(c); TOKSTAT();
        for (int i = 0; i < nt; i++) del(taken[i]);
        TOKSTAT(); break;
      }
      case 5: {       /* Ref does not own: NULL Ref, Array of Ref with NULL entries */
        var t = new(Tok, $I(k)); var r = new(Ref, t); ref(r, NULL); P("null:%d", (int)(deref(r) is NULL)); del(r); TOKSTAT();
        var a = new(Array, Ref); push(a, $R(t)); push(a, $R(t)); ref(get(a, $I(0)), NULL); pop(a); del(a); TOKSTAT();
        del(t); TOKSTAT(); break;
      }
      case 6: {       /* empty containers of every kind, fresh and cleared */
        var cs[6]; cs[0] = new(Array, Tok); cs[1] = new(List, Tok); cs[2] = new(Table, Int, Tok); cs[3] = new(Tree, Int, Tok);
        cs[4] = new(Tuple); cs[5] = new(String);
        if (imod(m, 2)) { push(cs[0], $(Tok, k)); push(cs[1], $(Tok, k + 1)); set(cs[2], $I(1), $(Tok, k + 2)); set(cs[3], $I(1), $(Tok, k + 3));
                          for (int i = 0; i < 4; i++) resize(cs[i], 0); }
        TOKSTAT();
        for (int i = 0; i < 6; i++) { P("%zu", len(cs[i])); del(cs[i]); }
        TOKSTAT(); break;
      }
      case 7: {       /* containers that own tokens by value: del destructs every element once */
        var a = new(Array, Tok), l = new(List, Tok), tb = new(Table, Int, Tok), tr = new(Tree, Int, Tok);
        int64_t n = imod(m, 5);
        for (int64_t i = 0; i < n; i++) { push(a, $(Tok, k + i)); push(l, $(Tok, k + 10 + i)); set(tb, $I(i), $(Tok, k + 20 + i)); set(tr, $I(i), $(Tok, k + 30 + i)); }
        if (n > 1) { pop(a); pop_at(l, $I(0)); rem(tb, $I(0)); rem(tr, $I(1)); }
        TOKSTAT(); del(a); TOKSTAT(); del(l); TOKSTAT(); del(tb); TOKSTAT(); del(tr); TOKSTAT(); break;
      }
      case 8: {       /* File: never opened, opened and closed, closed by del */
        var f = new(File); del(f); P("unopened ");
        const char* dir = getenv("H_TMPDIR");
        if (dir) {
          char path[600]; snprintf(path, sizeof path, "%s/mm_%d.tmp", dir, (int)getpid());
          f = new(File, $S(path), $S("w")); print_to(f, 0, "%i", $I(k)); sclose(f); del(f); P("closed ");
          f = new(File, $S(path), $S("r")); var iv = new(Int); scan_from(f, 0, "%i", iv); del(f); P("open:%" PRId64, c_int(iv)); del(iv);
          remove(path);
        }
        break;
      }
      case 9: {       /* Thread never started, Thread started and joined; Mutex never locked, locked and unlocked */
        var fn = $(Function, thr_fn);
        var t = new(Thread, fn); P("running:%d ", (int)running(t)); del(t);
        var res = new(Int, $I(0)), nn = new(Int, $I(imod(m, 9))), kk = new(Int, $I(k));
        t = new(Thread, fn); call(t, res, nn, kk); join(t); P("%" PRId64 " ", c_int(res)); del(t); del(res); del(nn); del(kk);
        var mx = new(Mutex); del(mx);
        mx = new(Mutex); lock(mx); unlock(mx); P("try:%d", (int)trylock(mx)); unlock(mx); del(mx);
        break;
      }
      case 10: {      /* heap views own their helpers: Range, Slice, Zip */
        var r = new(Range, $I(imod(k, 5)), $I(imod(k, 5) + imod(m, 6))); P("["); foreach (i in r) { P("%" PRId64 " ", c_int(i)); } P("]"); del(r);
        var a = new(Array, Int, $I(k), $I(k + 1), $I(k + 2)), l = new(List, Int, $I(m), $I(m + 1));
        var sl = new(Slice, a, $I(1)); P("%zu ", len(sl)); del(sl);
        var z = new(Zip, a, l); P("%zu", len(z)); foreach (p in z) { P(" %" PRId64 ":%" PRId64, c_int(get(p, $I(0))), c_int(get(p, $I(1)))); } del(z);
        del(a); del(l); break;
      }
      case 11: {      /* heap Tuple does not own: elements first, then the tuple; empty tuple */
        var t = new(Tuple); int64_t n = imod(m, 5);
        for (int64_t i = 0; i < n; i++) push(t, new(Tok, $I(k + i)));
        foreach (e in t) { taken[nt++] = e; }
        del(t); TOKSTAT();
        for (int i = 0; i < nt; i++) del(taken[i]);
        TOKSTAT(); break;
      }
      case 12: {      /* copy and assign make independent owners; both die once */
        var a = new(Array, Tok); for (int64_t i = 0; i < 1 + imod(m, 4); i++) push(a, $(Tok, k + i));
        var b = copy(a); var c = new(Array, Tok); assign(c, a); TOKSTAT();
        del(a); TOKSTAT(); del(b); TOKSTAT(); del(c); TOKSTAT(); break;
      }
      case 13: {      /* raw and root objects */
        var t1 = new_raw(Tok, $I(k)), t2 = new_root(Tok, $I(k + 1)); var b = new_raw(Box, new_root(Tok, $I(k + 2)));   /* what only raw memory points to must be a root */
        var a = new_root(List, Box); push(a, new(Tok, $I(k + 3))); push(a, new(Tok, $I(k + 4)));
        var sl = get(a, $I(1)); taken[nt++] = deref(sl); ref(sl, NULL);
        del_raw(t1); TOKSTAT(); del_root(t2); TOKSTAT(); del_raw(b); TOKSTAT(); del_root(a); TOKSTAT(); del(taken[0]); TOKSTAT(); break;
      }
      case 14: {      /* containers of containers of Box */
        var outer = new(Array, Array); var in1 = new(Array, Box); var in2 = new(Array, Box);
        push(in1, new(Tok, $I(k))); push(in1, new(Tok, $I(k + 1))); push(in2, new(Tok, $I(k + 2)));
        push(outer, in1); push(outer, in2); push(outer, in2);        /* element arrays are copies: the Boxes now share tokens */
        /* sharing would delete a token twice: empty the inner originals' boxes before they die */
        foreach (bx in in1) { ref(bx, NULL); } foreach (bx in in2) { ref(bx, NULL); }
        foreach (bx in get(outer, $I(2))) { ref(bx, NULL); }
        del(in1); del(in2); TOKSTAT();
        pop_at(outer, $I(0)); TOKSTAT(); del(outer); TOKSTAT(); break;
      }
      default: {      /* numbers and strings */
        var i1 = new(Int, $I(k)), f1 = new(Float, $F((double)m / 4.0)), s1 = new(String, $S("abc")), s2 = new(String);
        append(s2, s1); resize(s1, 0); P("%s,%zu", c_str(s2), len(s1)); del(i1); del(f1); del(s1); del(s2); break;
      }
    }
    return;
  }
  if (strcmp(op, "rt") == 0) {
    /* roots held ONLY in static memory and in malloc'ed C memory (never on the stack), across growth of the
       collector's table and allocation churn with collections; read back; del_root */
    int64_t n = 3 + imod(A(0), 70);
    var* heapmem = malloc(sizeof(var) * (size_t)n);
    rt_build(heapmem, n, A(1));
    hv_scrub();
    int64_t acc = 0;
    for (int64_t r = 0; r < 3; r++) {
      for (int64_t i = 0; i < 150 + 40 * imod(A(2), 4); i++) { var g = new(Int, $I(i)); acc += c_int(g) % 5; }
#ifndef CELLO_NGC
      GC_Mark(current(GC)); GC_Sweep(current(GC));
#endif
      for (int64_t i = 0; i < 60; i++) { var g = new(String, $S("churn-churn")); acc += (int64_t)len(g); }
    }
    int64_t sum = 0; size_t slen = 0;
    for (int64_t i = 0; i < n; i++) {
      var o = imod(i, 2) ? heapmem[i] : RT_STATIC[imod(i, 128)];
      if (type_of(o) is Int) sum += c_int(o);
      else if (type_of(o) is String) slen += len(o);
      else { foreach (e in o) { sum += c_int(e); } }
    }
    P("n=%" PRId64 ",sum=%" PRId64 ",slen=%zu,", n, sum, slen); pv(RT_STATIC[0]); P(","); pv(heapmem[1 % n]);
    for (int64_t i = 0; i < n; i++) { del_root(imod(i, 2) ? heapmem[i] : RT_STATIC[imod(i, 128)]); }
    free(heapmem);
    return;
  }
  if (strcmp(op, "dy") == 0) {
    /* run-time types: type A declares Hash / Len / C_Int / C_Str / Cmp, is used and deleted; type B, created next
       (its record may reuse A's block), declares other instances of the same classes */
    int64_t v = 100 + imod(A(0), 9000), v2 = 100 + imod(A(1), 9000);
    var a_new = $(New, Amt_New, NULL), a_cint = $(C_Int, AmtA_C_Int), a_hash = $(Hash, AmtA_Hash), a_len = $(Len, AmtA_Len),
        a_cstr = $(C_Str, AmtA_C_Str), a_cmp = $(Cmp, AmtA_Cmp);
    var b_new = $(New, Amt_New, NULL), b_cint = $(C_Int, AmtB_C_Int), b_hash = $(Hash, AmtB_Hash), b_len = $(Len, AmtB_Len),
        b_cstr = $(C_Str, AmtB_C_Str), b_cmp = $(Cmp, AmtB_Cmp);
    var TA = new_root(Type, $S("AmtA"), $I(sizeof(struct Amt)), a_new, a_cint, a_hash, a_len, a_cstr, a_cmp);
    var x = new(TA, $I(v)), y = new(TA, $I(v2));
    var s1 = new(String); print_to(s1, 0, "%i|%s", x, x);
    P("%s:%" PRId64 ",%" PRIu64 ",%zu,%s,%d,%s ", c_str(TA), c_int(x), hash(x), len(x), c_str(x), cmp(x, y) < 0 ? -1 : cmp(x, y) > 0, c_str(s1));
    del(x); del(y); del_root(TA);
    var TB = new_root(Type, $S("AmtB"), $I(sizeof(struct Amt)), b_new, b_cmp, b_cstr, b_len, b_hash, b_cint);
    x = new(TB, $I(v)); y = new(TB, $I(v2));
    print_to(s1, 0, "%i|%s", x, x);
    P("%s:%" PRId64 ",%" PRIu64 ",%zu,%s,%d,%s ", c_str(TB), c_int(x), hash(x), len(x), c_str(x), cmp(x, y) < 0 ? -1 : cmp(x, y) > 0, c_str(s1));
    var seen = new(Table, Int, Int); set(seen, $I((int64_t)hash(x)), $I(1)); P("%d", (int)mem(seen, $I(v / 100 * 31)));
    var arr = new(Array, TB); push(arr, x); push(arr, y); sort(arr); P(",%" PRId64, c_int(get(arr, $I(0))));
    del(arr); del(seen); del(s1); del(x); del(y); del_root(TB);
    return;
  }
  if (strcmp(op, "hv") == 0) {
    /* a heap view (Zip, Slice, Map, Filter, Range) that holds the ONLY reference to collector-allocated inputs:
       built in a frame that has returned, the dead frame overwritten, then allocation pressure and a forced
       collection, then full use of the view.  A(0) even: the collected style (nothing is deleted; without a
       collector the objects simply stay); odd: manual memory management (the builder hands the inputs out too
       and the program deletes view and inputs exactly once). */
    var inp[3] = { NULL, NULL, NULL };
    int64_t kind = imod(A(0) / 2, 5); bool manual = imod(A(0), 2);
    var v = hv_build(kind, A(1), A(2), manual ? inp : NULL);
    hv_scrub();
    int64_t acc = 0;
    for (int64_t i = 0; i < 600; i++) { var g = new(Int, $I(i)); acc += c_int(g) % 3; }    /* pressure */
#ifndef CELLO_NGC
    GC_Mark(current(GC)); GC_Sweep(current(GC));
#endif
    for (int64_t i = 0; i < 200; i++) { var g = new(String, $S("pressure")); acc += (int64_t)len(g); }   /* reuse freed blocks */
    P("%s:", c_str(type_of(v)));
    if (kind != 3) P("len=%zu,", len(v));
    P("[");
    foreach (e in v) {
      if (kind == 0) { pv(get(e, $I(0))); P(":"); pv(get(e, $I(1))); } else pv(e);
      P(" ");
    }
    P("]");
    if (kind != 3 and len(v) > 0) {
      var g0 = get(v, $I(0));
      if (kind == 0) { P("get="); pv(get(g0, $I(0))); P(":"); pv(get(g0, $I(1))); } else { P("get="); pv(g0); }
    }
    if (manual) { del(v); for (int i = 0; i < 3; i++) if (inp[i]) del(inp[i]); P(",freed"); }
    return;
  }
  if (strcmp(op, "sk") == 0) {        /* objects that are not on the heap: stack (alloc_stack) and static (types, exception objects) */
    char b[64]; word(A(1), b);
    switch (imod(A(0), 6)) {
      case 0: {       /* stack Tuple: everything that does not reallocate is in contract */
        var t = tuple($I(A(1)), $I(A(2)), $I(A(1) - A(2)), $I(7));
        P("tuple@stack:%zu,%" PRId64 ",", len(t), c_int(get(t, $I(-1))));
        set(t, $I(imod(A(2), 4)), $I(99)); set(t, $I(-4), $I(-5));
        sort(t);
        P("%d%d,", (int)mem(t, $I(99)), (int)mem(t, $I(123456)));
        foreach (i in t) { P("%" PRId64 " ", c_int(i)); }
        for (var i = iter_last(t); i isnt Terminal; i = iter_prev(t, i)) { P("%" PRId64 " ", c_int(i)); }
        P(",%" PRIu64, hash(t)); P(","); pv(t);
        break;
      }
      case 1: {       /* stack String: readers, and as the source of assign / concat into heap Strings */
        var s1 = $S(b); var h1 = new(String, $S("h"));
        P("string@stack:%zu,%d%d,%d,%" PRIu64 ",%s,", len(s1), (int)mem(s1, $S("e")), (int)mem(s1, $S(b)), cmp(s1, $S("fox")) > 0, hash(s1), c_str(s1));
        assign(h1, s1); concat(h1, s1); append(h1, $S("!")); pv(h1); pv(s1);
        break;
      }
      case 2: {       /* stack Int / Float: assign and swap do not reallocate */
        var i1 = $I(A(1)), i2 = $I(A(2)); var f1 = $F((double)A(1) / 4.0);
        assign(i1, i2); swap(i1, $I(5)); assign(f1, $F(2.5));
        P("num@stack:%" PRId64 ",%" PRId64 ",%f,%d,%" PRIu64, c_int(i1), c_int(i2), c_float(f1), cmp(i1, i2), hash(i2));
        break;
      }
      case 3: {       /* stack Ref and stack File (the documented `$(File, NULL)` + sopen form) */
        var target = new(Int, $I(A(1)));
        var r1 = $R(target); P("ref@stack:"); pv(deref(r1)); ref(r1, $I(3)); P(","); pv(deref(r1));
        const char* dir = getenv("H_TMPDIR");
        if (dir) {
          static int scount = 0;
          char path[600]; snprintf(path, sizeof path, "%s/sk_%d_%d.tmp", dir, (int)getpid(), scount++);
          var f = $(File, NULL);
          sopen(f, $S(path), $S("w")); print_to(f, 0, "%s %i", $S(b), $I(imod(A(2), 1000))); sclose(f);
          sopen(f, $S(path), $S("r")); var sv = new(String); resize(sv, 64); var iv = new(Int);
          scan_from(f, 0, "%s %i", sv, iv); sclose(f); remove(path);
          P(",file@stack:%s,%" PRId64, c_str(sv), c_int(iv));
        }
        break;
      }
      case 4: {       /* static objects: built-in types, the user type, exception objects */
        var TS[] = { Int, String, Array, Table, Pt, ErrA, KeyError, Type };
        var t1 = TS[imod(A(1), 8)], t2 = TS[imod(A(2), 8)];
        P("type@static:%s,%d,%d,%" PRIu64 ",", c_str(t1), cmp(t1, t2) < 0 ? -1 : cmp(t1, t2) > 0, (int)eq(t1, t2), hash(t1));
        pv(t1); P(",%zu,%s,%d%d", size(t1), c_str(type_of(t1)), (int)type_implements(t1, Len), (int)implements(t1, Cmp));
        break;
      }
      default: {      /* static exception object thrown and compared */
        var got = NULL;
        try { throw(ErrB, "x"); } catch (e in ErrA, ErrB) { got = e; }
        P("exc@static:%d%d,%s", (int)(got is ErrB), (int)eq(got, ErrB), uexn(got));
        break;
      }
    }
    return;
  }

  /* everything below works on register A(0) */
  if (x is NULL) { P("-"); return; }

  if (strcmp(op, "el") == 0) {
    /* an operation applied IN PLACE to an element that lives inside a container (allocation class Data: element
       of an Array / List, value of a Table / Tree) or is held by a heap Tuple (class Heap).  The element pointer
       is fetched, used once and forgotten (the container may move its elements). */
    var e = NULL; const char* cls = "data";
    if (not (is_seq(x) or is_map(x) or T is Tuple)) { P("-"); return; }
    int64_t n = (int64_t)len(x);
    if (n == 0) { P("-"); return; }
    if (is_seq(x)) e = get(x, $I(imod(A(1), 2 * n) - n));
    else if (T is Tuple) { e = get(x, $I(imod(A(1), n))); cls = "heap"; }
    else if (is_map(x)) {
      int64_t j = imod(A(1), n), c = 0; var k = NULL;
      foreach (kk in x) { if (c++ == j) { k = kk; break; } }
      e = get(x, k);
    } else { P("-"); return; }
    var ET = type_of(e);
    int64_t sub = A(2);
    char b[64]; word(A(3), b);
    /* one level deeper: an element of an element (a String inside a List inside an Array, …) */
    if (imod(sub, 3) == 2 and (ET is Array or ET is List) and len(e) > 0 and iter_type(e) is String) {
      e = get(e, $I(imod(A(4), (int64_t)len(e)))); ET = String; cls = "data.data";
    }
    if (ET is String) {
      switch (imod(sub, 10)) {
        case 0: assign(e, $S(b)); P("String.assign@%s:", cls); break;
        case 1: assign(e, new(String, $S(b))); P("String.assign@%s:", cls); break;
        case 2: concat(e, $S(b)); P("String.concat@%s:", cls); break;
        case 3: append(e, new(String, $S(b))); P("String.concat@%s:", cls); break;
        case 4: resize(e, (size_t)imod(A(3), 20)); P("String.resize@%s:", cls); break;
        case 5: print_to(e, 0, "%i:%s", $I(A(3)), $S(b)); P("String.format@%s:", cls); break;
        case 6: print_to(e, (int)len(e), "+%i", $I(A(3))); P("String.format@%s:", cls); break;
        case 7: resize(e, 0); append(e, $S(b)); P("String.resize@%s:", cls); break;
        case 8: { var o = new(String, $S(b)); swap(e, o); P("String.swap@%s:", cls); break; }
        default: {      /* look: String_Look clears and rebuilds the String in place */
          var src = new(String); show_to($S(b), src, 0); look_from(e, src, 0); P("String.look@%s:", cls); break;
        }
      }
      pv(e); return;
    }
    if (ET is Int) { assign(e, $I(A(3))); P("Int.assign@%s:", cls); pv(e); return; }
    if (ET is Float) { assign(e, $F((double)A(3) / 8.0)); P("Float.assign@%s:", cls); pv(e); return; }
    if (ET is Pt) { assign(e, $(Pt, imod(A(3), 50), 3)); P("Pt.assign@%s:", cls); pv(e); return; }
    if (ET is Array or ET is List) {
      var IE = iter_type(e); int64_t m = (int64_t)len(e);
      const char* tn = ET is Array ? "Array" : "List";
      switch (imod(sub, 10)) {
        case 0: case 1: push(e, mkval(IE, A(3))); P("%s.push@%s:", tn, cls); break;
        case 2: { int64_t i = ET is Array ? imod(A(4), m + 1) : (m == 0 ? 0 : imod(A(4), m)); push_at(e, mkval(IE, A(3)), $I(i)); P("%s.push_at@%s:", tn, cls); break; }
        case 3: if (m > 0) { pop(e); P("%s.pop@%s:", tn, cls); } else P("-:"); break;
        case 4: if (m > 0) { pop_at(e, $I(imod(A(4), 2 * m) - m)); P("%s.pop_at@%s:", tn, cls); } else P("-:"); break;
        case 5: if (m > 0) { set(e, $I(imod(A(4), 2 * m) - m), mkval(IE, A(3))); P("%s.set@%s:", tn, cls); } else P("-:"); break;
        case 6: resize(e, (size_t)imod(A(4), m + 1)); P("%s.resize@%s:", tn, cls); break;
        case 7: if (ET is Array) { sort(e); P("Array.sort@%s:", cls); } else { resize(e, 0); P("List.resize@%s:", cls); } break;
        case 8: { var o = ET is Array ? (var)new(Array, IE) : (var)new(List, IE); push(o, mkval(IE, A(3))); push(o, mkval(IE, A(4))); concat(e, o); P("%s.concat@%s:", tn, cls); break; }
        default: { var o = ET is Array ? (var)new(Array, IE) : (var)new(List, IE); push(o, mkval(IE, A(3))); assign(e, o); P("%s.assign@%s:", tn, cls); break; }
      }
      pv(e); if (m > 0 and len(e) > 0) { P(","); pv(get(e, $I(-1))); }
      return;
    }
    if (ET is Table) {
      int64_t m = (int64_t)len(e);
      switch (imod(sub, 4)) {
        case 0: case 1: set(e, $S(b), $I(A(4))); P("Table.set@%s:", cls); break;
        case 2: if (m > 0) { var k = NULL; foreach (kk in e) { k = copy(kk); break; } rem(e, k); P("Table.rem@%s:", cls); } else P("-:"); break;
        default: resize(e, (size_t)(m + imod(A(4), 20))); P("Table.resize@%s:", cls); break;
      }
      pv(e); return;
    }
    if (ET is Tuple) {            /* a Tuple embedded in a container: it may reallocate its item vector */
      int64_t m = (int64_t)len(e);
      switch (imod(sub, 9)) {
        case 6: { var o = new(Tuple); push(o, new(Int, $I(A(3)))); push(o, new(Int, $I(A(4)))); concat(e, o); P("Tuple.concat@%s:", cls); break; }
        case 7: if (m > 0) { resize(e, (size_t)imod(A(4), m)); P("Tuple.resize@%s:", cls); } else P("-:"); break;   /* shrinking only */
        case 8: { var o = new(Tuple); push(o, new(Int, $I(A(3)))); assign(e, o); P("Tuple.assign@%s:", cls); break; }
        case 0: case 1: push(e, new(Int, $I(A(3)))); P("Tuple.push@%s:", cls); break;
        case 2: if (m > 0) { pop(e); P("Tuple.pop@%s:", cls); } else P("-:"); break;
        case 3: if (m > 0) { push_at(e, new(Int, $I(A(3))), $I(imod(A(4), m))); P("Tuple.push_at@%s:", cls); } else P("-:"); break;
        case 4: if (m > 0) { pop_at(e, $I(imod(A(4), 2 * m) - m)); P("Tuple.pop_at@%s:", cls); } else P("-:"); break;
        default: if (m > 0) { set(e, $I(imod(A(4), 2 * m) - m), new(Int, $I(A(3)))); P("Tuple.set@%s:", cls); } else P("-:"); break;
      }
      pv(e); return;
    }
    P("-"); return;
  }
  if (strcmp(op, "dr") == 0) { REG(0) = NULL; P("ok"); return; }
  if (strcmp(op, "dl") == 0) {
    /* a Ref does not own its target; nothing else may still point at x from another register
       except through a Ref: clear those first (use after del is outside the contract) */
    for (int i = 0; i < NREG; i++)
      if (w->R[i] and w->R[i] isnt x and type_of(w->R[i]) is Ref and deref(w->R[i]) is x) w->R[i] = NULL;
    for (int i = 0; i < NREG; i++) if (w->R[i] is x) w->R[i] = NULL;
    if (T is Tuple or T is Ref or T is Range) { P("dropped"); return; }   /* elements stay collector-owned */
    del(x); P("ok"); return;
  }
  if (strcmp(op, "ty") == 0) {
    P("%s,%zu,%d%d%d%d", c_str(T), size(T), (int)implements(x, Len), (int)implements(x, Iter),
      (int)implements(x, Get), (int)implements(x, Sort));
    return;
  }
  if (strcmp(op, "xb") == 0) {        /* D9: backward iteration of an Array */
    if (T isnt Array) { P("-"); return; }
    P("["); for (var i = iter_last(x); i isnt Terminal; i = iter_prev(x, i)) { pv(i); P(" "); } P("]"); return;
  }
  if (strcmp(op, "xs") == 0) {        /* D12: slices with any start, stop and step */
    if (not is_seq(x)) { P("-"); return; }
    int64_t n = (int64_t)len(x);
    int64_t st = imod(A(1), 2 * n + 5) - n - 2, sp = imod(A(2), 2 * n + 5) - n - 2, step = 1 + imod(A(3), 3);
    bool back = imod(A(3), 2) and T is List;
    P("[");
    if (back) { foreach (i in slice(x, $I(st), $I(sp), $I(-step))) { pv(i); P(" "); } }
    else { foreach (i in slice(x, $I(st), $I(sp), $I(step))) { pv(i); P(" "); } }
    P("]len=%zu", len(slice(x, $I(st), $I(sp), $I(step))));
    return;
  }
  if (strcmp(op, "xz") == 0) {        /* F4: zip walked backward over inputs of unequal length */
    var y3 = w->na > 1 ? REG(1) : NULL;
    if (not is_seq(x) or y3 is NULL or type_of(y3) isnt List or T isnt List) { P("-"); return; }
    var z = zip(x, y3);
    P("["); for (var p = iter_last(z); p isnt Terminal; p = iter_prev(z, p)) { pv(get(p, $I(0))); P(":"); pv(get(p, $I(1))); P(" "); } P("]");
    return;
  }
  if (strcmp(op, "xr") == 0) {        /* D6: rem of a substring that is present */
    if (T isnt String or len(x) < 2) { P("-"); return; }
    char b[80]; size_t n = len(x); size_t a0 = (size_t)imod(A(1), (int64_t)n), l0 = 1 + (size_t)imod(A(2), (int64_t)(n - a0));
    if (l0 > 60) l0 = 60;
    memcpy(b, c_str(x) + a0, l0); b[l0] = 0;
    rem(x, $S(b)); P("%s", c_str(x)); return;
  }
  if (strcmp(op, "xl") == 0) {        /* D7 / D8: show then look of a Float or a String */
    if (T isnt Float and T isnt String) { P("-"); return; }
    var s = new(String); show_to(x, s, 0);
    var y4 = T is Float ? (var)new(Float) : (var)new(String); if (T is String) resize(y4, 100);
    look_from(y4, s, 0);
    pv(y4); P(",%d", (int)eq(x, y4)); return;
  }
  if (strcmp(op, "sh") == 0) { pv(x); return; }
  if (strcmp(op, "lk") == 0) {        /* show then look: Int only (Float: D8, String: D7) */
    if (T isnt Int) { P("-"); return; }
    var s = new(String); int p1 = show_to(x, s, 0);
    var y2 = new(Int); int p2 = look_from(y2, s, 0);
    P("%d,%d,%" PRId64, p1, p2, c_int(y2));
    return;
  }
  if (strcmp(op, "iq") == 0) {        /* instance queries and an identity cast */
    P("%d%d%d%d%d%d", (int)implements(x, Cmp), (int)type_implements(T, Hash), (int)implements_method(x, Get, get),
      (int)(instance(x, Len) isnt NULL), (int)(type_instance(T, Show) isnt NULL), (int)(cast(x, T) is x));
    return;
  }
  if (strcmp(op, "ln") == 0) { if (implements(x, Len) and T isnt Ref) P("%zu", len(x)); else P("-"); return; }
  if (strcmp(op, "ha") == 0) {
    bool ok = T is Int or T is Float or T is String or T is Pt or T is Tuple
      or ((is_seq(x)) and is_valtype(iter_type(x)))
      or (is_map(x) and is_valtype(val_type(x)));
    if (ok) P("%" PRIu64, hash(x)); else P("-");
    return;
  }
  if (strcmp(op, "cp") == 0) {
    if (is_valtype(T) or is_seq(x) or is_map(x)) { REG(1) = copy(x); P("ok"); } else P("-");
    return;
  }
  if (strcmp(op, "de") == 0) { if (T is Ref) { pv(deref(x)); } else P("-"); return; }
  if (strcmp(op, "ci") == 0) {
    if (T is Pt) P("%" PRId64 ",%f", c_int(x), c_float(x));     /* two classes of one user type */
    else if (T is Int) P("%" PRId64, c_int(x));
    else if (T is Float) P("%f", c_float(x));
    else if (T is String) P("%s", c_str(x));
    else P("-");
    return;
  }

  var y = w->na > 1 ? REG(1) : NULL;
  if ((strcmp(op, "as") == 0 or strcmp(op, "cm") == 0 or strcmp(op, "sw") == 0 or strcmp(op, "cc") == 0)
      and not (T is Tuple and strcmp(op, "cc") == 0)) {
    if (y is NULL or type_of(y) isnt T) { P("-"); return; }
    bool same_elems = is_valtype(T)
      or (is_seq(x) and iter_type(x) is iter_type(y))
      or (is_map(x) and key_type(x) is key_type(y) and val_type(x) is val_type(y));
    if (not same_elems) { P("-"); return; }
    if (strcmp(op, "as") == 0) { if (x isnt y) assign(x, y); P("ok"); return; }
    if (strcmp(op, "cm") == 0) {
      int c = cmp(x, y);
      P("%d,%d%d%d%d", c < 0 ? -1 : c > 0 ? 1 : 0, (int)eq(x, y), (int)neq(x, y), (int)lt(x, y), (int)ge(x, y));
      return;
    }
    if (strcmp(op, "sw") == 0) { if (is_valtype(T) and x isnt y) { swap(x, y); P("ok"); } else P("-"); return; }
    if (strcmp(op, "cc") == 0) {
      if ((is_seq(x) or T is String) and x isnt y) { concat(x, y); P("ok"); } else P("-");
      return;
    }
  }

  /* String operations */
  if (T is String) {
    char b[64]; word(A(1), b);
    if (strcmp(op, "pu") == 0 or strcmp(op, "ap") == 0) { append(x, $S(b)); P("ok"); return; }
    if (strcmp(op, "me") == 0) { P("%d", (int)mem(x, $S(b))); return; }
    if (strcmp(op, "rs") == 0) { resize(x, (size_t)imod(A(1), 40)); P("%zu", len(x)); return; }
    if (strcmp(op, "cl") == 0) { resize(x, 0); P("ok"); return; }
    P("-"); return;
  }

  /* sequences: Array, List */
  if (is_seq(x)) {
    var E = iter_type(x);
    int64_t n = (int64_t)len(x);
    if (strcmp(op, "pu") == 0) { push(x, mkval(E, A(1))); P("ok"); return; }
    if (strcmp(op, "ap") == 0) { append(x, mkval(E, A(1))); P("ok"); return; }
    if (strcmp(op, "pa") == 0) {
      int64_t i;
      if (T is Array) i = imod(A(2), 2 * (n + 1)) - (n + 1);      /* [-(n+1), n] */
      else i = n == 0 ? 0 : imod(A(2), n);                        /* List: [0, n-1] */
      push_at(x, mkval(E, A(1)), $I(i)); P("ok@%" PRId64, i); return;
    }
    if (strcmp(op, "po") == 0) { if (n > 0) { pop(x); P("ok"); } else P("-"); return; }
    if (strcmp(op, "pt") == 0) {
      if (n == 0) { P("-"); return; }
      int64_t i = imod(A(1), 2 * n) - n; pop_at(x, $I(i)); P("ok@%" PRId64, i); return;
    }
    if (strcmp(op, "ge") == 0) {
      if (n == 0) { P("-"); return; }
      int64_t i = imod(A(1), 2 * n) - n; pv(get(x, $I(i))); return;
    }
    if (strcmp(op, "se") == 0) {
      if (n == 0) { P("-"); return; }
      int64_t i = imod(A(1), 2 * n) - n; set(x, $I(i), mkval(E, A(2))); P("ok@%" PRId64, i); return;
    }
    if (strcmp(op, "me") == 0) { P("%d", (int)mem(x, mkval(E, A(1)))); return; }
    if (strcmp(op, "rm") == 0) {
      var v = n > 0 && imod(A(2), 3) ? get(x, $I(imod(A(1), n))) : mkval(E, A(1));
      v = copy(v);                                   /* never pass a pointer into the container being changed */
      if (mem(x, v)) { rem(x, v); P("ok"); } else P("absent");
      return;
    }
    if (strcmp(op, "so") == 0) {
      if (T is Array) { if (imod(A(1), 2)) sort(x); else sort_by(x, by_desc); P("ok"); } else P("-");
      return;
    }
    if (strcmp(op, "rs") == 0) {
      /* growing a List appends zero-filled, unconstructed elements: a String among them has no buffer, so
         Lists of String only shrink; growing an Array only reserves slots */
      size_t m = (T is List and not (E is Int or E is Float or E is Pt)) ? (size_t)imod(A(1), n + 1) : (size_t)imod(A(1), 30);
      resize(x, m); P("%zu", len(x)); return;
    }
    if (strcmp(op, "cl") == 0) { resize(x, 0); P("ok"); return; }
    if (strcmp(op, "it") == 0) { P("["); foreach (i in x) { pv(i); P(" "); } P("]"); return; }
    if (strcmp(op, "ib") == 0) {
      if (T isnt List) { P("-"); return; }
      P("["); for (var i = iter_last(x); i isnt Terminal; i = iter_prev(x, i)) { pv(i); P(" "); } P("]"); return;
    }
    if (strcmp(op, "sl") == 0) {       /* slice that ends exactly at the end */
      if (n == 0) { P("-"); return; }
      int64_t step = 1 + imod(A(1), 3), m = 1 + imod(A(2), (n + step - 1) / step);
      int64_t st = n - step * m; if (st < 0) { step = 1; st = 0; }
      P("[");
      if (step == 1) { foreach (i in slice(x, $I(st), _)) { pv(i); P(" "); } }
      else { foreach (i in slice(x, $I(st), _, $I(step))) { pv(i); P(" "); } }
      P("]"); return;
    }
    if (strcmp(op, "rv") == 0) {
      if (T isnt List) { P("-"); return; }
      P("["); foreach (i in reverse(x)) { pv(i); P(" "); } P("]"); return;
    }
    if (strcmp(op, "zp") == 0) {
      if (y is NULL or not (is_seq(y) or is_map(y))) { P("-"); return; }
      P("["); foreach (p in zip(x, y)) { pv(get(p, $I(0))); P(":"); pv(get(p, $I(1))); P(" "); } P("]"); return;
    }
    if (strcmp(op, "en") == 0) {
      P("["); foreach (p in enumerate(x)) { P("%" PRId64 ":", c_int(get(p, $I(0)))); pv(get(p, $I(1))); P(" "); } P("]"); return;
    }
    if (strcmp(op, "fi") == 0) {
      FPARAM = 1 + imod(A(1), 4);
      P("["); foreach (i in filter(x, $(Function, f_pred))) { pv(i); P(" "); } P("]"); return;
    }
    if (strcmp(op, "ma") == 0) {
      P("["); foreach (i in map(x, $(Function, f_map))) { pv(i); P(" "); } P("]"); return;
    }
    P("-"); return;
  }

  /* maps: Table, Tree */
  if (is_map(x)) {
    var K = key_type(x), V = val_type(x);
    int64_t n = (int64_t)len(x);
    if (strcmp(op, "se") == 0 or strcmp(op, "pu") == 0) { set(x, mkval(K, A(1)), mkval(V, A(2))); P("ok"); return; }
    if (strcmp(op, "me") == 0) { P("%d", (int)mem(x, mkval(K, A(1)))); return; }
    if (strcmp(op, "ge") == 0 or strcmp(op, "rm") == 0) {
      var k = mkval(K, A(1));
      if (not mem(x, k) and n > 0) {            /* pick an existing key: the (A(1) mod n)-th in iteration order */
        int64_t j = imod(A(1), n), c = 0;
        foreach (kk in x) { if (c++ == j) { k = copy(kk); break; } }
      }
      if (not mem(x, k)) { P("absent"); return; }
      if (op[0] == 'g') { pv(get(x, k)); } else { rem(x, k); P("ok"); }
      return;
    }
    if (strcmp(op, "rs") == 0) {
      if (T is Table) { resize(x, (size_t)(n + imod(A(1), 40))); P("%zu", len(x)); } else P("-");
      return;
    }
    if (strcmp(op, "cl") == 0) { resize(x, 0); P("%zu", len(x)); return; }
    if (strcmp(op, "it") == 0) { P("{"); foreach (k in x) { pv(k); P(":"); pv(get(x, k)); P(" "); } P("}"); return; }
    if (strcmp(op, "ib") == 0) {
      if (n == 0) { P("{}"); return; }
      P("{"); for (var k = iter_last(x); k isnt Terminal; k = iter_prev(x, k)) { pv(k); P(" "); } P("}"); return;
    }
    if (strcmp(op, "fi") == 0) {
      FPARAM = 1 + imod(A(1), 4);
      P("["); foreach (i in filter(x, $(Function, f_pred))) { pv(i); P(" "); } P("]"); return;
    }
    P("-"); return;
  }

  /* heap tuples */
  if (T is Tuple) {
    int64_t n = (int64_t)len(x);
    if (strcmp(op, "pu") == 0) { push(x, mkval(tcode(A(1)), A(1))); P("ok"); return; }
    if (strcmp(op, "po") == 0) { if (n > 0) { pop(x); P("ok"); } else P("-"); return; }
    if (strcmp(op, "pa") == 0) {
      if (n == 0) { P("-"); return; }
      int64_t i = imod(A(2), n); push_at(x, mkval(tcode(A(1)), A(1)), $I(i)); P("ok@%" PRId64, i); return;
    }
    if (strcmp(op, "pt") == 0) {
      if (n == 0) { P("-"); return; }
      int64_t i = imod(A(1), 2 * n) - n; pop_at(x, $I(i)); P("ok@%" PRId64, i); return;
    }
    if (strcmp(op, "ge") == 0) {
      if (n == 0) { P("-"); return; }
      int64_t i = imod(A(1), 2 * n) - n; pv(get(x, $I(i))); return;
    }
    if (strcmp(op, "se") == 0) {
      if (n == 0) { P("-"); return; }
      int64_t i = imod(A(1), 2 * n) - n; set(x, $I(i), mkval(tcode(A(2)), A(2))); P("ok@%" PRId64, i); return;
    }
    if (strcmp(op, "rs") == 0) { if (n > 0) { resize(x, (size_t)imod(A(1), n)); P("%zu", len(x)); } else P("-"); return; }   /* shrinking only (O9) */
    if (strcmp(op, "it") == 0) { P("("); foreach (i in x) { pv(i); P(" "); } P(")"); return; }
    if (strcmp(op, "ib") == 0) {
      if (n == 0) { P("()"); return; }
      P("("); for (var i = iter_last(x); i isnt Terminal; i = iter_prev(x, i)) { pv(i); P(" "); } P(")"); return;
    }
    if (strcmp(op, "me") == 0) {      /* comparing values of different types is outside the contract of cmp */
      var v = mkval(tcode(A(1)), A(1));
      foreach (i in x) { if (type_of(i) isnt type_of(v)) { P("-"); return; } }
      P("%d", (int)mem(x, v)); return;
    }
    if (strcmp(op, "so") == 0 or strcmp(op, "rm") == 0) {     /* only tuples whose elements all have one type */
      if (n == 0) { P("-"); return; }
      var E0 = type_of(get(x, $I(0)));
      foreach (i in x) { if (type_of(i) isnt E0) { P("-"); return; } }
      if (op[0] == 's') { if (imod(A(1), 2)) sort(x); else sort_by(x, by_desc); P("ok"); }
      else { var v = get(x, $I(imod(A(1), n))); rem(x, v); P("ok"); }
      return;
    }
    if (strcmp(op, "cc") == 0) {      /* concat with another tuple that shares no element (no repeated pointer: F3) */
      var y2 = w->na > 1 ? REG(1) : NULL;
      if (y2 is NULL or type_of(y2) isnt Tuple or y2 is x) { P("-"); return; }
      foreach (i in y2) { foreach (j in x) { if (i is j) { P("-"); return; } } }
      concat(x, y2); P("ok"); return;
    }
    P("-"); return;
  }

  if (T is Range) {
    if (strcmp(op, "it") == 0) { P("["); foreach (i in x) { P("%" PRId64 " ", c_int(i)); } P("]"); return; }
    P("-"); return;
  }
  P("-");
}

static void guarded(struct W* w, const char* op) {
  /* the exception operations carry their own handlers and run outside any other try block: a handled
     exception inside an enclosing try would be seen again by the enclosing catch (D3) */
  if (strcmp(op, "tc") == 0 or strcmp(op, "tn") == 0 or strcmp(op, "tf") == 0 or strcmp(op, "xt") == 0) { op_exec(w, op); return; }
  try {
    op_exec(w, op);
  } catch (e) {
    P("!EXC(%s)", uexn(e));
  }
}

static void run_workload(char* ops) {
  struct W w;
  memset(&w, 0, sizeof w);
  char* s = ops; char* tok; int first = 1;
  while ((tok = next_tok(&s, ' ')) != NULL) {
    if (*tok == 0) continue;
    char* colon = strchr(tok, ':');
    w.na = 0; memset(w.a, 0, sizeof w.a);
    if (colon) {
      *colon = 0;
      char* as = colon + 1; char* at;
      while ((at = next_tok(&as, ',')) != NULL && w.na < 6) w.a[w.na++] = strtoll(at, NULL, 10);
    }
    if (!first) P(" | ");
    first = 0;
    P("%s=", tok);
    /* operations on a register say which type they met (coverage accounting: operation x type x allocation class) */
    char pat[8]; snprintf(pat, sizeof pat, " %.4s ", tok);
    if (strstr(" pu ap pa po pt se rm so rs cl cc as sw cp ge me ln ha it ib sl rv zp en fi ma ty sh de ci cm lk iq el dl dr xb xs xz xr xl ", pat) != NULL
        and w.na > 0 and w.R[imod(w.a[0], NREG)] isnt NULL) {
      P("%s~", c_str(type_of(w.R[imod(w.a[0], NREG)])));
    }
    guarded(&w, tok);
    fflush(OUT);
  }
}

/* ------------------------------------------------------------------ the sequence API of Array.c (model transcript) */
static void seq_dump(var a) {
  size_t n = len(a);
  P(";%zu;", n);
  for (size_t i = 0; i < n; i++) { if (i) P(","); P("%" PRId64, c_int(get(a, $I(i)))); }
}
static void run_seq(char* init, char* ops) {
  var a = new_raw(Array, Int);
  char* s = init; char* tok;
  while ((tok = next_tok(&s, ',')) != NULL) if (*tok) push(a, $I(strtoll(tok, NULL, 10)));
  s = ops; int first = 1;
  while ((tok = next_tok(&s, ' ')) != NULL) {
    if (*tok == 0) continue;
    if (!first) P(" | ");
    first = 0;
    char* rest = tok + 1;
    char* comma = strchr(rest, ',');
    int64_t p1 = strtoll(rest, NULL, 10), p2 = comma ? strtoll(comma + 1, NULL, 10) : 0;
    try {
      switch (tok[0]) {
        case 'g': { var v = get(a, $I(p1)); P("v%" PRId64, c_int(v)); break; }
        case 's': set(a, $I(p1), $I(p2)); P("ok"); break;
        case 'p': push(a, $I(p1)); P("ok"); break;
        case 'P': push_at(a, $I(p1), $I(p2)); P("ok"); break;
        case 'o': pop(a); P("ok"); break;
        case 'O': pop_at(a, $I(p1)); P("ok"); break;
        case 'l': P("v%zu", len(a)); break;
        case 'm': P("v%d", (int)mem(a, $I(p1))); break;
        case 'r': rem(a, $I(p1)); P("ok"); break;
        default: P("BADOP");
      }
    } catch (e) {
      P("%s", exn_name(e));
    }
    seq_dump(a);
    fflush(OUT);
  }
}

/* ------------------------------------------------------------------ heap programs (collector switch; model: gop of coq/Config.v) */
#define NFIELD 4
struct Node { int64_t payload; int64_t nf; var f[NFIELD]; };
static var Node = Cello(Node);          /* no Mark instance: the collector scans the words of the struct */

static var hp_deref(var* R, int nregs, char* path) {     /* root[.index]* ; NULL = leads nowhere */
  char* s = path; char* t = next_tok(&s, '.');
  if (t == NULL) return NULL;
  long r = strtol(t, NULL, 10);
  if (r < 0 || r >= nregs) return NULL;
  struct Node* a = R[r];
  while (a != NULL && (t = next_tok(&s, '.')) != NULL) {
    long i = strtol(t, NULL, 10);
    if (i < 0 || i >= a->nf) return NULL;
    a = a->f[i];
  }
  return a;
}
static void run_heap(char* nregs_s, char* ops) {
  var R[16]; int nregs = atoi(nregs_s); if (nregs > 16) nregs = 16;
  for (int i = 0; i < 16; i++) R[i] = NULL;
  char* s = ops; char* tok; int first = 1;
  while ((tok = next_tok(&s, ' ')) != NULL) {
    if (*tok == 0) continue;
    if (!first) P(" | ");
    first = 0;
    char kind = tok[0]; char* as = tok + 1;
    char* f[8]; int nf = 0; char* t;
    while (nf < 8 && (t = next_tok(&as, ',')) != NULL) f[nf++] = t;
    switch (kind) {
      case 'A': {
        long dst = strtol(f[0], NULL, 10);
        var fs[NFIELD]; int k = 0, bad = 0;
        for (int i = 2; i < nf && k < NFIELD; i++) { fs[k] = hp_deref(R, nregs, f[i]); if (fs[k] == NULL) bad = 1; k++; }
        if (bad) { P("bad"); break; }
        struct Node* n = new(Node);
        n->payload = strtoll(f[1], NULL, 10); n->nf = k;
        for (int i = 0; i < k; i++) n->f[i] = fs[i];
        if (dst >= 0 && dst < nregs) R[dst] = n;     /* a register outside the file: the object is garbage at once */
        for (int i = 0; i < NFIELD; i++) ((var volatile*)fs)[i] = NULL;   /* no stale copies for the conservative scan */
        n = NULL;
        P("ok"); break;
      }
      case 'R': { struct Node* a = hp_deref(R, nregs, f[0]); if (a) P("v%" PRId64, a->payload); else P("bad"); break; }
      case 'W': { struct Node* a = hp_deref(R, nregs, f[0]); if (a) { a->payload = strtoll(f[1], NULL, 10); P("ok"); } else P("bad"); break; }
      case 'S': {
        struct Node* a = hp_deref(R, nregs, f[0]); long i = strtol(f[1], NULL, 10); var b = hp_deref(R, nregs, f[2]);
        if (a == NULL || b == NULL) { P("bad"); break; }
        if (i >= 0 && i < a->nf) a->f[i] = b;          /* beyond the fields: nothing to set (as the model) */
        P("ok"); break;
      }
      case 'M': {
        long dst = strtol(f[0], NULL, 10); var a = hp_deref(R, nregs, f[1]);
        if (a == NULL) { P("bad"); break; }
        if (dst >= 0 && dst < nregs) R[dst] = a;
        P("ok"); break;
      }
      case 'D': { long dst = strtol(f[0], NULL, 10); if (dst >= 0 && dst < nregs) R[dst] = NULL; P("ok"); break; }
      case 'C': {
#ifndef CELLO_NGC
        GC_Mark(current(GC)); GC_Sweep(current(GC));
#endif
        P("ok"); break;
      }
      default: P("BADOP");
    }
    fflush(OUT);
  }
}

static void one_case(char* line) {
  char* s = line;
  char* kind = next_tok(&s, '|');
  if (kind and strcmp(kind, "seq") == 0) {
    char* init = next_tok(&s, '|');
    /* next_tok returns NULL for an empty field at the very end only; an empty init is "" */
    char* ops = s;
    if (init == NULL) { P("BADCASE"); return; }
    run_seq(init, ops);
  } else if (kind and strcmp(kind, "hp") == 0) {
    char* nregs = next_tok(&s, '|');
    if (nregs == NULL) { P("BADCASE"); return; }
    run_heap(nregs, s);
  } else if (kind and strcmp(kind, "wl") == 0) {
    run_workload(s);
  } else if (kind and strcmp(kind, "cfg") == 0) {
    /* what this binary was built as */
    P("header=%zu cache=%d checks=%d gc=%d", sizeof(struct Header) / sizeof(var), (int)CELLO_CACHE,
      (int)CELLO_BOUND_CHECK,
#ifdef CELLO_NGC
      0
#else
      1
#endif
    );
  } else P("BADCASE");
}

int main(int argc, char** argv) {
  run_all_cases(one_case);
  return 0;
}
