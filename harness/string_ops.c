/* string_ops.c — correspondence harness for String (C16), white-box.
 * Textually includes the working tree's src/String.c with realloc/calloc/malloc/free redirected to a
 * tracking allocator, so that
 *   - the exact size String.c asked for is known (printed as <alloc>, compared with the model),
 *   - every (re)allocation MOVES and fills the new bytes with 0xA5 (no accidental zeroes, stale
 *     pointers see poison), the old block is poisoned with 0xDD,
 *   - 16 canary bytes behind the block reveal any write past the allocation (flag CANARY);
 *     with -DH_ASAN the block is exact and AddressSanitizer does that job.
 * Next to the String under test a plain char array `rbuf` (the reference) is maintained with the C library only
 * (strcpy/strcat/strstr/memmove/strcmp/strlen/snprintf): the "C library applied to the abstract
 * string" of the property text.
 * Input / transcript format: see ocaml/StringM_driver.ml; the implementation transcript has
 *   <out>;<chars-hex>;<alloc>;<cells-hex>;<refout>;<refchars-hex>;<flags>   per step. */
#include "Cello.h"

#ifdef H_ASAN
#define H_CANARY 0
#else
#define H_CANARY 16
#endif
#define H_MAXA 512
static struct { unsigned char* p; size_t n; size_t cap; } h_tab[H_MAXA];
static int h_canary_broken = 0;
/* H_INPLACE=1: blocks have a capacity rounded up to 16 and realloc keeps the address whenever the
 * new size fits (what a real allocator does for shrinking / small growth), so that anything keyed
 * on the buffer ADDRESS sees in-place mutation; the bytes gained are poisoned, the canary follows
 * the requested size.  Default: every realloc moves. */
static int h_inplace = 0;

static int h_find(void* p) {
  for (int i = 0; i < H_MAXA; i++) if (h_tab[i].p == (unsigned char*)p) return i;
  return -1;
}
static void* h_alloc(size_t n) {
  size_t cap = h_inplace ? ((n + 16) / 16) * 16 : n;
  unsigned char* p = malloc(cap + H_CANARY + (cap + H_CANARY == 0));
  if (!p) return NULL;
  memset(p, 0xA5, n);
  memset(p + n, 0xC3, H_CANARY);
  int i = h_find(NULL);
  if (i < 0) { fprintf(stderr, "h_alloc: table full\n"); abort(); }
  h_tab[i].p = p; h_tab[i].n = n; h_tab[i].cap = cap;
  return p;
}
static int h_check(int i) {
  for (size_t k = 0; k < H_CANARY; k++) if (h_tab[i].p[h_tab[i].n + k] != 0xC3) return 0;
  return 1;
}
static void h_free(void* p) {
  if (!p) return;
  int i = h_find(p);
  if (i < 0) { fprintf(stderr, "h_free: unknown block\n"); abort(); }
  if (!h_check(i)) h_canary_broken = 1;
  memset(p, 0xDD, h_tab[i].n);
  h_tab[i].p = NULL;
  free(p);
}
static void* h_realloc(void* old, size_t n) {
  if (old && h_inplace) {
    int i = h_find(old);
    if (i >= 0 && n <= h_tab[i].cap) {
      if (!h_check(i)) h_canary_broken = 1;
      if (n > h_tab[i].n) memset((unsigned char*)old + h_tab[i].n, 0xA5, n - h_tab[i].n);
      memset((unsigned char*)old + n, 0xC3, H_CANARY);
      h_tab[i].n = n;
      return old;
    }
  }
  unsigned char* p = h_alloc(n);
  if (old) {
    int i = h_find(old);
    if (i < 0) { fprintf(stderr, "h_realloc: unknown block\n"); abort(); }
    memcpy(p, old, h_tab[i].n < n ? h_tab[i].n : n);
    h_free(old);
  }
  return p;
}
static void* h_calloc(size_t a, size_t b) {
  void* p = h_alloc(a * b);
  memset(p, 0, a * b);
  return p;
}

static void* h_malloc(size_t n) { return h_alloc(n); }

#define realloc h_realloc
#define calloc  h_calloc
#define malloc  h_malloc
#define free    h_free
#include "String.c"
#undef realloc
#undef calloc
#undef malloc
#undef free

#include "hcommon.h"

#define MAXS 70000
static char rbuf[MAXS];            /* the libc-maintained abstract string */
static char argb[MAXS];
static char tmpb[MAXS];
static char frb[MAXS];

static int hexval(char c) { return c <= '9' ? c - '0' : (c | 32) - 'a' + 10; }
static size_t unhex(const char* h, char* out) {
  size_t n = 0;
  while (h[0] && h[1] && h[0] != ',' && h[0] != ':') { out[n++] = (char)(hexval(h[0]) * 16 + hexval(h[1])); h += 2; }
  out[n] = 0;
  return n;
}
static void phex(const unsigned char* p, size_t n) { for (size_t i = 0; i < n; i++) P("%02x", p[i]); }
static const char* sgn(int c) { return c < 0 ? "lt" : c > 0 ? "gt" : "eq"; }

static int h_stale = 0;     /* hash(s) right after the operation differed from hash_data over the reference bytes */

/* state of the String under test after a step */
static void dump(var s, const char* refout) {
  struct String* st = s;
  int i = h_find(st->val);
  const char* flags[12]; int nf = 0;
  size_t alloc = 0;
  if (i < 0) { P(";NOTOWNED;0;;%s;", refout); phex((unsigned char*)rbuf, strlen(rbuf)); P(";NOTOWNED"); return; }
  alloc = h_tab[i].n;
  unsigned char* nul = memchr(st->val, 0, alloc);
  if (!h_check(i) || h_canary_broken) flags[nf++] = "CANARY";
  P(";");
  if (!nul) { P("UNTERMINATED"); flags[nf++] = "NOTERM"; }
  else {
    size_t n = (size_t)(nul - (unsigned char*)st->val);
    phex((unsigned char*)st->val, n);
    /* observers agree with libc on rbuf (checked after EVERY step) */
    if (len(s) != strlen(rbuf)) flags[nf++] = "LEN";
    if (strcmp(c_str(s), rbuf) != 0) flags[nf++] = "CSTR";
    if (!eq(s, $S(rbuf)) || cmp(s, $S(rbuf)) != 0) flags[nf++] = "EQ";
    /* hash: s is the FIRST String hashed since the operation and the LAST one hashed before the
       next (so a value remembered per buffer address across an in-place mutation shows); expected
       values come from hash_data on the reference bytes, never from hashing another String first */
    uint64_t want = hash_data(rbuf, strlen(rbuf));
    if (h_stale) flags[nf++] = "HASHSTALE";
    if (hash(s) != want) flags[nf++] = "HASHREF";
    if (hash(s) != want) flags[nf++] = "HASHREPEAT";
    var cp = new_raw(String, $S(rbuf));
    if (hash(cp) != want || !eq(cp, s)) flags[nf++] = "HASHCOPY";
    del_raw(cp);
    /* a fresh String with other contents, very likely at the address just released */
    strcpy(frb, rbuf); if (frb[0]) frb[0] = (char)(frb[0] == '~' ? '!' : '~'); else strcpy(frb, "~");
    var fr = new_raw(String, $S(frb));
    if (hash(fr) != hash_data(frb, strlen(frb))) flags[nf++] = "HASHFRESH";
    del_raw(fr);
    if (hash(s) != want) flags[nf++] = "HASHAGAIN";
  }
  P(";%zu;", alloc);
  phex((unsigned char*)st->val, alloc);
  P(";%s;", refout);
  phex((unsigned char*)rbuf, strlen(rbuf));
  P(";");
  for (int k = 0; k < nf; k++) P("%s%s", k ? "," : "", flags[k]);
  if (!h_check(i)) h_canary_broken = 1;
}

static void one_case(char* line) {
  char* bar = strchr(line, '|');
  if (!bar) { P("BADCASE"); return; }
  *bar = 0;
  var s;
  if (line[0] == 'N') { rbuf[0] = 0; s = new_raw(String); }
  else { unhex(line, rbuf); s = new_raw(String, $S(rbuf)); }
  P("new"); dump(s, "new");
  fflush(OUT);
  char* p = bar + 1; char* tok;
  char out[64], rout[64];
  while ((tok = next_tok(&p, ' ')) != NULL) {
    if (*tok == 0) continue;
    char* outp = out; char* routp = rout; char* big = NULL; char* rbig = NULL;
    strcpy(out, "ok"); strcpy(rout, "ok");
    if (strchr("acprmke", tok[0])) unhex(tok + 1, argb);
    /* hash(s) directly before and directly after the operation, with nothing else hashed in between
       (the try machinery itself looks its record up in a Table keyed by a String, i.e. hashes one):
       a hash remembered per buffer address across an in-place mutation shows here */
    volatile uint64_t h_after = 0; volatile int have_after = 0;
    h_stale = 0;
    try {
      (void)hash(s);
      switch (tok[0]) {
        case 'a': assign(s, $S(argb)); strcpy(rbuf, argb); break;
        case 'c': concat(s, $S(argb)); strcat(rbuf, argb); break;
        case 'p': append(s, $S(argb)); strcat(rbuf, argb); break;
        case 'z': { size_t n = (size_t)strtoull(tok + 1, NULL, 10);
          if (n < strlen(rbuf)) rbuf[n] = 0;
          resize(s, n); break; }
        case 'r': { char* q = strstr(rbuf, argb);
          if (q) memmove(q, q + strlen(argb), strlen(q + strlen(argb)) + 1); else strcpy(rout, "ValueError");
          rem(s, $S(argb)); break; }
        case 'm': strcpy(rout, strstr(rbuf, argb) ? "true" : "false"); strcpy(out, mem(s, $S(argb)) ? "true" : "false"); break;
        case 'k': strcpy(rout, sgn(strcmp(rbuf, argb))); strcpy(out, sgn(cmp(s, $S(argb)))); break;
        case 'e': strcpy(rout, strcmp(rbuf, argb) == 0 ? "true" : "false"); strcpy(out, eq(s, $S(argb)) ? "true" : "false"); break;
        /* the String itself as the argument; the reference works on a copy of the value */
        case 'A': assign(s, s); break;
        case 'C': strcpy(tmpb, rbuf); strcat(rbuf, tmpb); concat(s, s); break;
        case 'P': strcpy(tmpb, rbuf); strcat(rbuf, tmpb); append(s, s); break;
        case 'R': rbuf[0] = 0; rem(s, s); break;
        case 'M': strcpy(rout, "true"); strcpy(out, mem(s, s) ? "true" : "false"); break;
        case 'K': strcpy(rout, "eq"); strcpy(out, sgn(cmp(s, s))); break;
        case 'E': strcpy(rout, "true"); strcpy(out, eq(s, s) ? "true" : "false"); break;
        case 'y': { var t = assign(alloc_raw(String), s); del_raw(s); s = t; break; }
        case 'l': snprintf(rout, sizeof rout, "n%zu", strlen(rbuf)); snprintf(out, sizeof out, "n%zu", len(s)); break;
        case 'h': snprintf(rout, sizeof rout, "h%" PRIu64, hash_data(rbuf, strlen(rbuf))); snprintf(out, sizeof out, "h%" PRIu64, hash(s)); break;
        case 's': { char* c = c_str(s); size_t n = strlen(c);
          big = malloc(2 * n + 2); big[0] = 's';
          for (size_t i = 0; i < n; i++) sprintf(big + 1 + 2 * i, "%02x", (unsigned char)c[i]);
          big[1 + 2 * n] = 0; outp = big;
          n = strlen(rbuf); rbig = malloc(2 * n + 2); rbig[0] = 's';
          for (size_t i = 0; i < n; i++) sprintf(rbig + 1 + 2 * i, "%02x", (unsigned char)rbuf[i]);
          rbig[1 + 2 * n] = 0; routp = rbig; break; }
        case 'f': {
          /* f<pos>:<piece>,... : one print_to with the pieces joined into ONE format string.
             The reference applies the pieces one after the other to rbuf (libc rendering). */
          char* c = strchr(tok, ':'); *c = 0;
          int pos = atoi(tok + 1);
          static char fmt[MAXS]; size_t fl = 0;
          var args = new_raw(Tuple);
          size_t cur = (size_t)pos;
          char* q = c + 1; char* pc;
          while ((pc = next_tok(&q, ',')) != NULL) {
            size_t n = 0;
            if (pc[0] == 'L') {
              n = unhex(pc + 1, argb);
              for (size_t i = 0; i < n; i++) { if (argb[i] == '%') fmt[fl++] = '%'; fmt[fl++] = argb[i]; }
              memcpy(tmpb, argb, n + 1);
            } else if (pc[0] == 'S') {
              unhex(pc + 1, argb);
              fmt[fl++] = '%'; fmt[fl++] = 's';
              push(args, new_raw(String, $S(argb)));
              n = (size_t)sprintf(tmpb, "%s", argb);
            } else if (pc[0] == 'D') {
              long v = strtol(pc + 1, NULL, 10);
              fmt[fl++] = '%'; fmt[fl++] = 'l'; fmt[fl++] = 'i';
              push(args, new_raw(Int, $I(v)));
              n = (size_t)sprintf(tmpb, "%li", v);
            } else if (pc[0] == 'X') {
              fmt[fl++] = '%'; fmt[fl++] = 's';
              push(args, s);                       /* the String under test itself */
              n = (size_t)sprintf(tmpb, "%s", rbuf);
            }
            if (cur <= strlen(rbuf)) memcpy(rbuf + cur, tmpb, n + 1);
            cur += n;
          }
          fmt[fl] = 0;
          snprintf(rout, sizeof rout, "n%zu", cur);
          int np = print_to_with(s, pos, fmt, args);
          snprintf(out, sizeof out, "n%d", np);
          /* by index: Tuple iteration looks the current element up by identity and s may occur twice */
          for (size_t i = 0, na = len(args); i < na; i++) { var a = get(args, $I(i)); if (a isnt s) del_raw(a); }
          del_raw(args);
          break; }
        default: strcpy(out, "BADOP");
      }
      h_after = hash(s); have_after = 1;
    } catch (e) { strcpy(out, exn_name(e)); outp = out; }
    if (have_after && h_after != hash_data(rbuf, strlen(rbuf))) h_stale = 1;
    P(" | %s", outp);
    if (big) free(big);
    dump(s, routp);
    if (rbig) free(rbig);
    fflush(OUT);
  }
}

int main(int argc, char** argv) {
#ifndef H_ASAN
  if (getenv("H_INPLACE")) h_inplace = 1;
#endif
  run_all_cases(one_case);
  return 0;
}
