/* exn_interp.c — correspondence harness (a) for property C07: an interpreter of try/throw/catch
 * program trees built on the REAL macros `try`, `catch`, `throw` of Cello.h.  Every PTry node is
 * executed by a C function of its own (run_try), so nesting is DYNAMIC (through calls).
 * White-box: #includes the working tree's src/Exception.c (struct Exception is file-local) to read
 * e->msg in a handler; build with whitebox='Exception'.
 *
 * stdin: one program per line (prefix notation, see ocaml/Exn_driver.ml).
 * stdout: one transcript line per program
 *    t<n>@<d>  h<o>,<m>@<d> (o = identity of the bound object, see exn_objs.h)  X<d0>-><d1> (depth after a try/catch differs from the depth before)
 *    final N@<d> ; a program that dies prints the library's stderr text instead, and the parent
 *    appends " | EXIT(1)" (hcommon.h). */
#include "Exception.c"
#include "hcommon.h"

enum { PSKIP, PTICK, PSEQ, PTHROW, PTRY, PCALL, PTHROWF, PRAISE, PEXIT };
enum { ST_NORMAL, ST_BREAK, ST_CONT, ST_RETURN };   /* how a piece of program ended */
static int uses_signals;
typedef struct Node { int tag, n, m, mask; struct Node *a, *b; } Node;

#include "exn_objs.h"
/* the 16 compiled filters name the variant-0 object of each kind (matching is by eq = by kind) */
#define K0 X(0,0)
#define K1 X(1,0)
#define K2 X(2,0)
#define K3 X(3,0)

static char** toks; static int ntok, tpos;
static Node* parse(void) {
  if (tpos >= ntok) { P("BADCASE"); fflush(OUT); _exit(0); }
  char* t = toks[tpos++];
  Node* n = calloc(1, sizeof(Node));
  switch (t[0]) {
    case '.': n->tag = PSKIP; break;
    case 't': n->tag = PTICK; n->n = atoi(t+1); break;
    case ';': n->tag = PSEQ; n->a = parse(); n->b = parse(); break;
    case '!': n->tag = PTHROW; n->n = atoi(t+1); n->m = strchr(t, ',') ? atoi(strchr(t, ',')+1) : 0;
              if (n->n / 10 >= 4 || n->n % 10 >= NVAR)   /* the compiled filters know kinds 0..3 */ { P("BADCASE"); fflush(OUT); _exit(0); }
              break;
    case 'B': n->tag = PEXIT; n->n = ST_BREAK; break;
    case 'K': n->tag = PEXIT; n->n = ST_CONT; break;
    case 'R': n->tag = PEXIT; n->n = ST_RETURN; break;
    case 'S': n->tag = PRAISE; n->n = atoi(t+1); uses_signals = 1; break;
    case 'F': n->tag = PTHROWF; n->n = atoi(t+1); n->m = strchr(t, ',') ? atoi(strchr(t, ',')+1) : 0;
              if (n->n / 10 >= 4 || n->n % 10 >= NVAR) { P("BADCASE"); fflush(OUT); _exit(0); }
              n->a = parse(); break;
    case 'T': n->tag = PTRY;
              for (char* c = t+1; *c; ) { int o = atoi(c);
                                          if (o / 10 >= 4) { P("BADCASE"); fflush(OUT); _exit(0); }
                                          n->mask |= 1 << ((o / 10) & 3);
                                          while (*c && *c != '.') c++; if (*c == '.') c++; }
              n->a = parse(); n->b = parse(); break;
    case 'C': n->tag = PCALL; n->a = parse(); break;
    default: P("BADCASE"); fflush(OUT); _exit(0);
  }
  return n;
}

static int run(Node* n);

static void on_handler(var e) {
  struct Exception* x = current(Exception);
  const char* s = c_str(x->msg);
  P("h%d,", obj_id(e)); print_msg(s); P("@%zu ", len(current(Exception)));
  fflush(OUT);
}

/* one C function per filter combination, so that a frame holds one jmp_buf only (nesting to
 * EXCEPTION_MAX_DEPTH must fit the C stack) */
/* a handler is left early by REAL break / continue / return statements inside the catch block */
#define TC(M, ...) static int run_try_##M(Node* n) { \
  try { run(n->a); } catch (__VA_ARGS__) { on_handler(e); int h_ = run(n->b); \
    if (h_ == ST_BREAK) break; if (h_ == ST_CONT) continue; if (h_ == ST_RETURN) return ST_RETURN; } \
  return ST_NORMAL; }
TC(0, e)
TC(1, e in K0)
TC(2, e in K1)
TC(3, e in K0, K1)
TC(4, e in K2)
TC(5, e in K0, K2)
TC(6, e in K1, K2)
TC(7, e in K0, K1, K2)
TC(8, e in K3)
TC(9, e in K0, K3)
TC(10, e in K1, K3)
TC(11, e in K0, K1, K3)
TC(12, e in K2, K3)
TC(13, e in K0, K2, K3)
TC(14, e in K1, K2, K3)
TC(15, e in K0, K1, K2, K3)
static int (*run_try_tab[16])(Node*) = {
  run_try_0, run_try_1, run_try_2, run_try_3, run_try_4, run_try_5, run_try_6, run_try_7,
  run_try_8, run_try_9, run_try_10, run_try_11, run_try_12, run_try_13, run_try_14, run_try_15 };

static int run_try(Node* n) {
  size_t d0 = len(current(Exception));
  int st = run_try_tab[n->mask & 15](n);
  size_t d1 = len(current(Exception));
  if (d1 != d0) { P("X%zu->%zu ", d0, d1); fflush(OUT); }
  return st;
}

static int run_call(Node* n) { int st = run(n->a); return st == ST_RETURN ? ST_NORMAL : st; }
static void run_v(void* n) { run((Node*)n); }

static int run(Node* n) {
  switch (n->tag) {
    case PSKIP: break;
    case PTICK: P("t%d@%zu ", n->n, len(current(Exception))); fflush(OUT); break;
    case PSEQ: { int st = run(n->a); if (st != ST_NORMAL) return st; return run(n->b); }
    case PTHROW: THROW(n->n, n->m); break;
    case PTHROWF: THROWF(n->n, n->m, run_v, n->a); break;
    case PRAISE: RAISE(n->n); break;
    case PEXIT: return n->n;
    case PTRY: return run_try(n);
    case PCALL: return run_call(n);
  }
  return ST_NORMAL;
}

static void do_case(char* line) {
  size_t cap = strlen(line) / 2 + 2;
  toks = malloc(cap * sizeof(char*)); ntok = 0; tpos = 0;
  char* s = line; char* t;
  char rep = 'T';
  while ((t = next_tok(&s, ' ')) != NULL) { if (*t == '@') rep = t[1]; else if (*t) toks[ntok++] = t; }
  setup_objs(rep);
  Node* root = parse();
  if (tpos != ntok) { P("BADCASE"); return; }
  if (uses_signals) exception_signals();
  fflush(OUT);
  dup2(fileno(OUT), 2);                 /* the library's diagnostic goes into the transcript */
  atexit(exn_at_exit);
  run(root);
  P("N@%zu", len(current(Exception)));
}

int main(int argc, char** argv) {
  run_all_cases(do_case);
  return 0;
}
