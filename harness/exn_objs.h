/* exn_objs.h — the exception objects of the C07 harnesses.
 * Object o = 10*kind + variant (4 kinds x 3 variants).  Objects of one kind are DISTINCT objects that
 * are `eq` to each other (exception_catch matches with eq); three realisations, chosen per case:
 *   'T'  Type objects: variant 0 = the library's TypeError / ValueError / KeyError / IOError,
 *        variants 1, 2 = other static Type objects of the same name (Type_Cmp compares names)
 *   'I'  heap Ints 404+kind        'S'  heap Strings "xs<kind>"
 *        (variant 2 is made the way copy() makes it: assign into fresh memory, raw allocation)
 * obj_id() gives the identity of an object back (999 = none of ours, -1 = NULL). */
#ifndef EXN_OBJS_H
#define EXN_OBJS_H
#define NKIND 4
#define NVAR 3
static var xobj[NKIND][NVAR];
#define X(k, v) (xobj[k][v])

static var TypeError_t1 = CelloEmpty(TypeError);
static var TypeError_t2 = CelloEmpty(TypeError);
static var ValueError_t1 = CelloEmpty(ValueError);
static var ValueError_t2 = CelloEmpty(ValueError);
static var KeyError_t1 = CelloEmpty(KeyError);
static var KeyError_t2 = CelloEmpty(KeyError);
static var IOError_t1 = CelloEmpty(IOError);
static var IOError_t2 = CelloEmpty(IOError);

static void setup_objs(char rep) {
  if (rep == 'I' || rep == 'S') {
    for (int k = 0; k < NKIND; k++) {
      char buf[16]; snprintf(buf, sizeof buf, "xs%d", k);
      for (int v = 0; v < 2; v++)
        xobj[k][v] = (rep == 'I') ? new_raw(Int, $I(404 + k)) : new_raw(String, $S(buf));
      xobj[k][2] = assign(alloc_raw(type_of(xobj[k][0])), xobj[k][0]);
    }
  } else {
    var t[NKIND][NVAR] = {
      { TypeError, TypeError_t1, TypeError_t2 }, { ValueError, ValueError_t1, ValueError_t2 },
      { KeyError, KeyError_t1, KeyError_t2 }, { IOError, IOError_t1, IOError_t2 } };
    memcpy(xobj, t, sizeof t);
  }
}

static int obj_id(var e) {
  if (e is NULL) return -1;
  for (int k = 0; k < NKIND; k++) for (int v = 0; v < NVAR; v++) if (e is xobj[k][v]) return 10*k + v;
  return 999;
}

/* the harness throws with the format "m%i" (message m > 0) or with the EMPTY format (m = 0) */
#define THROW(o, m) do { if ((m) == 0) throw(X((o)/10, (o)%10), ""); \
                         else throw(X((o)/10, (o)%10), "m%i", $I(m)); } while (0)

static void print_msg(const char* s) {
  if (s[0] == 0) P("0"); else if (s[0] == 'm') P("%s", s+1); else P("%s", s);
}
#endif
