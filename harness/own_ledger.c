/* own_ledger.c — ownership ledger harness for property C05 (black-box, public API only).
 * The element types ProbeN (narrow) and ProbeW (wide) have their own constructor, assignment
 * and destructor and own heap memory; every construction (New, or Assign into zero-filled
 * memory) takes a fresh token from a ledger, every destruction retires it.  The two types
 * differ in size and layout (the wide one keeps its token behind 40 bytes of padding) so that a
 * byte-wise move or copy using the wrong element size loses the token or the padding pattern.
 * After every operation the harness prints the events of that operation and the contents
 * (value.token) of every live container.
 *
 * case:  ops separated by ' ' (container ids = creation order, starting at 0)
 *   A<v,..> L<v,..> new Array/List of ProbeN (E.. F.. : of ProbeW)
 *   T<k:v,..> R<k:v,..> new Table/Tree ProbeN -> ProbeW   (G.. H.. : ProbeW -> ProbeN)      B<v> new Box
 *   p<c>,<v> push   o<c> pop   i<c>,<i>,<v> push_at   x<c>,<i> pop_at   s<c>,<i>,<v> set
 *   r<c>,<v> rem    c<c>,<d> concat   z<c>,<n> resize   q<c> sort   a<c>,<d> assign
 *   y<d> copy       d<c> del   m<c>,<k>,<v> map set   n<c>,<k> map rem
 *   FAILING operations (must raise and change nothing: no construction, no destruction, same contents):
 *   w<c> push / W<c>,<i> push_at / v<c>,<i> set of a wrong-typed element (an Int)   u<c>,<k> map set with a wrong-typed value
 * transcript per op:  <out>;C<n>;D<v,..sorted>;Z<n>;live=<n>;<dump>;<flags>
 *   dump: containers separated by '/':  <id>A[v.t,v.t]  <id>T{k.t=v.t,..sorted by key}  <id>B(v.t)  <id>-
 *   flags: DBL (token destructed twice), UNK (destruct of a never issued token),
 *          HELDDEAD (a contained element's token is not live), PAD (padding of a wide element damaged) */
#include "Cello.h"
#include "hcommon.h"

#define MAXTOK 200000
static unsigned char tstate[MAXTOK];   /* 0 never issued, 1 live, 2 dead */
static int64_t ntok = 0, nlive = 0;
static int ev_c, ev_z, ev_dbl, ev_unk;
static int64_t ev_d[4096]; static int ev_nd;

struct Core { int64_t v; int64_t tok; char* mem; };
struct ProbeN { struct Core c; };
struct ProbeW { char pad[40]; struct Core c; };
#define PADBYTE 0x3c
static var ProbeN; static var ProbeW;

static struct Core* core(var self) {
  if (type_of(self) is ProbeW) return &((struct ProbeW*)self)->c;
  return &((struct ProbeN*)self)->c;
}

static void probe_construct(var self) {
  struct Core* p = core(self);
  if (type_of(self) is ProbeW) memset(((struct ProbeW*)self)->pad, PADBYTE, 40);
  p->tok = ++ntok;
  if (p->tok < MAXTOK) tstate[p->tok] = 1;
  nlive++;
  p->mem = malloc(24);
  if (p->mem) memset(p->mem, 0x5a, 24);
  ev_c++;
}

static void Probe_New(var self, var args) {
  core(self)->v = len(args) > 0 ? c_int(get(args, $I(0))) : 0;
  probe_construct(self);
}

static void Probe_Del(var self) {
  struct Core* p = core(self);
  if (p->tok == 0) { ev_z++; return; }            /* zero-filled element, never assigned */
  if (p->tok < 0 || p->tok >= MAXTOK || tstate[p->tok] == 0) { ev_unk++; return; }
  if (tstate[p->tok] == 2) { ev_dbl++; return; }
  tstate[p->tok] = 2; nlive--;
  if (ev_nd < 4096) ev_d[ev_nd++] = p->v;
  free(p->mem);
}

static void Probe_Assign(var self, var obj) {
  /* an element type that refuses sources it cannot take, BEFORE touching the target (like Int_Assign on a String) */
  if (type_of(obj) isnt ProbeN and type_of(obj) isnt ProbeW) {
    throw(TypeError, "Probe cannot be assigned from %$", type_of(obj));
  }
  struct Core* p = core(self); struct Core* o = core(obj);
  p->v = o->v;
  if (p->tok == 0) probe_construct(self);         /* first assign into zero-filled memory */
}

static int Probe_Cmp(var a, var b) {
  int64_t x = core(a)->v, y = core(b)->v;
  return x < y ? -1 : x > y ? 1 : 0;
}
static uint64_t Probe_Hash(var self) { return (uint64_t)core(self)->v; }

static var ProbeN = Cello(ProbeN,
  Instance(New, Probe_New, Probe_Del), Instance(Assign, Probe_Assign),
  Instance(Cmp, Probe_Cmp), Instance(Hash, Probe_Hash));
static var ProbeW = Cello(ProbeW,
  Instance(New, Probe_New, Probe_Del), Instance(Assign, Probe_Assign),
  Instance(Cmp, Probe_Cmp), Instance(Hash, Probe_Hash));

/* a value carrier: raw memory with a probe header, never constructed, never destructed
   (it leaks when the operation raises: child process) */
static var carrier_of(var T, int64_t v) { var o = alloc_raw(T); struct Core* p = core(o); p->v = v; p->tok = 0; p->mem = NULL; return o; }

#define MAXC 128
enum { K_NONE = 0, K_ARRAY, K_LIST, K_TABLE, K_TREE, K_BOX };
static int kind[MAXC]; static int managed[MAXC]; static int nc;
static var et[MAXC]; static var kt[MAXC]; static var vt[MAXC];   /* element / key / value types */

static int cmp_i64(const void* a, const void* b) { int64_t x = *(const int64_t*)a, y = *(const int64_t*)b; return x < y ? -1 : x > y; }

static int helddead, padbad;
static void cellp(var e) {
  struct Core* p = core(e);
  P("%" PRId64 ".%" PRId64, p->v, p->tok);
  if (p->tok != 0 && (p->tok >= MAXTOK || tstate[p->tok] != 1)) helddead = 1;
  if (p->tok != 0 && type_of(e) is ProbeW) {
    for (int i = 0; i < 40; i++) if (((struct ProbeW*)e)->pad[i] != PADBYTE) padbad = 1;
  }
}

struct kv { int64_t k; var key; var val; };
static int cmp_kv(const void* a, const void* b) { int64_t x = ((const struct kv*)a)->k, y = ((const struct kv*)b)->k; return x < y ? -1 : x > y; }

static void dump(var* C) {
  for (int c = 0; c < nc; c++) {
    if (c) P("/");
    P("%d", c);
    switch (kind[c]) {
      case K_NONE: P("-"); break;
      case K_ARRAY: case K_LIST: {
        P(kind[c] == K_ARRAY ? "A[" : "L[");
        size_t n = 0, ln = len(C[c]);
        foreach (e in C[c]) { if (n) P(","); cellp(e); if (++n > ln + 4) { P(",RUNAWAY"); break; } }
        P("]#%zu", ln); break; }
      case K_TABLE: case K_TREE: {
        P(kind[c] == K_TABLE ? "T{" : "R{");
        size_t ln = len(C[c]), n = 0;
        struct kv* a = malloc(sizeof(struct kv) * (ln + 8));
        foreach (k in C[c]) { if (n >= ln + 4) break; a[n].k = core(k)->v; a[n].key = k; a[n].val = get(C[c], k); n++; }
        qsort(a, n, sizeof(struct kv), cmp_kv);
        for (size_t i = 0; i < n; i++) { if (i) P(","); cellp(a[i].key); P("="); cellp(a[i].val); }
        free(a);
        P("}#%zu", ln); break; }
      case K_BOX: { P("B("); var o = deref(C[c]); if (o) cellp(o); P(")"); break; }
    }
  }
}

static int64_t num(char** s) { char* e; int64_t v = strtoll(*s, &e, 10); *s = (*e == ',' || *e == ':') ? e + 1 : e; return v; }

static int is_sq(int k) { return k == K_ARRAY || k == K_LIST; }
static int is_mp(int k) { return k == K_TABLE || k == K_TREE; }

static void one_case(char* line) {
  var C[MAXC];                       /* on the stack: managed copies stay reachable */
  memset(C, 0, sizeof C); nc = 0;
  memset(kind, 0, sizeof kind); memset(managed, 0, sizeof managed);
  char* s = line; char* tok; int first = 1;
  while ((tok = next_tok(&s, ' ')) != NULL) {
    if (*tok == 0) continue;
    ev_c = ev_z = ev_dbl = ev_unk = ev_nd = 0; helddead = 0; padbad = 0;
    const char* res = "ok";
    char op = tok[0]; char* q = tok + 1;
    try {
      switch (op) {
        case 'A': case 'L': case 'E': case 'F': {
          var T = (op == 'A' || op == 'L') ? ProbeN : ProbeW;
          int isarr = (op == 'A' || op == 'E');
          var args = new_raw(Tuple); int nt = 0;
          push(args, T);
          while (*q && nt < 64) { push(args, carrier_of(T, num(&q))); nt++; }
          if (nc < MAXC) { C[nc] = new_raw_with(isarr ? Array : List, args); kind[nc] = isarr ? K_ARRAY : K_LIST; et[nc] = T; nc++; }
          del_raw(args); break; }
        case 'T': case 'R': case 'G': case 'H': {
          int up = (op == 'T' || op == 'R'); int istab = (op == 'T' || op == 'G');
          var KT = up ? ProbeN : ProbeW; var VT = up ? ProbeW : ProbeN;
          var args = new_raw(Tuple); int nt = 0;
          push(args, KT); push(args, VT);
          while (*q && nt < 62) { push(args, carrier_of(KT, num(&q))); push(args, carrier_of(VT, num(&q))); nt += 2; }
          if (nc < MAXC) { C[nc] = new_raw_with(istab ? Table : Tree, args); kind[nc] = istab ? K_TABLE : K_TREE; kt[nc] = KT; vt[nc] = VT; nc++; }
          del_raw(args); break; }
        case 'B': {
          int64_t v = num(&q);
          if (nc < MAXC) { C[nc] = new_root(Box, new(ProbeW, $I(v))); kind[nc] = K_BOX; nc++; }
          break; }
        default: {
          int64_t c = num(&q);
          if (c < 0 || c >= nc || kind[c] == K_NONE) { res = "BADID"; break; }
          int sq = is_sq(kind[c]), mp = is_mp(kind[c]);
          switch (op) {
            case 'p': if (!sq) { res = "SKIP"; break; } push(C[c], carrier_of(et[c], num(&q))); break;
            case 'o': if (!sq) { res = "SKIP"; break; } pop(C[c]); break;
            case 'i': if (!sq) { res = "SKIP"; break; } { int64_t i = num(&q); push_at(C[c], carrier_of(et[c], num(&q)), $I(i)); } break;
            case 'x': if (!sq) { res = "SKIP"; break; } { int64_t i = num(&q); pop_at(C[c], $I(i)); } break;
            case 's': if (!sq) { res = "SKIP"; break; } { int64_t i = num(&q); set(C[c], $I(i), carrier_of(et[c], num(&q))); } break;
            case 'r': if (!sq) { res = "SKIP"; break; } rem(C[c], carrier_of(et[c], num(&q))); break;
            case 'c': { int64_t d = num(&q); if (!sq || d < 0 || d >= nc || d == c || !is_sq(kind[d])) { res = "SKIP"; break; } concat(C[c], C[d]); } break;
            case 'z': if (kind[c] == K_BOX) { res = "SKIP"; break; } { int64_t n = num(&q); if (mp && n != 0) { res = "SKIP"; break; } resize(C[c], (size_t)n); } break;
            case 'q': if (kind[c] != K_ARRAY) { res = "SKIP"; break; } sort(C[c]); break;
            case 'a': { int64_t d = num(&q);
              if (d < 0 || d >= nc || d == c || kind[d] == K_NONE) { res = "SKIP"; break; }
              if (!((sq && is_sq(kind[d])) || (mp && is_mp(kind[d])))) { res = "SKIP"; break; }
              assign(C[c], C[d]);
              et[c] = et[d]; kt[c] = kt[d]; vt[c] = vt[d]; } break;   /* the target takes the source's element types */
            case 'y': if (kind[c] == K_BOX) { res = "SKIP"; break; }
              if (nc < MAXC) { C[nc] = copy(C[c]); kind[nc] = kind[c]; managed[nc] = 1; et[nc] = et[c]; kt[nc] = kt[c]; vt[nc] = vt[c]; nc++; } break;
            case 'd':
              if (kind[c] == K_BOX) del_root(C[c]); else if (managed[c]) del(C[c]); else del_raw(C[c]);
              kind[c] = K_NONE; C[c] = NULL; break;
            case 'w': if (!sq) { res = "SKIP"; break; } push(C[c], $I(5)); break;
            case 'W': if (!sq) { res = "SKIP"; break; } { int64_t i = num(&q); push_at(C[c], $I(5), $I(i)); } break;
            case 'v': if (!sq) { res = "SKIP"; break; } { int64_t i = num(&q); set(C[c], $I(i), $I(5)); } break;
            case 'u': if (!mp) { res = "SKIP"; break; } { int64_t k = num(&q); set(C[c], carrier_of(kt[c], k), $I(5)); } break;
            case 'm': if (!mp) { res = "SKIP"; break; } { int64_t k = num(&q); int64_t v = num(&q); set(C[c], carrier_of(kt[c], k), carrier_of(vt[c], v)); } break;
            case 'n': if (!mp) { res = "SKIP"; break; } rem(C[c], carrier_of(kt[c], num(&q))); break;
            default: res = "BADOP";
          }
        }
      }
    } catch (e) { res = exn_name(e); }
    if (!first) P(" | ");
    first = 0;
    P("%s;C%d;D", res, ev_c);
    qsort(ev_d, ev_nd, sizeof(int64_t), cmp_i64);
    for (int i = 0; i < ev_nd; i++) P(i ? ",%" PRId64 : "%" PRId64, ev_d[i]);
    P(";Z%d;live=%" PRId64 ";", ev_z, nlive);
    char flags[64]; flags[0] = 0;
    if (ev_dbl) strcat(flags, "DBL");
    if (ev_unk) strcat(flags, "UNK");
    dump(C);                          /* sets helddead / padbad */
    if (helddead) strcat(flags, "HELDDEAD");
    if (padbad) strcat(flags, "PAD");
    P(";%s", flags);
    fflush(OUT);
  }
}

int main(int argc, char** argv) {
  run_all_cases(one_case);
  return 0;
}
