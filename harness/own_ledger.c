/* own_ledger.c — ownership ledger harness for property C05 (black-box, public API only).
 * Element type Probe has its own constructor, assignment and destructor and owns heap
 * memory; every construction (New, or Assign into zero-filled memory) takes a fresh token
 * from a ledger, every destruction retires it.  After every operation the harness prints
 * the events of that operation and the contents (value/token) of every live container.
 *
 * case:  ops separated by ' ' (container ids = creation order, starting at 0)
 *   A<v,..> L<v,..> new Array/List      T<k:v,..> R<k:v,..> new Table/Tree     B<v> new Box
 *   p<c>,<v> push   o<c> pop   i<c>,<i>,<v> push_at   x<c>,<i> pop_at   s<c>,<i>,<v> set
 *   r<c>,<v> rem    c<c>,<d> concat   z<c>,<n> resize   q<c> sort   a<c>,<d> assign
 *   y<d> copy       d<c> del   m<c>,<k>,<v> map set   n<c>,<k> map rem
 * transcript per op:  <out>;C<n>;D<v,..sorted>;Z<n>;live=<n>;<dump>;<flags>
 *   dump: containers separated by '/':  <id>A[v.t,v.t]  <id>T{k.t=v.t,..sorted by key}  <id>B(v.t)  <id>-
 *   flags: DBL (token destructed twice), UNK (destruct of a never issued token),
 *          HELDDEAD (a contained element's token is not live)                                  */
#include "Cello.h"
#include "hcommon.h"

#define MAXTOK 200000
static unsigned char tstate[MAXTOK];   /* 0 never issued, 1 live, 2 dead */
static int64_t ntok = 0, nlive = 0;
static int ev_c, ev_z, ev_dbl, ev_unk;
static int64_t ev_d[4096]; static int ev_nd;

struct Probe { int64_t v; int64_t tok; char* mem; };

static void probe_construct(struct Probe* p) {
  p->tok = ++ntok;
  if (p->tok < MAXTOK) tstate[p->tok] = 1;
  nlive++;
  p->mem = malloc(24);
  if (p->mem) memset(p->mem, 0x5a, 24);
  ev_c++;
}

static void Probe_New(var self, var args) {
  struct Probe* p = self;
  p->v = len(args) > 0 ? c_int(get(args, $I(0))) : 0;
  probe_construct(p);
}

static void Probe_Del(var self) {
  struct Probe* p = self;
  if (p->tok == 0) { ev_z++; return; }            /* zero-filled element, never assigned */
  if (p->tok < 0 || p->tok >= MAXTOK || tstate[p->tok] == 0) { ev_unk++; return; }
  if (tstate[p->tok] == 2) { ev_dbl++; return; }
  tstate[p->tok] = 2; nlive--;
  if (ev_nd < 4096) ev_d[ev_nd++] = p->v;
  free(p->mem);
}

static void Probe_Assign(var self, var obj) {
  struct Probe* p = self; struct Probe* o = cast(obj, type_of(self));
  p->v = o->v;
  if (p->tok == 0) probe_construct(p);            /* first assign into zero-filled memory */
}

static int Probe_Cmp(var a, var b) {
  int64_t x = ((struct Probe*)a)->v, y = ((struct Probe*)cast(b, type_of(a)))->v;
  return x < y ? -1 : x > y ? 1 : 0;
}
static uint64_t Probe_Hash(var self) { return (uint64_t)((struct Probe*)self)->v; }

static var Probe = Cello(Probe,
  Instance(New, Probe_New, Probe_Del), Instance(Assign, Probe_Assign),
  Instance(Cmp, Probe_Cmp), Instance(Hash, Probe_Hash));

/* a value carrier: raw memory with a Probe header, never constructed, never destructed */
static var carrier(int64_t v) { struct Probe* p = alloc_raw(Probe); p->v = v; p->tok = 0; p->mem = NULL; return p; }
static void uncarrier(var p) { dealloc_raw(p); }   /* only on the normal path; a carrier leaks when the operation raises (child process) */

#define MAXC 128
enum { K_NONE = 0, K_ARRAY, K_LIST, K_TABLE, K_TREE, K_BOX };
static int kind[MAXC]; static int managed[MAXC]; static int nc;

static int cmp_i64(const void* a, const void* b) { int64_t x = *(const int64_t*)a, y = *(const int64_t*)b; return x < y ? -1 : x > y; }

static int helddead;
static void cellp(var e) {
  struct Probe* p = e;
  P("%" PRId64 ".%" PRId64, p->v, p->tok);
  if (p->tok != 0 && (p->tok >= MAXTOK || tstate[p->tok] != 1)) helddead = 1;
}

struct kv { int64_t k; var key; var val; };
static int cmp_kv(const void* a, const void* b) { int64_t x = ((const struct kv*)a)->k, y = ((const struct kv*)b)->k; return x < y ? -1 : x > y; }

static void dump(var* C) {
  for (int c = 0; c < nc; c++) {
    if (c) P("/");
    P("%d", c);
    switch (kind[c]) {
      case K_NONE: P("-"); break;
      case K_ARRAY: case K_LIST: {
        P(kind[c] == K_ARRAY ? "A[" : "L[");
        size_t n = 0, ln = len(C[c]);
        foreach (e in C[c]) { if (n) P(","); cellp(e); if (++n > ln + 4) { P(",RUNAWAY"); break; } }
        P("]#%zu", ln); break; }
      case K_TABLE: case K_TREE: {
        P(kind[c] == K_TABLE ? "T{" : "R{");
        size_t ln = len(C[c]), n = 0;
        struct kv* a = malloc(sizeof(struct kv) * (ln + 8));
        foreach (k in C[c]) { if (n >= ln + 4) break; a[n].k = ((struct Probe*)k)->v; a[n].key = k; a[n].val = get(C[c], k); n++; }
        qsort(a, n, sizeof(struct kv), cmp_kv);
        for (size_t i = 0; i < n; i++) { if (i) P(","); cellp(a[i].key); P("="); cellp(a[i].val); }
        free(a);
        P("}#%zu", ln); break; }
      case K_BOX: { P("B("); var o = deref(C[c]); if (o) cellp(o); P(")"); break; }
    }
  }
}

static int64_t num(char** s) { char* e; int64_t v = strtoll(*s, &e, 10); *s = (*e == ',' || *e == ':') ? e + 1 : e; return v; }

static void one_case(char* line) {
  var C[MAXC];                       /* on the stack: managed copies stay reachable */
  memset(C, 0, sizeof C); nc = 0;
  memset(kind, 0, sizeof kind); memset(managed, 0, sizeof managed);
  char* s = line; char* tok; int first = 1;
  while ((tok = next_tok(&s, ' ')) != NULL) {
    if (*tok == 0) continue;
    ev_c = ev_z = ev_dbl = ev_unk = ev_nd = 0; helddead = 0;
    const char* res = "ok";
    char op = tok[0]; char* q = tok + 1;
    try {
      switch (op) {
        case 'A': case 'L': {
          var args = new_raw(Tuple); var tmp[64]; int nt = 0;
          push(args, Probe);
          while (*q && nt < 64) { tmp[nt] = carrier(num(&q)); push(args, tmp[nt]); nt++; }
          if (nc < MAXC) { C[nc] = new_raw_with(op == 'A' ? Array : List, args); kind[nc] = op == 'A' ? K_ARRAY : K_LIST; nc++; }
          for (int i = 0; i < nt; i++) uncarrier(tmp[i]);
          del_raw(args); break; }
        case 'T': case 'R': {
          var args = new_raw(Tuple); var tmp[64]; int nt = 0;
          push(args, Probe); push(args, Probe);
          while (*q && nt < 62) { tmp[nt] = carrier(num(&q)); push(args, tmp[nt]); nt++; tmp[nt] = carrier(num(&q)); push(args, tmp[nt]); nt++; }
          if (nc < MAXC) { C[nc] = new_raw_with(op == 'T' ? Table : Tree, args); kind[nc] = op == 'T' ? K_TABLE : K_TREE; nc++; }
          for (int i = 0; i < nt; i++) uncarrier(tmp[i]);
          del_raw(args); break; }
        case 'B': {
          int64_t v = num(&q);
          if (nc < MAXC) { C[nc] = new_root(Box, new(Probe, $I(v))); kind[nc] = K_BOX; nc++; }
          break; }
        default: {
          int64_t c = num(&q);
          if (c < 0 || c >= nc || kind[c] == K_NONE) { res = "BADID"; break; }
          int sq = kind[c] == K_ARRAY || kind[c] == K_LIST, mp = kind[c] == K_TABLE || kind[c] == K_TREE;
          switch (op) {
            case 'p': if (!sq) { res = "SKIP"; break; } { var t = carrier(num(&q)); push(C[c], t); } break;
            case 'o': if (!sq) { res = "SKIP"; break; } pop(C[c]); break;
            case 'i': if (!sq) { res = "SKIP"; break; } { int64_t i = num(&q); var t = carrier(num(&q)); push_at(C[c], t, $I(i)); } break;
            case 'x': if (!sq) { res = "SKIP"; break; } { int64_t i = num(&q); pop_at(C[c], $I(i)); } break;
            case 's': if (!sq) { res = "SKIP"; break; } { int64_t i = num(&q); var t = carrier(num(&q)); set(C[c], $I(i), t); } break;
            case 'r': if (!sq) { res = "SKIP"; break; } { var t = carrier(num(&q)); rem(C[c], t); } break;
            case 'c': { int64_t d = num(&q); if (!sq || d < 0 || d >= nc || d == c || !(kind[d] == K_ARRAY || kind[d] == K_LIST)) { res = "SKIP"; break; } concat(C[c], C[d]); } break;
            case 'z': if (kind[c] == K_BOX) { res = "SKIP"; break; } { int64_t n = num(&q); if (mp && n != 0) { res = "SKIP"; break; } resize(C[c], (size_t)n); } break;
            case 'q': if (kind[c] != K_ARRAY) { res = "SKIP"; break; } sort(C[c]); break;
            case 'a': { int64_t d = num(&q);
              if (d < 0 || d >= nc || d == c || kind[d] == K_NONE) { res = "SKIP"; break; }
              int dsq = kind[d] == K_ARRAY || kind[d] == K_LIST, dmp = kind[d] == K_TABLE || kind[d] == K_TREE;
              if (!((sq && dsq) || (mp && dmp))) { res = "SKIP"; break; }
              assign(C[c], C[d]); } break;
            case 'y': if (kind[c] == K_BOX) { res = "SKIP"; break; }
              if (nc < MAXC) { C[nc] = copy(C[c]); kind[nc] = kind[c]; managed[nc] = 1; nc++; } break;
            case 'd':
              if (kind[c] == K_BOX) del_root(C[c]); else if (managed[c]) del(C[c]); else del_raw(C[c]);
              kind[c] = K_NONE; C[c] = NULL; break;
            case 'm': if (!mp) { res = "SKIP"; break; } { var k = carrier(num(&q)); var v = carrier(num(&q)); set(C[c], k, v); } break;
            case 'n': if (!mp) { res = "SKIP"; break; } { var k = carrier(num(&q)); rem(C[c], k); } break;
            default: res = "BADOP";
          }
        }
      }
    } catch (e) { res = exn_name(e); }
    if (!first) P(" | ");
    first = 0;
    P("%s;C%d;D", res, ev_c);
    qsort(ev_d, ev_nd, sizeof(int64_t), cmp_i64);
    for (int i = 0; i < ev_nd; i++) P(i ? ",%" PRId64 : "%" PRId64, ev_d[i]);
    P(";Z%d;", ev_z);
    int64_t live_before_dump = nlive;
    char flags[64]; flags[0] = 0;
    if (ev_dbl) strcat(flags, "DBL");
    if (ev_unk) strcat(flags, "UNK");
    /* dump first into the stream after flags: helddead is only known after the dump, so
       the dump comes first in a buffer-free way: print flags placeholder at the end */
    P("live=%" PRId64 ";", live_before_dump);
    dump(C);
    if (helddead) strcat(flags, "HELDDEAD");
    P(";%s", flags);
    fflush(OUT);
  }
}

int main(int argc, char** argv) {
  run_all_cases(one_case);
  return 0;
}
