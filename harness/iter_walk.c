/* iter_walk.c — correspondence harness for iteration and views (C11).
 * White-box for Table only (slot occupancy is printed so that the Table cursor model can be
 * compared slot by slot): textually includes the working tree's src/Table.c and is linked
 * against every library object except Table.o.  Everything else goes through the public API
 * (iter_init / iter_next / iter_last / iter_prev / len / get) and the public structs of Cello.h.
 *
 * One case per line = an iterable expression in prefix form (tokens separated by one space):
 *   arr <ints> | list <ints> | tup <ints> | tupr <ids> | tab <ints> | tree <ints>
 *   range <args>        args: "-" (no argument) or 1..3 comma separated ints / "_"
 *   slice <args> E      args as for range
 *   rev E               reverse(E)
 *   zip <k> E1 .. Ek    k >= 0
 *   enum E              enumerate(E)
 *   filter <p> E        predicate number p
 *   map <f> E           function number f
 *   arrh|listh|tuph <hist>   Array / List / heap Tuple after a mutation history, ops separated by "/":
 *        n<ints> (first op only: construct with these elements)  p<v> push  o pop  x<i> pop_at  r<v> rem
 *        a<i>:<v> push_at  z<n> resize  c<ints> concat  s sort          ("-" = no operation)
 *   tabh|treeh <hist>        Table / Tree after  k<key> set(key, 10*key)  r<key> rem  z<n> resize
 *   an operation that raises is counted (section hist=<count>) and the walk goes on with the container as it is
 *   <ints>: "-" (empty) or comma separated ints.   tupr: Tuple of pool objects named by id
 *   (the same id twice = the same pointer twice; value of object id is id).
 * Views are built exactly as the stack macros of Cello.h build them (header_init + the
 * *_stack functions), but in malloc'ed memory, so no collector is involved.
 *
 * Transcript (one line):
 *   len=<n>|E:<exn>;leaf=<v>,..[/<v>,..];fwd=<v>,<v>,..;af=<v>,..;bwd=<v>,..;ab=<v>,..;get=<v>,..|-;gx=<v>,..|-;sl=<start>:<stop>:<step>,..;tab=<slot>,..;hist=<ops that raised>
 *   leaf = forward walk of every Table/Tree leaf of the expression on its own (prefix order, "/" separated)
 *   v = integer or (v v ..) for a Tuple; walks are cut off (",RUNAWAY") after 2*len+4 steps
 *   (len capped; if len is not available: 2*(total base size)+4); an exception ends a section
 *   with E:<name>.  sl lists the computed range of every Slice in prefix order, tab the slot
 *   occupancy (key or _) of every Table.  If the construction itself raises: build=E:<exn>. */
#include "Table.c"
#include "hcommon.h"

static int HIST_RAISED;
enum { K_ARR, K_LIST, K_TUP, K_TUPR, K_TAB, K_TREE, K_RANGE, K_SLICE, K_REV, K_ZIP, K_ENUM, K_FILTER, K_MAP };
#define MAXSUB 8
struct Ex { int kind; var obj; int haslen, hasget; size_t basesz; struct Ex* sub[MAXSUB]; int nsub; };

static var mkobj(var T, size_t sz) {
  char* m = calloc(1, sizeof(struct Header) + sz);
  return header_init(m, T, AllocStack);
}
static var mkint(int64_t v) { struct Int* i = mkobj(Int, sizeof(struct Int)); i->val = v; return i; }
static var mktuple(var* xs, size_t n) {
  struct Tuple* t = mkobj(Tuple, sizeof(struct Tuple));
  t->items = malloc(sizeof(var) * (n + 1));
  for (size_t i = 0; i < n; i++) t->items[i] = xs[i];
  t->items[n] = Terminal;
  return t;
}

/* ---- the menu of predicates and functions (must agree with props/C11.py and Iter_driver.ml) */
static int64_t keyof(var v) {
  if (type_of(v) is Int) return c_int(v);
  if (type_of(v) is Tuple) {
    int64_t s = 0; size_t n = len(v);
    for (size_t i = 0; i < n; i++) s += keyof(get(v, $I(i)));
    return s;
  }
  return 0;
}
static int64_t mod3(int64_t k) { int64_t r = k % 3; return r < 0 ? r + 3 : r; }
static var p_true(var x)  { return x; }
static var p_false(var x) { return NULL; }
static var p_even(var x)  { return (keyof(x) % 2 == 0) ? x : NULL; }
static var p_pos(var x)   { return keyof(x) > 0 ? x : NULL; }
static var p_mod3(var x)  { return mod3(keyof(x)) == 0 ? x : NULL; }
static var p_lt3(var x)   { return keyof(x) < 3 ? x : NULL; }
/* predicates whose accepting answer is a non-NULL object OTHER than the argument (the contract of Filter is only
 * "non-NULL = accept"): the shared flag object, a fresh box around the argument, a fresh copy with the same value */
static var FLAG;
static var f_box(var x);
static var p_even_flag(var x) { return (keyof(x) % 2 == 0) ? FLAG : NULL; }
static var p_pos_box(var x)   { return keyof(x) > 0 ? f_box(x) : NULL; }
static var p_mod3_copy(var x) { return mod3(keyof(x)) == 0 ? mkint(keyof(x)) : NULL; }
static var (*PREDS[])(var) = { p_true, p_false, p_even, p_pos, p_mod3, p_lt3, p_even_flag, p_pos_box, p_mod3_copy };
#define NPRED 9
static var f_id(var x)     { return x; }
static var f_add100(var x) { return mkint(keyof(x) + 100); }
static var f_neg(var x)    { return mkint(-keyof(x)); }
static var f_sq(var x)     { int64_t k = keyof(x); return mkint((int64_t)((uint64_t)k * (uint64_t)k)); }
static var f_box(var x)    { var xs[1]; xs[0] = x; return mktuple(xs, 1); }
static var f_flag(var x)   { return FLAG; }                 /* the same shared object for every item */
static var f_copy(var x)   { return mkint(keyof(x)); }      /* same value, another object */
/* the PROBE function: the identity, but it records every item it is applied to, in order: placed as map(probe, X) under a
 * view it makes the accesses of that view to X observable (sections af= / ab=: forward / backward walk) */
#define MAXACC 4096
static char* ACC[MAXACC]; static int NACC;
static void show_val(var v, int depth);
static var f_probe(var x) {
  if (NACC < MAXACC) {
    char* buf = NULL; size_t bl = 0; FILE* save = OUT;
    OUT = open_memstream(&buf, &bl); show_val(x, 0); fclose(OUT); OUT = save;
    ACC[NACC++] = buf;
  }
  return x;
}
static void acc_dump(void) { for (int i = 0; i < NACC; i++) P("%s%s", i ? "," : "", ACC[i]); NACC = 0; }
static var (*FUNS[])(var) = { f_id, f_add100, f_neg, f_sq, f_box, f_flag, f_copy, f_probe };
#define NFUN 8
static var mkfunc(var (*f)(var)) { struct Function* fn = mkobj(Function, sizeof(struct Function)); fn->func = f; return fn; }

/* ---- parsing + construction (bottom-up) */
static char* CUR;
static char* tok(void) { return next_tok(&CUR, ' '); }

static size_t parse_ints(char* s, int64_t* out, size_t max) {
  size_t n = 0;
  if (s == NULL || strcmp(s, "-") == 0) return 0;
  char* q = s; char* t;
  while ((t = next_tok(&q, ',')) != NULL && n < max) out[n++] = strtoll(t, NULL, 10);
  return n;
}
/* args "-" | a,b,c with "_" -> Cello objects */
static size_t parse_args(char* s, var* out) {
  size_t n = 0;
  if (s == NULL || strcmp(s, "-") == 0) return 0;
  char* q = s; char* t;
  while ((t = next_tok(&q, ',')) != NULL && n < 3) out[n++] = (strcmp(t, "_") == 0) ? _ : mkint(strtoll(t, NULL, 10));
  return n;
}

static var mkrange(var* args, size_t n) {
  struct Range* r = mkobj(Range, sizeof(struct Range));
  r->value = mkint(0);
  return range_stack(r, mktuple(args, n));
}
static var mkslice(var it, var* args, size_t n) {
  struct Slice* s = mkobj(Slice, sizeof(struct Slice));
  struct Range* r = mkobj(Range, sizeof(struct Range));
  r->value = mkint(0);
  s->iter = NULL; s->range = r;
  var xs[4]; xs[0] = it;
  for (size_t i = 0; i < n; i++) xs[i + 1] = args[i];
  return slice_stack(s, mktuple(xs, n + 1));
}
static var mkzip(var* its, size_t n) {
  struct Zip* z = mkobj(Zip, sizeof(struct Zip));
  z->iters = mktuple(its, n);
  struct Tuple* v = mkobj(Tuple, sizeof(struct Tuple));
  v->items = calloc(n + 1, sizeof(var));
  z->values = v;
  return zip_stack(z);
}

#define MAXN 4096
static struct Ex* NODES[256]; static int NNODES;

/* one operation of a mutation history on a sequence container (kind 'a' Array, 'l' List, 't' heap Tuple) */
static void seq_op(char kind, var x, char* op) {
  static int64_t ys[MAXN];
  var elem_of(int64_t v) { return kind == 't' ? (var)new_raw(Int, $I(v)) : (var)mkint(v); }
  try {
    switch (op[0]) {
      case 'p': push(x, elem_of(strtoll(op + 1, NULL, 10))); break;
      case 'o': pop(x); break;
      case 'x': pop_at(x, $I(strtoll(op + 1, NULL, 10))); break;
      case 'r': rem(x, $I(strtoll(op + 1, NULL, 10))); break;
      case 'a': { char* c = strchr(op, ':'); if (!c) break; *c = 0;
                  push_at(x, elem_of(strtoll(c + 1, NULL, 10)), $I(strtoll(op + 1, NULL, 10))); break; }
      case 'z': resize(x, (size_t)strtoull(op + 1, NULL, 10)); break;
      case 'c': { size_t n = parse_ints(op[1] ? op + 1 : NULL, ys, MAXN);
                  var* a = malloc(sizeof(var) * (n + 2));
                  var other;
                  if (kind == 't') { for (size_t i = 0; i < n; i++) a[i] = new_raw(Int, $I(ys[i])); other = mktuple(a, n); }
                  else { a[0] = Int; for (size_t i = 0; i < n; i++) a[i + 1] = mkint(ys[i]); other = new_raw_with(Array, mktuple(a, n + 1)); }
                  concat(x, other); break; }
      case 's': sort(x); break;
      default: break;
    }
  } catch (e) { HIST_RAISED++; }
}
static void map_op(var x, char* op) {
  try {
    switch (op[0]) {
      case 'k': { int64_t k = strtoll(op + 1, NULL, 10); set(x, $I(k), $I(k * 10)); break; }
      case 'r': rem(x, $I(strtoll(op + 1, NULL, 10))); break;
      case 'z': resize(x, (size_t)strtoull(op + 1, NULL, 10)); break;
      default: break;
    }
  } catch (e) { HIST_RAISED++; }
}

static struct Ex* parse(void) {
  char* k = tok();
  if (!k) return NULL;
  struct Ex* e = calloc(1, sizeof *e);
  NODES[NNODES++] = e;
  static int64_t xs[MAXN];
  if (!strcmp(k, "arr") || !strcmp(k, "list") || !strcmp(k, "tup") || !strcmp(k, "tab") || !strcmp(k, "tree") || !strcmp(k, "tupr")) {
    size_t n = parse_ints(tok(), xs, MAXN);
    e->haslen = 1; e->basesz = n;
    if (!strcmp(k, "arr") || !strcmp(k, "list")) {
      e->kind = k[0] == 'a' ? K_ARR : K_LIST; e->hasget = 1;
      var* a = malloc(sizeof(var) * (n + 1));
      a[0] = Int;
      for (size_t i = 0; i < n; i++) a[i + 1] = mkint(xs[i]);
      e->obj = new_raw_with(e->kind == K_ARR ? Array : List, mktuple(a, n + 1));
    } else if (!strcmp(k, "tup")) {
      e->kind = K_TUP; e->hasget = 1;
      var* a = malloc(sizeof(var) * (n + 1));
      for (size_t i = 0; i < n; i++) a[i] = new_raw(Int, $I(xs[i]));    /* heap Ints, distinct objects */
      e->obj = mktuple(a, n);
    } else if (!strcmp(k, "tupr")) {
      e->kind = K_TUPR; e->hasget = 1;
      static var pool[64];
      var* a = malloc(sizeof(var) * (n + 1));
      for (size_t i = 0; i < n; i++) {
        int id = (int)(xs[i] & 63);
        if (!pool[id]) pool[id] = new_raw(Int, $I(id));
        a[i] = pool[id];
      }
      e->obj = mktuple(a, n);
    } else if (!strcmp(k, "tab")) {
      e->kind = K_TAB;
      e->obj = new_raw(Table, Int, Int);
      for (size_t i = 0; i < n; i++) set(e->obj, $I(xs[i]), $I(xs[i] * 10));
    } else {
      e->kind = K_TREE;
      e->obj = new_raw(Tree, Int, Int);
      for (size_t i = 0; i < n; i++) set(e->obj, $I(xs[i]), $I(xs[i] * 10));
    }
    return e;
  }
  if (!strcmp(k, "arrh") || !strcmp(k, "listh") || !strcmp(k, "tuph") || !strcmp(k, "tabh") || !strcmp(k, "treeh")) {
    char* h = tok();
    e->haslen = 1; e->basesz = 64;
    char kind = k[0] == 'a' ? 'a' : k[0] == 'l' ? 'l' : !strcmp(k, "tuph") ? 't' : !strcmp(k, "tabh") ? 'T' : 'R';
    e->kind = kind == 'a' ? K_ARR : kind == 'l' ? K_LIST : kind == 't' ? K_TUP : kind == 'T' ? K_TAB : K_TREE;
    e->hasget = (kind == 'a' || kind == 'l' || kind == 't');
    char* q = (h && strcmp(h, "-")) ? h : NULL; char* op;
    int first = 1;
    if (kind == 'T') e->obj = new_raw(Table, Int, Int);
    if (kind == 'R') e->obj = new_raw(Tree, Int, Int);
    while (1) {
      op = q ? next_tok(&q, '/') : NULL;
      if (first && e->hasget) {
        /* construction, with the elements of a leading n<ints> */
        size_t n = (op && op[0] == 'n') ? parse_ints(op[1] ? op + 1 : NULL, xs, MAXN) : 0;
        var* a = malloc(sizeof(var) * (n + 2));
        if (kind == 't') {
          for (size_t i = 0; i < n; i++) a[i] = new_raw(Int, $I(xs[i]));
          e->obj = new_raw_with(Tuple, mktuple(a, n));
        } else {
          a[0] = Int;
          for (size_t i = 0; i < n; i++) a[i + 1] = mkint(xs[i]);
          e->obj = new_raw_with(kind == 'a' ? Array : List, mktuple(a, n + 1));
        }
        first = 0;
        if (op && op[0] == 'n') continue;
      }
      first = 0;
      if (!op) break;
      if (e->hasget) seq_op(kind, e->obj, op); else map_op(e->obj, op);
    }
    return e;
  }
  if (!strcmp(k, "range")) {
    var args[3]; size_t n = parse_args(tok(), args);
    e->kind = K_RANGE; e->haslen = 1; e->hasget = 1;
    e->obj = mkrange(args, n);
    size_t l = len(e->obj); e->basesz = l > 1000 ? 1000 : l;
    return e;
  }
  if (!strcmp(k, "slice") || !strcmp(k, "rev")) {
    var args[3]; size_t n;
    if (k[0] == 's') { e->kind = K_SLICE; n = parse_args(tok(), args); }
    else { e->kind = K_REV; n = 3; args[0] = _; args[1] = _; args[2] = mkint(-1); }
    struct Ex* u = parse(); if (!u) return NULL;
    e->sub[0] = u; e->nsub = 1; e->haslen = 1; e->hasget = u->hasget; e->basesz = u->basesz;
    e->obj = mkslice(u->obj, args, n);
    return e;
  }
  if (!strcmp(k, "zip")) {
    int n = atoi(tok()); if (n > MAXSUB) n = MAXSUB;
    var its[MAXSUB];
    e->kind = K_ZIP; e->haslen = 1; e->hasget = 1; e->nsub = n;
    for (int i = 0; i < n; i++) {
      struct Ex* u = parse(); if (!u) return NULL;
      e->sub[i] = u; its[i] = u->obj;
      e->haslen &= u->haslen; e->hasget &= u->hasget; e->basesz += u->basesz;
    }
    e->obj = mkzip(its, (size_t)n);
    return e;
  }
  if (!strcmp(k, "enum")) {
    struct Ex* u = parse(); if (!u) return NULL;
    e->kind = K_ENUM; e->sub[0] = u; e->nsub = 1; e->haslen = u->haslen; e->hasget = u->hasget; e->basesz = 2 * u->basesz;
    var its[2]; its[0] = mkrange(NULL, 0); its[1] = u->obj;
    e->obj = enumerate_stack(mkzip(its, 2));
    return e;
  }
  if (!strcmp(k, "filter") || !strcmp(k, "map")) {
    int id = atoi(tok());
    struct Ex* u = parse(); if (!u) return NULL;
    e->sub[0] = u; e->nsub = 1; e->basesz = u->basesz;
    if (k[0] == 'f') {
      e->kind = K_FILTER; e->haslen = 0; e->hasget = 0;
      struct Filter* f = mkobj(Filter, sizeof(struct Filter));
      f->iter = u->obj; f->func = mkfunc(PREDS[((id % NPRED) + NPRED) % NPRED]);
      e->obj = f;
    } else {
      e->kind = K_MAP; e->haslen = u->haslen; e->hasget = u->hasget;
      struct Map* m = mkobj(Map, sizeof(struct Map));
      m->iter = u->obj; m->curr = NULL; m->func = mkfunc(FUNS[((id % NFUN) + NFUN) % NFUN]);
      e->obj = m;
    }
    return e;
  }
  return NULL;
}

/* identities: the elements of the leaf containers (Array slots, List nodes, Tuple items, Table/Tree keys) are
 * registered in the order the leaves (prefix order) yield them; a yielded Int that IS one of them prints as
 * value@number, the shared flag object as 777@-1, any other object as its bare value */
#define MAXREG 8192
static var REG[MAXREG]; static int NREG;
static int reg_find(var v) { for (int i = 0; i < NREG; i++) if (REG[i] == v) return i; return -2; }
static void reg_leaf(var x, size_t cut) {
  volatile size_t k = 0;
  try {
    var c = iter_init(x);
    while (c isnt Terminal && k < cut && NREG < MAXREG) { if (reg_find(c) < 0) REG[NREG++] = c; k++; c = iter_next(x, c); }
  } catch (e) { }
}

static void show_val(var v, int depth) {
  if (v == NULL) { P("NULL"); return; }
  var t = type_of(v);
  if (t is Int) {
    int id = v == FLAG ? -1 : reg_find(v);
    if (id >= -1) P("%" PRId64 "@%d", (int64_t)c_int(v), id); else P("%" PRId64, (int64_t)c_int(v));
    return;
  }
  if (t is Tuple && depth < 8) {
    size_t n = len(v);
    P("(");
    for (size_t i = 0; i < n && i < 64; i++) { if (i) P(" "); show_val(get(v, $I(i)), depth + 1); }
    P(")");
    return;
  }
  P("?");
}

static void walk(var x, int backward, size_t cutoff) {
  volatile size_t k = 0;
  try {
    var c = backward ? iter_last(x) : iter_init(x);
    while (c isnt Terminal) {
      if (k) P(",");
      if (k >= cutoff) { P("RUNAWAY"); break; }
      show_val(c, 0); k++;
      c = backward ? iter_prev(x, c) : iter_next(x, c);
    }
  } catch (e) { P("%sE:%s", k ? "," : "", exn_name(e)); }
}

static void one_case(char* line) {
  CUR = line; NNODES = 0; HIST_RAISED = 0;
  if (!FLAG) FLAG = mkint(777);
  struct Ex* volatile e = NULL;
  volatile int built = 0;
  try { e = parse(); built = 1; } catch (ex) { P("build=E:%s", exn_name(ex)); }
  if (!built) return;
  if (!e) { P("BADCASE"); return; }
  var x = e->obj;
  NREG = 0;
  for (int j = 0; j < NNODES; j++) {
    int kd = NODES[j]->kind;
    if (kd == K_ARR || kd == K_LIST || kd == K_TUP || kd == K_TAB || kd == K_TREE) reg_leaf(NODES[j]->obj, 4000);
  }
  volatile int64_t n = -1;
  try { n = (int64_t)len(x); P("len=%" PRId64, (int64_t)n); } catch (ex) { P("len=E:%s", exn_name(ex)); }
  size_t cutoff = n >= 0 ? (n > 5000 ? 10004 : 2 * (size_t)n + 4) : 2 * e->basesz + 4;
  /* forward walk of every Table / Tree leaf on its own: the order the views select from */
  P(";leaf=");
  {
    int firstl = 1;
    for (int j = 0; j < NNODES; j++) if (NODES[j]->kind == K_TAB || NODES[j]->kind == K_TREE) {
      if (!firstl) P("/");
      firstl = 0;
      walk(NODES[j]->obj, 0, 2 * NODES[j]->basesz + 4);
    }
  }
  fflush(OUT);
  NACC = 0;
  P(";fwd="); walk(x, 0, cutoff); P(";af="); acc_dump(); fflush(OUT);
  P(";bwd="); walk(x, 1, cutoff); P(";ab="); acc_dump(); fflush(OUT);
  P(";get=");
  if (n >= 0 && e->hasget) {
    volatile int64_t i = 0;
    try {
      for (i = 0; i < n && i < 5000; i++) { if (i) P(","); show_val(get(x, $I(i)), 0); }
    } catch (ex) { P("%sE:%s", i ? "," : "", exn_name(ex)); }
  } else P("-");
  fflush(OUT);
  /* Range only: get at -1, -len, -len-1, len, INT64_MAX, INT64_MIN (negative keys count from the end,
     everything outside [-len, len) must raise IndexOutOfBoundsError) */
  P(";gx=");
  if (e->kind == K_RANGE && n >= 0) {
    int64_t keys[6]; keys[0] = -1; keys[1] = -n; keys[2] = -n - 1; keys[3] = n; keys[4] = INT64_MAX; keys[5] = INT64_MIN;
    for (volatile int j = 0; j < 6; j++) {
      if (j) P(",");
      try { show_val(get(x, $I(keys[j])), 0); } catch (ex) { P("E:%s", exn_name(ex)); }
    }
  } else P("-");
  fflush(OUT);
  P(";sl=");
  int first = 1;
  for (int j = 0; j < NNODES; j++) if (NODES[j]->kind == K_SLICE || NODES[j]->kind == K_REV) {
    struct Range* r = ((struct Slice*)NODES[j]->obj)->range;
    P("%s%" PRId64 ":%" PRId64 ":%" PRId64, first ? "" : ",", r->start, r->stop, r->step); first = 0;
  }
  P(";tab=");
  first = 1;
  for (int j = 0; j < NNODES; j++) if (NODES[j]->kind == K_TAB) {
    struct Table* t = NODES[j]->obj;
    if (!first) P("/");
    first = 0;
    for (size_t i = 0; i < t->nslots; i++) {
      if (i) P(",");
      if (Table_Key_Hash(t, i) == 0) P("_"); else P("%" PRId64, (int64_t)c_int(Table_Key(t, i)));
    }
  }
  P(";hist=%d", HIST_RAISED);
}

int main(int argc, char** argv) {
  run_all_cases(one_case);
  return 0;
}
