/* table_wb.c — correspondence harness for Table (C02), white-box.
 * Textually includes the working tree's src/Table.c (so the static functions and
 * `struct Table` are visible) and is linked against every library object except Table.o.
 * Input/transcript format: see ocaml/Table_driver.ml. */
#include "Table.c"
#include "hcommon.h"
#include <malloc.h>

/* probe key type: identity decides equality, hash is scripted by the case */
struct PKey { int64_t id; uint64_t h; };
static uint64_t PKey_Hash(var self) { return ((struct PKey*)self)->h; }
static int PKey_Cmp(var a, var b) {
  int64_t x = ((struct PKey*)a)->id, y = ((struct PKey*)cast(b, type_of(a)))->id;
  return x < y ? -1 : x > y ? 1 : 0;
}
static void PKey_Assign(var self, var obj) {
  struct PKey* s = self; struct PKey* o = cast(obj, type_of(self));
  s->id = o->id; s->h = o->h;
}
static var PKey = Cello(PKey,
  Instance(Hash, PKey_Hash), Instance(Cmp, PKey_Cmp), Instance(Assign, PKey_Assign));

/* user element types of 1, 4, 12 and 20 bytes (sizes that are not multiples of sizeof(var)):
 * plain structs with their own Cello type; equality by memcmp, hash scripted by the case from the
 * integer the bytes encode, assign copies exactly size(type) bytes.  Every byte is determined by
 * the encoded integer, so a stored element can be checked byte by byte. */
struct U1 { uint8_t a; };
struct U4 { int32_t a; };
struct U12 { int32_t a, b, c; };
struct U20 { int32_t a, b, c, d, e; };
static uint64_t hash_for(int64_t k);
static void u_enc(size_t sz, int64_t id, void* out) {
  if (sz == 1) { *(uint8_t*)out = (uint8_t)id; return; }
  int32_t w[5];
  w[0] = (int32_t)id; w[1] = (int32_t)(-7 * id - 1); w[2] = (int32_t)(0x01010101 * (int32_t)(((id % 100) + 100) % 100 + 1));
  w[3] = (int32_t)id ^ 0x5a5a5a5a; w[4] = ~(int32_t)id;
  memcpy(out, w, sz);
}
static int64_t u_dec(size_t sz, const void* p) {
  if (sz == 1) return *(const uint8_t*)p;
  int32_t a; memcpy(&a, p, 4); return a;
}
/* prints the encoded integer when every byte is the encoding's, else the raw bytes */
static void u_show(size_t sz, const void* p, char* buf, size_t n) {
  unsigned char want[20]; int64_t id = u_dec(sz, p);
  u_enc(sz, id, want);
  if (memcmp(want, p, sz) == 0) { snprintf(buf, n, "%" PRId64, id); return; }
  size_t o = (size_t)snprintf(buf, n, "BAD");
  for (size_t i = 0; i < sz && o + 3 < n; i++) o += (size_t)snprintf(buf + o, n - o, "%02x", ((const unsigned char*)p)[i]);
}
#define UTYPE(T) \
  static uint64_t T##_Hash(var self) { return hash_for(u_dec(sizeof(struct T), self)); } \
  static int T##_Cmp(var a, var b) { return memcmp(a, cast(b, type_of(a)), sizeof(struct T)); } \
  static void T##_Assign(var self, var obj) { memcpy(self, cast(obj, type_of(self)), sizeof(struct T)); } \
  static var T = Cello(T, Instance(Hash, T##_Hash), Instance(Cmp, T##_Cmp), Instance(Assign, T##_Assign));
UTYPE(U1) UTYPE(U4) UTYPE(U12) UTYPE(U20)

/* element kinds of a case: 0 = as before (Int / PKey keys, Int values), else a user type of that size */
static size_t kkind, vkind;
static var utype(size_t sz) { return sz == 1 ? U1 : sz == 4 ? U4 : sz == 12 ? U12 : U20; }

#define MAXH 256
static int64_t hk[MAXH]; static uint64_t hv[MAXH]; static int nh; static int ident;

static uint64_t hash_for(int64_t k) {
  for (int i = 0; i < nh; i++) if (hk[i] == k) return hv[i];
  return (uint64_t)k;
}

static var mkkey(int64_t k) {
  if (kkind) { var p = alloc_raw(utype(kkind)); u_enc(kkind, k, p); return p; }
  if (ident) return new_raw(Int, $I(k));
  struct PKey* p = new_raw(PKey);
  p->id = k; p->h = hash_for(k);
  return p;
}
static var mkval(int64_t v) {
  if (vkind) { var p = alloc_raw(utype(vkind)); u_enc(vkind, v, p); return p; }
  return new_raw(Int, $I(v));
}
static void show_key(var k, char* buf, size_t n) {
  if (kkind) { if (type_of(k) isnt utype(kkind)) snprintf(buf, n, "BADTYPE"); else u_show(kkind, k, buf, n); return; }
  snprintf(buf, n, "%" PRId64, ident ? (int64_t)c_int(k) : ((struct PKey*)k)->id);
}
static void show_val(var v, char* buf, size_t n) {
  if (vkind) { if (type_of(v) isnt utype(vkind)) snprintf(buf, n, "BADTYPE"); else u_show(vkind, v, buf, n); return; }
  snprintf(buf, n, "%" PRId64, (int64_t)c_int(v));
}

static void dump(var tv) {
  struct Table* t = tv;
  char kb[64], vb[64];
  P(";%zu;", len(tv));
  if (kkind or vkind) {
    /* white-box layout: slot step without the two headers, reserved key and value bytes */
    P("L%zu.%zu.%zu;", Table_Step(t) - 2 * sizeof(struct Header), t->ksize, t->vsize);
  }
  for (size_t i = 0; i < t->nslots; i++) {
    uint64_t h = Table_Key_Hash(t, i);
    if (i) P(",");
    if (h == 0) P("_");
    else {
      show_key(Table_Key(t, i), kb, sizeof kb); show_val(Table_Val(t, i), vb, sizeof vb);
      P("%" PRIu64 ":%s:%s", h, kb, vb);
    }
  }
  P(";");
  int first = 1; size_t cnt = 0;
  foreach (k in tv) {
    if (!first) P(",");
    first = 0;
    show_key(k, kb, sizeof kb); show_val(get(tv, k), vb, sizeof vb);
    P("%s:%s", kb, vb);
    if (++cnt > 4 * t->nslots + 8) { P(",RUNAWAY"); break; }
  }
}

/* ALIASING arguments: pointers into the table's own storage.  in_key(t, id) is the key object the
 * iteration yields for id (NULL when absent); get(t, k) yields the stored value object. */
static var in_key(var tv, int64_t id) {
  char want[64], kb[64];
  snprintf(want, sizeof want, "%" PRId64, id);
  foreach (k in tv) { show_key(k, kb, sizeof kb); if (strcmp(kb, want) == 0) return k; }
  return NULL;
}
static var in_val(var tv, int64_t id) {      /* may raise KeyError */
  var k = mkkey(id); var v = NULL; volatile int raised = 0;
  try { v = get(tv, k); } catch (e in KeyError) { raised = 1; }
  del_raw(k);
  if (raised) throw(KeyError, "aliased argument: key %li absent", $I(id));
  return v;
}

static void one_case(char* line) {
  char* bar = strchr(line, '|');
  if (!bar) { P("BADCASE"); return; }
  *bar = 0;
  char* hs = line; char* ops = bar + 1;
  kkind = vkind = 0;
  if (hs[0] == 't') {            /* t<ksize>.<vsize>;<hashspec> */
    char* semi = strchr(hs, ';'); char* dot = strchr(hs, '.');
    if (!semi || !dot || dot > semi) { P("BADCASE"); return; }
    kkind = (size_t)strtoul(hs + 1, NULL, 10); vkind = (size_t)strtoul(dot + 1, NULL, 10);
    hs = semi + 1;
  }
  nh = 0; ident = strcmp(hs, "id") == 0;
  if (!ident) {
    char* s = hs; char* tok;
    while ((tok = next_tok(&s, ',')) != NULL && nh < MAXH) {
      char* c = strchr(tok, ':'); if (!c) continue;
      *c = 0; hk[nh] = strtoll(tok, NULL, 10); hv[nh] = strtoull(c + 1, NULL, 10); nh++;
    }
  }
  var KT = kkind ? utype(kkind) : ident ? Int : PKey;
  var VT = vkind ? utype(vkind) : Int;
  var t = NULL;
  char* s = ops; char* tok;
  int started = 0;
  while ((tok = next_tok(&s, ' ')) != NULL) {
    if (*tok == 0) continue;
    if (!started) {
      started = 1;
      if (tok[0] == 'n') {
        /* new with initial pairs */
        var args = new_raw(Tuple);
        push(args, KT); push(args, VT);
        char* q = tok + 1; char* pr;
        while ((pr = next_tok(&q, ',')) != NULL) {
          char* c = strchr(pr, ':'); if (!c) continue; *c = 0;
          push(args, mkkey(strtoll(pr, NULL, 10)));
          push(args, mkval(strtoll(c + 1, NULL, 10)));
        }
        t = new_raw_with(Table, args);
        P("new"); dump(t);
        continue;
      }
      t = new_raw(Table, KT, VT);
      P("new"); dump(t);
    }
    const char* res = "ok"; char rbuf[64];
    try {
      switch (tok[0]) {
        case 's': { char* c = strchr(tok, ','); *c = 0;
          var k = mkkey(strtoll(tok + 1, NULL, 10));
          var v = mkval(strtoll(c + 1, NULL, 10));
          set(t, k, v); del_raw(k); del_raw(v); break; }
        case 'r': { var k = mkkey(strtoll(tok + 1, NULL, 10)); rem(t, k); del_raw(k); break; }
        case 'g': { var k = mkkey(strtoll(tok + 1, NULL, 10));
          var v = get(t, k); rbuf[0] = 'v'; show_val(v, rbuf + 1, sizeof rbuf - 1); res = rbuf; del_raw(k); break; }
        case 'm': { var k = mkkey(strtoll(tok + 1, NULL, 10)); res = mem(t, k) ? "true" : "false"; del_raw(k); break; }
        case 'z': resize(t, (size_t)strtoull(tok + 1, NULL, 10)); break;
        /* ---- aliasing arguments (all objects passed below live inside t's slot array) ---- */
        case 'S': { char* c = strchr(tok, ','); *c = 0;      /* S<k>,<k2>: set(t, k, get(t, k2)) */
          var v = in_val(t, strtoll(c + 1, NULL, 10));
          var k = mkkey(strtoll(tok + 1, NULL, 10));
          set(t, k, v); del_raw(k); break; }
        case 'K': { char* c = strchr(tok, ','); *c = 0;      /* K<k>,<v>: set(t, iteration key for k, v) */
          int64_t id = strtoll(tok + 1, NULL, 10);
          var k = in_key(t, id); var fresh = NULL;
          if (k is NULL) { k = fresh = mkkey(id); }
          var v = mkval(strtoll(c + 1, NULL, 10));
          set(t, k, v); del_raw(v); if (fresh) del_raw(fresh); break; }
        case 'X': { char* c = strchr(tok, ','); *c = 0;      /* X<k>,<k2>: set(t, get(t, k) as key, get(t, k2)) */
          var k = in_val(t, strtoll(tok + 1, NULL, 10));
          var v = in_val(t, strtoll(c + 1, NULL, 10));
          set(t, k, v); break; }
        case 'G': { var k = in_val(t, strtoll(tok + 1, NULL, 10));     /* get(t, get(t, k)) */
          var v = get(t, k); rbuf[0] = 'v'; show_val(v, rbuf + 1, sizeof rbuf - 1); res = rbuf; break; }
        case 'M': { var k = in_val(t, strtoll(tok + 1, NULL, 10)); res = mem(t, k) ? "true" : "false"; break; }
        case 'R': { var k = in_val(t, strtoll(tok + 1, NULL, 10)); rem(t, k); break; }
        case 'c': { var t2 = assign(alloc_raw(Table), t); del_raw(t); t = t2; break; }
        case 'a': { /* assign over an existing table of other element types with a binding of its own */
          var t2 = new_raw(Table, Int, Int); set(t2, $I(7), $I(8));
          assign(t2, t); del_raw(t); t = t2; break; }
        default: res = "BADOP";
      }
    } catch (e) { res = exn_name(e); }
    P(" | %s", res); dump(t);
    fflush(OUT);
  }
  if (!started) { t = new_raw(Table, KT, VT); P("new"); dump(t); }
}

int main(int argc, char** argv) {
  /* freed memory is scribbled over, so that a read from a freed slot array cannot go unnoticed */
  if (!getenv("H_NO_PERTURB")) mallopt(M_PERTURB, 0xA5);
  run_all_cases(one_case);
  return 0;
}
