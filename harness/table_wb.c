/* table_wb.c — correspondence harness for Table (C02), white-box.
 * Textually includes the working tree's src/Table.c (so the static functions and
 * `struct Table` are visible) and is linked against every library object except Table.o.
 * Input/transcript format: see ocaml/Table_driver.ml. */
#include "Table.c"
#include "hcommon.h"

/* probe key type: identity decides equality, hash is scripted by the case */
struct PKey { int64_t id; uint64_t h; };
static uint64_t PKey_Hash(var self) { return ((struct PKey*)self)->h; }
static int PKey_Cmp(var a, var b) {
  int64_t x = ((struct PKey*)a)->id, y = ((struct PKey*)cast(b, type_of(a)))->id;
  return x < y ? -1 : x > y ? 1 : 0;
}
static void PKey_Assign(var self, var obj) {
  struct PKey* s = self; struct PKey* o = cast(obj, type_of(self));
  s->id = o->id; s->h = o->h;
}
static var PKey = Cello(PKey,
  Instance(Hash, PKey_Hash), Instance(Cmp, PKey_Cmp), Instance(Assign, PKey_Assign));

#define MAXH 256
static int64_t hk[MAXH]; static uint64_t hv[MAXH]; static int nh; static int ident;

static uint64_t hash_for(int64_t k) {
  for (int i = 0; i < nh; i++) if (hk[i] == k) return hv[i];
  return (uint64_t)k;
}

static var mkkey(int64_t k) {
  if (ident) return new_raw(Int, $I(k));
  struct PKey* p = new_raw(PKey);
  p->id = k; p->h = hash_for(k);
  return p;
}
static int64_t key_id(var k) { return ident ? c_int(k) : ((struct PKey*)k)->id; }

static void dump(var tv) {
  struct Table* t = tv;
  P(";%zu;", len(tv));
  for (size_t i = 0; i < t->nslots; i++) {
    uint64_t h = Table_Key_Hash(t, i);
    if (i) P(",");
    if (h == 0) P("_");
    else P("%" PRIu64 ":%" PRId64 ":%" PRId64, h, key_id(Table_Key(t, i)), (int64_t)c_int(Table_Val(t, i)));
  }
  P(";");
  int first = 1; size_t cnt = 0;
  foreach (k in tv) {
    if (!first) P(",");
    first = 0;
    P("%" PRId64 ":%" PRId64, key_id(k), (int64_t)c_int(get(tv, k)));
    if (++cnt > 4 * t->nslots + 8) { P(",RUNAWAY"); break; }
  }
}

static void one_case(char* line) {
  char* bar = strchr(line, '|');
  if (!bar) { P("BADCASE"); return; }
  *bar = 0;
  char* hs = line; char* ops = bar + 1;
  nh = 0; ident = strcmp(hs, "id") == 0;
  if (!ident) {
    char* s = hs; char* tok;
    while ((tok = next_tok(&s, ',')) != NULL && nh < MAXH) {
      char* c = strchr(tok, ':'); if (!c) continue;
      *c = 0; hk[nh] = strtoll(tok, NULL, 10); hv[nh] = strtoull(c + 1, NULL, 10); nh++;
    }
  }
  var KT = ident ? Int : PKey;
  var t = NULL;
  char* s = ops; char* tok;
  int started = 0;
  while ((tok = next_tok(&s, ' ')) != NULL) {
    if (*tok == 0) continue;
    if (!started) {
      started = 1;
      if (tok[0] == 'n') {
        /* new with initial pairs */
        var args = new_raw(Tuple);
        push(args, KT); push(args, Int);
        char* q = tok + 1; char* pr;
        while ((pr = next_tok(&q, ',')) != NULL) {
          char* c = strchr(pr, ':'); if (!c) continue; *c = 0;
          push(args, mkkey(strtoll(pr, NULL, 10)));
          push(args, new_raw(Int, $I(strtoll(c + 1, NULL, 10))));
        }
        t = new_raw_with(Table, args);
        P("new"); dump(t);
        continue;
      }
      t = new_raw(Table, KT, Int);
      P("new"); dump(t);
    }
    const char* res = "ok"; char rbuf[64];
    try {
      switch (tok[0]) {
        case 's': { char* c = strchr(tok, ','); *c = 0;
          var k = mkkey(strtoll(tok + 1, NULL, 10));
          set(t, k, $I(strtoll(c + 1, NULL, 10))); del_raw(k); break; }
        case 'r': { var k = mkkey(strtoll(tok + 1, NULL, 10)); rem(t, k); del_raw(k); break; }
        case 'g': { var k = mkkey(strtoll(tok + 1, NULL, 10));
          var v = get(t, k); snprintf(rbuf, sizeof rbuf, "v%" PRId64, (int64_t)c_int(v)); res = rbuf; del_raw(k); break; }
        case 'm': { var k = mkkey(strtoll(tok + 1, NULL, 10)); res = mem(t, k) ? "true" : "false"; del_raw(k); break; }
        case 'z': resize(t, (size_t)strtoull(tok + 1, NULL, 10)); break;
        case 'c': { var t2 = assign(alloc_raw(Table), t); del_raw(t); t = t2; break; }
        default: res = "BADOP";
      }
    } catch (e) { res = exn_name(e); }
    P(" | %s", res); dump(t);
    fflush(OUT);
  }
  if (!started) { t = new_raw(Table, KT, Int); P("new"); dump(t); }
}

int main(int argc, char** argv) {
  run_all_cases(one_case);
  return 0;
}
