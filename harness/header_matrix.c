/* header_matrix.c — C19 correspondence harness: the finite matrix
 *   (type) x (way of obtaining an object) x (deallocating / reallocating operation)
 * on the real library.  One case per line
 *     <ngc> <T> <K> <V> <producer> <op,op,...>
 * -> one transcript line (same format as ocaml/Header_driver.ml `model`) followed by " ; use=<0|1>".
 *
 * free and realloc are interposed at link time (-Wl,--wrap=free,--wrap=realloc): while a case is
 * armed, every pointer the library passes to them is classified as
 *   - the block holding the object under test (its header..body range, or a heap block containing it),
 *   - the buffer the object's body points to (String: val, Tuple: items),
 *   - anything else (passed through).
 * The object's block and buffer are never really released while armed, so that the object can be
 * inspected afterwards; header words, body bytes and buffer contents are compared with snapshots
 * taken when the object was obtained.
 */
#include "Cello.h"
#include "hcommon.h"
#include <malloc.h>

void* __real_realloc(void*, size_t);
void* __real_malloc(size_t);
void* __real_calloc(size_t, size_t);
void  __real_free(void*);

/* every block the library (and the harness) obtained from malloc/calloc/realloc, with the size that was
   REQUESTED: bytes beyond the request are not the caller's, whatever malloc_usable_size says */
#define NBLOCKS 16384
static struct { char* p; size_t n; } blocks[NBLOCKS];
static int nblocks = 0, blocks_lost = 0;

static void blk_add(void* p, size_t n) {
  if (!p) return;
  if (nblocks == NBLOCKS) { blocks_lost = 1; return; }
  blocks[nblocks].p = p; blocks[nblocks].n = n; nblocks++;
}

static void blk_del(void* p) {
  for (int i = nblocks - 1; i >= 0; i--) {
    if (blocks[i].p == (char*)p) { blocks[i] = blocks[--nblocks]; return; }
  }
}

/* the live block that contains address a, or -1 */
static int blk_find(const char* a) {
  for (int i = 0; i < nblocks; i++) {
    if (blocks[i].p <= a && a < blocks[i].p + blocks[i].n) return i;
  }
  return -1;
}

/* Every block gets SLACK extra bytes that are not recorded: a write a few bytes past the requested size
   then lands in the slack instead of malloc's bookkeeping, the case runs on, and the layout test below
   reports the overrun itself (with the requested size) instead of glibc aborting somewhere later. */
#define SLACK 128
void* __wrap_malloc(size_t n) { void* p = __real_malloc(n + SLACK); blk_add(p, n); return p; }
void* __wrap_calloc(size_t a, size_t b) { void* p = __real_calloc(1, a * b + SLACK); blk_add(p, a * b); return p; }

static volatile int armed = 0;
static char *o_lo = NULL, *o_hi = NULL;       /* header .. end of body of the object under test */
static void* o_buf = NULL;                    /* tracked buffer */
static size_t o_buf_len = 0;
static int fo, ro, fb, rb;                    /* counters of the current step */

static int contains_obj(void* p) {
  if ((char*)p >= o_lo && (char*)p < o_hi) return 1;
  /* a heap block that contains the object (array data, list node, tree node, table slots) */
  if ((char*)p <= o_lo) {
    size_t n = malloc_usable_size(p);
    if (o_lo < (char*)p + n) return 1;
  }
  return 0;
}

void __wrap_free(void* p) {
  if (!armed || p == NULL) { blk_del(p); __real_free(p); return; }
  if (p == o_buf) { fb++; return; }
  int was = armed; armed = 0;
  int hit = contains_obj(p);
  armed = was;
  if (hit) { fo++; return; }
  blk_del(p);
  __real_free(p);
}

static void* real_realloc_tracked(void* p, size_t n) {
  void* q = __real_realloc(p, n + SLACK);
  if (q) { blk_del(p); blk_add(q, n); }
  return q;
}

void* __wrap_realloc(void* p, size_t n) {
  if (!armed || p == NULL) return real_realloc_tracked(p, n);
  if (p == o_buf) {
    rb++;
    void* q = malloc(n ? n : 1);
    memcpy(q, p, n < o_buf_len ? n : o_buf_len);
    o_buf = q; o_buf_len = n;          /* the tracked buffer follows the reallocation */
    return q;
  }
  int was = armed; armed = 0;
  int hit = contains_obj(p);
  armed = was;
  if (hit) { ro++; return malloc(n ? n : 1); }
  return real_realloc_tracked(p, n);
}

/* ------------------------------------------------------------------ user types (static, see FRAMEWORK pitfalls) */
struct U0 { int64_t a; int64_t b; };
static var U0 = Cello(U0);

struct U1 { int64_t a; char pad[24]; };
static int u1_destructed = 0;
static void U1_New(var self, var args) { struct U1* u = self; u->a = 7; }
static void U1_Del(var self) { u1_destructed++; }
static void U1_Assign(var self, var obj) { memcpy(self, obj, sizeof(struct U1)); }
static var U1 = Cello(U1, Instance(New, U1_New, U1_Del), Instance(Assign, U1_Assign));

/* user types whose size is not a multiple of sizeof(var): no instances (assign = memcpy, cmp = memcmp, hash = hash_data) */
struct S1 { char c; };
struct S4 { int32_t id; };
struct S12 { int32_t a, b, c; };
struct S20 { int32_t a, b, c, d, e; };
static var S1 = Cello(S1);
static var S4 = Cello(S4);
static var S12 = Cello(S12);
static var S20 = Cello(S20);

static var f_ident(var args) { return args; }

#ifndef CELLO_NGC
void GC_Sweep(var gc);
#endif

static var type_by_name(const char* s) {
  if (!strcmp(s, "Int")) return Int;
  if (!strcmp(s, "Float")) return Float;
  if (!strcmp(s, "String")) return String;
  if (!strcmp(s, "Ref")) return Ref;
  if (!strcmp(s, "Tuple")) return Tuple;
  if (!strcmp(s, "Array")) return Array;
  if (!strcmp(s, "List")) return List;
  if (!strcmp(s, "Table")) return Table;
  if (!strcmp(s, "Tree")) return Tree;
  if (!strcmp(s, "Function")) return Function;
  if (!strcmp(s, "Type")) return Type;
  if (!strcmp(s, "Box")) return Box;
  if (!strcmp(s, "Range")) return Range;
  if (!strcmp(s, "File")) return File;
  if (!strcmp(s, "Mutex")) return Mutex;
  if (!strcmp(s, "U0")) return U0;
  if (!strcmp(s, "U1")) return U1;
  if (!strcmp(s, "S1")) return S1;
  if (!strcmp(s, "S4")) return S4;
  if (!strcmp(s, "S12")) return S12;
  if (!strcmp(s, "S20")) return S20;
  return NULL;
}

static const char* name_of_type(var t) {
  if (t is U0) return "U0";
  if (t is U1) return "U1";
  if (t is S1) return "S1";
  if (t is S4) return "S4";
  if (t is S12) return "S12";
  if (t is S20) return "S20";
  return c_str(t);
}

static var P_I1, P_I2, P_I3, P_I4, P_I5, P_I6, P_I7, P_I8;   /* distinct: a Tuple with a repeated pointer never finishes iterating (finding F3) */      /* raw heap Ints used as tuple members / pointees */

/* a raw-heap prototype value of type T: source of assign(), constructor argument, second of a pair
 * (n selects one of two distinct values, for keys) */
static var proto(var T, int n) {
  if (T is Int) return new_raw(Int, $I(40 + n));
  if (T is Float) return new_raw(Float, $F(1.5 + n));
  if (T is String) {
    if (n >= 2) { char b[64]; snprintf(b, sizeof b, "key number %d of a grown container", n); return new_raw(String, $S(b)); }
    return new_raw(String, n ? $S("second prototype string") : $S("hello, cello: a heap string"));
  }
  if (T is Ref) return new_raw(Ref, n ? P_I2 : P_I1);
  if (T is Tuple) return n ? new_raw(Tuple, P_I3, P_I2, P_I1) : new_raw(Tuple, P_I1, P_I2, P_I3);
  if (T is Array) return n ? new_raw(Array, Int, $I(9)) : new_raw(Array, Int, $I(1), $I(2));
  if (T is List) return n ? new_raw(List, Int, $I(9)) : new_raw(List, Int, $I(1), $I(2));
  if (T is Table) return n ? new_raw(Table, Int, Int, $I(9), $I(9)) : new_raw(Table, Int, Int, $I(1), $I(2));
  if (T is Tree) return n ? new_raw(Tree, Int, Int, $I(9), $I(9)) : new_raw(Tree, Int, Int, $I(1), $I(2));
  if (T is Function) return new_raw(Function, $(Function, f_ident));
  if (T is U0) { struct U0* u = new_raw(U0); u->a = 11 + n; u->b = 22; return u; }
  if (T is U1) { struct U1* u = new_raw(U1); u->a = 5 + n; return u; }
  if (T is S1 or T is S4 or T is S12 or T is S20) {
    unsigned char* u = (unsigned char*)alloc_raw(T);
    for (size_t i = 0; i < size(T); i++) u[i] = (unsigned char)(0x30 + n + i);     /* first byte distinguishes keys */
    return u;
  }
  return NULL;
}

/* constructor arguments for new(T, ...) as a raw heap Tuple */
static var ctor_args(var T) {
  if (T is Tuple) return new_raw(Tuple, P_I1, P_I2, P_I3);
  if (T is Array or T is List) return new_raw(Tuple, Int, P_I1, P_I2);
  if (T is Table or T is Tree) return new_raw(Tuple, Int, Int, P_I1, P_I2);
  if (T is U1 or T is File or T is Mutex) return new_raw(Tuple);
  if (T is Box) return new_raw(Tuple, new_raw(Int, $I(77)));
  if (T is Range) return new_raw(Tuple, P_I3);
  if (T is Type) return new_raw(Tuple, new_raw(String, $S("RT")), new_raw(Int, $I(16)));
  return new_raw(Tuple, proto(T, 0));
}

/* ------------------------------------------------------------------ snapshots */
static struct Header snap_head;
static char snap_body[512];
static size_t snap_size;
static char snap_buf[512];

static size_t snap_buf_len;

/* snapshot of header, body and buffer contents; taken when the object is obtained and before every step */
static void snapshot(var e) {
  memcpy(&snap_head, header(e), sizeof(struct Header));
  memcpy(snap_body, e, snap_size);
  snap_buf_len = o_buf_len > sizeof snap_buf ? sizeof snap_buf : o_buf_len;
  if (o_buf) memcpy(snap_buf, o_buf, snap_buf_len);
}

static void track(var e) {
  var t = type_of(e);
  snap_size = (t is Type) ? 0 : size(t);
  if (snap_size > sizeof snap_body) snap_size = sizeof snap_body;
  o_lo = (char*)header(e);
  o_hi = (char*)e + (snap_size ? snap_size : 1);
  o_buf = NULL; o_buf_len = 0;
  if (t is String) {
    o_buf = ((struct String*)e)->val;
    if (o_buf) o_buf_len = strlen(o_buf) + 1;
  } else if (t is Tuple) {
    o_buf = ((struct Tuple*)e)->items;
    if (o_buf) o_buf_len = (len(e) + 1) * sizeof(var);
  }
  snapshot(e);
}

static int head_same(var e) { return memcmp(&snap_head, header(e), sizeof(struct Header)) == 0; }
static int body_same(var e) { return memcmp(snap_body, e, snap_size) == 0; }
static int buf_same(void) { return o_buf == NULL || memcmp(snap_buf, o_buf, snap_buf_len) == 0; }

/* size(type) bytes are usable: write a pattern, read it back, restore */
static int usable(var e) {
  size_t n = snap_size;
  unsigned char* b = e;
  int ok = 1;
  for (size_t i = 0; i < n; i++) b[i] = (unsigned char)(0xA5 ^ i);
  for (size_t i = 0; i < n; i++) if (b[i] != (unsigned char)(0xA5 ^ i)) ok = 0;
  memcpy(e, snap_body, n);
  return ok && head_same(e);
}

/* ------------------------------------------------------------------ where the bytes really are
   A region = header + size(type) bytes of one object.  For an object that lives in malloc'ed storage (class
   Heap or Data) the whole region must lie inside ONE block the library requested, and the regions of all
   objects a container hands out (every element; every key and every value) must be pairwise disjoint - i.e.
   size(type) bytes are usable without running past the block or into a neighbour's header (the layout
   lemmas of coq/HeaderProofs.v say where things must be; this checks the real pointers). */
struct region { char* lo; char* hi; };

static int region_of(var x, struct region* r) {
  var t = type_of(x);
  size_t n = (t is Type) ? 0 : size(t);
  r->lo = (char*)header(x);
  r->hi = (char*)x + n;
  return 1;
}

static int region_in_block(struct region* r) {
  int i = blk_find(r->lo);
  if (i < 0) return 0;
  return r->hi <= blocks[i].p + blocks[i].n;
}

#define MAXREG 256
static int layout_ok(var e, var cont, long acode) {
  static struct region rs[MAXREG];
  int n = 0;
  if (blocks_lost) return 1;
  if (acode == AllocHeap || acode == AllocData) {
    struct region r; region_of(e, &r);
    if (!region_in_block(&r)) return 0;
  }
  if (!cont) return 1;
  var ct = type_of(cont);
  if (ct is Array or ct is List) {
    foreach (x in cont) { if (n < MAXREG) region_of(x, &rs[n++]); }
  } else if (ct is Table or ct is Tree) {
    foreach (k in cont) {
      if (n + 1 < MAXREG) { region_of(k, &rs[n++]); region_of(get(cont, k), &rs[n++]); }
    }
  } else return 1;
  for (int i = 0; i < n; i++) {
    if (!region_in_block(&rs[i])) return 0;
    for (int j = 0; j < i; j++) {
      if (rs[i].lo < rs[j].hi && rs[j].lo < rs[i].hi) return 0;
    }
  }
  return 1;
}

static int is_deleting(const char* op) { return !strncmp(op, "del", 3) || !strncmp(op, "dealloc", 7); }

/* ------------------------------------------------------------------ one operation */
/* a raw heap String of exactly n characters */
static var mkstr(size_t n) {
  char* b = malloc(n + 1);
  for (size_t i = 0; i < n; i++) b[i] = (char)('a' + i % 23);
  b[n] = 0;
  var r = new_raw(String, $S(b));
  free(b);
  return r;
}

/* size of the argument relative to the current value: e(mpty) s(horter) q (equal) l(onger) */
static size_t sized(char cls, size_t cur) {
  switch (cls) {
    case 'e': return 0;
    case 's': return cur > 1 ? cur / 2 : 0;
    case 'q': return cur;
    default:  return cur + 17;
  }
}

/* cls = 0: the fixed arguments of the basic matrix; otherwise the size class of the argument (String: length of
   the text / new size; Tuple: number of members / new size; push_at, pop_at, rem: l = at the last position) */
static void do_op(const char* op, char cls, var e, var T) {
  if (!strcmp(op, "del")) del(e);
  else if (!strcmp(op, "del_raw")) del_raw(e);
  else if (!strcmp(op, "del_root")) del_root(e);
  else if (!strcmp(op, "dealloc")) dealloc(e);
  else if (!strcmp(op, "dealloc_raw")) dealloc_raw(e);
  else if (!strcmp(op, "dealloc_root")) dealloc_root(e);
  else if (!strcmp(op, "destruct")) destruct(e);
  else if (!strcmp(op, "sweep")) {
#ifndef CELLO_NGC
    GC_Sweep(current(GC));
#endif
  }
  else if (!strcmp(op, "del_stopped")) {
#ifndef CELLO_NGC
    stop(current(GC));
    var caught = NULL;
    try { del(e); } catch (ex) { caught = ex; }
    start(current(GC));
    if (caught) throw(caught, "del raised while the collector was stopped");
#endif
  }
  else if (T is String && cls) {
    size_t cur = strlen(c_str(e));
    size_t n = sized(cls, cur);
    if (!strcmp(op, "assign")) assign(e, mkstr(n));
    else if (!strcmp(op, "resize")) resize(e, n);
    else if (!strcmp(op, "concat")) concat(e, mkstr(n));
    else if (!strcmp(op, "append")) append(e, mkstr(n));
    else if (!strcmp(op, "print_to")) print_to(e, 0, "%s", mkstr(n));
  } else if (T is Tuple && cls) {
    static var pool[64];
    size_t cur = len(e);
    size_t n = sized(cls, cur);
    if (n > 60) n = 60;
    for (size_t i = 0; i < n; i++) pool[i] = new_raw(Int, $I((int64_t)(500 + i)));     /* distinct pointers (finding F3) */
    pool[n] = Terminal;
    var arg = $(Tuple, pool);
    if (!strcmp(op, "assign")) assign(e, arg);
    else if (!strcmp(op, "concat")) concat(e, arg);
    else if (!strcmp(op, "resize")) resize(e, n);
    else if (!strcmp(op, "push_at")) push_at(e, P_I8, $I(-1));
    else if (!strcmp(op, "pop_at")) pop_at(e, $I(-1));
    else if (!strcmp(op, "rem")) rem(e, get(e, $I(-1)));
  }
  else if (T is String) {
    if (!strcmp(op, "assign")) assign(e, $S("a replacement that is considerably longer than the original text"));
    else if (!strcmp(op, "resize")) resize(e, 3);
    else if (!strcmp(op, "concat")) concat(e, $S(" and a tail"));
    else if (!strcmp(op, "append")) append(e, $S("!"));
    else if (!strcmp(op, "print_to")) print_to(e, 0, "%i items", $I(5));
  } else if (T is Tuple) {
    if (!strcmp(op, "assign")) assign(e, tuple(P_I4, P_I5, P_I6, P_I7, P_I8));
    else if (!strcmp(op, "assign_iter")) {
      /* a source that implements Iter but neither Len nor Get: Tuple_Assign pushes its items one by one */
      var src = new_raw(Array, Int, $I(1), $I(2), $I(3));
      assign(e, filter(src, $(Function, f_ident)));
    }
    else if (!strcmp(op, "resize")) resize(e, 1);
    else if (!strcmp(op, "concat")) concat(e, tuple(P_I4, P_I5));
    else if (!strcmp(op, "append")) append(e, P_I6);
    else if (!strcmp(op, "push")) push(e, P_I7);
    else if (!strcmp(op, "pop")) pop(e);
    else if (!strcmp(op, "push_at")) push_at(e, P_I8, $I(0));
    else if (!strcmp(op, "pop_at")) pop_at(e, $I(0));
    else if (!strcmp(op, "rem")) rem(e, get(e, $I(0)));
  }
}

static int op_applicable(const char* op, var T) {
  static const char* s_ops[] = {"assign", "resize", "concat", "append", "print_to", NULL};
  static const char* t_ops[] = {"assign", "assign_iter", "resize", "concat", "append", "push", "pop", "push_at", "pop_at", "rem", NULL};
  if (!strcmp(op, "sweep") || !strcmp(op, "del_stopped")) {
#ifdef CELLO_NGC
    return 0;
#else
    return 1;
#endif
  }
  if (is_deleting(op) || !strcmp(op, "destruct")) return 1;
  const char** l = (T is String) ? s_ops : (T is Tuple) ? t_ops : NULL;
  if (!l) return 0;
  for (; *l; l++) if (!strcmp(*l, op)) return 1;
  return 0;
}

/* ------------------------------------------------------------------ one case */
static void run_case(char* line) {
  char* s = line;
  char* f_ngc = next_tok(&s, ' ');
  char* f_T = next_tok(&s, ' ');
  char* f_K = next_tok(&s, ' ');
  char* f_V = next_tok(&s, ' ');
  char* f_p = next_tok(&s, ' ');
  char* f_ops = next_tok(&s, ' ');
  if (!f_ngc || !f_T || !f_K || !f_V || !f_p || !f_ops) { P("BADCASE"); return; }
  var T = type_by_name(f_T), K = type_by_name(f_K), V = type_by_name(f_V);
  if (!T || !K || !V) { P("BADCASE type"); return; }
  char* pk = next_tok(&f_p, ':');      /* producer kind */
  char* pa = f_p && *f_p ? f_p : "";   /* its argument */

  P_I1 = new_raw(Int, $I(101)); P_I2 = new_raw(Int, $I(102)); P_I3 = new_raw(Int, $I(103)); P_I4 = new_raw(Int, $I(104));
  P_I5 = new_raw(Int, $I(105)); P_I6 = new_raw(Int, $I(106)); P_I7 = new_raw(Int, $I(107)); P_I8 = new_raw(Int, $I(108));

  /* everything with block-scoped storage lives at function scope (compound literals die with their block) */
  var e = NULL;
  volatile var keep1 = NULL, keep2 = NULL;      /* keep collector-managed helpers reachable */
  var cont = NULL;                               /* container for element / iterator / view producers */
  int isview = !strcmp(pk, "get") || !strcmp(pk, "iter") || !strcmp(pk, "last") || !strcmp(pk, "next")
            || !strcmp(pk, "prev") || !strcmp(pk, "slice") || !strcmp(pk, "filter") || !strcmp(pk, "map");
  var exn = NULL;

  try {
    if (isview) {
      if (!strncmp(pa, "Array", 5)) cont = new_raw(Array, T, proto(T, 0), proto(T, 1));
      else if (!strncmp(pa, "List", 4)) cont = new_raw(List, T, proto(T, 0), proto(T, 1));
      else if (!strncmp(pa, "Table", 5)) cont = new_raw(Table, K, V, proto(K, 0), proto(V, 0), proto(K, 1), proto(V, 1));
      else if (!strncmp(pa, "Tree", 4)) cont = new_raw(Tree, K, V, proto(K, 0), proto(V, 0), proto(K, 1), proto(V, 1));
    }
  } catch (ex) { exn = ex; }
  /* "+g": the container has grown (reallocation, rehash: elements and their headers were moved) and shrunk again */
  if (!exn && cont && strstr(pa, "+g")) {
    try {
      if (!strncmp(pa, "Array", 5) || !strncmp(pa, "List", 4)) {
        for (int i = 0; i < 24; i++) push(cont, proto(T, i & 1));
        for (int i = 0; i < 5; i++) pop_at(cont, $I(0));
        push_at(cont, proto(T, 0), $I(1));
      } else {
        for (int i = 2; i < 26; i++) set(cont, proto(K, i), proto(V, i & 1));
        for (int i = 2; i < 9; i++) rem(cont, proto(K, i));
      }
    } catch (ex) { exn = ex; }
  }
  /* "+c": the element is taken from copy(container); "+a": from assign(fresh empty container, container).
     (Array_Assign, List_Assign, Table_Assign, Tree_Assign recompute element types and sizes on their own.) */
  if (!exn && cont && (strstr(pa, "+c") || strstr(pa, "+a"))) {
    try {
      if (strstr(pa, "+c")) {
        keep2 = copy(cont);
        cont = keep2;
      } else {
        var fresh = NULL;
        if (!strncmp(pa, "Array", 5)) fresh = new_raw(Array, Int);
        else if (!strncmp(pa, "List", 4)) fresh = new_raw(List, Int);
        else if (!strncmp(pa, "Table", 5)) fresh = new_raw(Table, Int, Int);
        else fresh = new_raw(Tree, Int, Int);
        assign(fresh, cont);
        cont = fresh;
      }
    } catch (ex) { exn = ex; }
  }
  if (exn) { P("PRODFAIL container %s", exn_name(exn)); return; }
  if (isview && !cont) { P("BADCASE container"); return; }

  /* stack forms, all evaluated at function scope */
  var st_int = $I(42);
  var st_float = $F(2.5);
  char st_chars[] = "a string in a writable array on the stack";     /* not heap, but writable: a skipped guard shows as a change, not as SIGSEGV */
  var st_str = $S(st_chars);
  var st_ref = $R(P_I1);
  var st_tuple = tuple(P_I1, P_I2, P_I3);
  var st_func = $(Function, f_ident);
  var st_u0 = $(U0, 1, 2);
  var st_u1 = $(U1, 3);
  var st_box = $B(new_raw(Int, $I(78)));
  var st_range = $(Range, $I(0), 0, 3, 1);
  var st_file = $(File, NULL);
  var fn_ident = $(Function, f_ident);
  var dummy_arr = new_raw(Array, Int, $I(1), $I(2), $I(3));
  var v_range = range($I(3));
  var v_slice = slice(cont ? cont : dummy_arr);
  var v_filter = filter(cont ? cont : dummy_arr, fn_ident);
  var v_map = map(cont ? cont : dummy_arr, fn_ident);
  var v_zip = zip(dummy_arr, v_range);
  var st_obj =
    T is Int ? st_int : T is Float ? st_float : T is String ? st_str : T is Ref ? st_ref :
    T is Tuple ? st_tuple : T is Function ? st_func : T is U0 ? st_u0 : T is U1 ? st_u1 :
    T is Box ? st_box : T is Range ? st_range : T is File ? st_file : NULL;
  /* (struct Array, List, Table, Tree are private to their .c files: no stack form exists) */
  /* an object of class AllocStatic, set up the way a custom allocator would (header_init is public): same body
     as the stack form, String/Tuple buffers in static arrays */
  static var so_words[(sizeof(struct Header) + 64) / sizeof(var)];
  char* so_block = (char*)so_words;
  static char so_chars[64];
  static var so_items[8];
  var so_obj = NULL;
  if (st_obj && size(T) <= 64) {
    memset(so_block, 0, sizeof so_words);
    so_obj = header_init(so_block, T, AllocStatic);
    memcpy(so_obj, st_obj, size(T));
    if (T is String) { strcpy(so_chars, "a string in static storage, writable"); ((struct String*)so_obj)->val = so_chars; }
    if (T is Tuple) { so_items[0] = P_I1; so_items[1] = P_I2; so_items[2] = P_I3; so_items[3] = Terminal; ((struct Tuple*)so_obj)->items = so_items; }
  }
  var tp_stack = tuple(st_obj, P_I1);
  var tp_other = NULL;

  try {
    if (!strcmp(pk, "new")) e = new_with(T, ctor_args(T));
    else if (!strcmp(pk, "new_raw")) e = new_raw_with(T, ctor_args(T));
    else if (!strcmp(pk, "new_root")) e = new_root_with(T, ctor_args(T));
    else if (!strcmp(pk, "alloc")) e = alloc(T);
    else if (!strcmp(pk, "alloc_raw")) e = alloc_raw(T);
    else if (!strcmp(pk, "alloc_root")) e = alloc_root(T);
    else if (!strcmp(pk, "copy")) e = copy(proto(T, 0));
    else if (!strcmp(pk, "stack")) e = st_obj;
    else if (!strcmp(pk, "static_obj")) e = so_obj;
    else if (!strcmp(pk, "static")) e = !strcmp(pa, "b") ? String : U0;
    else if (!strcmp(pk, "rtype")) e = new_raw_with(Type, ctor_args(Type));
    else if (!strcmp(pk, "get")) {
      if (!strncmp(pa, "Array", 5) || !strncmp(pa, "List", 4)) e = get(cont, $I(1));
      else e = get(cont, proto(K, 1));
    }
    else if (!strcmp(pk, "iter")) e = iter_init(cont);
    else if (!strcmp(pk, "last")) e = iter_last(cont);
    else if (!strcmp(pk, "next")) e = iter_next(cont, iter_init(cont));
    else if (!strcmp(pk, "prev")) e = iter_prev(cont, iter_last(cont));
    else if (!strcmp(pk, "slice")) e = iter_init(v_slice);
    else if (!strcmp(pk, "filter")) e = iter_init(v_filter);
    else if (!strcmp(pk, "map")) e = iter_init(v_map);
    else if (!strcmp(pk, "range_stack")) e = iter_init(v_range);
    else if (!strcmp(pk, "range_heap")) { keep1 = new(Range, $I(3)); e = iter_init(keep1); }
    else if (!strcmp(pk, "zip_stack")) e = iter_init(v_zip);
    else if (!strcmp(pk, "zip_heap")) { keep1 = new(Zip, dummy_arr, v_range); e = iter_init(keep1); }
    else if (!strcmp(pk, "tget") || !strcmp(pk, "titer")) {
      var inn = NULL;
      if (!strcmp(pa, "stack")) { tp_other = tp_stack; inn = st_obj; }
      else if (!strcmp(pa, "raw")) { inn = new_raw_with(T, ctor_args(T)); tp_other = new_raw(Tuple, inn, P_I1); }
      else if (!strcmp(pa, "elem")) { keep2 = new_raw(Array, T, proto(T, 0), proto(T, 1)); inn = get(keep2, $I(0)); tp_other = new_raw(Tuple, inn, P_I1); }
      e = !strcmp(pk, "tget") ? get(tp_other, $I(0)) : iter_init(tp_other);
      if (e isnt inn) { P("PRODFAIL tuple does not hand out the stored pointer"); return; }
    }
  } catch (ex) { exn = ex; }
  if (exn) { P("PRODFAIL %s", exn_name(exn)); return; }
  if (e is NULL || e is Terminal) { P("PRODFAIL no object"); return; }

  var et = NULL;
  try { et = type_of(e); } catch (ex) { exn = ex; }
  if (exn) { P("PRODFAIL type_of raises %s", exn_name(exn)); return; }

  int registered = 0;
#ifndef CELLO_NGC
  registered = mem(current(GC), e) ? 1 : 0;
#endif
#if CELLO_ALLOC_CHECK == 1
  long acode = (long)(intptr_t)header(e)->alloc;
#else
  long acode = -1;
#endif
  /* what the container / view itself declares about the objects it hands out: iter_type, key_type, val_type */
  int declared = -1;
  exn = NULL;
  try {
    var dt = NULL;
    if (!strcmp(pk, "get")) dt = (!strncmp(pa, "Array", 5) || !strncmp(pa, "List", 4)) ? iter_type(cont) : val_type(cont);
    else if (!strcmp(pk, "iter") || !strcmp(pk, "last") || !strcmp(pk, "next") || !strcmp(pk, "prev") || !strcmp(pk, "map")) {
      dt = iter_type(cont);
      if ((!strncmp(pa, "Table", 5) || !strncmp(pa, "Tree", 4)) && dt isnt key_type(cont)) dt = NULL;
    }
    else if (!strcmp(pk, "slice")) dt = iter_type(v_slice);
    else if (!strcmp(pk, "filter")) dt = iter_type(v_filter);
    else if (!strcmp(pk, "range_stack")) dt = iter_type(v_range);
    else if (!strcmp(pk, "zip_stack")) dt = iter_type(v_zip);
    else if (!strcmp(pk, "range_heap") || !strcmp(pk, "zip_heap")) dt = iter_type(keep1);
    else dt = et;
    declared = (dt is et);
  } catch (ex) { exn = ex; }
  if (exn) declared = 0;
  P("T=%s A=%ld R=%d D=%d", name_of_type(et), acode, registered, declared);
  fflush(OUT);
  track(e);
  int lay = 0;
  exn = NULL;
  try { lay = layout_ok(e, cont, acode); } catch (ex) { exn = ex; }
  if (exn) lay = 0;
  int use = lay ? usable(e) : 0;      /* do not write past a block the layout test already rejected */

  char* ops = f_ops;
  char* op;
  while ((op = next_tok(&ops, ',')) != NULL) {
    char cls = 0;
    char* at = strchr(op, '@');
    if (at) { *at = 0; cls = at[1]; }
    if (!op_applicable(op, et)) { P(" | n/a fo=0 ro=0 fb=0 rb=0 i=%d--", head_same(e)); continue; }
    fo = ro = fb = rb = 0;
    exn = NULL;
    snapshot(e);
    armed = 1;
    try { do_op(op, cls, e, et); } catch (ex) { exn = ex; }
    armed = 0;
    /* body and buffer are compared with their state before this step when nothing was released in it
       and the step is one that must not change anything (a refusal, a deleting entry point, a sweep) */
    int show = (fo + ro + fb + rb == 0) && (exn != NULL || is_deleting(op) || !strcmp(op, "sweep"));
    if (exn) P(" | raise:%s", exn_name(exn)); else P(" | ok");
    P(" fo=%d ro=%d fb=%d rb=%d i=%d", fo, ro, fb, rb > 0, head_same(e));   /* rb: whether, not how often (print_to reallocates per piece) */
    if (show) P("%d%d", body_same(e), buf_same()); else P("--");
    fflush(OUT);
  }
  P(" ; use=%d lay=%d", use, lay);
}

int main(int argc, char** argv) {
  run_all_cases(run_case);
  return 0;
}
