/* gc_graph.c — correspondence harness for the mark phase of the collector (C01), white-box.
 * Textually includes the working tree's src/GC.c (struct GC, mark bits, GC_Mark, GC_Sweep are
 * visible; every dealloc issued by the collector goes through hook_dealloc, so the harness
 * knows exactly which object was freed and when — no edit to the repository) and is linked
 * against every library object except GC.o.
 *
 * One case per line: a script that builds a graph of REAL Cello objects, installs roots of
 * the three kinds, mutates, and collects.  Tokens (ids are positive integers, 0 = NULL):
 *   N<id><K>[!]      new node; K: S probe struct with 2 pointer fields, R Ref, B Box,
 *                    A Array of Ref, L List of Ref, T Table Int->Ref, E Tree Int->Ref,
 *                    Y Table Ref->Int, Z Tree Ref->Int (the KEYS hold the pointers), U heap Tuple; lower case s r u = the same allocated RAW (not registered);
 *                    ! = allocated with alloc_root/new_root (root flag).  The new pointer is
 *                    put into a stack slot (as a program holding it in a local would).
 *                    W = the probe struct with 300 KB of padding (malloc places it in a fresh mapping, far from
 *                    every other object); F = finaliser probe (no pointer fields): when the collector
 *                    finalises it, its destructor ALLOCATES a new managed object and publishes it (see Q)
 *   Q<fid>=<lid><K>,<place>  what the finaliser of F-node fid does: new node lid of kind K (S or W),
 *                    published into place = K (a stack slot) | T<s> (TLS entry k<s>) | P<h>.<i> (field i of node h)
 *                    I D G = managed leaf objects new(Int) new(Float) new(String) (no pointer fields)
 *                    V = user type with its own Mark instance (two pointer fields handed to the callback;
 *                    destructor ledger as S)
 *   L<first>,<n>,<K>,<tail>  a singly linked chain of n nodes first..first+n-1 of kind K (R Ref, B Box, S struct,
 *                    U heap Tuple cons cell, V user type with Mark): node first points to <tail> (0 = nothing), node i
 *                    to node i-1; only the head first+n-1 stays in a stack slot
 *   V<id><k>=<a>[,<b>]  heap VIEW object id over the container(s) a (and b), allocated with new(): k = z Zip(a, b),
 *                    l Slice(a, 0, 3), m Map(a, fn), f Filter(a, fn), r Range(7) (no input).  The view's internal objects
 *                    are managed objects too and take the following ids: Zip: id+1 = its `iters` Tuple (items a, b),
 *                    id+2 = its `values` Tuple; Slice: id+1 = its Range, id+2 = that Range's Int; Range: id+1 = its Int
 *   O<id>            use the view: iterate it completely (a freed input shows as an exception or a crash)
 *   B<c>,<m>,<n>,<first>  bulk build: container c receives n FRESH probe structs (ids first..first+n-1) that are
 *                    allocated WHILE the container operation consumes its argument and are referenced from
 *                    nowhere else (no stack slot): m = c: concat(c, map(range(n), make)) for A L U (the iterable
 *                    allocates one managed object per element, so threshold collections run in the middle of the
 *                    concat); m = a: assign(c, map(...)) for A L (c is emptied first); m = s: for T E Y Z a loop
 *                    of  x = make(); set(c, key, value)  with key first+i (T E: Int key -> Ref x; Y Z: Ref x -> Int)
 *   C<id>=<src>      new node = copy(src) (registered; src is S R A L T E or U)
 *   P<id>.<i>=<t>    pointer store: field i of S (0,1), the pointer of R / B (i = 0)
 *   I<id>,<k>=<t>    insert: A L U push (k ignored); T E set key k -> Ref to t; Y Z set key Ref to t -> k
 *   D<id>,<k>        remove: A L U pop_at index k; T E rem key k; Y Z rem key Ref to node k
 *   K+<id> K-<id>    stack slot holds / drops the pointer
 *   T+<s>=<id> T-<s> thread-local entry set / removed; key "k<s>", slots 20..29 = "__x" "_" "" a 200 character key
 *                    "__session" "__" "__GC2" "__Exceptions" "__G" and a key with spaces
 *   X<id>            explicit del(p); the stack slot is cleared
 *   G                forced collection GC_Mark; GC_Sweep, then observation
 *   H                the same with the stack scan narrowed to the collecting frames (gc->bottom
 *                    moved for the duration of the call; stack roots are copied into that frame)
 *   E                forced collection whose stack pass is EXACT: GC_Mark runs unchanged, but instead of
 *                    scanning the C stack the (real) GC_Mark_Item is called on exactly the words of the stack
 *                    slots: the mark bits must then EQUAL the model's
 *   M<n>             allocate n garbage Ints (threshold collections happen inside alloc), observe
 *   @                (first token) run the whole script in a freshly started Cello Thread: its own
 *                    collector, its own stack bottom, its own TLS table
 * Transcript: observations separated by " | ":
 *   G m=<ids with mark bit set after GC_Mark> a=<ids alive> f=<probe ids finalised> c=<ids with broken canary>
 *     u=<probe ids freed by the collector whose destructor did not run exactly once>
 *     w=<1|0: every alive registered node lies inside [gc->minptr, gc->maxptr] (white-box: range_ok)> x=<notes>
 *   M a=... f=... c=... t=<threshold collections seen>
 * alive = registered node not freed by the collector (hook) and still `mem(current(GC), p)`.
 * Addresses are kept XOR-masked in malloc memory, which the collector never scans. */
#include "Cello.h"
static void hook_dealloc(var p);
#define dealloc(X) hook_dealloc(X)
/* the stack pass can be replaced without touching the source (idea: harness/gcreg_wb.c): the
 * function-like macro renames only the DEFINITION in GC.c; `noinline ? GC_Mark_Stack : ...` inside
 * GC_Mark has no parenthesis and binds to the harness function declared here */
struct GC;
static void GC_Mark_Stack(struct GC* gc);
#define GC_Mark_Stack(x) GC_Mark_Stack_Original(x)
#include "GC.c"
#undef GC_Mark_Stack
#undef dealloc
void dealloc(var self);
#include "hcommon.h"

#define MASK 0x5A5A5A5A5A5A5A5Aull
#define CANARY 0xC0FFEE01ull

struct Probe { int64_t id; uint64_t canary; var p0; var p1; };
static int* FIN;      /* finalisation count per id (probe destructor ledger) */
static void Probe_Del(var self) {
  struct Probe* p = self;
  if (p->canary == CANARY && p->id > 0) FIN[p->id]++;
  p->canary = 0xDEAD0001ull;
}
static var Probe = Cello(Probe, Instance(New, NULL, Probe_Del));
/* user type with its own Mark instance: GC_Recurse calls it instead of scanning the words */
static void MarkProbe_Mark(var self, var gc, void(*f)(var,void*)) {
  struct Probe* p = self;
  if (p->p0) f(gc, p->p0);
  if (p->p1) f(gc, p->p1);
}
struct MarkProbe { int64_t id; uint64_t canary; var p0; var p1; };
static var MarkProbe = Cello(MarkProbe, Instance(New, NULL, Probe_Del), Instance(Mark, MarkProbe_Mark));
/* the same with 300 KB of padding: calloc serves it from a fresh mapping */
struct BigProbe { int64_t id; uint64_t canary; var p0; var p1; char pad[300 * 1024]; };
static var BigProbe = Cello(BigProbe, Instance(New, NULL, Probe_Del));
/* finaliser probe: its destructor allocates a managed object and publishes it (script op Q) */
struct FinProbe { int64_t id; uint64_t canary; };
static void fin_action(long id);
static void FinProbe_Del(var self) {
  struct FinProbe* p = self;
  if (p->canary == CANARY && p->id > 0) { FIN[p->id]++; p->canary = 0xDEAD0001ull; fin_action(p->id); }
}
static var FinProbe = Cello(FinProbe, Instance(New, NULL, FinProbe_Del));

/* ledger (malloc memory; addresses masked) */
static long CAP;
static uintptr_t* LED;   /* id -> masked address */
static char* KIND;       /* id -> kind char, 0 = never created */
static char* DEAD;       /* id -> freed by the collector / del */
static char* ROOTF;
static long* QLATE; static char* QKIND; static char* QPLACE; static long* QA; static long* QB;   /* per F node */
static long MAXID;
/* address -> id of the live node there: open addressing */
static uintptr_t* HK; static long* HV; static long HN;

static void ensure(long id) {
  if (id < CAP) return;
  long nc = CAP ? CAP : 256; while (nc <= id) nc *= 2;
  LED = realloc(LED, nc * sizeof *LED); KIND = realloc(KIND, nc); DEAD = realloc(DEAD, nc);
  ROOTF = realloc(ROOTF, nc); FIN = realloc(FIN, nc * sizeof *FIN);
  QLATE = realloc(QLATE, nc * sizeof *QLATE); QKIND = realloc(QKIND, nc); QPLACE = realloc(QPLACE, nc);
  QA = realloc(QA, nc * sizeof *QA); QB = realloc(QB, nc * sizeof *QB);
  for (long i = CAP; i < nc; i++) { LED[i] = 0; KIND[i] = 0; DEAD[i] = 0; ROOTF[i] = 0; FIN[i] = 0;
                                    QLATE[i] = 0; QKIND[i] = 0; QPLACE[i] = 0; QA[i] = 0; QB[i] = 0; }
  CAP = nc;
}
static void hinit(long n) {
  HN = 64; while (HN < 4 * n) HN *= 2;
  HK = calloc(HN, sizeof *HK); HV = calloc(HN, sizeof *HV);
}
static long hfind(uintptr_t k) {          /* slot of key k or of the first free slot */
  long i = (long)((k * 0x9E3779B97F4A7C15ull) >> 20) & (HN - 1);
  while (HK[i] != 0 && HK[i] != k) i = (i + 1) & (HN - 1);
  return i;
}
static void hput(uintptr_t k, long id) { long i = hfind(k); HK[i] = k; HV[i] = id; }
static long hget(uintptr_t k) { long i = hfind(k); return HK[i] == k ? HV[i] : 0; }
/* tombstone-free removal is not needed: a dead address keeps mapping to id 0 */
static void hclr(uintptr_t k) { long i = hfind(k); if (HK[i] == k) HV[i] = 0; }

static void hook_dealloc(var p) {
  uintptr_t k = (uintptr_t)p ^ MASK;
  if (HK) { long id = hget(k); if (id > 0) { DEAD[id] = 1; hclr(k); } }
  k = 0;
  dealloc(p);
}

static var nptr(long id) { return id > 0 && id < CAP && KIND[id] ? (var)(LED[id] ^ MASK) : NULL; }
static int is_reg(char k) { return k >= 'A' && k <= 'Z'; }

/* stack slots: an array in the frame of one_case (between gc->bottom and every collection) */
#define MAXK 8192
static volatile var* KEEPP;
static long* KSLOT;      /* id -> slot+1 */
static long KFREE[MAXK]; static long NKFREE;
static void keep_add(long id) {
  if (KSLOT[id] || NKFREE == 0) return;
  long s = KFREE[--NKFREE]; KEEPP[s] = nptr(id); KSLOT[id] = s + 1;
}
static void keep_drop(long id) {
  if (!KSLOT[id]) return;
  long s = KSLOT[id] - 1; KEEPP[s] = NULL; KSLOT[id] = 0; KFREE[NKFREE++] = s;
}

static int EXACT_MODE;
static void GC_Mark_Stack(struct GC* gc) {
  if (!EXACT_MODE) { GC_Mark_Stack_Original(gc); return; }
  for (long s = 0; s < MAXK; s++) if (KEEPP[s]) GC_Mark_Item(gc, KEEPP[s]);
}

static char XNOTE[256];
static void note(const char* s) { if (strlen(XNOTE) + strlen(s) + 2 < sizeof XNOTE) { strcat(XNOTE, s); strcat(XNOTE, ";"); } }

static void __attribute__((noinline)) scrub(void) {
  volatile char pad[24576];
  memset((void*)pad, 0, sizeof pad);
}

static void __attribute__((noinline)) op_new(long id, char k, int root) {
  var p = NULL;
  switch (k) {
    case 'S': p = root ? alloc_root(Probe) : alloc(Probe); break;
    case 'V': p = root ? alloc_root(MarkProbe) : alloc(MarkProbe); break;
    /* managed LEAF objects (no pointers inside): GC_Recurse returns at once on them, but they must be marked */
    case 'I': p = root ? (var)new_root(Int, $I(id)) : (var)new(Int, $I(id)); break;
    case 'D': p = root ? (var)new_root(Float, $F(1.5)) : (var)new(Float, $F(1.5)); break;
    case 'G': p = root ? (var)new_root(String, $S("leaf object")) : (var)new(String, $S("leaf object")); break;
    case 's': p = alloc_raw(Probe); break;
    case 'W': p = root ? alloc_root(BigProbe) : alloc(BigProbe); break;
    case 'F': p = root ? alloc_root(FinProbe) : alloc(FinProbe); break;
    case 'R': p = root ? alloc_root(Ref) : alloc(Ref); break;
    case 'r': p = alloc_raw(Ref); break;
    case 'B': p = root ? alloc_root(Box) : alloc(Box); break;
    case 'A': p = root ? (var)new_root(Array, Ref) : (var)new(Array, Ref); break;
    case 'L': p = root ? (var)new_root(List, Ref) : (var)new(List, Ref); break;
    case 'T': p = root ? (var)new_root(Table, Int, Ref) : (var)new(Table, Int, Ref); break;
    case 'E': p = root ? (var)new_root(Tree, Int, Ref) : (var)new(Tree, Int, Ref); break;
    case 'Y': p = root ? (var)new_root(Table, Ref, Int) : (var)new(Table, Ref, Int); break;
    case 'Z': p = root ? (var)new_root(Tree, Ref, Int) : (var)new(Tree, Ref, Int); break;
    case 'U': p = root ? (var)new_root(Tuple) : (var)new(Tuple); break;
    case 'u': p = new_raw(Tuple); break;
    default: note("badkind"); return;
  }
  if (k == 'S' || k == 's' || k == 'W' || k == 'F' || k == 'V') { struct Probe* q = p; q->id = id; q->canary = CANARY; }
  ensure(id);
  LED[id] = (uintptr_t)p ^ MASK; KIND[id] = k; DEAD[id] = 0; ROOTF[id] = (char)root;
  if (id > MAXID) MAXID = id;
  if (is_reg(k)) hput((uintptr_t)p ^ MASK, id);
  keep_add(id);
  p = NULL;
}

static void __attribute__((noinline)) op_copy(long id, long src) {
  var p = copy(nptr(src));
  char k = KIND[src];
  if (k >= 'a') k = (char)(k - 'a' + 'A');
  if (k == 'S' || k == 'W') { struct Probe* q = p; q->id = id; q->canary = CANARY; }
  ensure(id);
  LED[id] = (uintptr_t)p ^ MASK; KIND[id] = k; DEAD[id] = 0; ROOTF[id] = 0;
  if (id > MAXID) MAXID = id;
  hput((uintptr_t)p ^ MASK, id);
  keep_add(id);
  p = NULL;
}

static void __attribute__((noinline)) op_store(long id, long i, long t);
static void __attribute__((noinline)) op_insert(long id, long k, long t);
/* L: singly linked chain */
static void __attribute__((noinline)) op_chain(long first, long n, char k, long tail) {
  long prev = tail;
  for (long i = 0; i < n; i++) {
    long id = first + i;
    op_new(id, k, 0);
    if (prev) { if (k == 'U') op_insert(id, 0, prev); else op_store(id, 0, prev); }
    if (prev && prev >= first) keep_drop(prev);
    prev = id;
  }
}

/* views */
static var view_fn(var x) { return x; }
static var view_true(var x) { return x; }
static var VIEWFN;     /* a raw Function object (not managed): no edge */
static void reg_node(long id, var p, char k) {
  ensure(id);
  LED[id] = (uintptr_t)p ^ MASK; KIND[id] = k; DEAD[id] = 0; ROOTF[id] = 0;
  if (id > MAXID) MAXID = id;
  hput((uintptr_t)p ^ MASK, id);
}
static void __attribute__((noinline)) op_view(long id, char k, long a, long b) {
  var pa = nptr(a), pb = nptr(b), p = NULL;
  if (!VIEWFN) { VIEWFN = alloc_raw(Function); ((struct Function*)VIEWFN)->func = view_fn; }
  switch (k) {
    case 'z': p = new(Zip, pa, pb); reg_node(id, p, 'P');
              reg_node(id + 1, ((struct Zip*)p)->iters, 'U'); reg_node(id + 2, ((struct Zip*)p)->values, 'U'); break;
    case 'l': p = new(Slice, pa, $I(0), $I(3)); reg_node(id, p, 'P');
              reg_node(id + 1, ((struct Slice*)p)->range, 'P');
              reg_node(id + 2, ((struct Range*)((struct Slice*)p)->range)->value, 'I'); break;
    case 'r': p = new(Range, $I(7)); reg_node(id, p, 'P'); reg_node(id + 1, ((struct Range*)p)->value, 'I'); break;
    case 'm': p = new(Map, pa, VIEWFN); reg_node(id, p, 'P'); break;
    case 'f': p = new(Filter, pa, VIEWFN); reg_node(id, p, 'P'); break;
    default: note("badview"); return;
  }
  keep_add(id);
  p = pa = pb = NULL;
}
static void __attribute__((noinline)) op_use(long id) {
  var p = nptr(id); long cnt = 0;
  foreach (x in p) { cnt++; if (cnt > 100000) { note("viewrunaway"); break; } }
  p = NULL;
}

/* element factory of the bulk operations: called by Map's iterator once per element */
static long BNEXT, BLEFT;
static var bulk_make(var args) {
  if (BLEFT <= 0) { note("bulkoverrun"); return NULL; }
  long id = BNEXT++; BLEFT--;
  op_new(id, 'S', 0);            /* alloc(Probe): GC_Set, possibly a threshold collection */
  keep_drop(id);                 /* referenced only by what the caller does with the return value */
  return nptr(id);
}

static void __attribute__((noinline)) op_bulk(long c, char mode, long n, long first) {
  var p = nptr(c);
  BNEXT = first; BLEFT = n;
  switch (KIND[c]) {
    case 'A': case 'L': case 'U':
      if (mode == 'a') assign(p, map(range($I(n)), $(Function, bulk_make)));
      else concat(p, map(range($I(n)), $(Function, bulk_make)));
      break;
    case 'T': case 'E':
      for (long i = 0; i < n; i++) { var x = bulk_make(NULL); set(p, $I(first + i), $R(x)); x = NULL; }
      break;
    case 'Y': case 'Z':
      for (long i = 0; i < n; i++) { var x = bulk_make(NULL); set(p, $R(x), $I(first + i)); x = NULL; }
      break;
    default: note("badbulk");
  }
  if (BLEFT != 0) note("bulkcount");
  p = NULL;
}

static void __attribute__((noinline)) op_store(long id, long i, long t) {
  var p = nptr(id); var q = nptr(t);
  switch (KIND[id]) {
    case 'S': case 's': case 'W': case 'V': { struct Probe* s = p; if (i == 0) s->p0 = q; else s->p1 = q; break; }
    case 'R': case 'r': ((struct Ref*)p)->val = q; break;
    case 'B': ((struct Box*)p)->val = q; break;
    default: note("badstore");
  }
  p = q = NULL;
}

static void __attribute__((noinline)) op_insert(long id, long k, long t) {
  var p = nptr(id); var q = nptr(t);
  switch (KIND[id]) {
    case 'A': case 'L': push(p, $R(q)); break;
    case 'T': case 'E': set(p, $I(k), $R(q)); break;
    case 'Y': case 'Z': set(p, $R(q), $I(k)); break;
    case 'U': case 'u': push(p, q); break;
    default: note("badinsert");
  }
  p = q = NULL;
}

static void __attribute__((noinline)) op_remove(long id, long k) {
  var p = nptr(id);
  switch (KIND[id]) {
    case 'A': case 'L': case 'U': case 'u': pop_at(p, $I(k)); break;
    case 'T': case 'E': rem(p, $I(k)); break;
    case 'Y': case 'Z': { var q = nptr(k); rem(p, $R(q)); q = NULL; break; }
    default: note("badremove");
  }
  p = NULL;
}

/* thread-local keys of every shape: slots 20.. stand for legal keys that look like the runtime's own ("__GC",
 * "__Exception" themselves cannot be used: the runtime keeps its collector and exception state under them) */
static void tls_name(long slot, char* name, size_t n) {
  switch (slot) {
    case 20: snprintf(name, n, "__x"); break;
    case 21: snprintf(name, n, "_"); break;
    case 22: name[0] = 0; break;
    case 23: memset(name, 'L', 200); name[200] = 0; break;
    case 24: snprintf(name, n, "__session"); break;
    case 25: snprintf(name, n, "__"); break;
    case 26: snprintf(name, n, "__GC2"); break;
    case 27: snprintf(name, n, "__Exceptions"); break;
    case 28: snprintf(name, n, "__G"); break;
    case 29: snprintf(name, n, "key with spaces / and %%s"); break;
    default: snprintf(name, n, "k%ld", slot);
  }
}

static void __attribute__((noinline)) op_tls(int add, long slot, long t) {
  char name[256]; tls_name(slot, name, sizeof name);
  if (add) set(current(Thread), $S(name), nptr(t));
  else rem(current(Thread), $S(name));
}

/* runs inside the destructor of an F node, i.e. inside GC_Sweep's finaliser loop (or a del) */
static void __attribute__((noinline)) fin_action(long id) {
  long lid = QLATE[id];
  if (lid <= 0 || KIND[lid]) return;
  op_new(lid, QKIND[id], 0);                 /* alloc: GC_Set while gc->freelist isnt NULL */
  switch (QPLACE[id]) {
    case 'K': break;                         /* op_new put it into a stack slot */
    case 'T': op_tls(1, QA[id], lid); keep_drop(lid); break;
    case 'P': if (KIND[QA[id]] && !DEAD[QA[id]]) op_store(QA[id], QB[id], lid); else note("finholderdead");
              keep_drop(lid); break;
    default: note("badplace");
  }
}

static void __attribute__((noinline)) op_del(long id) {
  keep_drop(id);
  if (is_reg(KIND[id]) && !DEAD[id]) del(nptr(id));
}

static char* MARKED;   /* id -> mark bit seen after GC_Mark */
static void read_marks(struct GC* gc) {
  memset(MARKED, 0, CAP);
  for (size_t i = 0; i < gc->nslots; i++) {
    if (gc->entries[i].hash is 0 or not gc->entries[i].marked) continue;
    long id = hget((uintptr_t)gc->entries[i].ptr ^ MASK);
    if (id > 0) MARKED[id] = 1;
  }
}

static void __attribute__((noinline)) do_collect(void) {
  struct GC* gc = current(GC);
  scrub();
  GC_Mark(gc);
  read_marks(gc);
  GC_Sweep(gc);
  gc = NULL;
}

static void __attribute__((noinline)) do_collect_exact(void) {
  struct GC* gc = current(GC);
  EXACT_MODE = 1;
  GC_Mark(gc);
  EXACT_MODE = 0;
  read_marks(gc);
  GC_Sweep(gc);
  gc = NULL;
}

/* narrowed scan: the stack roots are copied into this frame and gc->bottom is moved to it */
static void __attribute__((noinline)) do_collect_narrow(void) {
  struct GC* gc = current(GC);
  volatile var lo_guard = NULL;
  volatile var copy[MAXK];
  volatile var hi_guard = NULL;
  long n = 0;
  for (long s = 0; s < MAXK; s++) copy[s] = NULL;
  for (long s = 0; s < MAXK; s++) if (KEEPP[s]) copy[n++] = KEEPP[s];
  var saved = gc->bottom;
  /* the stack grows downwards on the supported targets: bottom = highest address scanned */
  uintptr_t hi = (uintptr_t)&hi_guard;
  if ((uintptr_t)&lo_guard > hi) hi = (uintptr_t)&lo_guard;
  if ((uintptr_t)&copy[MAXK - 1] > hi) hi = (uintptr_t)&copy[MAXK - 1];
  gc->bottom = (var)hi;
  scrub();
  GC_Mark(gc);
  read_marks(gc);
  gc->bottom = saved;
  GC_Sweep(gc);
  gc = NULL; (void)lo_guard; (void)hi_guard;
}

static long THRESH;
static void __attribute__((noinline)) op_burst(long n) {
  struct GC* gc = current(GC);
  for (long i = 0; i < n; i++) {
    size_t n0 = gc->nitems, m0 = gc->mitems;
    var x = new(Int, $I(i));
    if (gc->nitems <= n0 || gc->mitems != m0) THRESH++;
    x = NULL;
  }
}

static void plist(const char* tag, int which) {
  var gcv = current(GC);
  P(" %s=", tag);
  int first = 1;
  for (long id = 1; id <= MAXID; id++) {
    if (!KIND[id]) continue;
    int on = 0;
    switch (which) {
      case 0: on = is_reg(KIND[id]) && MARKED[id]; break;
      case 1: on = is_reg(KIND[id]) && !DEAD[id] && mem(gcv, nptr(id)); break;
      case 2: on = FIN[id] > 0; break;
      case 3: {
        if (((KIND[id] == 'S' || KIND[id] == 'W' || KIND[id] == 'V') && !DEAD[id]) || KIND[id] == 's') {
          struct Probe* q = nptr(id); on = q->canary != CANARY || q->id != id;
        }
        break; }
      case 4: on = (KIND[id] == 'S' || KIND[id] == 'W' || KIND[id] == 'V' || KIND[id] == 'F') && DEAD[id] && FIN[id] != 1; break;
    }
    if (on) { P(first ? "%ld" : ",%ld", id); first = 0; }
  }
}

/* white-box range_ok: every alive registered node inside the window GC_Mark_Item prefilters with */
static int window_ok(void) {
  struct GC* gc = current(GC);
  for (long id = 1; id <= MAXID; id++) {
    if (!KIND[id] || !is_reg(KIND[id]) || DEAD[id]) continue;
    uintptr_t a = LED[id] ^ MASK;
    if (!GC_Mem_Ptr(gc, (var)a)) continue;
    if (a < gc->minptr || a > gc->maxptr) return 0;
  }
  return 1;
}

static void observe(char what) {
  P("%c", what);
  if (what == 'G' || what == 'H' || what == 'E') plist("m", 0);
  plist("a", 1); plist("f", 2); plist("c", 3); plist("u", 4);
  P(" w=%d", window_ok());
  if (what == 'M') P(" t=%ld", THRESH);
  if (XNOTE[0]) { P(" x=%s", XNOTE); XNOTE[0] = 0; }
  fflush(OUT);
}

static void __attribute__((noinline)) exec_tok(char* tok, int* nobs) {
  char* e;
  switch (tok[0]) {
    case 'N': { long id = strtol(tok + 1, &e, 10); char k = *e; int root = e[1] == '!';
      op_new(id, k, root); break; }
    case 'C': { long id = strtol(tok + 1, &e, 10); long src = strtol(e + 1, &e, 10); op_copy(id, src); break; }
    case 'V': { long id = strtol(tok + 1, &e, 10); char k = *e; long a = 0, b = 0;
      if (e[1] == '=') { a = strtol(e + 2, &e, 10); if (*e == ',') b = strtol(e + 1, &e, 10); }
      op_view(id, k, a, b); break; }
    case 'O': { long id = strtol(tok + 1, &e, 10); op_use(id); break; }
    case 'L': { long first = strtol(tok + 1, &e, 10); long n = strtol(e + 1, &e, 10); char k = e[1]; long tail = strtol(e + 3, &e, 10);
      op_chain(first, n, k, tail); break; }
    case 'B': { long c = strtol(tok + 1, &e, 10); char m = e[1]; long n = strtol(e + 3, &e, 10); long first = strtol(e + 1, &e, 10);
      op_bulk(c, m, n, first); break; }
    case 'Q': { long id = strtol(tok + 1, &e, 10); long lid = strtol(e + 1, &e, 10); char k = *e; char pl = e[2];
      ensure(id > lid ? id : lid);
      QLATE[id] = lid; QKIND[id] = k; QPLACE[id] = pl;
      if (pl == 'T') QA[id] = strtol(e + 3, &e, 10);
      if (pl == 'P') { QA[id] = strtol(e + 3, &e, 10); QB[id] = strtol(e + 1, &e, 10); }
      break; }
    case 'P': { long id = strtol(tok + 1, &e, 10); long i = strtol(e + 1, &e, 10); long t = strtol(e + 1, &e, 10);
      op_store(id, i, t); break; }
    case 'I': { long id = strtol(tok + 1, &e, 10); long k = strtol(e + 1, &e, 10); long t = strtol(e + 1, &e, 10);
      op_insert(id, k, t); break; }
    case 'D': { long id = strtol(tok + 1, &e, 10); long k = strtol(e + 1, &e, 10);
      op_remove(id, k); break; }
    case 'K': { long id = strtol(tok + 2, &e, 10); if (tok[1] == '+') keep_add(id); else keep_drop(id); break; }
    case 'T': { long s = strtol(tok + 2, &e, 10); long t = tok[1] == '+' ? strtol(e + 1, &e, 10) : 0;
      op_tls(tok[1] == '+', s, t); break; }
    case 'X': { long id = strtol(tok + 1, &e, 10); op_del(id); break; }
    case 'G': do_collect(); if ((*nobs)++) P(" | "); observe('G'); break;
    case 'H': do_collect_narrow(); if ((*nobs)++) P(" | "); observe('H'); break;
    case 'E': do_collect_exact(); if ((*nobs)++) P(" | "); observe('E'); break;
    case 'M': { long n = strtol(tok + 1, &e, 10); THRESH = 0; op_burst(n);
      if ((*nobs)++) P(" | "); observe('M'); break; }
    default: note("badop");
  }
}

static void one_case_body(char* line) {
  volatile var keep[MAXK];
  for (long i = 0; i < MAXK; i++) { keep[i] = NULL; KFREE[i] = MAXK - 1 - i; }
  NKFREE = MAXK; KEEPP = keep;
  /* size the ledgers from the largest id in the script */
  long mx = 16;
  for (char* s = line; *s; s++) {
    if (*s == 'N' || *s == 'C') { long v = strtol(s + 1, NULL, 10); if (v > mx) mx = v; }
    if (*s == 'L' && s[1] >= '0' && s[1] <= '9') { char* q; long f = strtol(s + 1, &q, 10); long n = strtol(q + 1, &q, 10); if (f + n > mx) mx = f + n; }
    if (*s == 'V' && s[1] >= '0' && s[1] <= '9') { long v = strtol(s + 1, NULL, 10) + 2; if (v > mx) mx = v; }
    if (*s == 'B') { char* q; strtol(s + 1, &q, 10); long n = strtol(q + 3, &q, 10); long f = strtol(q + 1, &q, 10);
                     if (f + n > mx) mx = f + n; }
    if (*s == '=' ) { long v = strtol(s + 1, NULL, 10); if (v > mx) mx = v; }      /* late ids of Q */
  }
  CAP = 0; LED = NULL; KIND = NULL; DEAD = NULL; ROOTF = NULL; FIN = NULL; MAXID = 0;
  QLATE = NULL; QKIND = NULL; QPLACE = NULL; QA = NULL; QB = NULL;
  ensure(mx + 1);
  KSLOT = calloc(CAP, sizeof *KSLOT); MARKED = calloc(CAP, 1);
  hinit(mx + 1);
  XNOTE[0] = 0;
  int nobs = 0;
  char* s = line; char* tok;
  while ((tok = next_tok(&s, ' ')) != NULL) {
    if (*tok == 0) continue;
    try { exec_tok(tok, &nobs); }
    catch (e) { char b[64]; snprintf(b, sizeof b, "EXC(%s)@%s", exn_name(e), tok); note(b); }
  }
  if (!nobs) P("NOOBS");
  if (XNOTE[0]) P(" x=%s", XNOTE);
}

static char* THREAD_LINE;
static var thread_main(var args) { one_case_body(THREAD_LINE); return NULL; }

static void one_case(char* line) {
  if (line[0] == '@') {
    THREAD_LINE = line + 1;
    var t = new_raw(Thread, $(Function, thread_main));
    call(t);
    join(t);
    return;
  }
  one_case_body(line);
}

int main(int argc, char** argv) {
  run_all_cases(one_case);
  return 0;
}
