/* lifecycle_exit.c — program-exit histories for C06: a small program per history that REALLY uses
 * the `main` wrapper macro of the working tree's include/Cello.h (it defines main after including
 * Cello.h, so `int main(int argc, char** argv)` below expands to the wrapper + Cello_Main), builds
 * managed objects of several kinds and leaves through one termination route.  One process = one
 * history; the finalisation ledger is written by an exit handler that was registered from a
 * constructor, i.e. before anything Cello registers, so it runs after Cello's handlers.
 *
 *   argv[1] = route:  r return from main          e exit(0) from a nested call
 *                     w exit(0) inside a with-block inside a try-block
 *                     t uncaught throw (Exception_Error: exit(EXIT_FAILURE))
 *                     s exit(3) from a deeper call, non-zero status, no other thread ever started
 *                     j a worker Thread allocated and ended first (its own collector), then exit(0)
 *                   after exception_signals():
 *                     T / I / F  uncaught signal exception: raise(SIGTERM / SIGINT / SIGFPE) outside any try
 *                     a a signal exception (SIGINT) caught in a try-block, then normal return from main
 *                     b a signal exception caught, later an ordinary uncaught throw
 *                     c a signal exception caught, later exit(0) from a nested call
 *                   (a process that ends without running its exit handlers — _Exit, abort — prints no ledger)
 *   argv[2] = objects, space separated:
 *        p<id>  plain managed probe            o<id>  managed probe owned by a real Box
 *        c<id>  managed probe owned by a Box stored in a (managed) Array of Box
 *        r<id>  root probe (new_root: stays)   f      a managed File opened for writing
 *        g<id>  probe owned by a Box-like probe (its destructor is the real Box_Del; id+500 = owner)
 *        h<id>  ROOT probe (new_root) owned by a managed Box-like probe (id+500): kept in plain memory,
 *               released by its owner's destructor through del() on a table-resident root
 *   stdout (one line):  <id>:<fin>,...;F<fclose calls on the tracked stream>;T<threadprobes fin>;<route reached 0/1>
 * Linked with -Wl,--wrap=fclose to count the File's fclose. */
#include "Cello.h"
#include <unistd.h>
#include <signal.h>

#define MAXID 1024
struct XProbe { var val; int64_t id; int64_t isbox; int64_t stamp; };
#define STAMP 0x50726f6265LL

static int fin_cnt[MAXID]; static char known[MAXID];
static int bad_fin, reached, nfclose, thread_fin, thread_made;
static FILE* tracked;

int __real_fclose(FILE* f);
int __wrap_fclose(FILE* f) { if (f && f == tracked) nfclose++; return __real_fclose(f); }

static void XProbe_New(var self, var args) {
  struct XProbe* p = self;
  p->id = c_int(get(args, $I(0))); p->isbox = c_int(get(args, $I(1))); p->stamp = STAMP; p->val = NULL;
  if (p->id >= 0 && p->id < MAXID) known[p->id] = 1;
}
static void XProbe_Del(var self) {
  struct XProbe* p = self;
  if (p->stamp != STAMP) { bad_fin++; return; }
  if (p->id >= 2000) { thread_fin++; }
  else if (p->id < 0 || p->id >= MAXID) { bad_fin++; return; }
  else fin_cnt[p->id]++;
  if (p->isbox) { struct New* bn = type_instance(Box, New); bn->destruct(self); }
}
static var XProbe = Cello(XProbe, Instance(New, XProbe_New, XProbe_Del));

static void final_dump(void) {
  char buf[16384]; int n = 0, first = 1;
  for (int i = 0; i < MAXID && n < 16000; i++) if (known[i]) { n += sprintf(buf + n, "%s%d:%d", first ? "" : ",", i, fin_cnt[i]); first = 0; }
  n += sprintf(buf + n, ";F%d;T%d/%d;B%d;%d\n", nfclose, thread_fin, thread_made, bad_fin, reached);
  if (write(1, buf, (size_t)n) < 0) { }
}
__attribute__((constructor)) static void register_dump(void) { atexit(final_dump); }

static void __attribute__((noinline)) leave_nested(int depth, int status) {
  volatile char pad[64]; pad[0] = (char)depth;
  if (depth > 0) { leave_nested(depth - 1, status); return; }
  reached = 1; exit(status);
}

static var worker(var args) {
  for (int i = 0; i < 5; i++) { var x = new(XProbe, $I(2000 + i), $I(0)); (void)x; thread_made++; }
  return NULL;
}

int main(int argc, char** argv) {
  char route = argc > 1 ? argv[1][0] : 'r';
  char* objs = argc > 2 ? argv[2] : "";
  var keep[64]; int nk = 0;             /* everything stays reachable: only teardown can finalise it */
  var arr = NULL; var file = NULL;
  char* s = objs;
  while (*s) {
    while (*s == ' ') s++;
    if (!*s) break;
    char c = *s++; long id = 0;
    if (c != 'f') id = strtol(s, &s, 10);
    if (c == 'p') { var x = new(XProbe, $I(id), $I(0)); if (nk < 64) keep[nk++] = x; }
    else if (c == 'r') { var x = new_root(XProbe, $I(id), $I(0)); if (nk < 64) keep[nk++] = x; }
    else if (c == 'o') { var x = new(XProbe, $I(id), $I(0)); var b = new(Box, x); if (nk < 64) keep[nk++] = b; }
    else if (c == 'g') { var x = new(XProbe, $I(id), $I(0)); struct XProbe* b = new(XProbe, $I(id + 500), $I(1)); b->val = x; if (nk < 64) keep[nk++] = b; }
    else if (c == 'h') { var x = new_root(XProbe, $I(id), $I(0)); struct XProbe* b = new(XProbe, $I(id + 500), $I(1)); b->val = x; if (nk < 64) keep[nk++] = b; }
    else if (c == 'c') {
      if (!arr) { arr = new(Array, Box); if (nk < 64) keep[nk++] = arr; }
      var x = new(XProbe, $I(id), $I(0)); push(arr, $(Box, x));
    }
    else if (c == 'f') {
      char path[64]; snprintf(path, sizeof path, "/tmp/lcx_%d.out", (int)getpid());
      file = new(File, $S(path), $S("w")); if (nk < 64) keep[nk++] = file;
      tracked = ((struct File*)file)->file; unlink(path);
      print_to(file, 0, "payload %i\n", $I(7));
    }
  }
  if (route == 'T' || route == 'I' || route == 'F' || route == 'a' || route == 'b' || route == 'c') {
    exception_signals();
    if (route == 'T') { reached = 1; raise(SIGTERM); }
    if (route == 'I') { reached = 1; raise(SIGINT); }
    if (route == 'F') { reached = 1; raise(SIGFPE); }
    /* the advertised use: a signal turned into an exception and handled */
    volatile int handled = 0;
    try { raise(SIGINT); } catch (e) { handled = 1; }
    if (!handled) return 8;
    if (route == 'a') { reached = 1; return 0; }
    if (route == 'b') { route = 't'; }
    if (route == 'c') { route = 'e'; }
  }
  if (route == 'j') { var t = new_raw(Thread, $(Function, worker)); call(t); join(t); del_raw(t); route = 'e'; }
  if (route == 'r') { reached = 1; return 0; }
  if (route == 'e') { leave_nested(3, 0); }
  if (route == 's') { leave_nested(12, 3); }
  if (route == 'w') {
    var mx = new(Mutex);
    try {
      with (m in mx) { reached = 1; exit(0); }
    } catch (e) { }
  }
  if (route == 't') { reached = 1; throw(ValueError, "leaving through an uncaught exception: %i", $I(nk)); }
  return 9;
}
