/* roundtrip.c — correspondence harness for property C15 (show/look, print_to/scan_from round trips).
 * Black box: only the public API (print_to_with, scan_from_with, show_to, look_from) is used.
 *
 * stdin, one case per line:    <K>:<prehex>:<resthex>:<mode>|<tok> <tok> ...
 *   K     S = String sink and String source, F = File sink and File source (temp file, argv[1] = directory)
 *   pre   bytes the sink already holds; the values are written at position len(pre)
 *   rest  bytes that follow the written text in the source that is read back
 *   mode  G = one print_to_with call and one scan_from_with call for the whole sequence
 *         E = one call per item; `$` items go through show_to / look_from directly
 *   tok   L<hex>                    literal text (no NUL; a '%' is doubled in the format)
 *         $i<dec>  $f<16 hex>  $s<hex>   Int / Float (bit pattern) / String written with %$ and read with %$
 *         N<pspec>/<sspec>:<val>    numeric directive: written with %<pspec>, read with %<sspec>
 *                                   ('_' in a spec stands for the space flag); val = <dec> for integer
 *                                   conversions, 16 hex digits (bit pattern) for f
 *         X<sspec>:<hex>            raw text (written with %s from a String) read with %<sspec>: validates
 *                                   the scanner model on text that no writer produces (overflow, signs, junk)
 * stdout, one line per case:
 *   W<hex of the whole sink content>;<position returned by the writer>;<t>,<t>,...|R<v>,<v>,...;<position returned by the reader>
 *   t = hex of what snprintf writes for an N item given an argument of the type its directive names
 *   v = i<dec> | f<16 hex> | s<hex>;   an exception is reported as W!<Name> resp. R!<Name>
 */
#include "Cello.h"
#include "hcommon.h"

#define MAXIT 40

struct item {
  char kind;            /* 'L' '$' 'N' */
  char vt;              /* 'i' 'f' 's' */
  char* bytes;          /* literal text or string value (NUL terminated) */
  int64_t iv;
  uint64_t fb;
  char pspec[40];
  char sspec[40];
};

static struct item items[MAXIT];
static int nitems;
static const char* tmpdir = "/tmp";

static int hexval(int c) {
  if (c >= '0' && c <= '9') return c - '0';
  if (c >= 'a' && c <= 'f') return c - 'a' + 10;
  if (c >= 'A' && c <= 'F') return c - 'A' + 10;
  return -1;
}

static char* unhex(const char* h) {
  size_t n = strlen(h) / 2;
  char* out = malloc(n + 1);
  for (size_t i = 0; i < n; i++) out[i] = (char)(hexval(h[2*i]) * 16 + hexval(h[2*i+1]));
  out[n] = 0;
  return out;
}

static void phex(const char* s, size_t n) {
  for (size_t i = 0; i < n; i++) P("%02x", (unsigned char)s[i]);
}

static double dbl_of_bits(uint64_t b) { double d; memcpy(&d, &b, 8); return d; }
static uint64_t bits_of_dbl(double d) { uint64_t b; memcpy(&b, &d, 8); return b; }

static void spec_copy(char* dst, const char* src, size_t n) {
  size_t i;
  for (i = 0; i < n && i < 38; i++) dst[i] = src[i] == '_' ? ' ' : src[i];
  dst[i] = 0;
}

static int parse_items(char* s) {
  char* tok;
  nitems = 0;
  while ((tok = next_tok(&s, ' ')) != NULL) {
    if (*tok == 0) continue;
    if (nitems >= MAXIT) return 0;
    struct item* it = &items[nitems++];
    memset(it, 0, sizeof *it);
    it->kind = tok[0];
    if (tok[0] == 'L') { it->bytes = unhex(tok + 1); }
    else if (tok[0] == '$') {
      it->vt = tok[1];
      if (tok[1] == 'i') it->iv = strtoll(tok + 2, NULL, 10);
      else if (tok[1] == 'f') it->fb = strtoull(tok + 2, NULL, 16);
      else if (tok[1] == 's') it->bytes = unhex(tok + 2);
      else return 0;
    } else if (tok[0] == 'N') {
      char* sl = strchr(tok, '/'); char* co = strchr(tok, ':');
      if (!sl || !co || co < sl) return 0;
      spec_copy(it->pspec, tok + 1, (size_t)(sl - tok - 1));
      spec_copy(it->sspec, sl + 1, (size_t)(co - sl - 1));
      char conv = it->pspec[strlen(it->pspec) - 1];
      if (strchr("fFeEgG", conv)) { it->vt = 'f'; it->fb = strtoull(co + 1, NULL, 16); }
      else { it->vt = 'i'; it->iv = strtoll(co + 1, NULL, 10); }
    } else if (tok[0] == 'X') {
      char* co = strchr(tok, ':');
      if (!co) return 0;
      spec_copy(it->sspec, tok + 1, (size_t)(co - tok - 1));
      strcpy(it->pspec, "s");
      it->bytes = unhex(co + 1);
      char conv = it->sspec[strlen(it->sspec) - 1];
      it->vt = strchr("fFeEgG", conv) ? 'f' : 'i';
    } else return 0;
  }
  return 1;
}

/* what the C library itself writes for this directive when it is handed an argument of the type the
 * directive names (the reference for the written text of N items) */
#include <stddef.h>
#include <sys/types.h>
static void libc_text(struct item* it, char* buf, size_t cap) {
  char f[64];
  snprintf(f, sizeof f, "%%%s", it->pspec);
  if (it->vt == 'f') { snprintf(buf, cap, f, dbl_of_bits(it->fb)); return; }
  size_t n = strlen(it->pspec);
  char conv = it->pspec[n - 1];
  int nh = 0, nl = 0; char m = 0;
  for (int i = (int)n - 2; i >= 0 && strchr("hljztq", it->pspec[i]); i--) {
    if (it->pspec[i] == 'h') nh++; else if (it->pspec[i] == 'l') nl++; else m = it->pspec[i];
  }
  int uns = strchr("uoxX", conv) != NULL;
  int64_t v = it->iv;
  if (nh >= 2)      { if (uns) snprintf(buf, cap, f, (unsigned char)v);  else snprintf(buf, cap, f, (signed char)v); }
  else if (nh == 1) { if (uns) snprintf(buf, cap, f, (unsigned short)v); else snprintf(buf, cap, f, (short)v); }
  else if (nl == 1) { if (uns) snprintf(buf, cap, f, (unsigned long)v);  else snprintf(buf, cap, f, (long)v); }
  else if (nl >= 2 || m == 'q') { if (uns) snprintf(buf, cap, f, (unsigned long long)v); else snprintf(buf, cap, f, (long long)v); }
  else if (m == 'j') { if (uns) snprintf(buf, cap, f, (uintmax_t)v); else snprintf(buf, cap, f, (intmax_t)v); }
  else if (m == 'z') { if (uns) snprintf(buf, cap, f, (size_t)v);    else snprintf(buf, cap, f, (ssize_t)v); }
  else if (m == 't') { snprintf(buf, cap, f, (ptrdiff_t)v); }
  else              { if (uns) snprintf(buf, cap, f, (unsigned int)v);   else snprintf(buf, cap, f, (int)v); }
}

static void dump_libc_texts(void) {
  int first = 1;
  P(";");
  for (int i = 0; i < nitems; i++) {
    if (items[i].kind != 'N') continue;
    char* buf = malloc(8192);
    libc_text(&items[i], buf, 8192);
    if (!first) P(",");
    first = 0;
    phex(buf, strlen(buf));
    free(buf);
  }
}

static var mkval(struct item* it) {
  if (it->kind == 'X') return new_raw(String, $S(it->bytes));
  if (it->vt == 'i') return new_raw(Int, $I(it->iv));
  if (it->vt == 'f') return new_raw(Float, $F(dbl_of_bits(it->fb)));
  return new_raw(String, $S(it->bytes));
}

static var mktarget(struct item* it) {
  if (it->vt == 'i') return new_raw(Int, $I(0));
  if (it->vt == 'f') return new_raw(Float, $F(0.0));
  return new_raw(String, $S("?"));
}

/* format text of items [a, b) for the writer (w = 1) or the reader (w = 0) */
static char* mkfmt(int a, int b, int w) {
  size_t cap = 16;
  for (int i = a; i < b; i++) cap += 48 + (items[i].bytes ? 2 * strlen(items[i].bytes) : 0);
  char* f = malloc(cap); f[0] = 0;
  for (int i = a; i < b; i++) {
    struct item* it = &items[i];
    if (it->kind == 'L') {               /* literal text; a '%' is written "%%" in a format */
      size_t n = strlen(f);
      for (const char* q = it->bytes; *q; q++) { f[n++] = *q; if (*q == '%') f[n++] = '%'; }
      f[n] = 0;
    }
    else if (it->kind == '$') strcat(f, "%$");
    else { strcat(f, "%"); strcat(f, w ? it->pspec : it->sspec); }
  }
  return f;
}

/* write everything to `out` starting at pos; returns the final position */
static int write_all(var out, int pos, var* vals, int mode) {
  if (mode == 'G') {
    var arr[MAXIT + 1]; int n = 0;
    for (int i = 0; i < nitems; i++) if (items[i].kind != 'L') arr[n++] = vals[i];
    arr[n] = Terminal;
    char* f = mkfmt(0, nitems, 1);
    pos = print_to_with(out, pos, f, $(Tuple, arr));
    free(f);
    return pos;
  }
  for (int i = 0; i < nitems; i++) {
    if (items[i].kind == '$') { pos = show_to(vals[i], out, pos); continue; }
    var arr[2]; arr[0] = vals[i]; arr[1] = Terminal;
    if (items[i].kind == 'L') arr[0] = Terminal;
    char* f = mkfmt(i, i + 1, 1);
    pos = print_to_with(out, pos, f, $(Tuple, arr));
    free(f);
  }
  return pos;
}

static int read_all(var inp, int pos, var* tg, int mode) {
  if (mode == 'G') {
    var arr[MAXIT + 1]; int n = 0;
    for (int i = 0; i < nitems; i++) if (items[i].kind != 'L') arr[n++] = tg[i];
    arr[n] = Terminal;
    char* f = mkfmt(0, nitems, 0);
    pos = scan_from_with(inp, pos, f, $(Tuple, arr));
    free(f);
    return pos;
  }
  for (int i = 0; i < nitems; i++) {
    if (items[i].kind == '$') { pos = look_from(tg[i], inp, pos); continue; }
    var arr[2]; arr[0] = tg[i]; arr[1] = Terminal;
    if (items[i].kind == 'L') arr[0] = Terminal;
    char* f = mkfmt(i, i + 1, 0);
    pos = scan_from_with(inp, pos, f, $(Tuple, arr));
    free(f);
  }
  return pos;
}

static void dump_vals(var* tg) {
  int first = 1;
  for (int i = 0; i < nitems; i++) {
    if (items[i].kind == 'L') continue;
    if (!first) P(",");
    first = 0;
    if (items[i].vt == 'i') P("i%" PRId64, (int64_t)c_int(tg[i]));
    else if (items[i].vt == 'f') P("f%016" PRIx64, bits_of_dbl(c_float(tg[i])));
    else { const char* s = c_str(tg[i]); P("s"); phex(s, strlen(s)); }
  }
}

static void one_case(char* line) {
  char* bar = strchr(line, '|');
  if (!bar) { P("BADCASE"); return; }
  *bar = 0;
  /* header  K:pre:rest:mode  (pre and rest may be empty) */
  char kind = line[0];
  char* fields[3]; int nf = 0;
  for (char* q = strchr(line, ':'); q && nf < 3; q = strchr(q + 1, ':')) { *q = 0; fields[nf++] = q + 1; }
  if (nf != 3) { P("BADCASE"); return; }
  char* pre = unhex(fields[0]); char* rest = unhex(fields[1]); int mode = fields[2][0];
  if (!parse_items(bar + 1)) { P("BADCASE"); return; }
  int start = (int)strlen(pre);

  var vals[MAXIT]; var tg[MAXIT];
  for (int i = 0; i < nitems; i++) {
    vals[i] = items[i].kind == 'L' ? NULL : mkval(&items[i]);
    tg[i] = items[i].kind == 'L' ? NULL : mktarget(&items[i]);
  }

  const char* wexn = NULL; const char* rexn = NULL;
  int wpos = 0, rpos = 0;
  char* content = NULL; size_t clen = 0;

  if (kind == 'S') {
    var sink = new_raw(String, $S(pre));
    try { wpos = write_all(sink, start, vals, mode); } catch (e) { wexn = exn_name(e); }
    if (wexn) { P("W!%s", wexn); return; }
    clen = strlen(c_str(sink));
    content = malloc(clen + strlen(rest) + 1);
    memcpy(content, c_str(sink), clen + 1);
    P("W"); phex(content, clen); P(";%d", wpos); dump_libc_texts();
    strcat(content, rest);
    var source = new_raw(String, $S(content));
    try { rpos = read_all(source, start, tg, mode); } catch (e) { rexn = exn_name(e); }
  } else {
    char path[512];
    snprintf(path, sizeof path, "%s/rt_%d.txt", tmpdir, (int)getpid());
    FILE* fp = fopen(path, "wb");
    if (!fp) { P("NOFILE"); return; }
    fwrite(pre, 1, strlen(pre), fp);
    try { wpos = write_all($(File, fp), start, vals, mode); } catch (e) { wexn = exn_name(e); }
    fclose(fp);
    if (wexn) { P("W!%s", wexn); unlink(path); return; }
    fp = fopen(path, "rb");
    fseek(fp, 0, SEEK_END); clen = (size_t)ftell(fp); fseek(fp, 0, SEEK_SET);
    content = malloc(clen + 1);
    if (fread(content, 1, clen, fp) != clen) { P("READFAIL"); }
    fclose(fp);
    P("W"); phex(content, clen); P(";%d", wpos); dump_libc_texts();
    fp = fopen(path, "ab"); fwrite(rest, 1, strlen(rest), fp); fclose(fp);
    fp = fopen(path, "rb");
    fseek(fp, start, SEEK_SET);
    try { rpos = read_all($(File, fp), start, tg, mode); } catch (e) { rexn = exn_name(e); }
    fclose(fp);
    unlink(path);
  }
  if (rexn) { P("|R!%s", rexn); return; }
  P("|R"); dump_vals(tg); P(";%d", rpos);
}

int main(int argc, char** argv) {
  if (argc > 1) tmpdir = argv[1];
  run_all_cases(one_case);
  return 0;
}
