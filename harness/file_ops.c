/* file_ops.c — correspondence harness for File (C20).
 * Input / transcript format: see ocaml/File_driver.ml (the `model` transcript).  The tag in front
 * of `|` may carry the flag fd0 or fd012 (standard descriptors closed before the case runs).
 * Real files live in a fresh directory per case (below $H_DIR).  The stdio entry points used
 * by src/File.c are interposed at link time (-Wl,--wrap=fopen,--wrap=fclose,...): the wrappers
 * keep the ledger (which FILE* came from which successful fopen, closed or not) and turn
 * fclose(NULL) / any stdio call on an already closed FILE* into the observation CRASH
 * (event -NULL / !<h>) instead of undefined behaviour.  After every operation the harness
 * prints what the C library itself says about every open File: ftell and feof of the FILE*
 * stored in the object (struct File is public in Cello.h). */
#include "Cello.h"
#include "hcommon.h"
#include <fcntl.h>
#include <sys/stat.h>
#include <stdarg.h>
#include <errno.h>

/* ------------------------------------------------------------------ ledger + wrappers */
FILE* __real_fopen(const char*, const char*);
int __real_fclose(FILE*);
size_t __real_fread(void*, size_t, size_t, FILE*);
size_t __real_fwrite(const void*, size_t, size_t, FILE*);
int __real_fseek(FILE*, long, int);
long __real_ftell(FILE*);
int __real_fflush(FILE*);
int __real_feof(FILE*);
int __real_vfprintf(FILE*, const char*, va_list);
int __real___isoc99_vfscanf(FILE*, const char*, va_list);
int __real_vfscanf(FILE*, const char*, va_list);

#define MAXH 4096
static FILE* L_fp[MAXH]; static int L_live[MAXH]; static int L_n;
static char EV[4096]; static size_t EVn;
static int first_step = 1;

static void ev(const char* fmt, ...) {
  va_list va; va_start(va, fmt);
  if (EVn && EVn < sizeof EV - 1) EV[EVn++] = ',';
  EVn += (size_t)vsnprintf(EV + EVn, sizeof EV - EVn, fmt, va);
  if (EVn >= sizeof EV) EVn = sizeof EV - 1;
  va_end(va);
}
static int lookup(FILE* fp) {
  for (int h = L_n - 1; h >= 0; h--) if (L_fp[h] == fp) return h;
  return -1;
}
static void ub_crash(void);
/* 1 = pass through to libc, 0 never returned for a dead handle (the case ends) */
static int check(FILE* fp) {
  int h = lookup(fp);
  if (h < 0) return 1;                 /* not ours: stdout, stderr, the transcript pipe */
  if (L_live[h]) return 1;
  ev("!%d", h); ub_crash(); return 0;
}
FILE* __wrap_fopen(const char* path, const char* mode) {
  FILE* fp = __real_fopen(path, mode);
  if (fp && L_n < MAXH) { L_fp[L_n] = fp; L_live[L_n] = 1; ev("+%d", L_n); L_n++; }
  return fp;
}
int __wrap_fclose(FILE* fp) {
  if (fp == NULL) { ev("-NULL"); ub_crash(); }
  int h = lookup(fp);
  if (h >= 0) {
    if (!L_live[h]) { ev("!%d", h); ub_crash(); }
    L_live[h] = 0; ev("-%d", h);
  }
  return __real_fclose(fp);
}
size_t __wrap_fread(void* p, size_t s, size_t n, FILE* fp) { check(fp); return __real_fread(p, s, n, fp); }
size_t __wrap_fwrite(const void* p, size_t s, size_t n, FILE* fp) { check(fp); return __real_fwrite(p, s, n, fp); }
int __wrap_fseek(FILE* fp, long o, int w) { check(fp); return __real_fseek(fp, o, w); }
long __wrap_ftell(FILE* fp) { check(fp); return __real_ftell(fp); }
int __wrap_fflush(FILE* fp) { if (fp) check(fp); return __real_fflush(fp); }
int __wrap_feof(FILE* fp) { check(fp); return __real_feof(fp); }
int __wrap_vfprintf(FILE* fp, const char* f, va_list va) { check(fp); return __real_vfprintf(fp, f, va); }
int __wrap___isoc99_vfscanf(FILE* fp, const char* f, va_list va) { check(fp); return __real___isoc99_vfscanf(fp, f, va); }
int __wrap_vfscanf(FILE* fp, const char* f, va_list va) { check(fp); return __real_vfscanf(fp, f, va); }

/* ------------------------------------------------------------------ case state */
static var F[4];
static int wstk[256]; static int wd;
static char DIR[512];
static char PATHS[5][600];
static char** TOK; static int NT, IT;
static const char* SW;      /* word delivered by the last successful scan */

static void objs_dump(void) {
  for (int i = 0; i < 4; i++) {
    if (i) P(",");
    if (F[i] == NULL) { P("-"); continue; }
    struct File* f = F[i];
    if (f->file == NULL) { P("c"); continue; }
    int h = lookup(f->file);
    if (h < 0) P("o?");
    else if (!L_live[h]) P("STALE%d", h);
    else P("o%d:%ld/%d", h, __real_ftell(f->file), __real_feof(f->file) ? 1 : 0);
  }
}
static void step_begin(void) { EVn = 0; EV[0] = 0; }
static void step_end(const char* res) {
  if (!first_step) P(" | ");
  first_step = 0;
  P("%s;", res); objs_dump(); P(";%s", EV);
  fflush(OUT);
  step_begin();
}
static void ub_crash(void) {
  /* the library reached undefined behaviour inside the current operation */
  step_end("CRASH");
  _exit(0);
}

static void digest(const unsigned char* p, size_t n) {
  if (n <= 16) { P("%zu:", n); for (size_t i = 0; i < n; i++) P("%02x", p[i]); }
  else {
    uint64_t h = 0xcbf29ce484222325ULL;
    for (size_t i = 0; i < n; i++) h = (h ^ p[i]) * 0x100000001b3ULL;
    P("%zu#%016" PRIx64, n, h);
  }
}
static unsigned gen_byte(unsigned long seed, unsigned long k) {
  if (seed == 0) return 0;
  unsigned long x = ((seed + 1) * (k + 3)) & 0xFFFFFFFFUL;
  x = (x * 40503UL) & 0xFFFFFFFFUL;
  return (unsigned)((x >> 8) & 0xFF);
}

static void finish_case(void) {
  /* end of the case: flush whatever is still buffered, then show the files as the OS has them */
  __real_fflush(NULL);
  if (!first_step) P(" | ");
  P("END;");
  for (int p = 0; p < 3; p++) {
    if (p) P(",");
    int fd = open(PATHS[p], O_RDONLY);
    if (fd < 0) { P("-"); continue; }
    struct stat st; fstat(fd, &st);
    size_t n = (size_t)st.st_size;
    unsigned char* b = malloc(n + 1);
    size_t got = 0; ssize_t r;
    while (got < n && (r = read(fd, b + got, n - got)) > 0) got += (size_t)r;
    close(fd);
    digest(b, got);
    free(b);
    unlink(PATHS[p]);
  }
  rmdir(DIR);
  fflush(OUT);
  _exit(0);
}

static int slot(const char* s, int max) {
  char* e; long v = strtol(s, &e, 10);
  if (e == s || v < 0 || v > max) return -1;
  return (int)v;
}

/* one operation that is not with / exit; prints its step */
static void do_op(char* tok) {
  char res[256]; strcpy(res, "BADOP");
  char buf[256]; strncpy(buf, tok + 1, sizeof buf - 1); buf[sizeof buf - 1] = 0;
  char* a[4] = {NULL, NULL, NULL, NULL}; int na = 0;
  char* s = buf; char* t;
  while (na < 4 && (t = next_tok(&s, ',')) != NULL) a[na++] = t;
  int i = na >= 1 ? slot(a[0], 3) : -1;
  unsigned char* rbuf = NULL; size_t rn = 0; size_t items = 0; int have_read = 0;
  step_begin();
  if (i < 0) { step_end("BADOP"); return; }
  try {
    switch (tok[0]) {
      case 'N':
        if (na != 1 || F[i] != NULL) break;
        F[i] = new_raw(File); strcpy(res, "ok"); break;
      case 'O': {
        if (na != 3 || i > 1 || F[i] != NULL) break;
        int p = slot(a[1], 4); if (p < 0) break;
        strcpy(res, "ok");
        var f = new_raw(File, $S(PATHS[p]), $S(a[2]));
        F[i] = f; break; }
      case 'o': {
        if (na != 3 || F[i] == NULL) break;
        int p = slot(a[1], 4); if (p < 0) break;
        strcpy(res, "ok");
        sopen(F[i], $S(PATHS[p]), $S(a[2])); break; }
      case 'c':
        if (na != 1 || F[i] == NULL) break;
        strcpy(res, "ok"); sclose(F[i]); break;
      case 'd': {
        if (na != 1 || i > 1 || F[i] == NULL) break;
        int inw = 0; for (int k = 0; k < wd; k++) if (wstk[k] == i) inw = 1;
        if (inw) break;
        strcpy(res, "ok");
        del_raw(F[i]);
        F[i] = NULL; break; }
      case 'r': {
        if (na != 2 || F[i] == NULL) break;
        rn = (size_t)strtoul(a[1], NULL, 10);
        rbuf = malloc(rn + 16); memset(rbuf, 0xAA, rn + 16);
        strcpy(res, "ok");
        items = sread(F[i], rbuf, rn); have_read = 1; break; }
      case 'W': {
        if (na != 3 || F[i] == NULL) break;
        size_t n = (size_t)strtoul(a[1], NULL, 10); unsigned long seed = strtoul(a[2], NULL, 10);
        unsigned char* wb = malloc(n + 1);
        for (size_t k = 0; k < n; k++) wb[k] = (unsigned char)gen_byte(seed, k);
        strcpy(res, "ok");
        size_t w = swrite(F[i], wb, n);
        snprintf(res, sizeof res, "W%zu", w); break; }
      case 's': {
        if (na != 3 || F[i] == NULL) break;
        int64_t off = strtoll(a[1], NULL, 10); int o = atoi(a[2]);
        int org = o == 0 ? SEEK_SET : o == 1 ? SEEK_CUR : o == 2 ? SEEK_END : 7;
        strcpy(res, "ok");
        sseek(F[i], off, org); break; }
      case 't':
        if (na != 1 || F[i] == NULL) break;
        strcpy(res, "ok");
        snprintf(res, sizeof res, "n%" PRId64, (int64_t)stell(F[i])); break;
      case 'e':
        if (na != 1 || F[i] == NULL) break;
        strcpy(res, "ok");
        strcpy(res, seof(F[i]) ? "true" : "false"); break;
      case 'f':
        if (na != 1 || F[i] == NULL) break;
        strcpy(res, "ok"); sflush(F[i]); break;
      case 'p': {
        if (na != 3 || F[i] == NULL) break;
        strcpy(res, "ok");
        print_to(F[i], 0, "%ld %s\n", $I(strtoll(a[1], NULL, 10)), $S(a[2])); break; }
      case 'P': {
        /* one print_to whose pieces may be long: P<i>,<kind>,<len>,<seed>
           s "<%s>" of a len-byte string; d "%0<len>li|"; w "%<len>s|" of "ab"; l a len-byte literal as the
           format itself; m "%s=%05li;%s" of two len-byte strings and a number */
        if (na != 4 || F[i] == NULL) break;
        size_t n = (size_t)strtoul(a[2], NULL, 10); unsigned long seed = strtoul(a[3], NULL, 10);
        if (n > 70000) break;
        char* t1 = malloc(n + 1); char* t2 = malloc(n + 1);
        for (size_t k = 0; k < n; k++) { t1[k] = (char)('a' + (seed + k * 7) % 26); t2[k] = (char)('a' + (seed + 1 + k * 7) % 26); }
        t1[n] = 0; t2[n] = 0;
        long kk = (seed % 2) ? -(long)seed : (long)seed;
        char fm[64];
        strcpy(res, "ok");
        switch (a[1][0]) {
          case 's': print_to(F[i], 0, "<%s>", $S(t1)); break;
          case 'd': snprintf(fm, sizeof fm, "%%0%zuli|", n); print_to(F[i], 0, fm, $I(kk)); break;
          case 'w': snprintf(fm, sizeof fm, "%%%zus|", n); print_to(F[i], 0, fm, $S("ab")); break;
          case 'l': print_to(F[i], 0, t1); break;
          case 'm': print_to(F[i], 0, "%s=%05li;%s", $S(t1), $I(kk), $S(t2)); break;
          default: strcpy(res, "BADOP");
        }
        break; }
      case 'q': {
        if (na != 1 || F[i] == NULL) break;
        var k = new_raw(Int, $I(0));
        var w = new_raw(String, $S(""));
        resize(w, 70000);            /* no case writes more than 60000 bytes */
        strcpy(res, "ok");
        scan_from(F[i], 0, "%ld %s\n", k, w);
        SW = c_str(w);
        snprintf(res, sizeof res, "S%ld:", (long)c_int(k)); break; }
      default: break;
    }
  } catch (e) { strcpy(res, exn_name(e)); have_read = 0; SW = NULL; }
  if (have_read) {
    if (!first_step) P(" | ");
    first_step = 0;
    P("R%zu=", items);
    int over = 0; for (size_t k = rn; k < rn + 16; k++) if (rbuf[k] != 0xAA) over = 1;
    digest(rbuf, rn);
    if (over) P("OVERRUN");
    P(";"); objs_dump(); P(";%s", EV); fflush(OUT); step_begin();
  } else if (SW) {
    if (!first_step) P(" | ");
    first_step = 0;
    P("%s", res);
    for (const unsigned char* c = (const unsigned char*)SW; *c; c++) P("%02x", *c);
    P(";"); objs_dump(); P(";%s", EV); fflush(OUT); step_begin();
    SW = NULL;
  } else step_end(res);
  free(rbuf);
}

static void run_block(void);

static void do_with(char* tok) {
  int i = slot(tok + 1, 3);
  step_begin();
  if (i < 0 || F[i] == NULL || wd >= 250) { step_end("BADOP"); return; }
  step_end("ok");
  wstk[wd++] = i;
  const char* res = "ok";
  try {
    with (f in F[i]) {
      run_block();            /* returns at the matching `x`; ends the case when the tokens run out */
      wd--;
      step_begin();
      /* C07/D3 is not repaired on this tree: a handled exception leaves `active` set and the
         next enclosing catch would fire again.  An empty try resets it before stop_in runs. */
      try { } catch (e0) { }
    }
  } catch (e) { res = exn_name(e); }
  step_end(res);
}

static void run_block(void) {
  while (IT < NT) {
    char* t = TOK[IT++];
    if (t[0] == 'x') {
      if (wd > 0) return;
      step_begin(); step_end("BADOP");
    } else if (t[0] == 'w') do_with(t);
    else do_op(t);
  }
  finish_case();
}

static void one_case(char* line) {
  char* bar = strchr(line, '|');
  char* ops = bar ? bar + 1 : line;
  /* tag flags fd0 / fd012: the process has given up its standard descriptors before any File is
     opened, so the Files of this case get descriptor numbers 0, 1, 2 (a daemon, `prog <&-`).  Safe
     here: the child writes its transcript through OUT (a pipe, descriptor >= 3) and reads nothing. */
  if (bar && !H_NOFORK) {
    *bar = 0;
    if (strstr(line, "fd012")) { close(0); close(1); close(2); }
    else if (strstr(line, "fd0")) { close(0); }
    *bar = '|';
  }
  const char* base = getenv("H_DIR"); if (!base) base = "/tmp";
  snprintf(DIR, sizeof DIR, "%s/c%d", base, (int)getpid());
  mkdir(DIR, 0700);
  for (int p = 0; p < 3; p++) { snprintf(PATHS[p], sizeof PATHS[p], "%s/f%d", DIR, p); unlink(PATHS[p]); }
  snprintf(PATHS[3], sizeof PATHS[3], "%s/nodir/x", DIR);
  snprintf(PATHS[4], sizeof PATHS[4], "/dev/full");
  static char* toks[100000];
  NT = 0; IT = 0; TOK = toks;
  char* s = ops; char* t;
  while ((t = next_tok(&s, ' ')) != NULL && NT < 100000) if (*t) toks[NT++] = t;
  F[0] = NULL; F[1] = NULL;
  F[2] = $(File, NULL);
  F[3] = $(File, NULL);
  wd = 0; L_n = 0; first_step = 1;
  run_block();
}

int main(int argc, char** argv) {
  run_all_cases(one_case);
  return 0;
}
