/* val_hash.c — correspondence and oracle harness for property C10 (eq implies equal hash;
 * hash is a function of the value alone; copy / assign / swap).  Black box: public API only.
 *
 * stdin, one case per line:
 *   M <hex>            hash_data over the bytes                       -> "h=<dec> al=ok|FAIL(off)" (al: the
 *                      same bytes copied to each of the 8 alignments within a word hash the same)
 *   V <term> <term>    two values a, b                                -> see below
 * term ::= I<dec> | F<16 hex digits: bit pattern> | S<hex bytes> | T<type name> | R<16 hex: address held> | B<16 hex>
 *        | P<hex bytes>                      plain struct of that many bytes (no Cmp/Hash/Assign instance)
 *        | A[t,..] | L[t,..] | U[t,..]       Array / List / Tuple
 *        | H{k:v,..} | E{k:v,..}             Table / Tree
 * transcript of a V case (space separated):
 *   cmp=<ab>,<ba>  sign of cmp(a,b) and cmp(b,a); E = raised; for Table/Tree a non-zero result prints n
 *   ha=<dec> hb=<dec>
 *   va= vb=        ok | FAIL(<variant>:<flags>,...)   every variant (allocation class, construction
 *                  history, copy, assign) of the value hashes like the base object [h], eq(base,variant) [e],
 *                  eq(variant,base) [E], raised [r]
 *   x=             ok | FAIL(..)   eq(variant of a, b) agrees with eq(a,b) for every variant
 *   asg=           ok | na | FAIL(..)   y built like b, assign(y,a): y eq a both ways, hash(y) = hash(a)
 *   swap=          ok | na | FAIL(..)   swap(x,y) of fresh objects (and of two elements embedded in an Array)
 *   nv=<n>         number of variants exercised (for the evidence)
 */
#include "Cello.h"
#include "hcommon.h"
#include <ctype.h>
#define NEWR(ty, ...) new_raw_with(ty, tuple(__VA_ARGS__))

/* ------------------------------------------------------------------ plain struct probe types */
#define BLOBS X(1) X(2) X(3) X(4) X(5) X(6) X(7) X(8) X(9) X(11) X(12) X(15) X(16) X(17) X(20) X(24) X(31) X(33)
#define X(n) struct Blob##n { unsigned char b[n]; }; static var Blob##n = Cello(Blob##n);
BLOBS
#undef X
static var blob_type(size_t n) {
  switch (n) {
#define X(k) case k: return Blob##k;
    BLOBS
#undef X
  }
  return NULL;
}


/* ------------------------------------------------------------------ terms */
typedef struct Term {
  char kind;
  int64_t i; uint64_t bits;
  unsigned char* bytes; size_t n;      /* S, T, P */
  struct Term** el; size_t nel;        /* sequences: elements; maps: k0 v0 k1 v1 ... */
} Term;

static int hexval(int c) { return isdigit(c) ? c - '0' : 10 + (tolower(c) - 'a'); }

static Term* parse(char** s);
static void parse_list(char** s, Term* t, char close, int pairs) {
  size_t cap = 8; t->el = malloc(cap * sizeof(Term*)); t->nel = 0;
  (*s)++;                                 /* opening bracket */
  while (**s && **s != close) {
    if (t->nel + 2 > cap) { cap *= 2; t->el = realloc(t->el, cap * sizeof(Term*)); }
    t->el[t->nel++] = parse(s);
    if (pairs) { if (**s == ':') (*s)++; t->el[t->nel++] = parse(s); }
    if (**s == ',') (*s)++;
  }
  if (**s == close) (*s)++;
}
static Term* parse(char** s) {
  Term* t = calloc(1, sizeof(Term));
  t->kind = **s; (*s)++;
  switch (t->kind) {
    case 'I': t->i = (int64_t)strtoll(*s, s, 10); break;
    case 'F': { uint64_t b = 0; for (int k = 0; k < 16 && isxdigit((unsigned char)**s); k++) { b = (b << 4) | (uint64_t)hexval(**s); (*s)++; } t->bits = b; break; }
    case 'S': case 'P': {
      size_t cap = 16; t->bytes = malloc(cap + 1); t->n = 0;
      while (isxdigit((unsigned char)(*s)[0]) && isxdigit((unsigned char)(*s)[1])) {
        if (t->n + 1 >= cap) { cap *= 2; t->bytes = realloc(t->bytes, cap + 1); }
        t->bytes[t->n++] = (unsigned char)(hexval((*s)[0]) * 16 + hexval((*s)[1])); (*s) += 2;
      }
      t->bytes[t->n] = 0; break; }
    case 'T': { char* b = *s; while (isalnum((unsigned char)**s)) (*s)++; t->n = (size_t)(*s - b);
      t->bytes = malloc(t->n + 1); memcpy(t->bytes, b, t->n); t->bytes[t->n] = 0; break; }
    case 'R': case 'B': { uint64_t b = 0; for (int k = 0; k < 16 && isxdigit((unsigned char)**s); k++) { b = (b << 4) | (uint64_t)hexval(**s); (*s)++; } t->bits = b; break; }
    case 'A': case 'L': case 'U': parse_list(s, t, ']', 0); break;
    case 'H': case 'E': parse_list(s, t, '}', 1); break;
    default: t->kind = '?';
  }
  return t;
}

static var type_by_name(const char* n) {
  var ts[] = { Int, Float, String, Array, List, Table, Tree, Tuple, Ref, Box, Type, Range, Slice, Zip, Filter, Map, File, Function, Process, Thread, Mutex, GC, Exception, NULL };
  for (int i = 0; ts[i]; i++) if (strcmp(c_str(ts[i]), n) == 0) return ts[i];
  return NULL;
}

static double dbl_of_bits(uint64_t b) { double d; memcpy(&d, &b, 8); return d; }
static int is_scalar(Term* t) { return strchr("IFSTRBP", t->kind) != NULL; }

static var build(Term* t, int style);

/* type of the objects a term builds (for typed containers) */
static var term_type(Term* t) {
  switch (t->kind) {
    case 'I': return Int; case 'F': return Float; case 'S': return String; case 'T': return Type;
    case 'R': return Ref; case 'B': return Box; case 'P': return blob_type(t->n);
    case 'A': return Array; case 'L': return List; case 'U': return Tuple; case 'H': return Table; case 'E': return Tree;
  }
  return Int;
}

static var build_scalar(Term* t) {
  switch (t->kind) {
    case 'I': return new_raw(Int, $I(t->i));
    case 'F': return new_raw(Float, $F(dbl_of_bits(t->bits)));
    case 'S': return new_raw(String, $S((char*)t->bytes));
    case 'T': return type_by_name((char*)t->bytes);
    /* the address held is given by the case and never dereferenced (no del, no show, collector stopped) */
    case 'R': { var r = alloc_raw(Ref); ref(r, (var)(uintptr_t)t->bits); return r; }
    case 'B': { var r = alloc_raw(Box); ref(r, (var)(uintptr_t)t->bits); return r; }
    case 'P': { var ty = blob_type(t->n); if (!ty) return NULL; var r = alloc_raw(ty); memcpy(r, t->bytes, t->n); return r; }
  }
  return NULL;
}

#define NSTYLE_SEQ 7
#define NSTYLE_MAP 7

/* sequences: the same final contents through different construction histories */
static var build_seq(Term* t, int style) {
  size_t n = t->nel;
  var ety = n ? term_type(t->el[0]) : Int;
  var* e = malloc((n + 1) * sizeof(var));
  for (size_t i = 0; i < n; i++) e[i] = build(t->el[i], 0);
  if (t->kind == 'U') {
    var tp = new_raw(Tuple);
    switch (style % 3) {
      case 0: for (size_t i = 0; i < n; i++) push(tp, e[i]); break;
      case 1: for (size_t i = n; i > 0; i--) { if (i == n) push(tp, e[i-1]); else push_at(tp, e[i-1], $I(0)); } break;
      default: for (size_t i = 0; i < n; i++) { push(tp, e[i]); if (i % 2 == 0) { push(tp, e[0]); pop(tp); } } break;
    }
    return tp;
  }
  var c = NEWR(t->kind == 'A' ? Array : List, ety);
  switch (style) {
    case 0: for (size_t i = 0; i < n; i++) push(c, e[i]); break;
    case 1: if (t->kind == 'A') resize(c, n + 5);                          /* reserve, then fill */
            for (size_t i = 0; i < n; i++) push(c, e[i]); break;
    case 2: for (size_t i = 0; i < n; i++) {                               /* junk pushed and removed */
              push(c, e[i]); push(c, e[0]); push_at(c, e[n-1], $I(0)); pop_at(c, $I(0)); pop(c); } break;
    case 3: for (size_t i = n; i > 0; i--) push_at(c, e[i-1], $I(0)); break;   /* reverse order at the front */
    case 4: { var h2 = NEWR(t->kind == 'A' ? List : Array, ety);        /* concat of two halves, second from the other kind */
              for (size_t i = 0; i < n / 2; i++) push(c, e[i]);
              for (size_t i = n / 2; i < n; i++) push(h2, e[i]);
              concat(c, h2); break; }
    case 5: for (size_t i = 0; i < n; i++) push(c, e[i]);                  /* grow, shrink, grow again */
            for (size_t i = 0; i < n; i++) pop(c);
            if (t->kind == 'A' && n) resize(c, 1);
            for (size_t i = 0; i < n; i++) push(c, e[i]); break;
    default: { var o = NEWR(t->kind == 'A' ? List : Array, ety);        /* assigned from the other kind */
              for (size_t i = 0; i < n; i++) push(o, e[i]);
              assign(c, o); break; }
  }
  return c;
}

static var build_map(Term* t, int style) {
  size_t n = t->nel / 2;
  var kty = n ? term_type(t->el[0]) : Int, vty = n ? term_type(t->el[1]) : Int;
  var* k = malloc((n + 1) * sizeof(var)); var* v = malloc((n + 1) * sizeof(var));
  for (size_t i = 0; i < n; i++) { k[i] = build(t->el[2*i], 0); v[i] = build(t->el[2*i+1], 0); }
  var m = NEWR(t->kind == 'H' ? Table : Tree, kty, vty);
  switch (style) {
    case 0: for (size_t i = 0; i < n; i++) set(m, k[i], v[i]); break;
    case 1: for (size_t i = n; i > 0; i--) set(m, k[i-1], v[i-1]); break;        /* reverse insertion order */
    case 2: for (size_t i = 0; i < n; i++) set(m, k[i], v[i]);                    /* remove every other key, set again */
            for (size_t i = 0; i < n; i += 2) rem(m, k[i]);
            for (size_t i = 0; i < n; i += 2) set(m, k[i], v[i]); break;
    case 3: if (t->kind == 'H') resize(m, n + 7);                                 /* reserve first */
            for (size_t i = 0; i < n; i++) set(m, k[(i + n / 2) % n], v[(i + n / 2) % n]); break;
    case 4: for (size_t i = 0; i < n; i++) set(m, k[i], v[0]);                    /* wrong values first, then overwritten */
            for (size_t i = n; i > 0; i--) set(m, k[i-1], v[i-1]); break;
    case 5: for (size_t i = 0; i < n; i++) set(m, k[(i + 1) % n], v[(i + 1) % n]); /* rotated, reserve afterwards */
            if (t->kind == 'H' && n) resize(m, 3 * n + 1); break;
    default: { var o = NEWR(t->kind == 'H' ? Tree : Table, kty, vty);          /* assigned from the other kind */
            for (size_t i = 0; i < n; i++) set(o, k[i], v[i]);
            assign(m, o); break; }
  }
  return m;
}

static var build(Term* t, int style) {
  if (is_scalar(t)) return build_scalar(t);
  if (t->kind == 'H' || t->kind == 'E') return build_map(t, style);
  return build_seq(t, style);
}

/* ------------------------------------------------------------------ observations */
static int sign_of(int c) { return c < 0 ? -1 : c > 0 ? 1 : 0; }

static void print_cmp(var a, var b, int ismap) {
  try {
    int c = sign_of(cmp(a, b));
    if (ismap && c != 0) P("n"); else P("%d", c);
  } catch (e) { P("E"); }
}

/* safe wrappers: 1/0, or -1 when the call raised */
static int eq_s(var a, var b) { volatile int r = -1; try { r = eq(a, b) ? 1 : 0; } catch (e) { r = -1; } return r; }
static int hash_s(var a, uint64_t* h) { volatile int ok = 0; volatile uint64_t x = 0; try { x = hash(a); ok = 1; } catch (e) { ok = 0; } *h = x; return ok; }

#define MAXV 48
typedef struct { var v[MAXV]; const char* name[MAXV]; int oneway[MAXV]; int n; } Variants;
static void addv(Variants* vs, const char* name, var v, int oneway) {
  if (vs->n < MAXV && v) { vs->v[vs->n] = v; vs->name[vs->n] = name; vs->oneway[vs->n] = oneway; vs->n++; }
}

static var first_key(var m) { foreach (k in m) { return k; } return NULL; }

/* all variants of the value described by t; base = build(t,0) */
static void variants(Term* t, var base, Variants* vs, char* stackbuf) {
  static const char* sn[] = {"hist0","hist1","hist2","hist3","hist4","hist5","hist6"};
  var ty = type_of(base);
  if (t->kind == 'T') { addv(vs, "again", type_by_name((char*)t->bytes), 0); return; }
  if (is_scalar(t)) {
    /* allocation classes: stack, heap, embedded in Array / List / Table / Tree */
    var st = header_init(stackbuf, ty, AllocStack);
    memcpy(st, base, size(ty));        /* what $(T, ...) does: byte image of the struct behind a stack header */
    addv(vs, "stack", st, 0);
    addv(vs, "heap", build_scalar(t), 0);
    var arr = new_raw(Array, ty); push(arr, base); push(arr, base); push(arr, base);
    addv(vs, "in-array", get(arr, $I(1)), 0);
    var lst = new_raw(List, ty); push(lst, base); push(lst, base);
    addv(vs, "in-list", get(lst, $I(-1)), 0);
    var tb = new_raw(Table, Int, ty); set(tb, $I(7), base); set(tb, $I(12), base);
    addv(vs, "table-value", get(tb, $I(12)), 0);
    var tk = new_raw(Table, ty, Int); set(tk, base, $I(1));
    addv(vs, "table-key", first_key(tk), 0);
    var tr = new_raw(Tree, ty, ty); set(tr, base, base);
    addv(vs, "tree-key", first_key(tr), 0);
    addv(vs, "tree-value", get(tr, base), 0);
    var tup = new_raw(Tuple); push(tup, base);
    addv(vs, "in-tuple", get(tup, $I(0)), 0);
  } else if (t->kind == 'H' || t->kind == 'E') {
    for (int s = 1; s < NSTYLE_MAP; s++) addv(vs, sn[s], build_map(t, s), 0);
    /* the same bindings in the other kind of map: Table_Cmp compares by lookup, Tree_Cmp walks
       in key order against the table's slot order, so only eq(table, tree) is demanded */
    Term o = *t; o.kind = (t->kind == 'H') ? 'E' : 'H';
    addv(vs, "other-kind", build_map(&o, 0), t->kind == 'H' ? 1 : 2);
    var arr = new_raw(Array, ty); push(arr, base); push(arr, base);
    addv(vs, "in-array", get(arr, $I(1)), 0);
  } else {
    int ns = t->kind == 'U' ? 3 : NSTYLE_SEQ;
    for (int s = 1; s < ns; s++) addv(vs, sn[s], build_seq(t, s), 0);
    /* the same elements in the other sequence kinds */
    const char kinds[] = "ALU";
    int homog = 1;
    for (size_t i = 1; i < t->nel; i++) if (!(term_type(t->el[i]) is term_type(t->el[0]))) homog = 0;
    for (int i = 0; i < 3; i++) if (kinds[i] != t->kind && (homog || kinds[i] == 'U')) {
      Term o = *t; o.kind = kinds[i];
      addv(vs, kinds[i] == 'A' ? "as-array" : kinds[i] == 'L' ? "as-list" : "as-tuple", build_seq(&o, 0), 0);
    }
    if (t->kind == 'U') {
      /* a Tuple on the stack: tuple(...) */
      var* items = malloc((t->nel + 1) * sizeof(var));
      for (size_t i = 0; i < t->nel; i++) items[i] = build(t->el[i], 0);
      items[t->nel] = Terminal;
      struct Tuple* st = header_init(stackbuf, Tuple, AllocStack);
      st->items = items;
      addv(vs, "stack", st, 0);
    } else {
      var arr = new_raw(Array, ty); push(arr, base); push(arr, base);
      addv(vs, "in-array", get(arr, $I(0)), 0);
      var tb = new_raw(Table, Int, ty); set(tb, $I(3), base);
      addv(vs, "table-value", get(tb, $I(3)), 0);
    }
  }
  if (t->kind != 'T') {
    volatile var c = NULL;
    try { c = copy(base); } catch (e) { c = NULL; }
    if (c) addv(vs, "copy", c, 0); else { addv(vs, "copy-raised", base, 3); }
    try { c = copy(c); } catch (e) { c = NULL; }
    if (c) addv(vs, "copy-of-copy", c, 0);
  }
}

static int nfail;
static void fail(const char* name, const char* flags) {
  P("%s%s:%s", nfail ? "," : "FAIL(", name, flags); nfail++;
}
static void endfail(void) { if (nfail) P(")"); else P("ok"); }

static void check_variants(const char* label, var base, uint64_t hbase, Variants* vs) {
  P(" %s=", label); nfail = 0;
  for (int i = 0; i < vs->n; i++) {
    char fl[8]; int k = 0; uint64_t h;
    if (vs->oneway[i] == 3) { fail(vs->name[i], "r"); continue; }
    if (!hash_s(vs->v[i], &h)) fl[k++] = 'r'; else if (h != hbase) fl[k++] = 'h';
    if (vs->oneway[i] != 2) { int e = eq_s(base, vs->v[i]); if (e != 1) fl[k++] = e < 0 ? 'r' : 'e'; }
    if (vs->oneway[i] != 1) { int e = eq_s(vs->v[i], base); if (e != 1) fl[k++] = e < 0 ? 'r' : 'E'; }
    fl[k] = 0;
    if (k) fail(vs->name[i], fl);
  }
  endfail();
}

static int kind_class(Term* t) { return is_scalar(t) ? 0 : (t->kind == 'H' || t->kind == 'E') ? 2 : 1; }

static void value_case(char* s) {
  Term* ta = parse(&s); while (*s == ' ') s++; Term* tb = parse(&s);
  static char sbuf_a[256] __attribute__((aligned(16))), sbuf_b[256] __attribute__((aligned(16)));
  var a = NULL, b = NULL;
  try { a = build(ta, 0); b = build(tb, 0); } catch (e) { P("BUILD-RAISED %s", exn_name(e)); return; }
  if (!a || !b) { P("BADCASE"); return; }
  int ismap = kind_class(ta) == 2 || kind_class(tb) == 2;
  P("cmp="); print_cmp(a, b, ismap); P(","); print_cmp(b, a, ismap);
  uint64_t ha = 0, hb = 0;
  int oka = hash_s(a, &ha), okb = hash_s(b, &hb);
  if (oka) P(" ha=%" PRIu64, ha); else P(" ha=E");
  if (okb) P(" hb=%" PRIu64, hb); else P(" hb=E");
  Variants va, vb; va.n = vb.n = 0;
  try { variants(ta, a, &va, sbuf_a); } catch (e) { addv(&va, exn_name(e), a, 3); }
  try { variants(tb, b, &vb, sbuf_b); } catch (e) { addv(&vb, exn_name(e), b, 3); }
  check_variants("va", a, ha, &va);
  check_variants("vb", b, hb, &vb);
  /* cross: eq(variant of a, b) must agree with eq(a, b) */
  P(" x="); nfail = 0;
  int e0 = eq_s(a, b);
  for (int i = 0; i < va.n; i++) {
    if (va.oneway[i]) continue;
    int e = eq_s(va.v[i], b);
    if ((e == 1) != (e0 == 1)) fail(va.name[i], e < 0 ? "r" : "x");   /* raising counts as not eq */
  }
  endfail();
  /* assign(y, a) with y built like b */
  P(" asg="); nfail = 0;
  int ca = kind_class(ta), cb = kind_class(tb);
  int compatible = (ta->kind != 'T' && tb->kind != 'T') &&
    ((ca == 0 && cb == 0 && type_of(a) is type_of(b)) ||
     (ca == 1 && cb == 1 && (tb->kind == 'U' || ta->kind != 'U')) ||
     (ca == 2 && cb == 2));
  if (!compatible) P("na");
  else {
    volatile var y = NULL;
    try { y = build(tb, 0); y = assign(y, a); } catch (e) { y = NULL; }
    if (!y) fail("assign", "r");
    else {
      char fl[8]; int k = 0; uint64_t h;
      if (!hash_s(y, &h)) fl[k++] = 'r'; else if (h != ha) fl[k++] = 'h';
      if (!(ta->kind == 'H' && tb->kind == 'E')) { int e = eq_s(y, a); if (e != 1) fl[k++] = e < 0 ? 'r' : 'E'; }
      if (!(ta->kind == 'E' && tb->kind == 'H')) { int e = eq_s(a, y); if (e != 1) fl[k++] = e < 0 ? 'r' : 'e'; }
      fl[k] = 0; if (k) fail("assign", fl);
    }
    endfail();
  }
  /* swap */
  P(" swap="); nfail = 0;
  if (!(type_of(a) is type_of(b)) || ta->kind == 'T') P("na");
  else {
    volatile int raised = 0;
    var x = build(ta, 0), y = build(tb, 0);
    try { swap(x, y); } catch (e) { raised = 1; }
    if (raised) fail("swap", "r");
    else {
      char fl[8]; int k = 0; uint64_t h1 = 0, h2 = 0;
      if (!hash_s(x, &h1) || !hash_s(y, &h2)) fl[k++] = 'r';
      else if (h1 != hb || h2 != ha) fl[k++] = 'h';
      if (eq_s(x, b) != 1 || eq_s(y, a) != 1) fl[k++] = 'e';
      fl[k] = 0; if (k) fail("swap", fl);
      /* two elements embedded in an Array */
      var arr = new_raw(Array, type_of(a)); push(arr, a); push(arr, b);
      raised = 0;
      try { swap(get(arr, $I(0)), get(arr, $I(1))); } catch (e) { raised = 1; }
      k = 0;
      if (raised) fl[k++] = 'r';
      else {
        if (!hash_s(get(arr, $I(0)), &h1) || !hash_s(get(arr, $I(1)), &h2)) fl[k++] = 'r';
        else if (h1 != hb || h2 != ha) fl[k++] = 'h';
        if (eq_s(get(arr, $I(0)), b) != 1 || eq_s(get(arr, $I(1)), a) != 1) fl[k++] = 'e';
      }
      fl[k] = 0; if (k) fail("swap-embedded", fl);
    }
    endfail();
  }
  P(" nv=%d", va.n + vb.n);
}

/* ------------------------------------------------------------------ value histories (in-place mutation)
 * W <term> <op>=<term> <op>=<term> ...     the object built from the first term is mutated in place;
 * after each op its value must be the term on the right of '=' (computed by the generator).
 *   a<term> assign(obj, term)      String: r<hex> rem substring, p<hex> append, z<n> resize(n)
 *   Array/List/Tuple: u<term> push, o pop, s<i>,<term> set(obj, i, term)
 *   Table/Tree: s<k>:<v> set, r<k> rem
 * Per step (separated by " | "):  h=<hash(obj) taken IMMEDIATELY after the mutation, no other hash call
 * in between, the object was hashed right before the mutation>  own=<ok|STALE|na: String/Int/Float — the
 * harness's own hash_data over the current bytes / the value>  fr=<ok|flags: a fresh object built from the
 * expected term hashes like h [f], hash(obj) asked again after that still gives h [o], eq both ways [e,E]>
 * ab=<ok|STALE|na: String — the fresh object is freed, another String of the same length and other
 * contents is allocated (it usually gets the same buffer) and must hash as its own bytes> */
static int own_hash(var obj, uint64_t h) {
  var ty = type_of(obj);
  if (ty is String) { char* c = c_str(obj); return hash_data(c, strlen(c)) == h ? 1 : 0; }
  if (ty is Int) return (uint64_t)c_int(obj) == h ? 1 : 0;
  if (ty is Float) { double d = c_float(obj); uint64_t b; if (d == 0.0) d = 0.0; memcpy(&b, &d, 8); return b == h ? 1 : 0; }
  return -1;
}

static void observe(var obj, uint64_t h1, Term* expect, int first) {
  uint64_t hf = 0, h3 = 0;
  if (!first) P(" | ");
  P("h=%" PRIu64, h1);
  int own = own_hash(obj, h1);
  P(" own=%s", own < 0 ? "na" : own ? "ok" : "STALE");
  char fl[8]; int k = 0;
  volatile var ex = NULL;
  try { ex = build(expect, 0); } catch (e) { ex = NULL; }
  if (!ex) { P(" fr=BUILD-RAISED ab=na"); return; }
  hf = hash((var)ex); h3 = hash(obj);              /* direct calls: an exception frame would hash a String */
  if (hf != h1) fl[k++] = 'f';
  if (h3 != h1) fl[k++] = 'o';
  if (eq_s(obj, ex) != 1) fl[k++] = 'e';
  if (eq_s(ex, obj) != 1) fl[k++] = 'E';
  fl[k] = 0;
  P(" fr=%s", k ? fl : "ok");
  if (type_of(obj) is String) {
    /* address reuse: free the fresh String right after it was hashed, allocate another of the same size */
    char* c = c_str(ex); size_t n = strlen(c);
    char* other = malloc(n + 2); memcpy(other, c, n + 1);
    if (n == 0) { other[0] = 'x'; other[1] = 0; } else other[0] = (char)(other[0] == 'q' ? 'r' : 'q');
    uint64_t hx = hash((var)ex); (void)hx;
    del_raw((var)ex);
    var g = new_raw(String, $S(other));
    uint64_t hg = hash(g);
    P(" ab=%s", hg == hash_data(other, strlen(other)) ? "ok" : "STALE");
  } else P(" ab=na");
}

static void history_case(char* s) {
  char* tok = next_tok(&s, ' ');
  if (!tok) { P("BADCASE"); return; }
  char* q = tok; Term* t0 = parse(&q);
  volatile var obj = NULL;
  try { obj = build(t0, 0); } catch (e) { P("BUILD-RAISED %s", exn_name(e)); return; }
  if (!obj) { P("BADCASE"); return; }
  observe(obj, hash(obj), t0, 1);
  /* NOTE no try/catch between the priming hash, the mutation and the hash after it: Cello's exception
     frames look up thread-local storage in a Table keyed by a String, i.e. they hash another String.
     The generator only emits operations that succeed; an uncaught exception ends the child (EXIT). */
  while ((tok = next_tok(&s, ' ')) != NULL) {
    if (!*tok) continue;
    char* eqs = strchr(tok, '='); if (!eqs) { P(" | BADOP"); return; }
    *eqs = 0; char* et = eqs + 1; Term* expect = parse(&et);
    char* a = tok + 1;
    var arg0 = NULL, arg1 = NULL; size_t zn = 0;
    switch (tok[0]) {                            /* operands are built before the priming hash */
      case 'a': case 'r': case 'p': case 'u': { Term* x = parse(&a); arg0 = build(x, 0); break; }
      case 'z': zn = (size_t)strtoull(a, NULL, 10); break;
      case 's': { Term* kx = parse(&a); if (*a == ':' || *a == ',') a++; Term* vx = parse(&a);
                  arg0 = build(kx, 0); arg1 = build(vx, 0); break; }
      case 'o': break;
      default: P(" | BADOP"); return;
    }
    fflush(OUT);
    uint64_t hp = hash((var)obj);                /* the object has just been hashed: a memo would now hold it */
    (void)hp;
    switch (tok[0]) {
      case 'a': assign((var)obj, arg0); break;
      case 'r': rem((var)obj, arg0); break;
      case 'p': append((var)obj, arg0); break;
      case 'z': resize((var)obj, zn); break;
      case 'u': push((var)obj, arg0); break;
      case 'o': pop((var)obj); break;
      case 's': set((var)obj, arg0, arg1); break;
    }
    uint64_t h1 = hash((var)obj);                /* IMMEDIATELY after the mutation */
    observe((var)obj, h1, expect, 0);
  }
}

static void one_case(char* line) {
  stop(current(GC));          /* no collection in the middle of a case */
  if (line[0] == 'M' && line[1] == ' ') {
    char* s = line + 2; size_t n = strlen(s) / 2;
    unsigned char* d = malloc(n + 8);
    for (size_t i = 0; i < n; i++) d[i] = (unsigned char)(hexval(s[2*i]) * 16 + hexval(s[2*i+1]));
    uint64_t h0 = hash_data(d, n);
    P("h=%" PRIu64, h0);
    /* the same bytes at every alignment within a word, surrounded by other bytes: same hash */
    unsigned char* e = malloc(n + 32);
    int bad = -1;
    for (int off = 0; off < 8; off++) {
      memset(e, 0xA5 ^ off, n + 32);
      memcpy(e + 8 + off, d, n);
      if (hash_data(e + 8 + off, n) != h0) { bad = off; break; }
    }
    if (bad < 0) P(" al=ok"); else P(" al=FAIL(%d)", bad);
    return;
  }
  if (line[0] == 'V' && line[1] == ' ') { value_case(line + 2); return; }
  if (line[0] == 'W' && line[1] == ' ') { history_case(line + 2); return; }
  P("BADCASE");
}

int main(int argc, char** argv) {
  run_all_cases(one_case);
  return 0;
}
