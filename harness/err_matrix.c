/* err_matrix.c — failed-operation matrix for property C12 (black-box, public API).
 * case:  <kind> <n> <scenario> [<seed>]
 *   kind: A Array<Int>  L List<Int>  U heap Tuple of Int  T Table<Int,Int>  R Tree<Int,Int>
 *         S String  K Table<String,String>  G range(0,n)  H range(5,5+n)  J range(0,3n,3)
 *         V slice(array of 3n Ints, 0, 3n, 3)   (all of length n)
 *   n:    number of elements before the failing call (elements 10,20,30,... / keys 1..n)
 *   scenario: name of ONE invalid call (see run_scenario)
 * transcript:  <exception or ok or NA>;<same|CHANGED:before->after>;<usable|UNUSABLE:why>
 *   same/CHANGED: public dump (len + every element / binding / characters) before and after the call
 *   usable: afterwards a fixed sequence of valid operations behaves as on a fresh equal container      */
#include "Cello.h"
#include "hcommon.h"
#include <limits.h>

static char kind; static int64_t N;

static void dump_to(var c, char* buf, size_t cap) {
  size_t o = 0;
  #define PUT(...) do { if (o < cap) o += (size_t)snprintf(buf + o, cap - o, __VA_ARGS__); } while (0)
  switch (kind) {
    case 'A': case 'L': case 'U': {
      size_t n = len(c); PUT("#%zu[", n);
      for (size_t i = 0; i < n; i++) PUT("%s%" PRId64, i ? "," : "", (int64_t)c_int(get(c, $I(i))));
      PUT("]"); size_t k = 0; PUT("i[");
      foreach (e in c) { PUT("%s%" PRId64, k ? "," : "", (int64_t)c_int(e)); if (++k > n + 3) { PUT(",RUNAWAY"); break; } }
      PUT("]"); break; }
    case 'T': case 'R': {
      size_t n = len(c); PUT("#%zu{", n);
      for (int64_t k = -2; k <= N + 40; k++) { var kk = $I(k); if (mem(c, kk)) PUT("%" PRId64 "=%" PRId64 ",", k, (int64_t)c_int(get(c, kk))); }
      PUT("}"); size_t cnt = 0; foreach (e in c) { cnt++; if (cnt > n + 3) break; } PUT("i%zu", cnt); break; }
    case 'K': {
      size_t n = len(c); PUT("#%zu{", n);
      for (int64_t k = -2; k <= N + 40; k++) { char kb[32]; snprintf(kb, sizeof kb, "k%" PRId64, k); var kk = $S(kb); if (mem(c, kk)) PUT("%s=%s,", kb, c_str(get(c, kk))); }
      PUT("}"); break; }
    case 'S': case 'Z': PUT("#%zu\"%s\"", len(c), c_str(c)); break;
    case 'G': case 'H': case 'J': case 'V': { size_t n = len(c); PUT("#%zu[", n); size_t k = 0;
      foreach (e in c) { PUT("%s%" PRId64, k ? "," : "", (int64_t)c_int(e)); if (++k > n + 3) break; } PUT("]"); break; }
  }
}

static var build(void) {
  var c = NULL;
  switch (kind) {
    case 'A': c = new_raw(Array, Int); for (int64_t i = 1; i <= N; i++) push(c, $I(10 * i)); break;
    case 'L': c = new_raw(List, Int); for (int64_t i = 1; i <= N; i++) push(c, $I(10 * i)); break;
    case 'U': c = new_raw(Tuple); for (int64_t i = 1; i <= N; i++) push(c, new_raw(Int, $I(10 * i))); break;
    case 'T': c = new_raw(Table, Int, Int); for (int64_t i = 1; i <= N; i++) set(c, $I(i), $I(10 * i)); break;
    case 'R': c = new_raw(Tree, Int, Int); for (int64_t i = 1; i <= N; i++) set(c, $I(i), $I(10 * i)); break;
    case 'K': c = new_raw(Table, String, String);
      for (int64_t i = 1; i <= N; i++) { char kb[32], vb[32]; snprintf(kb, 32, "k%" PRId64, i); snprintf(vb, 32, "v%" PRId64, i); set(c, $S(kb), $S(vb)); } break;
    case 'S': { c = new_raw(String, $S("")); for (int64_t i = 0; i < N; i++) { char b[2] = { (char)('a' + (i % 3)), 0 }; append(c, $S(b)); } break; }
    case 'Z': {   /* a String that does NOT own its buffer (what $S(buf) builds): alloc class Stack over static storage */
      static struct { struct Header h; struct String s; } zobj[2]; static char zbuf[2][160]; static int zi;
      int j = zi++ & 1;
      for (int64_t i = 0; i < N; i++) zbuf[j][i] = (char)('a' + (i % 3));
      zbuf[j][N] = 0;
      c = header_init(&zobj[j].h, String, AllocStack);
      ((struct String*)c)->val = zbuf[j];
      break; }
    case 'G': c = new_raw(Range, $I(0), $I(N)); break;
    case 'H': c = new_raw(Range, $I(5), $I(5 + N)); break;
    case 'J': c = new_raw(Range, $I(0), $I(3 * N), $I(3)); break;
    case 'V': { var a = new_raw(Array, Int); for (int64_t i = 0; i < 3 * N; i++) push(a, $I(100 + i));
                c = new(Slice, a, $I(0), $I(3 * N), $I(3)); break; }   /* managed: a Slice owns a managed Range; kept alive from this frame */
  }
  return c;
}

/* returns 0 when the scenario does not apply to this kind (transcript NA) */
static int run_scenario(var c, const char* sc) {
  int seq = (kind == 'A' || kind == 'L' || kind == 'U'), map = (kind == 'T' || kind == 'R');
  #define IS(x) (strcmp(sc, x) == 0)
  int rng = (kind == 'G' || kind == 'H' || kind == 'J' || kind == 'V');
  if (seq || rng) {
    if (IS("get_wrap"))     { get(c, $I(0x5555555555555555LL)); return 1; }      /* 3*i wraps to -1 in int64 */
    if (IS("get_wrap2"))    { get(c, $I(0x2AAAAAAAAAAAAAABLL)); return 1; }      /* 3*i wraps to INT64_MIN+1 */
    if (IS("get_len"))      { get(c, $I(N)); return 1; }
    if (IS("get_neg"))      { get(c, $I(-N - 1)); return 1; }
    if (IS("get_far"))      { get(c, $I(N + 1000)); return 1; }
    if (IS("get_max"))      { get(c, $I(INT64_MAX)); return 1; }
    if (IS("get_min"))      { get(c, $I(INT64_MIN)); return 1; }
  }
  if (seq) {
    if (IS("set_len"))      { set(c, $I(N), $I(5)); return 1; }
    if (IS("set_neg"))      { set(c, $I(-N - 1), $I(5)); return 1; }
    if (IS("set_max"))      { set(c, $I(INT64_MAX), $I(5)); return 1; }
    if (IS("set_min"))      { set(c, $I(INT64_MIN), $I(5)); return 1; }
    if (IS("popat_len"))    { pop_at(c, $I(N)); return 1; }
    if (IS("popat_neg"))    { pop_at(c, $I(-N - 1)); return 1; }
    if (IS("popat_max"))    { pop_at(c, $I(INT64_MAX)); return 1; }
    if (IS("popat_min"))    { pop_at(c, $I(INT64_MIN)); return 1; }
    if (IS("pushat_far"))   { push_at(c, kind == 'U' ? new_raw(Int, $I(5)) : $I(5), $I(N + 2)); return 1; }
    if (IS("pushat_neg"))   { push_at(c, kind == 'U' ? new_raw(Int, $I(5)) : $I(5), $I(-N - 3)); return 1; }
    if (IS("pushat_max"))   { push_at(c, kind == 'U' ? new_raw(Int, $I(5)) : $I(5), $I(INT64_MAX)); return 1; }
    if (IS("pushat_min"))   { push_at(c, kind == 'U' ? new_raw(Int, $I(5)) : $I(5), $I(INT64_MIN)); return 1; }
    if (IS("pop_empty"))    { if (N != 0) return 0; pop(c); return 1; }
    if (IS("rem_absent"))   { rem(c, $I(7)); return 1; }
    if (IS("push_wrongtype") && kind != 'U') { push(c, $S("x")); return 1; }
    if (IS("pushat_wrongtype") && kind != 'U') { push_at(c, $S("x"), $I(0)); return 1; }
    if (IS("set_wrongtype") && kind != 'U') { if (N == 0) return 0; set(c, $I(0), $S("x")); return 1; }
    if (IS("concat_wrongtype") && kind != 'U') { concat(c, tuple($I(1), $S("x"), $I(2))); return 1; }
    if (IS("get_nullkey"))  { get(c, NULL); return 1; }
    if (IS("push_null") && kind != 'U') { push(c, NULL); return 1; }
    if (IS("get_wrongkey")) { get(c, $S("0")); return 1; }
    if (IS("sort_list") && kind == 'L') { sort(c); return 1; }
  }
  if (map || kind == 'K') {
    var absent = kind == 'K' ? $S("nokey") : $I(N + 7);
    if (IS("get_absent"))   { get(c, absent); return 1; }
    if (IS("rem_absent"))   { rem(c, absent); return 1; }
    if (IS("get_wrongkey")) { get(c, kind == 'K' ? $I(1) : $S("k1")); return 1; }
    if (IS("mem_wrongkey")) { mem(c, kind == 'K' ? $I(1) : $S("k1")); return 1; }
    if (IS("rem_wrongkey")) { rem(c, kind == 'K' ? $I(1) : $S("k1")); return 1; }
    if (IS("set_wrongkey")) { set(c, kind == 'K' ? $I(1) : $S("k1"), kind == 'K' ? $S("v") : $I(1)); return 1; }
    if (IS("set_wrongval")) { set(c, kind == 'K' ? $S("k1") : $I(1), kind == 'K' ? $I(1) : $S("v")); return 1; }
    if (IS("set_wrongval_new")) { set(c, kind == 'K' ? $S("zz") : $I(N + 9), kind == 'K' ? $I(1) : $S("v")); return 1; }
    if (IS("set_nullkey"))  { set(c, NULL, kind == 'K' ? $S("v") : $I(1)); return 1; }
    if (IS("set_nullval"))  { set(c, kind == 'K' ? $S("k1") : $I(1), NULL); return 1; }
    if (IS("get_nullkey"))  { get(c, NULL); return 1; }
    if (IS("resize_small")) { if (N < 2) return 0; resize(c, (size_t)(N - 1)); return 1; }
    if (IS("resize_tree") && kind == 'R') { resize(c, (size_t)(N + 5)); return 1; }
  }
  if (kind == 'S') {
    if (IS("rem_absent"))   { rem(c, $S("zzz")); return 1; }
    if (IS("rem_wrongtype")) { rem(c, $I(1)); return 1; }
    if (IS("mem_wrongtype")) { mem(c, $I(1)); return 1; }
    if (IS("concat_wrongtype")) { concat(c, $I(1)); return 1; }
    if (IS("assign_wrongtype")) { assign(c, $I(1)); return 1; }
    if (IS("assign_null"))  { assign(c, NULL); return 1; }
    if (IS("print_fewargs")) { print_to(c, 0, "%i and %i", $I(1)); return 1; }
    if (IS("print_fewargs_dollar")) { print_to(c, (int)N, "x%$y%$", $I(1)); return 1; }
  }
  if (kind == 'Z') {   /* every operation that would have to reallocate or free the borrowed buffer is refused */
    if (IS("stack_resize_shrink")) { if (N < 2) return 0; resize(c, (size_t)(N - 1)); return 1; }
    if (IS("stack_resize_one"))    { if (N < 1) return 0; resize(c, 1); return 1; }
    if (IS("stack_resize_same"))   { if (N < 1) return 0; resize(c, (size_t)N); return 1; }
    if (IS("stack_resize_grow"))   { resize(c, (size_t)(N + 5)); return 1; }
    if (IS("stack_resize_zero"))   { resize(c, 0); return 1; }
    if (IS("stack_concat"))        { concat(c, $S("xy")); return 1; }
    if (IS("stack_append"))        { append(c, $S("z")); return 1; }
    if (IS("stack_assign"))        { assign(c, $S("hello")); return 1; }
    if (IS("stack_print"))         { print_to(c, 0, "%i", $I(7)); return 1; }
    if (IS("stack_destruct"))      { destruct(c); return 1; }
  }
  if (IS("len_null"))       { len(NULL); return 1; }
  if (IS("unimplemented")) {
    if (kind == 'S') { push(c, $I(1)); return 1; }          /* String has no Push */
    if (rng) { push(c, $I(1)); return 1; }
    if (map || kind == 'K') { push(c, $I(1)); return 1; }
    if (seq) { c_int(c); return 1; }                        /* containers have no C_Int */
  }
  /* the class IS implemented but this member of it is NULL: reported as ClassError as well */
  if (IS("unimplemented_member")) {
    if (kind == 'S') { get(c, $I(0)); return 1; }                       /* String: Get without get/set */
    if (rng) { set(c, $I(0), $I(1)); return 1; }                        /* Range/Slice: Get without set/rem */
    if (seq) { look_from(c, $S("x"), 0); return 1; }                    /* containers: Show without look */
    if (map || kind == 'K') { look_from(c, $S("x"), 0); return 1; }
  }
  if (IS("unimplemented_member2")) {
    if (kind == 'S') { set(c, $I(0), $I(65)); return 1; }
    if (rng) { rem(c, $I(0)); return 1; }
    if (seq) { key_type(c); return 1; }                                 /* Get without key_type/val_type */
  }
  if (IS("cast_wrong"))     { cast(c, Int); return 1; }
  return 0;
}

/* after the failed call the container must still work: a fixed valid sequence gives the same
   result as on a freshly built equal container */
static void exercise(var c, char* buf, size_t cap) {
  switch (kind) {
    case 'A': case 'L': push(c, $I(77)); push_at(c, $I(66), $I(0)); if (len(c) > 2) pop_at(c, $I(1)); break;
    case 'U': push(c, new_raw(Int, $I(77))); if (len(c) > 1) pop_at(c, $I(0)); break;
    case 'T': case 'R': set(c, $I(N + 20), $I(5)); set(c, $I(1), $I(6)); if (mem(c, $I(2))) rem(c, $I(2)); break;
    case 'K': set(c, $S("k30"), $S("n")); set(c, $S("k1"), $S("m")); if (mem(c, $S("k2"))) rem(c, $S("k2")); break;
    case 'S': append(c, $S("xy")); if (mem(c, $S("xy"))) rem(c, $S("x")); break;
    case 'Z': if (mem(c, $S("b"))) rem(c, $S("b")); break;       /* rem works in place */
    default: break;
  }
  dump_to(c, buf, cap);
}

static void one_case(char* line) {
  char* s = line;
  char* k = next_tok(&s, ' '); char* n = next_tok(&s, ' '); char* sc = next_tok(&s, ' ');
  if (!k || !n || !sc) { P("BADCASE"); return; }
  kind = k[0]; N = strtoll(n, NULL, 10);
  static char before[8192], after[8192], ex1[8192], ex2[8192];
  var c = build();
  dump_to(c, before, sizeof before);
  const char* res = "ok"; int applies = 1;
  try { applies = run_scenario(c, sc); } catch (e) { res = exn_name(e); }
  if (!applies) { P("NA;same;usable"); return; }
  dump_to(c, after, sizeof after);
  P("%s;", res);
  if (strcmp(before, after) == 0) P("same;"); else P("CHANGED:%s->%s;", before, after);
  fflush(OUT);
  /* usability */
  var f = build();
  const char* r1 = "ok"; const char* r2 = "ok";
  try { exercise(c, ex1, sizeof ex1); } catch (e) { r1 = exn_name(e); }
  try { exercise(f, ex2, sizeof ex2); } catch (e) { r2 = exn_name(e); }
  if (strcmp(res, "ok") == 0) P("usable");      /* the call did not fail: nothing to demand here */
  else if (strcmp(r1, r2) != 0) P("UNUSABLE:%s vs %s", r1, r2);
  else if (strcmp(ex1, ex2) != 0) P("UNUSABLE:%s vs %s", ex1, ex2);
  else P("usable");
}

int main(int argc, char** argv) {
  run_all_cases(one_case);
  return 0;
}
