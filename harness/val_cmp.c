/* val_cmp.c — correspondence harness for cmp and its predicates (C09), black-box: the values
 * are built through the public API and compared with cmp / eq / neq / lt / gt / le / ge.
 * Input and transcript formats: see ocaml/Cmp_driver.ml.
 *   Int_Cmp, Float_Cmp and the container comparisons are printed as returned (the C text fixes
 *   -1/0/1); strcmp / memcmp results (String, Type, plain structs) are printed by sign. */
#include "Cello.h"
#include "hcommon.h"
#include <setjmp.h>
#include <sys/time.h>

static const char* P0;      /* parse cursor */
static int bad;             /* construction failed */

static int hexv(char c) { return c >= '0' && c <= '9' ? c - '0' : c >= 'a' && c <= 'f' ? c - 'a' + 10 : -1; }

/* hex bytes -> malloc'ed buffer (NUL terminated), returns length */
static size_t take_hex(unsigned char** out) {
  size_t n = 0; const char* b = P0;
  while (hexv(P0[0]) >= 0 && hexv(P0[1]) >= 0) { P0 += 2; n++; }
  unsigned char* buf = calloc(n + 1, 1);
  for (size_t i = 0; i < n; i++) buf[i] = (unsigned char)(hexv(b[2*i]) * 16 + hexv(b[2*i+1]));
  *out = buf;
  return n;
}

/* built-in types by name, so that `t<name>` can denote the real objects.  Each built-in object is
 * handed out once per case (later occurrences of the name get a fresh Type object of that name):
 * a Tuple holding the same pointer twice cannot be iterated (finding F3 of C11, not this property). */
static var builtin_type(const char* name) {
  static int used[32];
  var ts[] = { Int, Float, String, Type, Tuple, Array, List, Tree, Table, Ref, Box, Range, Slice, File, Cmp, Hash, NULL };
  for (int i = 0; ts[i]; i++) if (strcmp(c_str(ts[i]), name) == 0) {
    if (used[i]) return NULL;
    used[i] = 1;
    return ts[i];
  }
  return NULL;
}

/* plain struct types without any instance: one per (tid, size) */
#define MAXST 64
static struct { long tid; size_t size; var type; } sts[MAXST]; static int nst;
static var struct_type(long tid, size_t size) {
  for (int i = 0; i < nst; i++) if (sts[i].tid == tid && sts[i].size == size) return sts[i].type;
  char nm[64]; snprintf(nm, sizeof nm, "Blob%ld_%zu", tid, size);
  var name = new_raw(String, $S(nm));                  /* Type_New keeps the pointer: never freed */
  var t = new_raw(Type, name, $I((int64_t)size));
  if (nst < MAXST) { sts[nst].tid = tid; sts[nst].size = size; sts[nst].type = t; nst++; }
  return t;
}

static var parse_value(void);

static size_t parse_items(var* items, size_t max, int pairs) {
  size_t n = 0;
  if (*P0 != '(') { bad = 1; return 0; }
  P0++;
  if (*P0 == ')') { P0++; return 0; }
  while (1) {
    if (n + 2 > max) { bad = 1; return n; }
    items[n++] = parse_value();
    if (bad) return n;
    if (pairs) {
      if (*P0 != ':') { bad = 1; return n; }
      P0++;
      items[n++] = parse_value();
      if (bad) return n;
    }
    if (*P0 == ',') { P0++; continue; }
    if (*P0 == ')') { P0++; return n; }
    bad = 1; return n;
  }
}

#define MAXITEMS 256
static var parse_value(void) {
  char c = *P0++;
  switch (c) {
    case 'i': { char* e; long long v = strtoll(P0, &e, 10); P0 = e; return new_raw(Int, $I(v)); }
    case 'f': { char* e; unsigned long long b = strtoull(P0, &e, 16); P0 = e;
                double d; uint64_t u = b; memcpy(&d, &u, 8); return new_raw(Float, $F(d)); }
    case 's': { unsigned char* b; take_hex(&b); return new_raw(String, $S((char*)b)); }
    case 't': { unsigned char* b; take_hex(&b);
                var bt = builtin_type((char*)b);
                if (bt) return bt;
                var name = new_raw(String, $S((char*)b));
                return new_raw(Type, name, $I(8)); }
    case 'b': { char* e; long tid = strtol(P0, &e, 10); P0 = e;
                if (*P0 != '.') { bad = 1; return NULL; }
                P0++;
                unsigned char* b; size_t n = take_hex(&b);
                var t = struct_type(tid, n);
                var o = alloc_raw(t);
                memcpy(o, b, n);
                return o; }
    case 'A': case 'L': {
      var items[MAXITEMS]; size_t n = parse_items(items, MAXITEMS, 0);
      if (bad) return NULL;
      var et = n ? type_of(items[0]) : Int;
      var s = new_raw_with(c == 'A' ? Array : List, tuple(et));
      for (size_t i = 0; i < n; i++) push(s, items[i]);
      return s; }
    case 'T': {
      var items[MAXITEMS]; size_t n = parse_items(items, MAXITEMS, 0);
      if (bad) return NULL;
      var s = new_raw(Tuple);
      for (size_t i = 0; i < n; i++) push(s, items[i]);
      return s; }
    case 'M': {
      var items[MAXITEMS]; size_t n = parse_items(items, MAXITEMS, 1);
      if (bad) return NULL;
      var s = n ? new_raw(Tree, type_of(items[0]), type_of(items[1])) : new_raw(Tree, Int, Int);
      for (size_t i = 0; i + 1 < n; i += 2) set(s, items[i], items[i+1]);
      return s; }
    default: bad = 1; return NULL;
  }
}

/* P(v,v,@0,...): a heap Tuple built by push; @j pushes the very pointer of slot j again */
static var parse_ptuple(void) {
  var items[MAXITEMS]; size_t n = 0;
  P0 += 2;
  if (*P0 == ')') { P0++; return new_raw(Tuple); }
  while (1) {
    if (n + 1 > MAXITEMS) { bad = 1; return NULL; }
    if (*P0 == '@') {
      char* e; long j = strtol(P0 + 1, &e, 10); P0 = e;
      if (j < 0 || (size_t)j >= n) { bad = 1; return NULL; }
      items[n++] = items[j];
    } else {
      items[n++] = parse_value();
      if (bad) return NULL;
    }
    if (*P0 == ',') { P0++; continue; }
    if (*P0 == ')') { P0++; break; }
    bad = 1; return NULL;
  }
  var s = new_raw(Tuple);
  for (size_t i = 0; i < n; i++) push(s, items[i]);
  return s;
}

static var build(char* tok) {
  var v = NULL;
  P0 = tok; bad = 0;
  try { v = (tok[0] == 'P' && tok[1] == '(') ? parse_ptuple() : parse_value(); } catch (e) { bad = 1; }
  if (*P0 != 0) bad = 1;
  return bad ? NULL : v;
}

static int by_sign(var a) {
  var t = type_of(a);
  return t is String or t is Type or not type_implements(t, Cmp);
}

/* per-comparison guard: a cmp/eq/... call that burns more than PAIR_MS of CPU time is reported as the
 * field "TIMEOUT" (non-termination of the comparison loop) and the case goes on with the next pair.
 * ITIMER_VIRTUAL / SIGVTALRM, so the whole-case watchdog of hcommon.h (alarm) stays armed. */
#define PAIR_MS 150
static sigjmp_buf pair_jmp;
static void pair_alarm(int sig) { (void)sig; siglongjmp(pair_jmp, 1); }
static void pair_timer(int ms) {
  struct itimerval it; memset(&it, 0, sizeof it);
  it.it_value.tv_sec = ms / 1000; it.it_value.tv_usec = (ms % 1000) * 1000;
  setitimer(ITIMER_VIRTUAL, &it, NULL);
}
static void pair_body(var a, var b);
static void pair(var a, var b) {
  signal(SIGVTALRM, pair_alarm);
  if (sigsetjmp(pair_jmp, 1)) { P("TIMEOUT"); return; }
  pair_timer(PAIR_MS);
  pair_body(a, b);
  pair_timer(0);
}

static void pair_body(var a, var b) {
  /* the field is printed only when complete */
  char buf[64]; int n = 0;
  volatile int r = 0; volatile int raised = 0;
  try { r = cmp(a, b); } catch (e) { raised = 1; }
  if (raised) { P("raise"); return; }
  int rr = r;
  if (by_sign(a)) rr = r < 0 ? -1 : r > 0 ? 1 : 0;
  n += snprintf(buf + n, sizeof buf - n, "%d:", rr);
  const char* names = "enlgLG";
  for (int i = 0; i < 6; i++) {
    volatile int v = 0; volatile int ex = 0;
    try {
      switch (names[i]) {
        case 'e': v = eq(a, b); break;   case 'n': v = neq(a, b); break;
        case 'l': v = lt(a, b); break;   case 'g': v = gt(a, b); break;
        case 'L': v = le(a, b); break;   case 'G': v = ge(a, b); break;
      }
    } catch (e) { ex = 1; }
    n += snprintf(buf + n, sizeof buf - n, "%s", ex ? "x" : v ? "1" : "0");
  }
  P("%s", buf);
}

static void one_case(char* line) {
  char* s = line; char* kind = next_tok(&s, ' ');
  char* sort = next_tok(&s, ' ');
  if (!kind || !sort) { P("BADCASE"); return; }
  if (strcmp(kind, "C") == 0) {
    var v[3]; int n = 0; char* tok;
    while (n < 3 && (tok = next_tok(&s, ' ')) != NULL) {
      v[n] = build(tok);
      if (!v[n]) { P("BADVALUE"); return; }
      n++;
    }
    if (n != 3) { P("BADCASE"); return; }
    for (int i = 0; i < 3; i++) for (int j = 0; j < 3; j++) {
      if (i or j) P(" ");
      pair(v[i], v[j]);
    }
    return;
  }
  if (strcmp(kind, "K") == 0) {
    var keys[MAXITEMS]; int n = 0; char* tok;
    while (n < MAXITEMS && (tok = next_tok(&s, ' ')) != NULL) {
      keys[n] = build(tok);
      if (!keys[n]) { P("BADVALUE"); return; }
      n++;
    }
    if (n == 0) { P("BADCASE"); return; }
    volatile int failed = 0;
    var t = new_raw(Tree, type_of(keys[0]), Int);
    try { for (int i = 0; i < n; i++) set(t, keys[i], $I(i)); } catch (e) { failed = 1; }
    if (failed) { P("BADVALUE"); return; }
    for (int i = 0; i < n; i++) {
      if (i) P(" ");
      volatile int64_t r = -1; volatile int st = 0;
      try {
        if (mem(t, keys[i])) r = c_int(get(t, keys[i])); else st = 1;
      } catch (e) { st = 2; }
      if (st == 0) P("%" PRId64, (int64_t)r); else P(st == 1 ? "none" : "raise");
    }
    if (strcmp(sort, "I") == 0 or strcmp(sort, "S") == 0) {
      /* the same keys in a Table (its lookups go through eq) */
      var h = new_raw(Table, type_of(keys[0]), Int);
      volatile int tf = 0;
      try { for (int i = 0; i < n; i++) set(h, keys[i], $I(i)); } catch (e) { tf = 1; }
      P(" |");
      for (int i = 0; i < n; i++) {
        volatile int64_t r = -1; volatile int st = tf ? 2 : 0;
        if (!tf) {
          try {
            if (mem(h, keys[i])) r = c_int(get(h, keys[i])); else st = 1;
          } catch (e) { st = 2; }
        }
        if (st == 0) P(" %" PRId64, (int64_t)r); else P(st == 1 ? " none" : " raise");
      }
    }
    return;
  }
  P("BADCASE");
}

int main(int argc, char** argv) {
  run_all_cases(one_case);
  return 0;
}
