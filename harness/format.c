/* format.c — correspondence harness for print formatting (C14).
 * One case per line:   <pos>|<init>|<fmt>|<items>|<args>      (see ocaml/Format_driver.ml)
 *   args: ';'-separated   i<dec> Int | f<16 hex digits: bit pattern> Float | s<hex> String |
 *         p<hex> raw pointer value (only for %p, never dereferenced) |
 *         A<e,e,..> Array  l<e,e,..> List  t<e,e,..> Tuple  (e = i../f../s..) | T<k=v,k=v> Table | R<k=v,..> Tree
 *   The k-th argument-consuming item (C.. or D) gets the k-th argument.
 * Transcript (sections separated by " | "):
 *   R:<hex>;<hex>;...      reference text per ITEM, computed with libc only: literal itself, "%" for P,
 *                          snprintf(one specification, the C value the property assigns) for C,
 *                          show_to(arg, fresh String, 0) for D; '-' when the item has no argument
 *   W:<hex>|-              libc's snprintf of the WHOLE format in one call (only when every specification takes the
 *                          same C type, at most 8 of them; %$ stands as %s with the show text); '-' otherwise
 *   S:<exn>:<ret>:<cstr>:<seg>   print_to_with on a heap String holding <init>, at <pos>:
 *                          exn = ok | exception name; cstr = the String's C string afterwards;
 *                          seg = raw bytes [pos,ret) of its buffer (what was written), empty unless ok
 *   F:<exn>:<ret>:<hex>    print_to_with on a File already holding <init>; hex = the file read back
 *   C:<exn>:<ret>:<calls>  print_to_with on a recording sink: F<pos>.<piecehex> per format_to call,
 *                          S<pos>.<arg#> per show_to call (arguments of %$ are probe objects here)
 *   E:<item#>=<hex>,<hex>..;..   for every container argument of a %$ item: its elements' own show
 *                          texts in iteration order (Table: key text ':' value text)
 * Heap addresses inside show texts are masked (hex digits -> 'P', same length). */
#include "Cello.h"
#include "hcommon.h"
#include <stddef.h>
#include <stdarg.h>
#include <sys/types.h>

#define MAXI 64

struct Arg {
  char kind;          /* i f s p A l t T R */
  int64_t iv; double dv; char* sv; void* pv;
  var obj;            /* the Cello object handed to print_to */
};
struct Item {
  char kind;          /* L P C D */
  char* text;         /* literal bytes / full specification */
  size_t tlen;
  char conv; char len[4];
  int arg;            /* index of its argument or -1 */
  char* ref; size_t rlen;   /* reference text */
};

static struct Item items[MAXI]; static int nitems;
static struct Arg args[MAXI]; static int nargs;
static var masked[MAXI * 8]; static int nmasked;

static size_t unhex(const char* h, char** out) {
  size_t n = strlen(h) / 2;
  char* b = malloc(n + 1);
  for (size_t i = 0; i < n; i++) { unsigned v; sscanf(h + 2 * i, "%2x", &v); b[i] = (char)v; }
  b[n] = 0; *out = b; return n;
}
static void phex(const char* b, size_t n) {
  for (size_t i = 0; i < n; i++) P("%02x", (unsigned char)b[i]);
}
static void mask(char* b, size_t n) {
  char pb[64];
  for (int k = 0; k < nmasked; k++) {
    int pl = snprintf(pb, sizeof pb, "%p", masked[k]);
    if (pl < 3) continue;
    for (size_t i = 0; i + pl <= n; i++)
      if (memcmp(b + i, pb, pl) == 0) { for (int j = 2; j < pl; j++) b[i + j] = 'P'; }
  }
}

static var mkscalar(char* d, struct Arg* a) {
  a->kind = d[0];
  switch (d[0]) {
    case 'i': a->iv = (int64_t)strtoll(d + 1, NULL, 10); return new_raw(Int, $I(a->iv));
    case 'f': { uint64_t b = strtoull(d + 1, NULL, 16); memcpy(&a->dv, &b, 8); return new_raw(Float, $F(a->dv)); }
    case 's': { unhex(d + 1, &a->sv); return new_raw(String, $S(a->sv)); }
  }
  return NULL;
}
static var elem_type(char* d) { return d[0] == 'i' ? Int : d[0] == 'f' ? Float : String; }

static void mkarg(char* d, struct Arg* a) {
  a->kind = d[0];
  if (d[0] == 'i' || d[0] == 'f' || d[0] == 's') { a->obj = mkscalar(d, a); return; }
  if (d[0] == 'p') { a->pv = (void*)(uintptr_t)strtoull(d + 1, NULL, 16); a->obj = a->pv; return; }
  char* s = d + 1; char* tok; struct Arg tmp;
  if (d[0] == 'A' || d[0] == 'l') {
    var c = new_raw_with(d[0] == 'A' ? Array : List, tuple(*s ? elem_type(s) : Int));
    while ((tok = next_tok(&s, ',')) != NULL) push(c, mkscalar(tok, &tmp));
    a->obj = c; masked[nmasked++] = c; return;
  }
  if (d[0] == 't') {
    var c = new_raw(Tuple);
    while ((tok = next_tok(&s, ',')) != NULL) push(c, mkscalar(tok, &tmp));
    a->obj = c; return;
  }
  if (d[0] == 'T' || d[0] == 'R') {
    var c = NULL;
    while ((tok = next_tok(&s, ',')) != NULL) {
      char* eq = strchr(tok, '='); if (!eq) continue; *eq = 0;
      if (!c) c = new_raw_with(d[0] == 'T' ? Table : Tree, tuple(elem_type(tok), elem_type(eq + 1)));
      struct Arg t2;
      set(c, mkscalar(tok, &tmp), mkscalar(eq + 1, &t2));
    }
    if (!c) c = new_raw_with(d[0] == 'T' ? Table : Tree, tuple(Int, Int));
    a->obj = c; masked[nmasked++] = c; return;
  }
  a->obj = NULL;
}

#define RENDER(it, expr) do { int n_ = snprintf(NULL, 0, (it)->text, expr); if (n_ < 0) n_ = 0; \
  (it)->ref = malloc((size_t)n_ + 1); snprintf((it)->ref, (size_t)n_ + 1, (it)->text, expr); (it)->rlen = (size_t)n_; } while (0)

/* libc applied to ONE specification with the C value the property assigns to the conversion */
static void reference(struct Item* it, struct Arg* a) {
  const char* l = it->len; char c = it->conv;
  if (strchr("di", c)) {
    if (!strcmp(l, "l")) RENDER(it, (long)a->iv);
    else if (!strcmp(l, "ll")) RENDER(it, (long long)a->iv);
    else if (!strcmp(l, "j")) RENDER(it, (intmax_t)a->iv);
    else if (!strcmp(l, "z")) RENDER(it, (ssize_t)a->iv);
    else if (!strcmp(l, "t")) RENDER(it, (ptrdiff_t)a->iv);
    else RENDER(it, (int)a->iv);
  } else if (strchr("uoxX", c)) {
    if (!strcmp(l, "l")) RENDER(it, (unsigned long)a->iv);
    else if (!strcmp(l, "ll")) RENDER(it, (unsigned long long)a->iv);
    else if (!strcmp(l, "j")) RENDER(it, (uintmax_t)a->iv);
    else if (!strcmp(l, "z")) RENDER(it, (size_t)a->iv);
    else if (!strcmp(l, "t")) RENDER(it, (size_t)a->iv);
    else RENDER(it, (unsigned)a->iv);
  } else if (c == 'c') RENDER(it, (int)a->iv);
  else if (strchr("fFeEgGaA", c)) RENDER(it, a->dv);
  else if (c == 's') RENDER(it, a->sv);
  else if (c == 'p') RENDER(it, a->pv);
  else { it->ref = strdup("?"); it->rlen = 1; }
}

static char* show_text(var obj, size_t* n) {
  var t = new_raw(String);
  show_to(obj, t, 0);
  char* r = strdup(c_str(t)); *n = strlen(r);
  mask(r, *n);
  return r;
}

/* recording sink and probe argument */
static char* rec; static size_t reclen, reccap;
static void rec_add(const char* s, size_t n) {
  if (reclen + n + 1 > reccap) { reccap = (reclen + n + 1) * 2; rec = realloc(rec, reccap); }
  memcpy(rec + reclen, s, n); reclen += n; rec[reclen] = 0;
}
struct Rec { int unused; };
static int Rec_Format_To(var self, int pos, const char* fmt, va_list va) {
  char hd[32]; int k = snprintf(hd, sizeof hd, "%sF%d.", reclen ? "," : "", pos);
  rec_add(hd, (size_t)k);
  for (const char* p = fmt; *p; p++) { char h[3]; snprintf(h, 3, "%02x", (unsigned char)*p); rec_add(h, 2); }
  return vsnprintf(NULL, 0, fmt, va);
}
static int Rec_Format_From(var self, int pos, const char* fmt, va_list va) { return 0; }
static var Rec = Cello(Rec, Instance(Format, Rec_Format_To, Rec_Format_From));

struct PV { int id; int n; };
static int PV_Show(var self, var out, int pos) {
  struct PV* p = self;
  char hd[48]; int k = snprintf(hd, sizeof hd, "%sS%d.%d", reclen ? "," : "", pos, p->id);
  rec_add(hd, (size_t)k);
  return pos + p->n;
}
static var PV = Cello(PV, Instance(Show, PV_Show, NULL));

static var mktuple(var* objs, int n) {
  var* it = malloc(sizeof(var) * (size_t)(n + 1));
  for (int i = 0; i < n; i++) it[i] = objs[i];
  it[n] = Terminal;
  struct Tuple* t = new_raw(Tuple);
  free(t->items);
  t->items = it;
  return t;
}

static void one_case(char* line) {
  char* f[5]; char* s = line;
  for (int i = 0; i < 5; i++) { f[i] = next_tok(&s, '|'); if (!f[i]) f[i] = (char*)""; }
  int pos = atoi(f[0]);
  char* init; size_t ninit = unhex(f[1], &init);
  char* fmt; unhex(f[2], &fmt);
  nitems = 0; nargs = 0; nmasked = 0;
  /* arguments */
  { char* a = f[4]; char* tok; while ((tok = next_tok(&a, ';')) != NULL && nargs < MAXI) { mkarg(tok, &args[nargs]); nargs++; } }
  /* items */
  { char* a = f[3]; char* tok; int k = 0;
    while ((tok = next_tok(&a, ';')) != NULL && nitems < MAXI) {
      struct Item* it = &items[nitems++];
      memset(it, 0, sizeof *it);
      it->kind = tok[0]; it->arg = -1;
      if (tok[0] == 'L') it->tlen = unhex(tok + 1, &it->text);
      else if (tok[0] == 'P') { it->text = strdup("%%"); it->tlen = 2; }
      else if (tok[0] == 'D') { it->text = strdup("%$"); it->tlen = 2; it->arg = k++; }
      else if (tok[0] == 'C') {
        char* p = tok + 1; char* part[5]; char spec[4096]; size_t sl = 0;
        spec[sl++] = '%';
        for (int j = 0; j < 5; j++) {
          char* h = next_tok(&p, ','); if (!h) h = (char*)"";
          /* next_tok skips nothing for empty fields: handle ",," by hand */
          part[j] = h;
        }
        for (int j = 0; j < 5; j++) {
          char* b; size_t n = unhex(part[j], &b);
          if (j == 3) { strncpy(it->len, b, 3); }
          if (j == 4) it->conv = b[0];
          memcpy(spec + sl, b, n); sl += n;
        }
        spec[sl] = 0; it->text = strdup(spec); it->tlen = sl; it->arg = k++;
      }
    }
  }
  /* references */
  P("R:");
  for (int i = 0; i < nitems; i++) {
    struct Item* it = &items[i];
    if (i) P(";");
    if (it->kind == 'L') { it->ref = it->text; it->rlen = it->tlen; }
    else if (it->kind == 'P') { it->ref = (char*)"%"; it->rlen = 1; }
    else if (it->arg >= nargs) { it->ref = NULL; P("-"); continue; }
    else if (it->kind == 'C') reference(it, &args[it->arg]);
    else it->ref = show_text(args[it->arg].obj, &it->rlen);
    phex(it->ref, it->rlen);
  }
  /* whole-format reference: ONE snprintf call on the entire format (%$ replaced by %s with the show text),
     possible in portable C when all specifications take the same C type and there are at most 8 */
  {
    char cls = 0; int ok = 1, ncons = 0;
    for (int i = 0; i < nitems && ok; i++) {
      struct Item* it = &items[i]; char c = 0;
      if (it->kind == 'D') c = 'S';
      else if (it->kind == 'C') {
        const char* l = it->len;
        int narrow = !l[0] || !strcmp(l, "h") || !strcmp(l, "hh");
        if (strchr("dic", it->conv)) c = narrow ? 'I' : !strcmp(l, "l") ? 'L' : 'x';
        else if (strchr("uoxX", it->conv)) c = narrow ? 'U' : !strcmp(l, "l") ? 'M' : 'x';
        else if (strchr("fFeEgGaA", it->conv)) c = 'D';
        else if (it->conv == 's') c = 'S';
        else if (it->conv == 'p') c = 'P';
      } else continue;
      if (it->arg < 0 || it->arg >= nargs || c == 'x') { ok = 0; break; }
      if (cls && cls != c) { ok = 0; break; }
      cls = c; ncons++;
    }
    if (!ok || ncons > 8 || ncons == 0) P(" | W:-");
    else {
      size_t fl = 0; for (int i = 0; i < nitems; i++) fl += items[i].tlen;
      char* wf = malloc(fl + 1); size_t o = 0;
      int64_t iv[8] = {0}; double dv[8] = {0}; const char* sv[8] = {0}; void* pv[8] = {0}; int k = 0;
      for (int i = 0; i < nitems; i++) {
        struct Item* it = &items[i];
        if (it->kind == 'D') { wf[o++] = '%'; wf[o++] = 's'; sv[k++] = it->ref; continue; }
        memcpy(wf + o, it->text, it->tlen); o += it->tlen;
        if (it->kind == 'C') { struct Arg* a = &args[it->arg]; iv[k] = a->iv; dv[k] = a->dv; sv[k] = a->sv; pv[k] = a->pv; k++; }
      }
      wf[o] = 0;
      int n = -1; char* b = NULL;
#define WHOLE(T, A) do { n = snprintf(NULL, 0, wf, (T)A[0], (T)A[1], (T)A[2], (T)A[3], (T)A[4], (T)A[5], (T)A[6], (T)A[7]); \
        if (n >= 0) { b = malloc((size_t)n + 1); snprintf(b, (size_t)n + 1, wf, (T)A[0], (T)A[1], (T)A[2], (T)A[3], (T)A[4], (T)A[5], (T)A[6], (T)A[7]); } } while (0)
      switch (cls) {
        case 'I': WHOLE(int, iv); break;
        case 'U': WHOLE(unsigned, iv); break;
        case 'L': WHOLE(long, iv); break;
        case 'M': WHOLE(unsigned long, iv); break;
        case 'D': WHOLE(double, dv); break;
        case 'S': WHOLE(const char*, sv); break;
        case 'P': WHOLE(void*, pv); break;
      }
      P(" | W:");
      if (n >= 0) phex(b, (size_t)n); else P("-");
    }
  }
  var objs[MAXI];
  for (int i = 0; i < nargs; i++) objs[i] = args[i].obj;

  /* String sink */
  {
    var tup = mktuple(objs, nargs);
    var str = new_raw(String, $S(init));
    int ret = -1; const char* ex = "ok";
    try { ret = print_to_with(str, pos, fmt, tup); }
    catch (e) { ex = exn_name(e); ret = -1; }
    char* v = c_str(str);
    P(" | S:%s:%d:", ex, ret);
    { size_t n = strlen(v); char* cp = malloc(n + 1); memcpy(cp, v, n); mask(cp, n); phex(cp, n); }
    P(":");
    if (ret >= 0 && ret >= pos) {     /* the segment [pos,ret) lies inside the buffer of pos+size+1 bytes */
      size_t m = (size_t)(ret - pos); char* tp = malloc(m + 1); memcpy(tp, v + pos, m); mask(tp, m); phex(tp, m);
    }
  }
  /* File sink */
  {
    var tup = mktuple(objs, nargs);
    FILE* fp = NULL;
    const char* dir = getenv("H_TMPDIR");
    char path[512];
    if (dir) { snprintf(path, sizeof path, "%s/fmt_%d", dir, (int)getpid()); fp = fopen(path, "w+b"); }
    if (!fp) fp = tmpfile();
    if (!fp) { P(" | F:NOFILE"); }
    else {
      fwrite(init, 1, ninit, fp);
      int ret = -1; const char* ex = "ok";
      try { ret = print_to_with($(File, fp), pos, fmt, tup); }
      catch (e) { ex = exn_name(e); ret = -1; }
      fflush(fp);
      long sz = ftell(fp);
      rewind(fp);
      char* b = malloc((size_t)sz + 1);
      size_t n = fread(b, 1, (size_t)sz, fp);
      mask(b, n);
      P(" | F:%s:%d:", ex, ret); phex(b, n);
      fclose(fp);
      if (dir) remove(path);
    }
  }
  /* recording sink; %$ arguments replaced by probes that know the length of their show text */
  {
    var robjs[MAXI];
    for (int i = 0; i < nargs; i++) robjs[i] = objs[i];
    for (int i = 0; i < nitems; i++) {
      struct Item* it = &items[i];
      if (it->kind == 'D' && it->arg >= 0 && it->arg < nargs) {
        struct PV* p = new_raw_with(PV, tuple()); p->id = it->arg; p->n = (int)it->rlen; robjs[it->arg] = p;
      }
    }
    var tup = mktuple(robjs, nargs);
    var r = new_raw_with(Rec, tuple());
    rec = malloc(64); reccap = 64; reclen = 0; rec[0] = 0;
    int ret = -1; const char* ex = "ok";
    try { ret = print_to_with(r, pos, fmt, tup); }
    catch (e) { ex = exn_name(e); ret = -1; }
    P(" | C:%s:%d:%s", ex, ret, rec);
  }
  /* elements of container arguments shown by %$ */
  {
    int first = 1;
    P(" | E:");
    for (int i = 0; i < nitems; i++) {
      struct Item* it = &items[i];
      if (it->kind != 'D' || it->arg < 0 || it->arg >= nargs) continue;
      struct Arg* a = &args[it->arg];
      if (!strchr("AltTR", a->kind)) continue;
      if (!first) P(";");
      first = 0;
      P("%d=", i);
      int fe = 1;
      foreach (e in a->obj) {
        size_t n; char* t = show_text(e, &n);
        if (!fe) P(",");
        fe = 0;
        phex(t, n);
        if (a->kind == 'T' || a->kind == 'R') { P("3a"); t = show_text(get(a->obj, e), &n); phex(t, n); }
      }
    }
  }
}

int main(int argc, char** argv) {
  run_all_cases(one_case);
  return 0;
}
