"""genx_hdr.py — data for property C19 (coq/Header.v) re-extracted from the C sources.

Everything the finite case analysis of Header.v relies on that is *data or a tiny rule* in
the C text:

  hdr_alloc_enum      enum { AllocStatic = 0x01, ... }                      (include/Cello.h)
  hdr_sites           every header_init(head, <type expr>, <class>) call site of src/*.c and of
                      the alloc_stack macro, as (function, type expression, class code)
  hdr_static_code     class word of statically declared objects (CELLO_ALLOC_HEADER in Cello(...))
  hdr_dollar_via_alloc_stack   `$` is memcpy(alloc_stack(T), ...): body copy never touches the header
  hdr_static_type_null / hdr_typeof_null_is_type   Cello(...) stores NULL, Type_Of turns it into Type
  hdr_dealloc_refuses class codes dealloc refuses with ResourceError, in source order, and
  hdr_dealloc_check_first      ... all of them before the scribble loop and before free()
  hdr_dealloc_custom_first     a type's own Alloc.dealloc is consulted first
  hdr_del_by_gc       del / del_root hand the object to rem(current(GC), .) when the collector is compiled in
  hdr_del_by_checks_first      del_by refuses non-heap objects before destruct() runs
  hdr_alloc_by        what alloc_by registers: (method, Some root-flag | None)
  hdr_guards          for every function of String.c / Tuple.c that passes the object's buffer
                      (s->val / t->items) to free or realloc: (name, classes refused with
                      ValueError before the first free/realloc/memmove)
  hdr_copy_default_allocs      copy() = assign(alloc(type_of(self)), self) unless the type overrides Copy
  hdr_sweep_rule      GC_Sweep releases exactly the entries that are neither root nor marked
  hdr_rem_releases    GC_Rem_Ptr releases the entry it removes (dealloc(destruct(.))) and returns

A pattern that no longer matches emits None (= broken obligation).  A *rule that changed but is
still recognisable* (e.g. Array_Alloc tagging AllocHeap, a guard moved below the realloc) emits the
changed value, the vm_compute proofs in HeaderProofs.v then fail.
"""
import re, os, glob


def coq_str(s):
    return '"' + s.replace('"', '""') + '"'


def generate(repo, emit, src, func_body):
    h = src('include/Cello.h')
    # ---------------------------------------------------------------- enum of allocation classes
    m = re.search(r'enum\s*\{\s*(AllocStatic[^}]*)\}', h)
    enum = {}
    if m:
        for nm, val in re.findall(r'(Alloc\w+)\s*=\s*(0x[0-9a-fA-F]+|\d+)', m.group(1)):
            enum[nm] = int(val, 0)
    if set(enum) >= {'AllocStatic', 'AllocStack', 'AllocHeap', 'AllocData'}:
        emit('hdr_alloc_enum', 'Definition hdr_alloc_enum : list (string * nat) := [%s]%%string.' %
             '; '.join('(%s, %d)' % (coq_str(k), v) for k, v in enum.items()))
    else:
        emit('hdr_alloc_enum', None)
        return

    for nm in ('Static', 'Stack', 'Heap', 'Data'):
        emit('hdr_code_' + nm.lower(), 'Definition hdr_code_%s : nat := %d.' % (nm.lower(), enum['Alloc' + nm]))

    def code(name):
        return enum.get(name)

    EXN = {'ResourceError': 0, 'ValueError': 1}

    # ---------------------------------------------------------------- header_init call sites
    sites = []
    ok = True
    for f in sorted(glob.glob(os.path.join(repo, 'src', '*.c'))):
        s = src(os.path.join('src', os.path.basename(f)))
        # function starts, to attribute a call to its enclosing function
        starts = [(mm.start(), mm.group(1)) for mm in
                  re.finditer(r'^(?:static\s+)?[A-Za-z_][\w\s\*]*?\b([A-Za-z_]\w*)\s*\([^;{]*\)\s*\{', s, re.M)]
        for mm in re.finditer(r'header_init\s*\(', s):
            # parse the three arguments with parenthesis matching
            i = mm.end(); depth = 1; args = ['']
            while i < len(s) and depth:
                c = s[i]
                if c == '(':
                    depth += 1
                elif c == ')':
                    depth -= 1
                    if depth == 0:
                        break
                if c == ',' and depth == 1:
                    args.append('')
                else:
                    args[-1] += c
                i += 1
            args = [re.sub(r'\s+', ' ', a).strip() for a in args]
            fn = '?'
            for pos, name in starts:
                if pos < mm.start():
                    fn = name
            if fn == 'header_init':      # the definition itself
                continue
            if len(args) != 3 or code(args[2]) is None:
                ok = False
                continue
            sites.append((fn, args[1], code(args[2])))
    m = re.search(r'#define\s+alloc_stack\(T\)\s*\(\(struct T\*\)header_init\(\s*\\?\s*'
                  r'\(char\[sizeof\(struct Header\)\s*\+\s*sizeof\(struct T\)\]\)\{0\},\s*T,\s*(Alloc\w+)\)\)', h)
    if m and code(m.group(1)) is not None:
        sites.append(('alloc_stack', 'T', code(m.group(1))))
    else:
        ok = False
    emit('hdr_sites', ('Definition hdr_sites : list (string * string * nat) := [%s]%%string.' %
                       '; '.join('(%s, %s, %d)' % (coq_str(a), coq_str(b), c) for a, b, c in sites)) if ok else None)

    emit('hdr_sites_count', 'Definition hdr_sites_count : nat := %d.' % len(sites) if ok else None)
    # the constructor binds the type expression of each site to the constructor argument the model assumes
    binds = {
        'array_elem': ('Array_Alloc', 'a->type', 'src/Array.c', r'a->type\s*=\s*cast\(get\(args,\s*\$I\(0\)\),\s*Type\);'),
        'list_elem': ('List_Alloc', 'l->type', 'src/List.c', r'l->type\s*=\s*cast\(get\(args,\s*\$I\(0\)\),\s*Type\);'),
        'table_key': ('Table_Set_Move', 't->ktype', 'src/Table.c', r't->ktype\s*=\s*cast\(get\(args,\s*\$\(Int,\s*0\)\),\s*Type\);'),
        'table_val': ('Table_Set_Move', 't->vtype', 'src/Table.c', r't->vtype\s*=\s*cast\(get\(args,\s*\$\(Int,\s*1\)\),\s*Type\);'),
        'tree_key': ('Tree_Alloc', 'm->ktype', 'src/Tree.c', r'm->ktype\s*=\s*get\(args,\s*\$I\(0\)\);'),
        'tree_val': ('Tree_Alloc', 'm->vtype', 'src/Tree.c', r'm->vtype\s*=\s*get\(args,\s*\$I\(1\)\);'),
        'alloc_by': ('alloc_by', 'type', None, None),
        'type_alloc': ('Type_Alloc', 'Type', None, None),
        'alloc_stack': ('alloc_stack', 'T', None, None),
    }
    # alloc_by may delegate the default allocation to a helper f(var type) of Alloc.c that it calls as f(type)
    a0 = src('src/Alloc.c')
    ab0 = func_body(a0, r'static\s+var\s+alloc_by\s*\(\s*var\s+type\s*,\s*int\s+method\s*\)\s*\{') or ''
    ab_helpers0 = [mm.group(1) for mm in re.finditer(r'^static\s+var\s+(\w+)\s*\(\s*var\s+type\s*\)\s*\{', a0, re.M)
                   if re.search(r'\b%s\(\s*type\s*\)' % mm.group(1), ab0)]
    for key, (fn, te, file, pat) in binds.items():
        hit = [c for (f, t, c) in sites if (f == fn or (key == 'alloc_by' and f in ab_helpers0)) and t == te]
        good = ok and len(hit) == 1 and (pat is None or re.search(pat, src(file)))
        emit('hdr_site_' + key, ('Definition hdr_site_%s : nat := %d.   (* %s: header_init(., %s, .) *)' % (key, hit[0], fn, te)) if good else None)

    m = re.search(r'#define\s+\$\(T,\s*\.\.\.\)\s*\(\(struct T\*\)memcpy\(\s*\\?\s*alloc_stack\(T\),\s*'
                  r'&\(\(struct T\)\{__VA_ARGS__\}\),\s*sizeof\(struct T\)\)\)', h)
    emit('hdr_dollar_via_alloc_stack', 'Definition hdr_dollar_via_alloc_stack : bool := true.' if m else None)

    # ---------------------------------------------------------------- static declarations
    m = re.search(r'#if\s+CELLO_ALLOC_CHECK\s*==\s*1\s*#define\s+CELLO_ALLOC_HEADER\s+\(var\)(Alloc\w+),', h)
    emit('hdr_static_code', ('Definition hdr_static_code : nat := %d.' % code(m.group(1))) if m and code(m.group(1)) is not None else None)
    m = re.search(r'#define\s+CelloObject\(T,\s*S,\s*\.\.\.\)\s*\(var\)\(\(char\*\)\(\(var\[\]\)\{\s*NULL,\s*\\?\s*'
                  r'CELLO_ALLOC_HEADER\s*\\?\s*CELLO_MAGIC_HEADER\s*\\?\s*CELLO_CACHE_HEADER', h)
    emit('hdr_static_type_null', 'Definition hdr_static_type_null : bool := true.' if m else None)
    t = src('src/Type.c')
    b = func_body(t, r'static\s+var\s+Type_Of\s*\(\s*var\s+self\s*\)\s*\{')
    okt = bool(b) and re.search(r'if\s*\(\s*head->type\s+is\s+NULL\s*\)\s*\{\s*head->type\s*=\s*Type;\s*\}\s*return\s+head->type\s*;', b)
    emit('hdr_typeof_null_is_type', 'Definition hdr_typeof_null_is_type : bool := true.' if okt else None)

    # ---------------------------------------------------------------- shared recognisers
    # (accepted equivalent code shapes and why they denote the same model are listed in design.d/C19.md, "Benign changes")
    def static_funcs(text):
        """name -> body of every function defined in this file"""
        out = {}
        for mm in re.finditer(r'^(?:static\s+)?[A-Za-z_][\w\s\*]*?\b([A-Za-z_]\w*)\s*\(([^;{)]*)\)\s*\{', text, re.M):
            bd = func_body(text, re.escape(mm.group(0)))
            if bd:
                out[mm.group(1)] = (mm.group(2), bd)
        return out

    def switch_classes(body, action_re):
        """classes whose `case` labels (stacked labels allowed) lead to a statement matching action_re, in a
        switch over header(self)->alloc; None when there is no such switch"""
        sw = re.search(r'switch\s*\(\s*\(intptr_t\)\s*header\(self\)->alloc\s*\)\s*\{', body)
        if not sw:
            return None
        rest = body[sw.end():]
        found = []
        for mm in re.finditer(r'((?:case\s+Alloc\w+\s*:\s*)+)([^:]*?;)', rest):
            labels = re.findall(r'case\s+(Alloc\w+)', mm.group(1))
            if re.match(action_re, mm.group(2).strip()):
                found += labels
        return found

    def side_effect_free(body, allowed_throw):
        """nothing but the refusal: no assignment, no libc memory call, no other call than throw/header"""
        t = re.sub(r'throw\([^;]*;', '', body)
        t = re.sub(r'"[^"]*"', '""', t)
        if re.search(r'[^=!<>]=[^=]', t) or re.search(r'\b(free|realloc|malloc|calloc|memset|memcpy|memmove|strcpy)\s*\(', t):
            return False
        return True

    def refusal_helpers(text, exn):
        """functions f(var self, ...) of this file whose whole effect is `throw(exn, ...)` for a set of allocation
        classes (if-form or switch-form): name -> classes.  A call f(self, ...) is then the same as the inline guard."""
        out = {}
        for name, (params, bd) in static_funcs(text).items():
            if not re.match(r'\s*var\s+self\b', params):
                continue
            if len(re.findall(r'\bthrow\(', bd)) != 1 or not side_effect_free(bd, exn):
                continue
            cl = switch_classes(bd, r'throw\(\s*%s\b' % exn)
            if cl is None:
                g = re.search(r'if\s*\(\s*header\(self\)->alloc\s+is\s+\(var\)(Alloc\w+)(?:\s+or\s+header\(self\)->alloc\s+is\s+\(var\)(Alloc\w+))?\s*\)\s*\{\s*throw\(\s*%s\b' % exn, bd)
                cl = [c for c in g.groups() if c] if g else None
            if cl:
                out[name] = cl
        return out

    def wording_helpers(text):
        """functions f(var self) returning a non-NULL text exactly for some allocation classes (switch-form):
        `x = f(self); if (x isnt NULL) { throw(E, ...) }` refuses exactly those classes"""
        out = {}
        for name, (params, bd) in static_funcs(text).items():
            if not re.match(r'\s*var\s+self\s*$', params) or not side_effect_free(bd, None):
                continue
            cl = switch_classes(bd, r'return\s+"')
            dflt = re.search(r'default\s*:\s*return\s+NULL\s*;', bd)
            if cl and dflt:
                out[name] = cl
        return out

    def refusals(body, text, exn_any=True):
        """[(position, class name, exception)] of every refusal `class -> throw` in body: inline ifs, a wording
        helper tested against NULL, or a refusal helper called with self"""
        out = [(mm.start(), mm.group(1), mm.group(2)) for mm in re.finditer(refuse_re, body)]
        for name, cl in wording_helpers(text).items():
            mm = re.search(r'(\w+)\s*=\s*%s\(\s*self\s*\)\s*;\s*if\s*\(\s*\1\s+isnt\s+NULL\s*\)\s*\{\s*throw\(\s*(\w+)' % name, body)
            if mm:
                out += [(mm.start(), c, mm.group(2)) for c in cl]
        return sorted(out, key=lambda r: (r[0], code(r[1]) or 0))

    a = src('src/Alloc.c')
    afuncs = static_funcs(a)

    def with_callees(body, names_only=False):
        """body followed by the bodies of the functions of Alloc.c it calls (helpers inlined one level, for searching)"""
        called = [n for n in afuncs if re.search(r'\b%s\s*\(' % n, body) and afuncs[n][1] != body]
        return body + ''.join(afuncs[n][1] for n in called), called

    # ---------------------------------------------------------------- dealloc
    d = func_body(a, r'\bvoid\s+dealloc\s*\(\s*var\s+self\s*\)\s*\{')
    chk = func_body(a, r'static\s+void\s+dealloc_check\s*\(\s*var\s+self\s*\)\s*\{')
    refuse_re = r'if\s*\(\s*header\(self\)->alloc\s+is\s+\(var\)(Alloc\w+)\s*\)\s*\{\s*throw\(\s*(\w+)'
    if d:
        body = d
        call = re.search(r'dealloc_check\s*\(\s*self\s*\)\s*;', d)
        if call and chk:
            body = d[:call.start()] + chk + d[call.end():]
        refs = refusals(body, a)
        fr = body.find('free(')
        scr = body.find('0xDeadCe110')
        cust = re.search(r'if\s*\(\s*a\s+and\s+a->dealloc\s*\)\s*\{\s*a->dealloc\(self\);\s*return;\s*\}', body)
        if fr < 0 or any(code(c) is None for _, c, _ in refs):
            emit('hdr_dealloc_refuses', None)
        else:
            emit('hdr_dealloc_refuses', 'Definition hdr_dealloc_refuses : list (nat * nat) := [%s].   (* (class, 0 = ResourceError | 1 = ValueError | 2 = other) *)' %
                 '; '.join('(%d, %d)' % (code(c), EXN.get(e, 2)) for _, c, e in refs))
            first = all(p < fr and (scr < 0 or p < scr) for p, _, _ in refs)
            emit('hdr_dealloc_check_first', 'Definition hdr_dealloc_check_first : bool := %s.' % ('true' if first else 'false'))
            emit('hdr_dealloc_custom_first', 'Definition hdr_dealloc_custom_first : bool := %s.' %
                 ('true' if cust and (not refs or cust.start() < refs[0][0]) else 'false'))
        # the poison loop: where it starts and how many words it writes, as a function of H = sizeof(struct Header),
        # w = sizeof(var), s = size(type); and what is handed to free()
        HDRPTR = r'(?:header\(self\)|\(\(char\*\)self\)\s*-\s*sizeof\(struct Header\)|\(char\*\)self\s*-\s*sizeof\(struct Header\))'
        head_local = re.search(r'struct Header\*\s*(\w+)\s*=\s*%s\s*;' % HDRPTR, d)
        hp = HDRPTR if not head_local else r'(?:%s|%s)' % (HDRPTR, re.escape(head_local.group(1)))
        s_local = re.search(r'size_t\s+(\w+)\s*=\s*size\(type_of\(self\)\)\s*;', d)
        start = count = None
        f1 = re.search(r'for\s*\(\s*size_t\s+(\w+)\s*=\s*0\s*;\s*\1\s*<\s*([^;]+);\s*\1\+\+\s*\)\s*\{\s*\(\(var\*\)\s*(%s)\)\[\1\]\s*=\s*\(var\)0xDeadCe110;\s*\}' % hp, d)
        f2 = re.search(r'var\*\s*(\w+)\s*=\s*\(var\*\)\s*(%s)\s*;\s*var\*\s*(\w+)\s*=\s*\1\s*\+\s*([^;]+);\s*while\s*\(\s*\1\s*<\s*\3\s*\)\s*\{\s*\*\1\+\+\s*=\s*\(var\)0xDeadCe110;\s*\}' % hp, d)
        if f1 and 'type_of' not in f1.group(2):        # the count must not re-read the type while it is being overwritten
            count, start = f1.group(2), f1.group(3)
        elif f2:
            count, start = f2.group(4), f2.group(2)
        coq_count = None
        if count:
            e = count
            e = re.sub(r'sizeof\(struct Header\)', 'H', e)
            e = re.sub(r'sizeof\(var\)', 'w', e)
            e = re.sub(r'size\(type_of\(self\)\)', 's', e)
            if s_local:
                e = re.sub(r'\b%s\b' % re.escape(s_local.group(1)), 's', e)
            e = re.sub(r'\s+', ' ', e).strip()
            if re.fullmatch(r'[Hws0-9+*/() ]+', e):
                coq_count = e
        emit('hdr_poison_words', ('Definition hdr_poison_words (H w s : nat) : nat := %s.   (* words written with 0xDeadCe110, starting at the header *)' % coq_count)
             if coq_count and start else None)
        frm = re.search(r'free\(\s*(%s)\s*\)\s*;' % hp, d)
        emit('hdr_dealloc_frees_block', 'Definition hdr_dealloc_frees_block : bool := true.'
             if frm and (scr < 0 or d.find('0xDeadCe110') < frm.start()) else None)
    else:
        emit('hdr_dealloc_refuses', None)

    # ---------------------------------------------------------------- del_by / alloc_by
    three = re.search(r'enum\s*\{\s*ALLOC_STANDARD\s*,\s*ALLOC_RAW\s*,\s*ALLOC_ROOT\s*\}', a)      # `method isnt ALLOC_RAW` == STANDARD or ROOT
    callers_ok = three and all(re.search(r'\b%s\s*\(\s*var\s+\w+\s*\)\s*\{\s*(?:return\s+)?%s\(\w+,\s*ALLOC_%s\);\s*\}' % (f, by, m), a)
                               for f, by, m in (('del', 'del_by', 'STANDARD'), ('del_raw', 'del_by', 'RAW'), ('del_root', 'del_by', 'ROOT'),
                                                ('alloc', 'alloc_by', 'STANDARD'), ('alloc_raw', 'alloc_by', 'RAW'), ('alloc_root', 'alloc_by', 'ROOT')))
    b = func_body(a, r'static\s+void\s+del_by\s*\(\s*var\s+self\s*,\s*int\s+method\s*\)\s*\{')
    if b:
        gc = re.search(r'case\s+ALLOC_STANDARD:\s*case\s+ALLOC_ROOT:\s*#ifndef\s+CELLO_NGC\s*rem\(current\(GC\),\s*self\);\s*return;\s*#endif\s*break;\s*case\s+ALLOC_RAW:\s*break;', b) \
            or (callers_ok and re.search(r'#ifndef\s+CELLO_NGC\s*if\s*\(\s*method\s+isnt\s+ALLOC_RAW\s*\)\s*\{\s*rem\(current\(GC\),\s*self\);\s*return;\s*\}\s*#endif', b))
        emit('hdr_del_by_gc', 'Definition hdr_del_by_gc : bool := true.' if gc else None)
        tail = re.search(r'dealloc\(\s*destruct\(\s*self\s*\)\s*\)\s*;', b)
        if not tail:
            emit('hdr_del_by_checks_first', None)
        else:
            pre = b[:tail.start()]
            c1 = re.search(r'dealloc_check\s*\(\s*self\s*\)', pre)
            refused = set(code(c) for _, c, _ in refusals(pre, a))
            if c1 and chk:
                refused |= set(code(c) for _, c, _ in refusals(chk, a))
            want = {code('AllocStatic'), code('AllocStack'), code('AllocData')}
            emit('hdr_del_by_checks_first', 'Definition hdr_del_by_checks_first : bool := %s.' %
                 ('true' if refused >= want else 'false'))
    else:
        emit('hdr_del_by_gc', None)
        emit('hdr_del_by_checks_first', None)
    b = func_body(a, r'static\s+var\s+alloc_by\s*\(\s*var\s+type\s*,\s*int\s+method\s*\)\s*\{')
    m = b and re.search(r'case\s+ALLOC_STANDARD:\s*#ifndef\s+CELLO_NGC\s*set\(current\(GC\),\s*self,\s*\$I\((\d)\)\);\s*#endif\s*break;\s*'
                        r'case\s+ALLOC_RAW:\s*break;\s*case\s+ALLOC_ROOT:\s*#ifndef\s+CELLO_NGC\s*set\(current\(GC\),\s*self,\s*\$I\((\d)\)\);\s*#endif\s*break;', b)
    regs = (m.group(1), m.group(2)) if m else None
    if not regs and b and callers_ok and re.search(
            r'#ifndef\s+CELLO_NGC\s*if\s*\(\s*method\s+isnt\s+ALLOC_RAW\s*\)\s*\{\s*set\(current\(GC\),\s*self,\s*\$I\(method\s+is\s+ALLOC_ROOT(?:\s*\?\s*1\s*:\s*0)?\)\);\s*\}\s*#endif', b):
        regs = ('0', '1')        # $I(method is ALLOC_ROOT): 0 for STANDARD, 1 for ROOT, nothing for RAW
    emit('hdr_alloc_by', ('Definition hdr_alloc_by_standard : option nat := Some %s.\n'
                          'Definition hdr_alloc_by_raw : option nat := None.\n'
                          'Definition hdr_alloc_by_root : option nat := Some %s.' % regs) if regs else None)
    # the allocation itself may sit in a helper called with `type` (one level)
    ab_all, ab_called = with_callees(b) if b else ('', [])
    ab_helpers = [n for n in ab_called if re.match(r'\s*var\s+type\s*$', afuncs[n][0]) and re.search(r'\b%s\(\s*type\s*\)' % n, b)]
    cust = b and (re.search(r'if\s*\(\s*a\s+and\s+a->alloc\s*\)\s*\{\s*self\s*=\s*a->alloc\(\);\s*\}\s*else\s*\{', b)
                  or any(re.search(r'\(\s*a\s+and\s+a->alloc\s*\)\s*\?\s*a->alloc\(\)\s*:\s*%s\(type\)' % n, b) for n in ab_helpers)
                  or any(re.search(r'if\s*\(\s*a\s+and\s+a->alloc\s*\)\s*\{\s*return\s+a->alloc\(\);\s*\}', afuncs[n][1]) and
                         afuncs[n][1].find('a->alloc()') < afuncs[n][1].find('calloc(') for n in ab_helpers))
    emit('hdr_alloc_custom_first', 'Definition hdr_alloc_custom_first : bool := true.' if cust else None)
    b = func_body(a, r'\bvar\s+copy\s*\(\s*var\s+self\s*\)\s*\{')
    okc = b and re.search(r'if\s*\(\s*c\s+and\s+c->copy\s*\)\s*\{\s*return\s+c->copy\(self\);\s*\}\s*return\s+assign\(alloc\(type_of\(self\)\),\s*self\);', b)
    emit('hdr_copy_default_allocs', 'Definition hdr_copy_default_allocs : bool := true.' if okc else None)

    # ---------------------------------------------------------------- String / Tuple buffer guards
    guards = []
    okg = True
    tuple_assign_iter = None

    def match_brace(text, i):
        depth = 0
        for j in range(i, len(text)):
            if text[j] == '{':
                depth += 1
            elif text[j] == '}':
                depth -= 1
                if depth == 0:
                    return j
        return None

    def block_path(text, pos):
        st = []
        for j in range(pos):
            if text[j] == '{':
                st.append(j)
            elif text[j] == '}' and st:
                st.pop()
        return st

    vhelpers = {}      # per file: refusal helpers (ValueError) whose call with self is the guard itself

    def guard_classes(body, sites):
        """classes refused with ValueError on EVERY path to every site: a guard counts for a site only if it
        stands before it in a block that encloses the site (a guard inside one branch does not protect another)"""
        gs = [(g.start(), block_path(body, g.start()), sorted(c for c in (code(g.group(1)), code(g.group(2))) if c is not None))
              for g in re.finditer(guard_re, body) if g.group(3) == 'ValueError']
        # a call of a helper that does nothing but refuse (one level): same as the inline guard at that position
        for hname, hcl in vhelpers.items():
            for g in re.finditer(r'\b%s\s*\(\s*self\b' % hname, body):
                gs.append((g.start(), block_path(body, g.start()), sorted(c for c in map(code, hcl) if c is not None)))
        gs.sort(key=lambda x: x[0])
        result = None
        for site in sites:
            ps = block_path(body, site)
            dom = [cl for (pos, pg, cl) in gs if pos < site and pg == ps[:len(pg)]]
            cl = set(dom[-1]) if dom else set()
            result = cl if result is None else (result & cl)
        return sorted(result or [])
    guard_re = (r'if\s*\(\s*header\(self\)->alloc\s+is\s+\(var\)(Alloc\w+)\s+or\s+header\(self\)->alloc\s+is\s+\(var\)(Alloc\w+)\s*\)\s*\{\s*'
                r'throw\(\s*(\w+)')
    for fname, field in (('src/String.c', r's->val'), ('src/Tuple.c', r't->items')):
        s = src(fname)
        vhelpers.clear()
        vhelpers.update(refusal_helpers(s, 'ValueError'))
        for mm in re.finditer(r'^static\s+[\w\s\*]+?\b(\w+)\s*\([^;{]*\)\s*\{', s, re.M):
            name = mm.group(1)
            body = func_body(s, re.escape(mm.group(0)))
            if not body:
                continue
            touch = [x.start() for x in re.finditer(r'(?:free|realloc)\s*\(\s*%s\b' % field, body)]
            if not touch:
                continue
            sites = touch + [x.start() for x in re.finditer(r'\bmemmove\s*\(', body)]
            classes = guard_classes(body, sites)
            if name == 'Tuple_Assign':
                # two branches: sources with Len+Get are copied by index, any other iterable is pushed item by item
                br = re.search(r'if\s*\(\s*implements_method\(obj,\s*Len,\s*len\)\s*and\s*implements_method\(obj,\s*Get,\s*get\)\s*\)\s*\{', body)
                iter_classes = None
                if br:
                    t0 = br.end() - 1
                    t1 = match_brace(body, t0)
                    el = re.match(r'\s*else\s*\{', body[t1 + 1:]) if t1 else None
                    if el:
                        e0 = t1 + 1 + el.end() - 1
                        e1 = match_brace(body, e0)
                        then_sites = [x for x in sites if t0 < x < t1]
                        else_sites = [x for x in sites if e0 < x < e1]
                        classes = guard_classes(body, then_sites) if then_sites else []
                        if else_sites:
                            iter_classes = guard_classes(body, else_sites)
                        elif re.search(r'Tuple_Push\(self,', body[e0:e1]):
                            iter_classes = 'via Tuple_Push'
                tuple_assign_iter = iter_classes
            guards.append((name, classes))
    if len(guards) < 10:
        okg = False
    emit('hdr_guards', ('Definition hdr_guards : list (string * list nat) := [%s]%%string.' %
                        '; '.join('(%s, [%s])' % (coq_str(n), '; '.join(map(str, cl))) for n, cl in guards)) if okg else None)
    gd = dict(guards)
    for n in ('String_Del', 'String_Assign', 'String_Concat', 'String_Resize', 'String_Format_To',
              'Tuple_Del', 'Tuple_Assign', 'Tuple_Push', 'Tuple_Pop', 'Tuple_Push_At', 'Tuple_Pop_At',
              'Tuple_Concat', 'Tuple_Resize'):
        emit('hdr_guard_' + n.lower(), ('Definition hdr_guard_%s : list nat := [%s].' % (n.lower(), '; '.join(map(str, gd[n]))))
             if n in gd else None)
    if tuple_assign_iter == 'via Tuple_Push':
        tuple_assign_iter = gd.get('Tuple_Push')
    emit('hdr_guard_tuple_assign_iter', ('Definition hdr_guard_tuple_assign_iter : list nat := [%s].   (* Tuple_Assign, sources without Len+Get *)'
                                         % '; '.join(map(str, tuple_assign_iter))) if tuple_assign_iter is not None else None)
    # every function that frees/reallocates the buffer is one the model knows
    emit('hdr_guards_count', 'Definition hdr_guards_count : nat := %d.' % len(guards))
    # Tuple_Rem reaches the buffer only through Tuple_Pop_At
    tb = func_body(src('src/Tuple.c'), r'static\s+void\s+Tuple_Rem\s*\(\s*var\s+self\s*,\s*var\s+item\s*\)\s*\{')
    emit('hdr_tuple_rem_via_pop_at', 'Definition hdr_tuple_rem_via_pop_at : bool := true.'
         if tb and re.search(r'Tuple_Pop_At\(', tb) and not re.search(r'realloc|free\(|memmove', tb) else None)

    # ---------------------------------------------------------------- collector
    g = src('src/GC.c')
    b = func_body(g, r'\bvoid\s+GC_Sweep\s*\(\s*struct\s+GC\*\s*gc\s*\)\s*\{')
    oks = b and re.search(r'if\s*\(\s*gc->entries\[i\]\.marked\s*\)\s*\{\s*i\+\+;\s*continue;\s*\}\s*'
                          r'if\s*\(\s*not\s+gc->entries\[i\]\.root\s+and\s+not\s+gc->entries\[i\]\.marked\s*\)\s*\{\s*'
                          r'gc->freelist\[gc->freenum\]\s*=\s*gc->entries\[i\]\.ptr;', b) \
        and re.search(r'if\s*\(\s*gc->freelist\[i\]\s*\)\s*\{[^}]*dealloc\(destruct\(\s*(?:gc->freelist\[i\]|\w+)\s*\)\);', b)
    emit('hdr_sweep_rule', 'Definition hdr_sweep_rule : bool := true.' if oks else None)
    b = func_body(g, r'static\s+void\s+GC_Rem_Ptr\s*\(\s*struct\s+GC\*\s*gc\s*,\s*var\s+ptr\s*\)\s*\{')
    okr = b and re.search(r'if\s*\(\s*gc->entries\[i\]\.ptr\s+is\s+ptr\s*\)\s*\{\s*var\s+freeitem\s*=\s*gc->entries\[i\]\.ptr;', b) \
        and re.search(r'gc->nitems--;\s*dealloc\(destruct\(freeitem\)\);\s*return;', b) \
        and re.search(r'if\s*\(\s*h\s+is\s+0\s+or\s+j\s*>\s*GC_Probe\(gc,\s*i,\s*h\)\s*\)\s*\{\s*return;\s*\}', b)
    emit('hdr_rem_releases', 'Definition hdr_rem_releases : bool := true.' if okr else None)
    # del while the collector is stopped: GC_Rem returns at once (the deletion is deferred: finding F2 of C06), and
    # del_by hands del / del_root to rem(current(GC), .) whether or not the collector is running (hdr_del_by_gc)
    b = func_body(g, r'static\s+void\s+GC_Rem\s*\(\s*var\s+self\s*,\s*var\s+key\s*\)\s*\{')
    emit('hdr_rem_deferred_when_stopped', 'Definition hdr_rem_deferred_when_stopped : bool := true.'
         if b and re.search(r'struct GC\*\s*gc\s*=\s*self;\s*if\s*\(\s*not\s+gc->running\s*\)\s*\{\s*return;\s*\}\s*GC_Rem_Ptr\(gc,\s*key\);', b) else None)

    # ---------------------------------------------------------------- storage layout (size(type) bytes usable)
    def shape(name, ok):
        emit(name, ('Definition %s : bool := true.' % name) if ok else None)

    H = r'sizeof\(struct Header\)'
    b = func_body(a, r'static\s+var\s+alloc_by\s*\(\s*var\s+type\s*,\s*int\s+method\s*\)\s*\{')
    # (helpers called with `type` searched too; a local `size_t total = H + size(type); calloc(1, total)` is the same request)
    ab_text = (b or '') + ''.join(afuncs[n][1] for n in ab_helpers)
    tot = re.search(r'size_t\s+(\w+)\s*=\s*%s\s*\+\s*size\(type\)\s*;' % H, ab_text)
    shape('hdr_lay_alloc_by', re.search(r'calloc\(1,\s*%s\s*\+\s*size\(type\)\)' % H, ab_text)
          or (tot and re.search(r'calloc\(1,\s*%s\s*\)' % re.escape(tot.group(1)), ab_text)
              and len(re.findall(r'\b%s\b' % re.escape(tot.group(1)), ab_text)) == 2))
    shape('hdr_lay_stack', re.search(r'#define\s+CelloStruct\(T,\s*\.\.\.\)\s*CelloObject\(T,\s*sizeof\(struct T\),', h)
          and re.search(r'\(char\[%s\s*\+\s*sizeof\(struct T\)\]\)\{0\}' % H, h))
    ar = src('src/Array.c')
    shape('hdr_lay_array',
          re.search(r'static\s+size_t\s+Array_Step\(struct Array\*\s*a\)\s*\{\s*return\s+a->tsize\s*\+\s*%s;\s*\}' % H, ar)
          and re.search(r'static\s+var\s+Array_Item\(struct Array\*\s*a,\s*size_t\s+i\)\s*\{\s*return\s+\(char\*\)a->data\s*\+\s*Array_Step\(a\)\s*\*\s*i\s*\+\s*%s;\s*\}' % H, ar)
          and re.search(r'static\s+size_t\s+Array_Size_Round\(size_t\s+s\)\s*\{\s*return\s+\(\(s\s*\+\s*sizeof\(var\)\s*-\s*1\)\s*/\s*sizeof\(var\)\)\s*\*\s*sizeof\(var\);\s*\}', ar)
          and len(re.findall(r'a->tsize\s*=\s*Array_Size_Round\(size\(a->type\)\);', ar)) == len(re.findall(r'a->tsize\s*=', ar))
          # the element's header sits at data + step*i, written either way (Array_Item(a, i) is data + step*i + H)
          and (re.search(r'struct Header\*\s*head\s*=\s*\(struct Header\*\)\(\(char\*\)a->data\s*\+\s*Array_Step\(a\)\s*\*\s*i\);', ar)
               or re.search(r'header_init\(\s*\(char\*\)Array_Item\(a,\s*i\)\s*-\s*%s\s*,\s*a->type,' % H, ar))
          and all(re.search(r'Array_Step\(a\)\s*\*\s*a->nslots|a->nslots\s*\*\s*Array_Step\(a\)', x)
                  for x in re.findall(r'(?:malloc|realloc)\([^;]*;', ar)))
    li = src('src/List.c')
    shape('hdr_lay_list',
          re.search(r'var\s+item\s*=\s*calloc\(1,\s*2\s*\*\s*sizeof\(var\)\s*\+\s*%s\s*\+\s*l->tsize\);' % H, li)
          and re.search(r'return\s+header_init\(\(struct Header\*\)\(\s*\(char\*\)item\s*\+\s*2\s*\*\s*sizeof\(var\)\),\s*l->type,', li)
          and len(re.findall(r'l->tsize\s*=\s*size\(l->type\);', li)) == len(re.findall(r'l->tsize\s*=', li)))
    tr = src('src/Tree.c')
    # The key size enters the node layout at four sites: the calloc and the value's header_init in Tree_Alloc, the
    # accessor Tree_Val, and the node copy in Tree_Rem.  Each may use m->ksize or a local rounded up to sizeof(var);
    # which one is emitted per site (hdr_tree_*_kround) and the layout theorem demands that they agree.
    KS = r'(m->ksize|[A-Za-z_]\w*)'

    def kround(fn_body, expr):
        """False: m->ksize itself; True: a local defined as <...Round...>(m->ksize); None: unrecognised"""
        if expr is None:
            return None
        if expr == 'm->ksize':
            return False
        if fn_body and re.search(r'size_t\s+%s\s*=\s*\w*[Rr]ound\w*\(\s*m->ksize\s*\)\s*;' % re.escape(expr), fn_body):
            return True
        return None

    def grp(m):
        return m.group(1) if m else None

    ta_b = func_body(tr, r'static\s+var\s+Tree_Alloc\s*\(\s*struct\s+Tree\*\s*m\s*\)\s*\{')
    tv_b = func_body(tr, r'static\s+var\s+Tree_Val\s*\([^)]*\)\s*\{')
    trm_b = func_body(tr, r'static\s+void\s+Tree_Rem\s*\([^)]*\)\s*\{')
    sites4 = {
        'hdr_tree_alloc_block_kround': kround(ta_b, grp(ta_b and re.search(
            r'var\s+node\s*=\s*calloc\(1,\s*3\s*\*\s*sizeof\(var\)\s*\+\s*%s\s*\+\s*%s\s*\+\s*%s\s*\+\s*m->vsize\);' % (H, KS, H), ta_b))),
        'hdr_tree_alloc_vhead_kround': kround(ta_b, grp(ta_b and re.search(
            r'var\s+val\s*=\s*header_init\(\(struct Header\*\)\(\s*\(char\*\)node\s*\+\s*3\s*\*\s*sizeof\(var\)\s*\+\s*%s\s*\+\s*%s\),\s*m->vtype,' % (H, KS), ta_b))),
        'hdr_tree_val_kround': kround(tv_b, grp(tv_b and re.search(
            r'return\s+\(char\*\)node\s*\+\s*3\s*\*\s*sizeof\(var\)\s*\+\s*%s\s*\+\s*%s\s*\+\s*%s;' % (H, KS, H), tv_b))),
        'hdr_tree_rem_copy_kround': kround(trm_b, grp(trm_b and re.search(
            r'memcpy\(\s*\(char\*\)\w+\s*\+\s*3\s*\*\s*sizeof\(var\),\s*\(char\*\)\w+\s*\+\s*3\s*\*\s*sizeof\(var\),\s*%s\s*\+\s*%s\s*\+\s*%s\s*\+\s*m->vsize\);' % (H, KS, H), trm_b))),
    }
    for nm, v in sites4.items():
        emit(nm, ('Definition %s : bool := %s.' % (nm, 'true' if v else 'false')) if v is not None else None)
    shape('hdr_lay_tree',
          all(v is not None for v in sites4.values())
          and re.search(r'var\s+key\s*=\s*header_init\(\(struct Header\*\)\(\s*\(char\*\)node\s*\+\s*3\s*\*\s*sizeof\(var\)\),\s*m->ktype,', tr)
          and re.search(r'static\s+var\s+Tree_Key\([^)]*\)\s*\{\s*return\s+\(char\*\)node\s*\+\s*3\s*\*\s*sizeof\(var\)\s*\+\s*%s;\s*\}' % H, tr)
          and len(re.findall(r'm->ksize\s*=\s*size\(m->ktype\);', tr)) == len(re.findall(r'm->ksize\s*=', tr))
          and len(re.findall(r'm->vsize\s*=\s*size\(m->vtype\);', tr)) == len(re.findall(r'm->vsize\s*=', tr)))
    ta = src('src/Table.c')
    shape('hdr_lay_table',
          re.search(r'static\s+size_t\s+Table_Step\([^)]*\)\s*\{\s*return\s+sizeof\(uint64_t\)\s*\+\s*%s\s*\+\s*t->ksize\s*\+\s*%s\s*\+\s*t->vsize;\s*\}' % (H, H), ta)
          and re.search(r'static\s+var\s+Table_Key\([^)]*\)\s*\{\s*return\s+\(char\*\)t->data\s*\+\s*i\s*\*\s*Table_Step\(t\)\s*\+\s*sizeof\(uint64_t\)\s*\+\s*%s;\s*\}' % H, ta)
          and re.search(r'static\s+var\s+Table_Val\([^)]*\)\s*\{\s*return\s+\(char\*\)t->data\s*\+\s*i\s*\*\s*Table_Step\(t\)\s*\+\s*sizeof\(uint64_t\)\s*\+\s*%s\s*\+\s*t->ksize\s*\+\s*%s;\s*\}' % (H, H), ta)
          and re.search(r'struct Header\*\s*khead\s*=\s*\(struct Header\*\)\s*\(\(char\*\)t->sspace0\s*\+\s*sizeof\(uint64_t\)\);', ta)
          and re.search(r'struct Header\*\s*vhead\s*=\s*\(struct Header\*\)\s*\(\(char\*\)t->sspace0\s*\+\s*sizeof\(uint64_t\)\s*\+\s*%s\s*\+\s*t->ksize\);' % H, ta)
          and len(re.findall(r't->ksize\s*=\s*Table_Size_Round\(size\(t->ktype\)\);', ta)) == len(re.findall(r't->ksize\s*=', ta))
          and len(re.findall(r't->vsize\s*=\s*Table_Size_Round\(size\(t->vtype\)\);', ta)) == len(re.findall(r't->vsize\s*=', ta))
          and re.search(r'static\s+size_t\s+Table_Size_Round\(size_t\s+s\)\s*\{\s*return\s+\(\(s\s*\+\s*sizeof\(var\)\s*-\s*1\)\s*/\s*sizeof\(var\)\)\s*\*\s*sizeof\(var\);\s*\}', ta))
