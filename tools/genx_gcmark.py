"""genx_gcmark.py — parameters of the mark-phase model (C01) read off the C text.

  gc_tls_recurses : bool   callback GC_Mark hands to mark(current(Thread), ...) for the TLS table:
                           GC_Mark_And_Recurse (true) / GC_Mark_Item (false = defect D16)
  gc_mar_guarded  : bool   GC_Mark_And_Recurse: registered pointers go through GC_Mark_Item only,
                           unregistered ones are traced (true) / GC_Mark_Item then GC_Recurse on
                           everything (false = defect D17)
  gc_finaliser_alloc_widens : bool   GC_Set widens the window minptr/maxptr for every registered address, also for one
                           registered by a finaliser while a sweep runs (true) / only after the early return
                           `if (gc->freelist isnt NULL) return;` (false = seeded defect C01-r2-2)
  gc_recurse_returns, gc_mark_item_returns : nat   number of `return` statements in GC_Recurse (2: leaf type, after the
                           Mark instance) and GC_Mark_Item (3: prefilter, end of the probe sequence, after tracing): no other
                           early exit such as a nesting-depth cap (seeded defect C01-r5-2)
  gc_next_mitems : N -> N   the threshold policy read off `gc->mitems = <expr in gc->nitems>;` in GC_Sweep and GC_Rem
                           (tuning: the theorems hold for every policy)
  view_internals_registered : bool   the objects the constructors of heap Zip / Slice / Range allocate internally (Zip: iters,
                           values Tuples; Slice: its Range; Range: its Int) are managed (new), not raw: the model treats them as
                           ordinary registered nodes with edges to the view's inputs (seeded defect C18-r6-1: new_raw)
  gc_leaf_types   : list string   types GC_Recurse returns on at once
  gc_mark_shape_ok : bool  the functions the model transcribes (GC_Mark_Item, GC_Recurse, GC_Mark's
                           three passes, GC_Mark_Stack, the Mark instances of Array List Table Tree
                           Tuple Thread, mark()) still have the text the model was written for
                           (white space and comments ignored); a changed body leaves the
                           definition out = broken obligation
"""
import re
import gcmark_sym as sym


def norm(t):
    return re.sub(r'\s+', '', t or '')


EXPECT = {
    ('src/GC.c', r'static\s+void\s+GC_Mark_Item\s*\(\s*void\*\s*_gc\s*,\s*void\*\s*ptr\s*\)\s*\{'):
        '{struct GC*gc=_gc;uintptr_t pval=(uintptr_t)ptr;if(pval%sizeof(var)isnt 0 or pval<gc->minptr or pval>gc->maxptr){return;}'
        'uint64_t i=GC_Hash(ptr)%gc->nslots;uint64_t j=0;while(true){uint64_t h=gc->entries[i].hash;'
        'if(h is 0 or j>GC_Probe(gc,i,h)){return;}'
        'if(gc->entries[i].ptr is ptr and not gc->entries[i].marked){gc->entries[i].marked=true;GC_Recurse(gc,gc->entries[i].ptr);return;}'
        'i=(i+1)%gc->nslots;j++;}}',
    ('src/GC.c', r'static\s+void\s+GC_Recurse\s*\(\s*struct\s+GC\*\s*gc\s*,\s*var\s+ptr\s*\)\s*\{'):
        '{var type=type_of(ptr);if(LEAFTEST){return;}struct Mark*m=type_instance(type,Mark);'
        'if(m and m->mark){m->mark(ptr,gc,(void(*)(var,void*))GC_Mark_And_Recurse);return;}'
        'for(size_t i=0;i+sizeof(var)<=size(type);i+=sizeof(var)){var p=((char*)ptr)+i;GC_Mark_Item(gc,*((var*)p));}}',
    ('src/GC.c', r'void\s+GC_Mark\s*\(\s*struct\s+GC\*\s*gc\s*\)\s*\{'):
        '{if(gc is NULL or gc->nitems is 0){return;}mark(current(Thread),gc,(void(*)(var,void*))TLSCB);'
        'for(size_t i=0;i<gc->nslots;i++){if(gc->entries[i].hash is 0){continue;}if(gc->entries[i].marked){continue;}'
        'if(gc->entries[i].root){gc->entries[i].marked=true;GC_Recurse(gc,gc->entries[i].ptr);}}'
        'volatile int noinline=1;if(noinline){jmp_buf env;memset(&env,0,sizeof(jmp_buf));setjmp(env);}'
        'void(*mark_stack)(struct GC*gc)=noinline?GC_Mark_Stack:(void(*)(struct GC*gc))(NULL);mark_stack(gc);}',
    ('src/GC.c', r'static\s+void\s+CELLO_NASAN\s+GC_Mark_Stack\s*\(\s*struct\s+GC\*\s*gc\s*\)\s*\{'):
        '{var stk=NULL;var bot=gc->bottom;var top=&stk;if(bot==top){return;}'
        'if(bot<top){for(var p=top;p>=bot;p=((char*)p)-sizeof(var)){GC_Mark_Item(gc,*((var*)p));}}'
        'if(bot>top){for(var p=top;p<=bot;p=((char*)p)+sizeof(var)){GC_Mark_Item(gc,*((var*)p));}}}',
    ('src/GC.c', r'\nvoid\s+mark\s*\(\s*var\s+self\s*,\s*var\s+gc\s*,\s*void\s*\(\*f\)\s*\(var\s*,\s*void\*\)\s*\)\s*\{'):
        '{if(self is NULL){return;}struct Mark*m=instance(self,Mark);if(m and m->mark){m->mark(self,gc,f);}}',
    ('src/Array.c', r'static\s+void\s+Array_Mark\s*\([^{]*\{'):
        '{struct Array*a=self;for(size_t i=0;i<a->nitems;i++){f(gc,Array_Item(a,i));}}',
    ('src/List.c', r'static\s+void\s+List_Mark\s*\([^{]*\{'):
        '{struct List*l=self;var item=l->head;while(item){f(gc,item);item=*List_Next(l,item);}}',
    ('src/Table.c', r'static\s+void\s+Table_Mark\s*\([^{]*\{'):
        '{struct Table*t=self;for(size_t i=0;i<t->nslots;i++){if(Table_Key_Hash(t,i)isnt 0){f(gc,Table_Key(t,i));f(gc,Table_Val(t,i));}}}',
    ('src/Tree.c', r'static\s+void\s+Tree_Mark\s*\([^{]*\{'):
        '{struct Tree*m=self;var curr=Tree_Iter_Init(self);while(curr isnt Terminal){'
        'var node=(char*)curr-sizeof(struct Header)-3*sizeof(var);f(gc,Tree_Key(m,node));f(gc,Tree_Val(m,node));'
        'curr=Tree_Iter_Next(self,curr);}}',
    ('src/Tuple.c', r'static\s+void\s+Tuple_Mark\s*\([^{]*\{'):
        '{struct Tuple*t=self;size_t i=0;if(t->items is NULL){return;}while(t->items[i]isnt Terminal){f(gc,t->items[i]);i++;}}',
    ('src/Thread.c', r'static\s+void\s+Thread_Mark\s*\([^{]*\{'):
        '{struct Thread*t=self;mark(t->tls,gc,f);}',
}

ITEM_KEY = ('src/GC.c', r'static\s+void\s+GC_Mark_Item\s*\(\s*void\*\s*_gc\s*,\s*void\*\s*ptr\s*\)\s*\{')
MAR_OLD = '{struct GC*gc=_gc;GC_Mark_Item(gc,ptr);GC_Recurse(gc,ptr);}'
MAR_NEW = '{struct GC*gc=_gc;if(GC_Mem_Ptr(gc,ptr)){GC_Mark_Item(gc,ptr);return;}GC_Recurse(gc,ptr);}'


def inline_helpers(text, gc, func_body):
    """equivalent code shapes recognised as the same model (one level of helper inlining on the normalised text):
    GC_Next(gc, X) -> (X+1)%gc->nslots when the helper GC_Next is the increment-and-wrap successor
    `i++; return i == gc->nslots ? 0 : i;` (or `return (i+1) % gc->nslots;`).  Justification: the probe index always
    satisfies 0 <= i < nslots (it starts as hash % nslots and is advanced only by this step), and on that domain both
    denote the successor modulo nslots."""
    hb = norm(func_body(gc, r'static\s+uint64_t\s+GC_Next\s*\(\s*struct\s+GC\*\s*gc\s*,\s*uint64_t\s+i\s*\)\s*\{'))
    if hb in ('{i++;returni==gc->nslots?0:i;}', '{return(i+1)%gc->nslots;}', '{i++;return(i==gc->nslots)?0:i;}'):
        text = re.sub(r'GC_Next\(gc,(\w+)\)', r'(\1+1)%gc->nslots', text)
    return text


def small_expr(text, var):
    """a C expression over `var`, decimal literals, + * / and parentheses as a Coq N expression in n (None otherwise)"""
    t = norm(text).replace(var, 'n')
    if not t or not re.fullmatch(r'[n0-9+*/()]+', t) or '//' in t or '**' in t:
        return None
    depth = 0
    for ch in t:
        depth += ch == '('; depth -= ch == ')'
        if depth < 0: return None
    if depth: return None
    return re.sub(r'([+*/])', r' \1 ', t)


def generate(repo, emit, src, func_body):
    gc = src('src/GC.c')
    # --- TLS callback
    b = func_body(gc, r'void\s+GC_Mark\s*\(\s*struct\s+GC\*\s*gc\s*\)\s*\{')
    m = re.search(r'mark\s*\(\s*current\s*\(\s*Thread\s*\)\s*,\s*gc\s*,\s*\(void\(\*\)\(var,void\*\)\)\s*(\w+)\s*\)', b or '')
    cb = m.group(1) if m else None
    if cb == 'GC_Mark_And_Recurse':
        emit('gc_tls_recurses', 'Definition gc_tls_recurses : bool := true.   (* source: mark(current(Thread), gc, GC_Mark_And_Recurse) *)')
    elif cb == 'GC_Mark_Item':
        emit('gc_tls_recurses', 'Definition gc_tls_recurses : bool := false.   (* source: mark(current(Thread), gc, GC_Mark_Item) *)')
    else:
        emit('gc_tls_recurses', None)
    # --- GC_Mark_And_Recurse
    mb = norm(func_body(gc, r'static\s+void\s+GC_Mark_And_Recurse\s*\(\s*void\*\s*_gc\s*,\s*void\*\s*ptr\s*\)\s*\{'))
    reader = sym.Reader(gc, func_body, lambda t: inline_helpers(t, gc, func_body))
    ib_raw = func_body(gc, r'static\s+void\s+GC_Mark_Item\s*\(\s*void\*\s*_gc\s*,\s*void\*\s*ptr\s*\)\s*\{')
    # decision table of GC_Mark_Item: the pinned form (probe loop inline) by its text, any loop-free form symbolically
    item_pinned = inline_helpers(norm(ib_raw), gc, func_body) == norm(EXPECT[ITEM_KEY])
    item_table, item_why = (sym.model_item(), None) if item_pinned else (None, None)
    if item_table is None:
        try:
            item_table = reader.table(ib_raw, sym.ITEM_FACTS)
            item_why = sym.diff(sym.ITEM_FACTS, item_table, sym.model_item())
        except (sym.Unknown, TypeError) as e:
            item_why = 'not read: %s' % e
    mar_raw = func_body(gc, r'static\s+void\s+GC_Mark_And_Recurse\s*\(\s*void\*\s*_gc\s*,\s*void\*\s*ptr\s*\)\s*\{')
    if mb == norm(MAR_NEW):
        emit('gc_mar_guarded', 'Definition gc_mar_guarded : bool := true.   (* source: if (GC_Mem_Ptr(gc, ptr)) { GC_Mark_Item(gc, ptr); return; } GC_Recurse(gc, ptr); *)')
    elif mb == norm(MAR_OLD):
        emit('gc_mar_guarded', 'Definition gc_mar_guarded : bool := false.   (* source: GC_Mark_Item(gc, ptr); GC_Recurse(gc, ptr); *)')
    else:
        why = None
        try:
            t = reader.table(mar_raw, sym.ITEM_FACTS, item_table=item_table if item_table and not item_why else sym.model_item())
            why = sym.diff(sym.ITEM_FACTS, t, sym.model_mar(True))
            if why is None:
                emit('gc_mar_guarded', 'Definition gc_mar_guarded : bool := true.   (* decision table of GC_Mark_And_Recurse read symbolically: registered -> as GC_Mark_Item, not registered -> GC_Recurse *)')
            elif sym.diff(sym.ITEM_FACTS, t, sym.model_mar(False)) is None:
                emit('gc_mar_guarded', 'Definition gc_mar_guarded : bool := false.   (* decision table: GC_Mark_Item, then GC_Recurse on everything *)')
            else:
                emit('gc_mar_guarded (GC_Mark_And_Recurse differs from the model in row %s)' % why, None)
        except (sym.Unknown, TypeError) as e:
            emit('gc_mar_guarded (GC_Mark_And_Recurse not read: %s)' % e, None)
    # --- leaf types of GC_Recurse
    rb = func_body(gc, r'static\s+void\s+GC_Recurse\s*\(\s*struct\s+GC\*\s*gc\s*,\s*var\s+ptr\s*\)\s*\{')
    lm = re.search(r'if\s*\(((?:\s*type\s+is\s+\w+\s*(?:or)?)+)\)\s*\{\s*return;\s*\}', rb or '')
    leaf_text = None
    if lm:
        leaves = re.findall(r'type\s+is\s+(\w+)', lm.group(1))
        leaf_text = lm.group(1)
        emit('gc_leaf_types', 'Definition gc_leaf_types : list string := [%s]%%string.' % '; '.join('"%s"' % x for x in leaves))
    else:
        emit('gc_leaf_types', None)
    # --- exits of the tracer: GC_Recurse returns early only on a leaf type (and after delegating to a Mark instance),
    # GC_Mark_Item only on the prefilter, at the end of the probe sequence, and after tracing the entry it marked.
    # Any further exit (e.g. a nesting-depth cap) would leave reachable objects unvisited: the model's mark phase has
    # no depth bound, the implementation's depth is limited by the C stack only (finding F1).
    if rb:
        emit('gc_tracer_exits', 'Definition gc_recurse_returns : nat := %d.   (* number of `return` statements in GC_Recurse *)'
             % len(re.findall(r'\breturn\b', rb)))
    else:
        emit('gc_tracer_exits', None)
    # --- shapes
    bad = []
    ROOTLOOP = r'for\(size_ti=0;i<gc->nslots;i\+\+\)\{'

    def cut_root_loop(text):
        """(text with the body of the root loop replaced by a placeholder, the body) on normalised text"""
        m = re.search(ROOTLOOP, text)
        if not m: return text, None
        depth, j = 1, m.end()
        while j < len(text) and depth:
            depth += text[j] == '{'; depth -= text[j] == '}'
            j += 1
        return text[:m.end()] + 'ROOTBODY}' + text[j:], text[m.end() - 1:j]

    for (file, hdr), want in EXPECT.items():
        body = func_body(src(file), hdr)
        got = norm(body)
        if file == 'src/GC.c':
            got = inline_helpers(got, gc, func_body)
        w = want
        if 'LEAFTEST' in w:
            w = w.replace('LEAFTEST', norm(leaf_text) if leaf_text else '?')
        if 'TLSCB' in w:
            w = w.replace('TLSCB', cb or '?')
        if (file, hdr) == ITEM_KEY:
            # GC_Mark_Item: accepted when its decision table is the model's (pinned text, or read symbolically)
            if item_why:
                bad.append('GC_Mark_Item [%s]' % item_why)
            continue
        if re.search(r'void\\s\+GC_Mark\\s', hdr) and 'GC_Mark_Stack' not in hdr and 'GC_Mark_Item' not in hdr:
            # GC_Mark: the text around the root loop as pinned; the loop body by its decision table
            g2, _ = cut_root_loop(got)
            w2, _ = cut_root_loop(norm(w))
            m = re.search(r'for\s*\(\s*size_t\s+i\s*=\s*0\s*;\s*i\s*<\s*gc->nslots\s*;\s*i\+\+\s*\)\s*\{', body or '')
            why = 'no root loop'
            if m:
                try:
                    lb = func_body(body[m.start():], r'for\s*\([^{]*\{')
                    why = sym.diff(sym.ROOT_FACTS, reader.table(lb, sym.ROOT_FACTS), sym.model_root())
                except (sym.Unknown, TypeError) as e:
                    why = 'root loop not read: %s' % e
            if g2 != w2:
                bad.append('GC_Mark')
            elif why:
                bad.append('GC_Mark root loop [%s]' % why)
            continue
        alt = None
        if 'Thread_Mark' in hdr:
            # repaired form (fix f2b0c3a): only the current thread walks its own thread local storage; the mark phase
            # of C01 reaches the TLS through current(Thread), for which both forms do the same
            alt = '{struct Thread*t=self;if(self isnt Thread_Current()){return;}mark(t->tls,gc,f);}'
        if got != norm(w) and not (alt and got == norm(alt)):
            nm = re.findall(r'GC_Mark_Item|GC_Recurse|GC_Mark_Stack|GC_Mark|[A-Z][a-z]+_Mark|mark', hdr)
            bad.append(nm[0] if nm else hdr)
    # --- collection trigger (GC_Set) and the mitems rule (GC_Sweep, GC_Rem)
    setb = norm(func_body(gc, r'static\s+void\s+GC_Set\s*\(\s*var\s+self\s*,\s*var\s+key\s*,\s*var\s+val\s*\)\s*\{'))
    want_set = norm('{struct GC* gc = self; if (not gc->running) { return; } gc->nitems++;'
                    'gc->maxptr = (uintptr_t)key > gc->maxptr ? (uintptr_t)key : gc->maxptr;'
                    'gc->minptr = (uintptr_t)key < gc->minptr ? (uintptr_t)key : gc->minptr;'
                    'GC_Resize_More(gc); GC_Set_Ptr(gc, key, (bool)c_int(val));'
                    'if (gc->nitems > gc->mitems) { GC_Mark(gc); GC_Sweep(gc); }}')
    sweepb = norm(func_body(gc, r'void\s+GC_Sweep\s*\(\s*struct\s+GC\*\s*gc\s*\)\s*\{'))
    remb = norm(func_body(gc, r'static\s+void\s+GC_Rem\s*\(\s*var\s+self\s*,\s*var\s+key\s*\)\s*\{'))
    # repaired form (fix b4ae34a): no collection is started while a sweep is running (destructor that allocates)
    want_set2 = want_set.replace(norm('if (gc->nitems > gc->mitems)'), norm('if (gc->freelist isnt NULL) { return; } if (gc->nitems > gc->mitems)'))
    # variant the model can follow faithfully (switch fin_widens = false): the window is widened only AFTER the early
    # return, i.e. not for an object a finaliser allocates while a sweep is running
    widen = norm('gc->maxptr = (uintptr_t)key > gc->maxptr ? (uintptr_t)key : gc->maxptr;'
                 'gc->minptr = (uintptr_t)key < gc->minptr ? (uintptr_t)key : gc->minptr;')
    guard = norm('if (gc->freelist isnt NULL) { return; }')
    want_set3 = want_set2.replace(widen, '', 1).replace(guard, guard + widen, 1)
    # the threshold POLICY (what mitems is set to after a sweep / a removal) is tuning: it decides when a collection runs,
    # not what it does.  It is read as a small expression in gc->nitems and handed to the model as a parameter; the
    # theorems hold for every policy.  The two sites must agree (the model has one policy).
    r1 = re.findall(r'gc->mitems=([^;]+);', sweepb)
    r2 = re.findall(r'gc->mitems=([^;]+);', remb)
    pol, poltext = None, None
    if len(r1) == 1 and len(r2) == 1 and r1[0] == r2[0]:
        poltext = r1[0]
        pol = small_expr(r1[0], 'gc->nitems')
        mh = re.fullmatch(r'(GC_\w+)\(gc->nitems\)', r1[0])
        if not pol and mh:
            # the policy lives in a helper  static size_t NAME(size_t nitems) { [size_t v = e;] return e' ; }
            hb = func_body(gc, r'static\s+size_t\s+%s\s*\(\s*size_t\s+nitems\s*\)\s*\{' % mh.group(1))
            hn = norm(hb)
            m1 = re.fullmatch(r'\{return([^;?]+);\}', hn)
            m2 = re.fullmatch(r'\{size_t(\w+)=([^;?]+);return\1<(\d+)\?\3:\1;\}', hn)
            if m1:
                pol = small_expr(m1.group(1), 'nitems'); poltext = hn
            elif m2 and small_expr(m2.group(2), 'nitems'):
                pol = 'N.max %s (%s)' % (m2.group(3), small_expr(m2.group(2), 'nitems')); poltext = hn
    if pol:
        emit('gc_next_mitems', 'Definition gc_next_mitems (n : N) : N := (%s)%%N.   (* source: gc->mitems = %s *)' % (pol, poltext))
    else:
        # every theorem holds for EVERY policy and no comparison depends on when the model collects: an expression the
        # translator does not read is replaced by the pinned policy in the executable model (and said so)
        emit('gc_next_mitems', 'Definition gc_next_mitems (n : N) : N := (n + n / 2 + 1)%%N.   (* policy of the source NOT translated (%s): '
             'the executable model uses n + n/2 + 1; the theorems hold for every policy *)' % (poltext or 'two different or no assignments to gc->mitems'))
    if setb in (want_set, want_set2, want_set3):
        emit('gc_threshold_shape_ok', 'Definition gc_threshold_shape_ok : bool := true.   (* GC_Set: register, then trigger on nitems > mitems *)')
    else:
        emit('gc_threshold_shape_ok', None)
    if setb in (want_set, want_set2):
        emit('gc_finaliser_alloc_widens', 'Definition gc_finaliser_alloc_widens : bool := true.   (* GC_Set widens minptr/maxptr before `if (gc->freelist isnt NULL) return;` *)')
    elif setb == want_set3:
        emit('gc_finaliser_alloc_widens', 'Definition gc_finaliser_alloc_widens : bool := false.   (* GC_Set widens minptr/maxptr only after `if (gc->freelist isnt NULL) return;` *)')
    else:
        emit('gc_finaliser_alloc_widens', None)
    # --- heap view objects: which internal objects their constructors allocate, and whether those are MANAGED (new) or raw
    # (new_raw).  The views have no Mark instance (their words are scanned), so what hangs off a raw internal object is
    # invisible to the collector: containers reachable only through the view would be reclaimed.
    it = src('src/Iter.c')
    zb = norm(func_body(it, r'static\s+void\s+Zip_New\s*\([^{]*\{'))
    sb = norm(func_body(it, r'static\s+void\s+Slice_New\s*\([^{]*\{'))
    rbb = norm(func_body(it, r'static\s+void\s+Range_New\s*\([^{]*\{'))
    allocs = re.findall(r'->(iters|values|range|value)=(new|new_raw|new_root)\((\w+)\)', zb + sb + rbb)
    want_allocs = [('iters', 'Tuple'), ('values', 'Tuple'), ('range', 'Range'), ('value', 'Int')]
    if [(f, t) for f, _, t in allocs] == want_allocs:
        emit('view_internals_registered', 'Definition view_internals_registered : bool := %s.   (* Zip: iters, values; Slice: range; Range: value allocated with %s *)'
             % ('true' if all(a == 'new' for _, a, _ in allocs) else 'false', ' '.join(a for _, a, _ in allocs)))
    else:
        emit('view_internals_registered', None)
    if bad:
        emit('gc_mark_shape_ok (changed: %s)' % ', '.join(bad), None)
    else:
        emit('gc_mark_shape_ok', 'Definition gc_mark_shape_ok : bool := true.')
