#!/usr/bin/env python3
"""gen_params.py <repo> <out.v> — translator for DATA: re-extracts from the C sources the
tables, constants, rules and character sets the Coq proofs rely on, and writes them as
Gallina definitions (coq/Generated.v).  Runs on every check; the file is replaced only when
its content changes.  A pattern that no longer matches leaves its definition out (the Coq
build of everything depending on it then fails = broken obligation) and is reported on
stdout as `FAIL <name>`; exit status 1 if any pattern failed."""
import sys, os, re

repo, out = sys.argv[1], sys.argv[2]
status, defs = [], []


def src(name):
    p = os.path.join(repo, name)
    s = open(p, errors='replace').read()
    # strip comments
    s = re.sub(r'/\*.*?\*/', ' ', s, flags=re.S)
    return s


def emit(name, text):
    if text is None:
        status.append('FAIL ' + name)
        defs.append('(* MISSING: %s — pattern not found in the source *)' % name)
    else:
        status.append('ok ' + name)
        defs.append(text)


def nat_list(xs):
    return '[' + '; '.join(str(x) for x in xs) + ']'


def func_body(s, header_re):
    """Text of the function whose header matches header_re (brace matching)."""
    m = re.search(header_re, s)
    if not m:
        return None
    i = s.find('{', m.end() - 1)
    if i < 0:
        return None
    depth, j = 0, i
    while j < len(s):
        if s[j] == '{':
            depth += 1
        elif s[j] == '}':
            depth -= 1
            if depth == 0:
                return s[i:j + 1]
        j += 1
    return None


def primes(file, arr, coqname):
    s = src(file)
    m = re.search(r'%s\s*\[[^\]]*\]\s*=\s*\{([^}]*)\}' % arr, s)
    if not m:
        return emit(coqname, None)
    xs = [int(x) for x in re.findall(r'\d+', m.group(1))]
    # N literals would be needed for large nat; they are given as N and converted
    emit(coqname, 'Definition %s : list N := %s%%N.' % (coqname, nat_list(xs)))


def load_factor(file, var, coqname):
    s = src(file)
    m = re.search(r'%s\s*=\s*([0-9.]+)\s*;' % var, s)
    if not m:
        return emit(coqname, None)
    txt = m.group(1)
    if '.' in txt:
        frac = txt.split('.')[1]
        num, den = int(txt.replace('.', '')), 10 ** len(frac)
    else:
        num, den = int(txt), 1
    from math import gcd
    g = gcd(num, den)
    emit(coqname, 'Definition %s_num : N := %d%%N.\nDefinition %s_den : N := %d%%N.' % (coqname, num // g, coqname, den // g))


def swap_rule(file, fn, coqname):
    s = src(file)
    b = func_body(s, r'static\s+void\s+%s\s*\([^)]*\)\s*\{' % fn)
    if not b:
        return emit(coqname, None)
    m = re.search(r'if\s*\(\s*j\s*(>=|>)\s*p\s*\)', b)
    if not m:
        return emit(coqname, None)
    if m.group(1) == '>=':
        emit(coqname, 'Definition %s (j p : nat) : bool := p <=? j.   (* source: if (j >= p) *)' % coqname)
    else:
        emit(coqname, 'Definition %s (j p : nat) : bool := p <? j.   (* source: if (j > p) *)' % coqname)


def ideal_shape(file, fn, coqname):
    """Checks that <fn> still has the shape the model of ideal_size encodes."""
    s = src(file)
    b = func_body(s, r'static\s+size_t\s+%s\s*\(\s*size_t\s+size\s*\)\s*\{' % fn)
    ok = bool(b) and re.search(r'size\s*=\s*\(size_t\)\s*\(\s*\(double\)\s*\(size\s*\+\s*1\)\s*/\s*\w+_Load_Factor\s*\)', b) \
        and re.search(r'if\s*\(\s*\w+_Primes\[i\]\s*>=\s*size\s*\)\s*\{\s*return\s+\w+_Primes\[i\]', b) \
        and re.search(r'if\s*\(\s*last\s*\*\s*i\s*>=\s*size\s*\)\s*\{\s*return\s+last\s*\*\s*i', b)
    emit(coqname, ('Definition %s : bool := true.' % coqname) if ok else None)


def define_const(file, name, coqname):
    s = src(file)
    m = re.search(r'#define\s+%s\s+(\d+)' % name, s) or re.search(r'\b%s\s*=\s*(\d+)' % name, s)
    emit(coqname, ('Definition %s : nat := %s.' % (coqname, m.group(1))) if m else None)


primes('src/Table.c', 'Table_Primes', 'table_primes')
load_factor('src/Table.c', 'Table_Load_Factor', 'table_load')
swap_rule('src/Table.c', 'Table_Set_Move', 'table_swap')
ideal_shape('src/Table.c', 'Table_Ideal_Size', 'table_ideal_shape_ok')
primes('src/GC.c', 'GC_Primes', 'gc_primes')
load_factor('src/GC.c', 'GC_Load_Factor', 'gc_load')
swap_rule('src/GC.c', 'GC_Set_Ptr', 'gc_swap')
ideal_shape('src/GC.c', 'GC_Ideal_Size', 'gc_ideal_shape_ok')
define_const('src/Exception.c', 'EXCEPTION_MAX_DEPTH', 'exc_max_depth')
define_const('include/Cello.h', 'CELLO_CACHE_NUM', 'cello_cache_num')

# further generators live in tools/gen_*.py modules (one per model group); each exposes
# generate(repo, emit, src, func_body)
here = os.path.dirname(os.path.abspath(__file__))
sys.path.insert(0, here)
for f in sorted(os.listdir(here)):
    if f.startswith('genx_') and f.endswith('.py'):
        mod = __import__(f[:-3])
        try:
            mod.generate(repo, emit, src, func_body)
        except Exception as e:  # a crashing generator = failed pattern
            emit(f[:-3], None)
            status.append('FAIL %s raised %r' % (f, e))

text = ('(* GENERATED by tools/gen_params.py from the C sources of the working tree — do not edit. *)\n'
        'From Coq Require Import List Arith NArith ZArith String Ascii.\nImport ListNotations.\n'
        'Local Open Scope nat_scope.\n\n' + '\n\n'.join(defs) + '\n')
old = open(out).read() if os.path.exists(out) else None
if old != text:
    tmp = out + '.tmp%d' % os.getpid()
    open(tmp, 'w').write(text)
    os.replace(tmp, out)
print('\n'.join(status))
sys.exit(1 if any(s.startswith('FAIL') for s in status) else 0)
