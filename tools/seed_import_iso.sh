#!/bin/sh
# tools/seed_import_iso.sh <id> <tag> : run tools/seed_import.py for one property from a private COPY of /verif, so that
# several imports can run side by side (each regenerates coq/Generated.v from ITS patched scratch tree; in a shared
# coq/ directory two imports would race on that file).  The confirmed changes are copied back to /verif/seeded/ with
# the replay paths rewritten; the copy is removed.
set -e
id=$1; tag=$2
c=/tmp/vc_$id
rm -rf "$c"; cp -r /verif "$c"
(cd "$c" && python3 -u tools/seed_import.py "$id" --tag "$tag")
for d in "$c"/seeded/"$id"-"$tag"-*; do
  [ -d "$d" ] || continue
  cp -r "$d" /verif/seeded/
  sed -i "s#$c/#/verif/#g" /verif/seeded/"$(basename "$d")"/meta.json
done
rm -rf "$c"
