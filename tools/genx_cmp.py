"""genx_cmp.py — re-reads from the C sources the small rules the C09 model and proofs rely on
(Int_Cmp / Float_Cmp expression shape, the common body of the four container comparisons, the
predicate definitions of Cmp.c, the default memcmp rule).  generate(repo, emit, src, func_body)."""
import re


def norm(b):
    return re.sub(r'\s+', '', b or '')


def generate(repo, emit, src, func_body):
    num = src('src/Num.c')
    b = norm(func_body(num, r'static\s+int\s+Int_Cmp\s*\([^)]*\)\s*\{'))
    # int_cmp_threeway is ALWAYS defined (the executable model must keep building so that the
    # correspondence can search for a failing input); int_cmp_shape_ok only when the text is one
    # of the two known variants
    three = bool(re.search(r'returna<b\?-1:a>b\?1:0;', b)) and 'int64_ta=Int_C_Int(self);' in b and 'int64_tb=c_int(obj);' in b
    trunc = bool(re.search(r'return\(int\)\(Int_C_Int\(self\)-c_int\(obj\)\);', b) or re.search(r'return\(int\)\(a-b\);', b))
    if trunc and not three:
        emit('int_cmp_threeway', 'Definition int_cmp_threeway : bool := false.   (* source: return (int)(a - b); *)')
    else:
        emit('int_cmp_threeway', 'Definition int_cmp_threeway : bool := true.   (* source: %s *)'
             % ('return a < b ? -1 : a > b ? 1 : 0;' if three else 'NOT RECOGNISED, three-way assumed'))
    emit('int_cmp_shape_ok', 'Definition int_cmp_shape_ok : bool := true.   (* Int_Cmp is one of the two modelled variants *)'
         if (three or trunc) else None)

    b = norm(func_body(num, r'static\s+int\s+Float_Cmp\s*\([^)]*\)\s*\{'))
    ok = b == '{doublec=Float_C_Float(self)-c_float(obj);returnc>0?1:c<0?-1:0;}'
    emit('float_cmp_shape_ok', 'Definition float_cmp_shape_ok : bool := true.   (* double c = a - b; return c > 0 ? 1 : c < 0 ? -1 : 0; *)' if ok else None)

    # the common comparison loop of Array / List / Tuple
    loop = ('while(true){if(item0isTerminalanditem1isTerminal){return0;}if(item0isTerminal){return-1;}'
            'if(item1isTerminal){return1;}intc=cmp(item0,item1);if(c<0){return-1;}if(c>0){return1;}')
    oks = []
    for f, fn, adv in (('src/Array.c', 'Array_Cmp', 'item0=Array_Iter_Next(self,item0);item1=iter_next(obj,item1);}'),
                       ('src/List.c', 'List_Cmp', 'item0=List_Iter_Next(self,item0);item1=iter_next(obj,item1);}'),
                       ('src/Tuple.c', 'Tuple_Cmp', 'i++;item0=t->items[i];item1=iter_next(obj,item1);}')):
        b = norm(func_body(src(f), r'static\s+int\s+%s\s*\([^)]*\)\s*\{' % fn))
        advs = [adv]
        if fn == 'Tuple_Cmp':      # the walk over self is a modelled variant of its own (tuple_cmp_self_by_index below)
            advs.append('item0=Tuple_Iter_Next(self,item0);item1=iter_next(obj,item1);}')
        oks.append(any((loop + a) in b for a in advs) and 'item1=iter_init(obj);' in b)
    emit('seq_cmp_shape_ok', 'Definition seq_cmp_shape_ok : bool := true.   (* Array_Cmp, List_Cmp, Tuple_Cmp: parallel walk, length tie-break *)' if all(oks) else None)

    # which walk Tuple_Cmp uses over `self` (always defined: the model must keep building)
    b = norm(func_body(src('src/Tuple.c'), r'static\s+int\s+Tuple_Cmp\s*\([^)]*\)\s*\{'))
    by_iter = 'Tuple_Iter_Next(self,item0)' in b or 'iter_next(self,item0)' in b
    emit('tuple_cmp_self_by_index', 'Definition tuple_cmp_self_by_index : bool := %s.   (* source: %s *)'
         % (('false', 'item0 = Tuple_Iter_Next(self, item0)') if by_iter else ('true', 'i++; item0 = t->items[i]')))

    b = norm(func_body(src('src/Tree.c'), r'static\s+int\s+Tree_Cmp\s*\([^)]*\)\s*\{'))
    tl = ('while(true){if(item0isTerminalanditem1isTerminal){return0;}if(item0isTerminal){return-1;}'
          'if(item1isTerminal){return1;}c=cmp(item0,item1);if(c<0){return-1;}if(c>0){return1;}'
          'c=cmp(Tree_Get(self,item0),get(obj,item1));if(c<0){return-1;}if(c>0){return1;}'
          'item0=Tree_Iter_Next(self,item0);item1=iter_next(obj,item1);}')
    emit('tree_cmp_shape_ok', 'Definition tree_cmp_shape_ok : bool := true.   (* Tree_Cmp: key, then value, then advance *)' if tl in b else None)

    c = norm(src('src/Cmp.c'))
    preds = ['booleq(varself,varobj){returncmp(self,obj)is0;}',
             'boolneq(varself,varobj){returnnoteq(self,obj);}',
             'boolgt(varself,varobj){returncmp(self,obj)>0;}',
             'boollt(varself,varobj){returncmp(self,obj)<0;}',
             'boolge(varself,varobj){returnnotlt(self,obj);}',
             'boolle(varself,varobj){returnnotgt(self,obj);}']
    emit('cmp_predicates_shape_ok', 'Definition cmp_predicates_shape_ok : bool := true.   (* eq neq gt lt ge le as tests of cmp *)'
         if all(p in c for p in preds) else None)
    dflt = ('if(candc->cmp){returnc->cmp(self,obj);}size_ts=size(type_of(self));'
            'if(type_of(self)istype_of(obj)ands){returnmemcmp(self,obj,s);}')
    emit('cmp_default_shape_ok', 'Definition cmp_default_shape_ok : bool := true.   (* cmp: instance, else memcmp over size(type) *)'
         if dflt in c else None)
