"""genx_cmp.py — re-reads from the C sources the small rules the C09 model and proofs rely on
(Int_Cmp / Float_Cmp expression shape, the common body of the four container comparisons, the
predicate definitions of Cmp.c, the default memcmp rule).  generate(repo, emit, src, func_body)."""
import re


def norm(b):
    return re.sub(r'\s+', '', b or '')


def generate(repo, emit, src, func_body):
    from cx_translate import translate, Untranslatable, AST
    emit('cmp_ast', AST)
    num = src('src/Num.c')

    def code(name, body, atoms, zero_var=None, comment=''):
        """ALWAYS defined (option): None when the body is outside the translated fragment"""
        try:
            if body is None:
                raise Untranslatable('function not found')
            t = translate(body, atoms, zero_var)
            emit(name, 'Definition %s : option cprog := Some %s.   (* translated from %s *)' % (name, t, comment))
        except Untranslatable as e:
            emit(name, 'Definition %s : option cprog := None.   (* %s: not translated: %s *)' % (name, comment, str(e)[:80].replace('*)', '* )')))

    code('int_cmp_code', func_body(num, r'static\s+int\s+Int_Cmp\s*\([^)]*\)\s*\{'),
         {'Int_C_Int(self)': 0, 'c_int(obj)': 1, 'c_int(self)': 0}, comment='src/Num.c Int_Cmp')
    code('float_cmp_code', func_body(num, r'static\s+int\s+Float_Cmp\s*\([^)]*\)\s*\{'),
         {'Float_C_Float(self)': 0, 'c_float(obj)': 1, 'c_float(self)': 0}, comment='src/Num.c Float_Cmp')

    # the six predicates of Cmp.c, each as an expression over r = cmp(self, obj) (slot 0) and the literal 0
    # (slot 1); a call of another predicate on (self, obj) is inlined (one level at a time, no recursion)
    cmpc = src('src/Cmp.c')
    bodies = {}
    for nm in ('eq', 'neq', 'lt', 'gt', 'le', 'ge'):
        bodies[nm] = func_body(cmpc, r'\bbool\s+%s\s*\(\s*var\s+self\s*,\s*var\s+obj\s*\)\s*\{' % nm)
    done = {}

    def pred(nm, depth=0):
        if nm in done:
            return done[nm]
        if depth > 6 or bodies.get(nm) is None:
            raise Untranslatable('predicate ' + nm)
        atoms = {'cmp(self, obj)': 0}
        for other in bodies:
            if other != nm and re.search(r'\b%s\s*\(\s*self\s*,\s*obj\s*\)' % other, bodies[nm]):
                atoms['%s(self, obj)' % other] = pred(other, depth + 1)
        prog = translate(bodies[nm], atoms, zero_var=1)
        m = re.fullmatch(r'\(\[\], (.*)\)', prog, re.S)
        if not m:
            raise Untranslatable('predicate with locals')
        done[nm] = m.group(1)
        return done[nm]
    try:
        es = [pred(nm) for nm in ('eq', 'neq', 'lt', 'gt', 'le', 'ge')]
        emit('pred_codes', 'Definition pred_codes : option (list cexp) := Some [%s].   (* src/Cmp.c eq neq lt gt le ge *)' % ';\n  '.join(es))
    except Untranslatable as e:
        emit('pred_codes', 'Definition pred_codes : option (list cexp) := None.   (* not translated: %s *)' % str(e)[:80].replace('*)', '* )'))

    # the common comparison loop of Array / List / Tuple
    loop = ('while(true){if(item0isTerminalanditem1isTerminal){return0;}if(item0isTerminal){return-1;}'
            'if(item1isTerminal){return1;}intc=cmp(item0,item1);if(c<0){return-1;}if(c>0){return1;}')
    oks = []
    for f, fn, adv in (('src/Array.c', 'Array_Cmp', 'item0=Array_Iter_Next(self,item0);item1=iter_next(obj,item1);}'),
                       ('src/List.c', 'List_Cmp', 'item0=List_Iter_Next(self,item0);item1=iter_next(obj,item1);}'),
                       ('src/Tuple.c', 'Tuple_Cmp', 'i++;item0=t->items[i];item1=iter_next(obj,item1);}')):
        b = norm(func_body(src(f), r'static\s+int\s+%s\s*\([^)]*\)\s*\{' % fn))
        advs = [adv]
        if fn == 'Tuple_Cmp':      # the walk over self is a modelled variant of its own (tuple_cmp_self_by_index below)
            advs.append('item0=Tuple_Iter_Next(self,item0);item1=iter_next(obj,item1);}')
        oks.append(any((loop + a) in b for a in advs) and 'item1=iter_init(obj);' in b)
    emit('seq_cmp_shape_ok', 'Definition seq_cmp_shape_ok : bool := true.   (* Array_Cmp, List_Cmp, Tuple_Cmp: parallel walk, length tie-break *)' if all(oks) else None)

    # which walk Tuple_Cmp uses over `self` (always defined: the model must keep building)
    b = norm(func_body(src('src/Tuple.c'), r'static\s+int\s+Tuple_Cmp\s*\([^)]*\)\s*\{'))
    by_iter = 'Tuple_Iter_Next(self,item0)' in b or 'iter_next(self,item0)' in b
    emit('tuple_cmp_self_by_index', 'Definition tuple_cmp_self_by_index : bool := %s.   (* source: %s *)'
         % (('false', 'item0 = Tuple_Iter_Next(self, item0)') if by_iter else ('true', 'i++; item0 = t->items[i]')))

    b = norm(func_body(src('src/Tree.c'), r'static\s+int\s+Tree_Cmp\s*\([^)]*\)\s*\{'))
    tl = ('while(true){if(item0isTerminalanditem1isTerminal){return0;}if(item0isTerminal){return-1;}'
          'if(item1isTerminal){return1;}c=cmp(item0,item1);if(c<0){return-1;}if(c>0){return1;}'
          'c=cmp(Tree_Get(self,item0),get(obj,item1));if(c<0){return-1;}if(c>0){return1;}'
          'item0=Tree_Iter_Next(self,item0);item1=iter_next(obj,item1);}')
    emit('tree_cmp_shape_ok', 'Definition tree_cmp_shape_ok : bool := true.   (* Tree_Cmp: key, then value, then advance *)' if tl in b else None)

    # cmp(): executed symbolically for the 16 assignments of (instance present, cmp member present, same type,
    # size non-zero); outcomes 0 = call the instance, 1 = memcmp over size(type_of(self)), 2 = TypeError, 3 = NULL deref
    from cx_translate import dispatch_table
    try:
        rows = dispatch_table(cmpc, func_body)
        txt = '; '.join('(%s, %s, %s, %s, %d)' % tuple([str(x).lower() for x in r[:4]] + [r[4]]) for r in rows)
        emit('cmp_dispatch_table', 'Definition cmp_dispatch_table : option (list (bool * bool * bool * bool * nat)) :=\n  Some [%s].   (* src/Cmp.c cmp *)' % txt)
    except Untranslatable as e:
        emit('cmp_dispatch_table', 'Definition cmp_dispatch_table : option (list (bool * bool * bool * bool * nat)) := None.   (* not translated: %s *)' % str(e)[:80].replace('*)', '* )'))
