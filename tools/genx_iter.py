"""genx_iter.py — data and tiny rules of the iteration code (C11) re-read from the C source on every run.

Emits into coq/Generated.v
  iter_*  : bool   one flag per repaired defect: true = the repaired text is in the source, false = the
                   pre-repair text is (the model coq/IterModel.v has both variants, selected by the record
                   `rules`; Properties_C11.v proves `source_rules = repaired` by reflexivity, so a revert
                   breaks that obligation while the extracted model keeps following the source);
                   neither text recognised = the definition is left out = broken obligation
  iter_shape_<fn> : bool := true   the body of <fn> is, after whitespace normalisation, the text the model
                   was written from (the small cursor functions of src/Iter.c modelled "as written")
  iter_tree_desc : bool   orientation of Tree (larger keys to the left => in-order walk is descending)
"""
import re


def norm(s):
    return re.sub(r'\s+', ' ', s).strip()


# ---------------------------------------------------------------------------------------------------------------
# translator for integer expressions of C (int64_t arithmetic) into Gallina over Z: every operation that can wrap is
# put under `w` (= wrap64); `/` is Z.quot, `%` is Z.rem (C truncating division).  Names: r->start, r->stop, r->step,
# Range_Len(r) (= n) and the locals bound so far.
class CExprError(Exception):
    pass


def _tokens(text):
    toks = re.findall(r'r->\w+|Range_Len\(r\)|\(\s*(?:int64_t|size_t|uint64_t)\s*\)|[A-Za-z_]\w*|\d+|[-+*/%()]', text)
    if ''.join(toks).replace(' ', '') != re.sub(r'\s+', '', text):
        raise CExprError('untranslatable text: ' + text)
    return [t for t in toks if not re.match(r'\(\s*(?:int64_t|size_t|uint64_t)\s*\)$', t)]      # casts between 64-bit types: identity on the box


def cexpr(text, env):
    toks = _tokens(text)
    pos = [0]

    def peek():
        return toks[pos[0]] if pos[0] < len(toks) else None

    def take():
        t = peek(); pos[0] += 1
        return t

    def atom():
        t = take()
        if t is None:
            raise CExprError('unexpected end')
        if t == '(':
            e = add()
            if take() != ')':
                raise CExprError('missing )')
            return e
        if t == '-':
            return '(w (- %s))' % atom()
        if t == '+':
            return atom()
        if re.match(r'\d+$', t):
            return t
        if t in env:
            return env[t]
        raise CExprError('unknown name ' + t)

    def mul():
        e = atom()
        while peek() in ('*', '/', '%'):
            op = take(); f = atom()
            e = {'*': '(w (%s * %s))', '/': '(w (Z.quot %s %s))', '%': '(Z.rem %s %s)'}[op] % (e, f)
        return e

    def add():
        e = mul()
        while peek() in ('+', '-'):
            op = take(); f = mul()
            e = '(w (%s %s %s))' % (e, op, f)
        return e

    e = add()
    if peek() is not None:
        raise CExprError('trailing ' + str(peek()))
    return e


def translate_range_last(b):
    """Range_Iter_Last in the repaired structure: locals, the guard `len == 0 -> Terminal`, one assignment to i->val per
    sign of step, return i.  -> (gallina for step > 0, gallina for step < 0) or None"""
    t = norm(b)
    m = re.match(r'\{ struct Range\* r = self; struct Int\* i = r->value; (.*) return i; \}$', t)
    if not m:
        return None
    rest = m.group(1)
    env = {'r->start': 'start', 'r->stop': 'stop', 'r->step': 'step', 'Range_Len(r)': 'n'}
    guard = False; posx = negx = None
    try:
        while rest:
            mm = re.match(r'int64_t (\w+) = ([^;{}]+); ?', rest)
            if mm and not posx and not negx:
                env[mm.group(1)] = cexpr(mm.group(2), env); rest = rest[mm.end():]; continue
            mm = re.match(r'if \((\w+|Range_Len\(r\)) == 0\) \{ return Terminal; \} ?', rest)
            if mm and env.get(mm.group(1)) == 'n':
                guard = True; rest = rest[mm.end():]; continue
            mm = re.match(r'if \(r->step ([<>]) 0\) \{ i->val = ([^;{}]+); \} ?', rest)
            if mm and guard:
                e = cexpr(mm.group(2), env)
                if mm.group(1) == '>' and posx is None: posx = e
                elif mm.group(1) == '<' and negx is None: negx = e
                else: return None
                rest = rest[mm.end():]; continue
            return None
    except CExprError:
        return None
    return (posx, negx) if guard and posx and negx else None


def generate(repo, emit, src, func_body):
    it, arr, tup, tab, tree = (src('src/' + f) for f in ('Iter.c', 'Array.c', 'Tuple.c', 'Table.c', 'Tree.c'))

    def body(s, name, ret=r'(?:var|size_t|int64_t)'):
        # definition (not prototype): header followed by '{'
        return func_body(s, r'static\s+%s\s+%s\s*\([^)]*\)\s*\{' % (ret, name))

    def flag(name, b, true_re, false_re, what):
        if b is None:
            return emit(name, None)
        t = all(re.search(r, b) for r in true_re)
        f = all(re.search(r, b) for r in false_re) and not t
        if t:
            emit(name, 'Definition %s : bool := true.   (* %s: repaired text *)' % (name, what))
        elif f:
            emit(name, 'Definition %s : bool := false.   (* %s: pre-repair text *)' % (name, what))
        else:
            emit(name, None)

    flag('iter_array_prev_incl', body(arr, 'Array_Iter_Prev'),
         [r'if\s*\(\s*curr\s*<=\s*Array_Item\(a,\s*0\)\s*\)\s*\{\s*return\s+Terminal'],
         [r'if\s*\(\s*curr\s*<\s*Array_Item\(a,\s*0\)\s*\)\s*\{\s*return\s+Terminal'], 'Array_Iter_Prev')
    b = body(arr, 'Array_Iter_Next')
    emit('iter_shape_Array_Iter_Next', 'Definition iter_shape_Array_Iter_Next : bool := true.'
         if b and re.search(r'if\s*\(\s*curr\s*>=\s*Array_Item\(a,\s*a->nitems-1\)\s*\)\s*\{\s*return\s+Terminal', b) else None)
    flag('iter_tuple_last_guard', body(tup, 'Tuple_Iter_Last'),
         [r'if\s*\(\s*nitems\s+is\s+0\s*\)\s*\{\s*return\s+Terminal', r'return\s+t->items\[nitems-1\]'],
         [r'return\s+t->items\[Tuple_Len\(t\)-1\]'], 'Tuple_Iter_Last')
    b = body(it, 'Range_Len')
    div = [r'if\s*\(r->step\s*>\s*0\)\s*\{\s*return\s*\(\(r->stop-1\)\s*-\s*r->start\)\s*/\s*r->step\s*\+\s*1',
           r'if\s*\(r->step\s*<\s*0\)\s*\{\s*return\s*\(\(r->stop-1\)\s*-\s*r->start\)\s*/\s*-r->step\s*\+\s*1']
    if b and re.search(r'if\s*\(\s*r->stop\s*<=\s*r->start\s*\)\s*\{\s*return\s+0', b) and all(re.search(r, b) for r in div):
        emit('iter_range_len_guard', 'Definition iter_range_len_guard : bool := true.   (* Range_Len: repaired text *)')
    elif b and all(re.search(r, b) for r in div) and 'r->stop <=' not in b:
        emit('iter_range_len_guard', 'Definition iter_range_len_guard : bool := false.   (* Range_Len: pre-repair text *)')
    else:
        emit('iter_range_len_guard', None)
    # Range_Iter_Last: TRANSLATED, not matched: the two expressions assigned to i->val become Gallina functions and
    # IterProofs.source_range_last_ok proves that on the box they are first + step*(len-1)
    b = body(it, 'Range_Iter_Last')
    tr = translate_range_last(b) if b else None
    defs = lambda p, n: ('Definition iter_range_last_pos (w : Z -> Z) (start stop step n : Z) : Z := (%s)%%Z.\n'
                         'Definition iter_range_last_neg (w : Z -> Z) (start stop step n : Z) : Z := (%s)%%Z.' % (p, n))
    if tr:
        emit('iter_range_last_aligned', 'Definition iter_range_last_aligned : bool := true.   (* Range_Iter_Last: guard on len, then the translated expressions *)\n' + defs(*tr))
    elif b and re.search(r'if\s*\(r->step\s*>\s*0\)\s*\{\s*i->val\s*=\s*r->stop-1;', b) and re.search(r'if\s*\(r->step\s*<\s*0\)\s*\{\s*i->val\s*=\s*r->start;', b) \
            and 'Range_Len' not in b:
        emit('iter_range_last_aligned', 'Definition iter_range_last_aligned : bool := false.   (* Range_Iter_Last: pre-repair text *)\n' + defs('0', '0'))
    else:
        emit('iter_range_last_aligned', None)
    flag('iter_range_get_checked', body(it, 'Range_Get'),
         [r'int64_t\s+n\s*=\s*Range_Len\(r\)', r'i\s*=\s*i\s*<\s*0\s*\?\s*n\+i\s*:\s*i',
          r'r->step\s*>\s*0\s+and\s+i\s*>=\s*0\s+and\s+i\s*<\s*n', r'r->step\s*<\s*0\s+and\s+i\s*>=\s*0\s+and\s+i\s*<\s*n'],
         [r'r->step\s*>\s*0\s+and\s*\(r->start\s*\+\s*r->step\s*\*\s*i\)\s*<\s*r->stop',
          r'r->step\s*<\s*0\s+and\s*\(r->stop-1\s*\+\s*r->step\s*\*\s*i\)\s*>=\s*r->start'], 'Range_Get')
    flag('iter_slice_arg_signed', body(it, 'Slice_Arg'),
         [r'a\s*=\s*a\s*<\s*0\s*\?\s*\(int64_t\)n\+a\s*:\s*a', r'a\s*=\s*a\s*>\s*\(int64_t\)n\s*\?\s*\(int64_t\)n\s*:\s*a', r'a\s*=\s*a\s*<\s*0\s*\?\s*0\s*:\s*a'],
         [r'a\s*=\s*a\s*<\s*0\s*\?\s*n\+a\s*:\s*a', r'a\s*=\s*a\s*>\s*n\s*\?\s*n\s*:\s*a', r'a\s*=\s*a\s*<\s*0\s*\?\s*0\s*:\s*a'], 'Slice_Arg')
    # Slice walk: all four functions consult the Slice's own Range cursor, or none does
    fs = [('Slice_Iter_Init', r'if\s*\(Range_Iter_Init\(r\)\s+is\s+Terminal\)\s*\{\s*return\s+Terminal'),
          ('Slice_Iter_Next', r'if\s*\(Range_Iter_Next\(r,\s*NULL\)\s+is\s+Terminal\)\s*\{\s*return\s+Terminal'),
          ('Slice_Iter_Last', r'var\s+last\s*=\s*Range_Iter_Last\(r\);\s*if\s*\(last\s+is\s+Terminal\)\s*\{\s*return\s+Terminal;\s*\}\s*int64_t\s+pos\s*=\s*c_int\(last\)'),
          ('Slice_Iter_Prev', r'if\s*\(Range_Iter_Prev\(r,\s*NULL\)\s+is\s+Terminal\)\s*\{\s*return\s+Terminal')]
    bs = [body(it, f) for f, _ in fs]
    if all(bs):
        hits = [bool(re.search(r, b)) for (f, r), b in zip(fs, bs)]
        uses = ['Range_Iter' in b for b in bs]
        if all(hits) and re.search(r'len\(s->iter\)-1-pos', bs[2]) and re.search(r'i\s*<\s*pos;', bs[2]):
            emit('iter_slice_bounded', 'Definition iter_slice_bounded : bool := true.   (* Slice walk: repaired text *)')
        elif not any(uses):
            emit('iter_slice_bounded', 'Definition iter_slice_bounded : bool := false.   (* Slice walk: pre-repair text *)')
        else:
            emit('iter_slice_bounded', None)
    else:
        emit('iter_slice_bounded', None)
    b = body(it, 'Zip_Iter_Last')
    zl = body(it, 'Zip_Item_Len', r'size_t')
    if b and zl and re.search(r'implements_method\(iter,\s*Len,\s*len\)', zl) and re.search(r'for\s*\(;\s*n\s*>\s*mlen;\s*n--\)\s*\{\s*last\s*=\s*iter_prev', b) \
            and re.search(r'mlen\s*=\s*n\s*<\s*mlen\s*\?\s*n\s*:\s*mlen', b):
        emit('iter_zip_last_aligned', 'Definition iter_zip_last_aligned : bool := true.   (* Zip_Iter_Last: repaired text *)')
    elif b and 'iter_prev' not in b and re.search(r'var\s+last\s*=\s*iter_last\(iters->items\[i\]\)', b):
        emit('iter_zip_last_aligned', 'Definition iter_zip_last_aligned : bool := false.   (* Zip_Iter_Last: pre-repair text *)')
    else:
        emit('iter_zip_last_aligned', None)
    b = body(tab, 'Table_Iter_Next')
    m = b and re.search(r'if\s*\(\s*curr\s*(>=|>)\s*Table_Key\(t,\s*t->nslots-1\)\s*\)\s*\{\s*return\s+Terminal', b)
    emit('iter_table_next_strict', ('Definition iter_table_next_strict : bool := %s.   (* Table_Iter_Next: curr %s Table_Key(t, nslots-1) *)'
                                    % ('true' if m.group(1) == '>' else 'false', m.group(1))) if m else None)
    b = body(tab, 'Table_Iter_Prev')
    emit('iter_shape_Table_Iter_Prev', 'Definition iter_shape_Table_Iter_Prev : bool := true.'
         if b and re.search(r'if\s*\(\s*curr\s*<\s*Table_Key\(t,\s*0\)\s*\)\s*\{\s*return\s+Terminal', b) else None)

    # small cursor functions modelled as written: exact text after whitespace normalisation
    SHAPES = {
        'Range_Iter_Init': '{ struct Range* r = self; struct Int* i = r->value; if (r->step == 0) { return Terminal; } '
                           'if (r->step > 0) { i->val = r->start; } if (r->step < 0) { i->val = r->stop-1; } '
                           'if (r->step > 0 and i->val >= r->stop) { return Terminal; } '
                           'if (r->step < 0 and i->val < r->start) { return Terminal; } return i; }',
        'Range_Iter_Next': '{ struct Range* r = self; struct Int* i = r->value; i->val += r->step; '
                           'if (r->step == 0) { return Terminal; } if (r->step > 0 and i->val >= r->stop) { return Terminal; } '
                           'if (r->step < 0 and i->val < r->start) { return Terminal; } return i; }',
        'Range_Iter_Prev': '{ struct Range* r = self; struct Int* i = r->value; i->val -= r->step; '
                           'if (r->step == 0) { return Terminal; } if (r->step > 0 and i->val < r->start) { return Terminal; } '
                           'if (r->step < 0 and i->val >= r->stop) { return Terminal; } return i; }',
        'Filter_Iter_Init': '{ struct Filter* f = self; var curr = iter_init(f->iter); while (true) { '
                            'if (curr is Terminal or call_with(f->func, curr)) { return curr; } else { curr = iter_next(f->iter, curr); } } return Terminal; }',
        'Filter_Iter_Last': '{ struct Filter* f = self; var curr = iter_last(f->iter); while (true) { '
                            'if (curr is Terminal or call_with(f->func, curr)) { return curr; } else { curr = iter_prev(f->iter, curr); } } return Terminal; }',
        'Filter_Iter_Next': '{ struct Filter* f = self; curr = iter_next(f->iter, curr); while (true) { '
                            'if (curr is Terminal or call_with(f->func, curr)) { return curr; } else { curr = iter_next(f->iter, curr); } } return Terminal; }',
        'Filter_Iter_Prev': '{ struct Filter* f = self; curr = iter_prev(f->iter, curr); while (true) { '
                            'if (curr is Terminal or call_with(f->func, curr)) { return curr; } else { curr = iter_prev(f->iter, curr); } } return Terminal; }',
        'Map_Iter_Next': '{ struct Map* m = self; m->curr = iter_next(m->iter, m->curr); if (m->curr is Terminal) { return m->curr; } '
                         'else { return call_with(m->func, m->curr); } }',
        'Map_Iter_Prev': '{ struct Map* m = self; m->curr = iter_prev(m->iter, m->curr); if (m->curr is Terminal) { return m->curr; } '
                         'else { return call_with(m->func, m->curr); } }',
        'Zip_Iter_Next': '{ struct Zip* z = self; struct Tuple* values = z->values; struct Tuple* iters = z->iters; size_t num = len(iters); '
                         'if (num is 0) { return Terminal; } for (size_t i = 0; i < num; i++) { var next = iter_next(iters->items[i], get(curr, $I(i))); '
                         'if (next is Terminal) { return Terminal; } values->items[i] = next; } return values; }',
        'Zip_Iter_Prev': '{ struct Zip* z = self; struct Tuple* values = z->values; struct Tuple* iters = z->iters; size_t num = len(iters); '
                         'if (num is 0) { return Terminal; } for (size_t i = 0; i < num; i++) { var prev = iter_prev(iters->items[i], get(curr, $I(i))); '
                         'if (prev is Terminal) { return Terminal; } values->items[i] = prev; } return values; }',
        'Zip_Len': '{ struct Zip* z = self; struct Tuple* values = z->values; struct Tuple* iters = z->iters; size_t num = len(iters); '
                   'if (num is 0) { return 0; } size_t mlen = len(iters->items[0]); for (size_t i = 1; i < num; i++) { '
                   'size_t num = len(iters->items[i]); mlen = num < mlen ? num : mlen; } return mlen; }',
    }
    for fn, want in SHAPES.items():
        b = body(it, fn)
        ok = b is not None and norm(b) == want
        emit('iter_shape_' + fn, ('Definition iter_shape_%s : bool := true.' % fn) if ok else None)
    TREE_SHAPES = {
        'Tree_Iter_Init': '{ struct Tree* m = self; if (m->nitems is 0) { return Terminal; } var node = m->root; while (*Tree_Left(m, node) isnt NULL) { node = *Tree_Left(m, node); } return Tree_Key(m, node); }',
        'Tree_Iter_Next': '{ struct Tree* m = self; var node = (char*)curr - sizeof(struct Header) - 3 * sizeof(var); var prnt = Tree_Get_Parent(m, node); if (*Tree_Right(m, node) isnt NULL) { node = *Tree_Right(m, node); while (*Tree_Left(m, node) isnt NULL) { node = *Tree_Left(m, node); } return Tree_Key(m, node); } while (true) { if (prnt is NULL) { return Terminal; } if (node is *Tree_Left(m, prnt)) { return Tree_Key(m, prnt); } if (node is *Tree_Right(m, prnt)) { prnt = Tree_Get_Parent(m, prnt); node = Tree_Get_Parent(m, node); } } return Terminal; }',
        'Tree_Iter_Last': '{ struct Tree* m = self; if (m->nitems is 0) { return Terminal; } var node = m->root; while (*Tree_Right(m, node) isnt NULL) { node = *Tree_Right(m, node); } return Tree_Key(m, node); }',
        'Tree_Iter_Prev': '{ struct Tree* m = self; var node = (char*)curr - sizeof(struct Header) - 3 * sizeof(var); var prnt = Tree_Get_Parent(m, node); if (*Tree_Left(m, node) isnt NULL) { node = *Tree_Left(m, node); while (*Tree_Right(m, node) isnt NULL) { node = *Tree_Right(m, node); } return Tree_Key(m, node); } while (true) { if (prnt is NULL) { return Terminal; } if (node is *Tree_Right(m, prnt)) { return Tree_Key(m, prnt); } if (node is *Tree_Left(m, prnt)) { prnt = Tree_Get_Parent(m, prnt); node = Tree_Get_Parent(m, node); } } return Terminal; }',
    }
    for fn, want in TREE_SHAPES.items():
        b = body(tree, fn)
        ok = b is not None and norm(b) == want
        emit('iter_shape_' + fn, ('Definition iter_shape_%s : bool := true.' % fn) if ok else None)

    # Tree orientation: Tree_Set compares cmp(Tree_Key(m, node), key) and goes LEFT when it is < 0
    b = func_body(tree, r'static\s+void\s+Tree_Set\s*\([^)]*\)\s*\{')
    if b and re.search(r'int\s+c\s*=\s*cmp\(Tree_Key\(m,\s*node\),\s*key\)', b) and re.search(r'if\s*\(c\s*<\s*0\)\s*\{\s*if\s*\(\*Tree_Left\(m,\s*node\)\s+is\s+NULL\)', b):
        emit('iter_tree_desc', 'Definition iter_tree_desc : bool := true.   (* keys greater than the node go left: in-order walk is descending *)')
    elif b and re.search(r'int\s+c\s*=\s*cmp\(Tree_Key\(m,\s*node\),\s*key\)', b) and re.search(r'if\s*\(c\s*>\s*0\)\s*\{\s*if\s*\(\*Tree_Left\(m,\s*node\)\s+is\s+NULL\)', b):
        emit('iter_tree_desc', 'Definition iter_tree_desc : bool := false.')
    else:
        emit('iter_tree_desc', None)
