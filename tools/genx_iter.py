"""genx_iter.py — data and tiny rules of the iteration code (C11) re-read from the C source on every run.

Emits into coq/Generated.v
  iter_*  : bool   one flag per repaired defect: true = the repaired text is in the source, false = the
                   pre-repair text is (the model coq/IterModel.v has both variants, selected by the record
                   `rules`; Properties_C11.v proves `source_rules = repaired` by reflexivity, so a revert
                   breaks that obligation while the extracted model keeps following the source);
                   neither text recognised = the definition is left out = broken obligation
  iter_shape_<fn> : bool := true   the body of <fn> is, after whitespace normalisation, the text the model
                   was written from (the small cursor functions of src/Iter.c modelled "as written")
  iter_tree_desc : bool   orientation of Tree (larger keys to the left => in-order walk is descending)
"""
import re


def norm(s):
    return re.sub(r'\s+', ' ', s).strip()


# ---------------------------------------------------------------------------------------------------------------
# translator for integer expressions of C (int64_t arithmetic) into Gallina over Z: every operation that can wrap is
# put under `w` (= wrap64); `/` is Z.quot, `%` is Z.rem (C truncating division).  Names: r->start, r->stop, r->step,
# Range_Len(r) (= n) and the locals bound so far.
class CExprError(Exception):
    pass


def _tokens(text):
    toks = re.findall(r'r->\w+|Range_Len\(r\)|\(\s*(?:int64_t|size_t|uint64_t)\s*\)|[A-Za-z_]\w*|\d+|[-+*/%()]', text)
    if ''.join(toks).replace(' ', '') != re.sub(r'\s+', '', text):
        raise CExprError('untranslatable text: ' + text)
    return [t for t in toks if not re.match(r'\(\s*(?:int64_t|size_t|uint64_t)\s*\)$', t)]      # casts between 64-bit types: identity on the box


def cexpr(text, env):
    toks = _tokens(text)
    pos = [0]

    def peek():
        return toks[pos[0]] if pos[0] < len(toks) else None

    def take():
        t = peek(); pos[0] += 1
        return t

    def atom():
        t = take()
        if t is None:
            raise CExprError('unexpected end')
        if t == '(':
            e = add()
            if take() != ')':
                raise CExprError('missing )')
            return e
        if t == '-':
            return '(w (- %s))' % atom()
        if t == '+':
            return atom()
        if re.match(r'\d+$', t):
            return t
        if t in env:
            return env[t]
        raise CExprError('unknown name ' + t)

    def mul():
        e = atom()
        while peek() in ('*', '/', '%'):
            op = take(); f = atom()
            e = {'*': '(w (%s * %s))', '/': '(w (Z.quot %s %s))', '%': '(Z.rem %s %s)'}[op] % (e, f)
        return e

    def add():
        e = mul()
        while peek() in ('+', '-'):
            op = take(); f = mul()
            e = '(w (%s %s %s))' % (e, op, f)
        return e

    e = add()
    if peek() is not None:
        raise CExprError('trailing ' + str(peek()))
    return e


def translate_range_last(b):
    """Range_Iter_Last in the repaired structure: locals, the guard `len == 0 -> Terminal`, one assignment to i->val per
    sign of step, return i.  -> (gallina for step > 0, gallina for step < 0) or None"""
    t = norm(b)
    m = re.match(r'\{ struct Range\* r = self; struct Int\* i = r->value; (.*) return i; \}$', t)
    if not m:
        return None
    rest = m.group(1)
    env = {'r->start': 'start', 'r->stop': 'stop', 'r->step': 'step', 'Range_Len(r)': 'n'}
    guard = False; posx = negx = None
    try:
        while rest:
            mm = re.match(r'int64_t (\w+) = ([^;{}]+); ?', rest)
            if mm and not posx and not negx:
                env[mm.group(1)] = cexpr(mm.group(2), env); rest = rest[mm.end():]; continue
            mm = re.match(r'if \((\w+|Range_Len\(r\)) == 0\) \{ return Terminal; \} ?', rest)
            if mm and env.get(mm.group(1)) == 'n':
                guard = True; rest = rest[mm.end():]; continue
            mm = re.match(r'if \(r->step ([<>]) 0\) \{ i->val = ([^;{}]+); \} ?', rest)
            if mm and guard:
                e = cexpr(mm.group(2), env)
                if mm.group(1) == '>' and posx is None: posx = e
                elif mm.group(1) == '<' and negx is None: negx = e
                else: return None
                rest = rest[mm.end():]; continue
            return None
    except CExprError:
        return None
    return (posx, negx) if guard and posx and negx else None


# ---------------------------------------------------------------------------------------------------------------
# Slice_Iter_Init/Next/Last/Prev as plans
SLICE_PLANS = {
    'Slice_Iter_Init': {'guard': 'Range_Iter_Init(r)', '+': ('init', 'r->start', 'next'), '-': ('last', '(int64_t)len(s->iter)-r->stop', 'prev')},
    'Slice_Iter_Next': {'guard': 'Range_Iter_Next(r,NULL)', '+': ('curr', 'r->step', 'next'), '-': ('curr', '-r->step', 'prev')},
    'Slice_Iter_Last': {'guard': 'Range_Iter_Last(r)', '+': ('last', '(int64_t)len(s->iter)-1-pos', 'prev'), '-': ('init', 'pos', 'next')},
    'Slice_Iter_Prev': {'guard': 'Range_Iter_Prev(r,NULL)', '+': ('curr', 'r->step', 'prev'), '-': ('curr', '-r->step', 'next')},
}
SLICE_WALK = ('{ while (count-- > 0) { curr = dir > 0 ? iter_next(s->iter, curr) : iter_prev(s->iter, curr); } return curr; }')


def _nosp(t):
    return re.sub(r'\s+', '', t)


def _sign_eval(expr, sign):
    """value of an expression of the shape `r->step > 0 ? A : B` (or without a conditional) under step > 0 / step < 0"""
    m = re.match(r'^r->step\s*>\s*0\s*\?\s*(.+?)\s*:\s*(.+)$', expr.strip())
    if m:
        return (m.group(1) if sign == '+' else m.group(2)).strip()
    m = re.match(r'^r->step\s*<\s*0\s*\?\s*(.+?)\s*:\s*(.+)$', expr.strip())
    if m:
        return (m.group(2) if sign == '+' else m.group(1)).strip()
    return expr.strip()


def _dir_of(expr, sign):
    e = _nosp(_sign_eval(expr, sign))
    if e in ('1', '+1'): return 'next'
    if e == '-1': return 'prev'
    if e == 'r->step': return 'next' if sign == '+' else 'prev'      # dir > 0 <=> step > 0
    if e == '-r->step': return 'prev' if sign == '+' else 'next'
    return None


def _split_args(t):
    out, depth, cur = [], 0, ''
    for ch in t:
        if ch == '(': depth += 1
        if ch == ')': depth -= 1
        if ch == ',' and depth == 0:
            out.append(cur); cur = ''
        else:
            cur += ch
    out.append(cur)
    return [x.strip() for x in out]


def slice_plans(it, body):
    bs = {f: body(it, f) for f in SLICE_PLANS}
    if not all(bs.values()):
        return None
    if not any('Range_Iter' in b for b in bs.values()):
        return 'pre-repair'
    helper = body(it, 'Slice_Walk')
    if helper is not None and norm(helper) != SLICE_WALK:
        return None
    out = {}
    for f, b in bs.items():
        t = norm(b)
        m = re.match(r'\{ struct Slice\* s = self; struct Range\* r = s->range; (.*) \}$', t)
        if not m:
            return None
        rest = m.group(1)
        plan = {}
        # the guard on the Slice's own Range cursor
        g = re.match(r'if \((Range_Iter_\w+\(r(?:, NULL)?\)) is Terminal\) \{ return Terminal; \} ?', rest)
        if g:
            plan['guard'] = _nosp(g.group(1)); rest = rest[g.end():]
        else:
            g = re.match(r'var last = (Range_Iter_Last\(r\)); if \(last is Terminal\) \{ return Terminal; \} int64_t pos = c_int\(last\); ?', rest)
            if not g:
                return None
            plan['guard'] = _nosp(g.group(1)); rest = rest[g.end():]
        start = {'iter_init(s->iter)': 'init', 'iter_last(s->iter)': 'last', 'curr': 'curr'}
        cur_is = 'curr' if f in ('Slice_Iter_Next', 'Slice_Iter_Prev') else None
        while rest:
            # if (r->step >|< 0) { ... }
            mm = re.match(r'if \(r->step ([<>]) 0\) \{ ', rest)
            if mm:
                sign = '+' if mm.group(1) == '>' else '-'
                depth, j = 1, mm.end()
                while j < len(rest) and depth:
                    depth += rest[j] == '{'; depth -= rest[j] == '}'; j += 1
                blk = rest[mm.end():j - 1].strip(); rest = rest[j:].strip()
                st = cur_is
                d0 = re.match(r'var curr = (iter_init\(s->iter\)|iter_last\(s->iter\)); ?', blk)
                if d0:
                    st = start[d0.group(1)]; blk = blk[d0.end():]
                lp = re.match(r'for ?\(int64_t i = 0; i < (.+?); i\+\+\) \{ curr = iter_(next|prev)\(s->iter, curr\); \}( return curr;)?$', blk)
                if lp and st and (bool(lp.group(3)) == (cur_is is None)):
                    plan[sign] = (st, _nosp(lp.group(1)), lp.group(2)); continue
                cw = re.match(r'return Slice_Walk\((.*)\);$', blk)
                if cw and helper is not None:
                    a = _split_args(cw.group(1))
                    if len(a) == 4 and a[0] == 's' and (a[1] in start) and (a[1] != 'curr' or st) and _dir_of(a[3], sign):
                        plan[sign] = (start[a[1]] if a[1] != 'curr' else st, _nosp(_sign_eval(a[2], sign)), _dir_of(a[3], sign)); continue
                return None
            cw = re.match(r'return Slice_Walk\((.*)\);$', rest)
            if cw and helper is not None and cur_is:
                a = _split_args(cw.group(1))
                if len(a) != 4 or a[0] != 's' or a[1] != 'curr':
                    return None
                for sign in '+-':
                    if sign in plan or not _dir_of(a[3], sign):
                        return None
                    plan[sign] = ('curr', _nosp(_sign_eval(a[2], sign)), _dir_of(a[3], sign))
                rest = ''; continue
            if rest in ('return curr;', 'return Terminal;'):
                rest = ''; continue
            return None
        out[f] = plan
    return out


def generate(repo, emit, src, func_body):
    it, arr, tup, tab, tree = (src('src/' + f) for f in ('Iter.c', 'Array.c', 'Tuple.c', 'Table.c', 'Tree.c'))

    def body(s, name, ret=r'(?:var|size_t|int64_t)'):
        # definition (not prototype): header followed by '{'
        return func_body(s, r'static\s+%s\s+%s\s*\([^)]*\)\s*\{' % (ret, name))

    def flag(name, b, true_re, false_re, what):
        if b is None:
            return emit(name, None)
        t = all(re.search(r, b) for r in true_re)
        f = all(re.search(r, b) for r in false_re) and not t
        if t:
            emit(name, 'Definition %s : bool := true.   (* %s: repaired text *)' % (name, what))
        elif f:
            emit(name, 'Definition %s : bool := false.   (* %s: pre-repair text *)' % (name, what))
        else:
            emit(name, None)

    flag('iter_array_prev_incl', body(arr, 'Array_Iter_Prev'),
         [r'if\s*\(\s*curr\s*<=\s*Array_Item\(a,\s*0\)\s*\)\s*\{\s*return\s+Terminal'],
         [r'if\s*\(\s*curr\s*<\s*Array_Item\(a,\s*0\)\s*\)\s*\{\s*return\s+Terminal'], 'Array_Iter_Prev')
    b = body(arr, 'Array_Iter_Next')
    emit('iter_shape_Array_Iter_Next', 'Definition iter_shape_Array_Iter_Next : bool := true.'
         if b and re.search(r'if\s*\(\s*curr\s*>=\s*Array_Item\(a,\s*a->nitems-1\)\s*\)\s*\{\s*return\s+Terminal', b) else None)
    flag('iter_tuple_last_guard', body(tup, 'Tuple_Iter_Last'),
         [r'if\s*\(\s*nitems\s+is\s+0\s*\)\s*\{\s*return\s+Terminal', r'return\s+t->items\[nitems-1\]'],
         [r'return\s+t->items\[Tuple_Len\(t\)-1\]'], 'Tuple_Iter_Last')
    b = body(it, 'Range_Len')
    div = [r'if\s*\(r->step\s*>\s*0\)\s*\{\s*return\s*\(\(r->stop-1\)\s*-\s*r->start\)\s*/\s*r->step\s*\+\s*1',
           r'if\s*\(r->step\s*<\s*0\)\s*\{\s*return\s*\(\(r->stop-1\)\s*-\s*r->start\)\s*/\s*-r->step\s*\+\s*1']
    if b and re.search(r'if\s*\(\s*r->stop\s*<=\s*r->start\s*\)\s*\{\s*return\s+0', b) and all(re.search(r, b) for r in div):
        emit('iter_range_len_guard', 'Definition iter_range_len_guard : bool := true.   (* Range_Len: repaired text *)')
    elif b and all(re.search(r, b) for r in div) and 'r->stop <=' not in b:
        emit('iter_range_len_guard', 'Definition iter_range_len_guard : bool := false.   (* Range_Len: pre-repair text *)')
    else:
        emit('iter_range_len_guard', None)
    # Range_Iter_Last: TRANSLATED, not matched: the two expressions assigned to i->val become Gallina functions and
    # IterProofs.source_range_last_ok proves that on the box they are first + step*(len-1)
    b = body(it, 'Range_Iter_Last')
    tr = translate_range_last(b) if b else None
    defs = lambda p, n: ('Definition iter_range_last_pos (w : Z -> Z) (start stop step n : Z) : Z := (%s)%%Z.\n'
                         'Definition iter_range_last_neg (w : Z -> Z) (start stop step n : Z) : Z := (%s)%%Z.' % (p, n))
    if tr:
        emit('iter_range_last_aligned', 'Definition iter_range_last_aligned : bool := true.   (* Range_Iter_Last: guard on len, then the translated expressions *)\n' + defs(*tr))
    elif b and re.search(r'if\s*\(r->step\s*>\s*0\)\s*\{\s*i->val\s*=\s*r->stop-1;', b) and re.search(r'if\s*\(r->step\s*<\s*0\)\s*\{\s*i->val\s*=\s*r->start;', b) \
            and 'Range_Len' not in b:
        emit('iter_range_last_aligned', 'Definition iter_range_last_aligned : bool := false.   (* Range_Iter_Last: pre-repair text *)\n' + defs('0', '0'))
    else:
        emit('iter_range_last_aligned', None)
    flag('iter_range_get_checked', body(it, 'Range_Get'),
         [r'int64_t\s+n\s*=\s*Range_Len\(r\)', r'i\s*=\s*i\s*<\s*0\s*\?\s*n\+i\s*:\s*i',
          r'r->step\s*>\s*0\s+and\s+i\s*>=\s*0\s+and\s+i\s*<\s*n', r'r->step\s*<\s*0\s+and\s+i\s*>=\s*0\s+and\s+i\s*<\s*n'],
         [r'r->step\s*>\s*0\s+and\s*\(r->start\s*\+\s*r->step\s*\*\s*i\)\s*<\s*r->stop',
          r'r->step\s*<\s*0\s+and\s*\(r->stop-1\s*\+\s*r->step\s*\*\s*i\)\s*>=\s*r->start'], 'Range_Get')
    flag('iter_slice_arg_signed', body(it, 'Slice_Arg'),
         [r'a\s*=\s*a\s*<\s*0\s*\?\s*\(int64_t\)n\+a\s*:\s*a', r'a\s*=\s*a\s*>\s*\(int64_t\)n\s*\?\s*\(int64_t\)n\s*:\s*a', r'a\s*=\s*a\s*<\s*0\s*\?\s*0\s*:\s*a'],
         [r'a\s*=\s*a\s*<\s*0\s*\?\s*n\+a\s*:\s*a', r'a\s*=\s*a\s*>\s*n\s*\?\s*n\s*:\s*a', r'a\s*=\s*a\s*<\s*0\s*\?\s*0\s*:\s*a'], 'Slice_Arg')
    # Slice walk: each of the four functions is read as a PLAN: the guard on the Slice's own Range cursor, then per sign
    # of step (where to start: iter_init / iter_last / the cursor handed in; how many steps; iter_next or iter_prev).
    # The loops may be written out or go through the helper Slice_Walk(s, curr, count, dir); same plan = same model.
    plans = slice_plans(it, body)
    if plans == 'pre-repair':
        emit('iter_slice_bounded', 'Definition iter_slice_bounded : bool := false.   (* Slice walk: pre-repair text *)')
    elif plans == SLICE_PLANS:
        emit('iter_slice_bounded', 'Definition iter_slice_bounded : bool := true.   (* Slice walk: the plan of the repaired code *)')
    else:
        emit('iter_slice_bounded', None)
    b = body(it, 'Zip_Iter_Last')
    zl = body(it, 'Zip_Item_Len', r'size_t')
    if b and zl and re.search(r'implements_method\(iter,\s*Len,\s*len\)', zl) and re.search(r'for\s*\(;\s*n\s*>\s*mlen;\s*n--\)\s*\{\s*last\s*=\s*iter_prev', b) \
            and re.search(r'mlen\s*=\s*n\s*<\s*mlen\s*\?\s*n\s*:\s*mlen', b):
        emit('iter_zip_last_aligned', 'Definition iter_zip_last_aligned : bool := true.   (* Zip_Iter_Last: repaired text *)')
    elif b and 'iter_prev' not in b and re.search(r'var\s+last\s*=\s*iter_last\(iters->items\[i\]\)', b):
        emit('iter_zip_last_aligned', 'Definition iter_zip_last_aligned : bool := false.   (* Zip_Iter_Last: pre-repair text *)')
    else:
        emit('iter_zip_last_aligned', None)
    # Table_Iter_Next / Table_Iter_Prev: the model scans slot INDICES.  Two accepted forms of the source:
    #  A  raw pointer form: curr += Table_Step; end test `curr > Table_Key(t, nslots-1)` resp. `curr < Table_Key(t, 0)`, hash word read
    #     in front of the key;
    #  B  index form: i = Table_Key_Slot(t, curr) = (key - data) / Table_Step  (exact: Table_Key(t,i) = data + i*step + off, 0 <= off < step),
    #     then `for (i+1 .. nslots-1)` resp. `for (i; i > 0; i--) look at i-1` with Table_Key_Hash / Table_Key.
    b = body(tab, 'Table_Iter_Next')
    slot = func_body(tab, r'static\s+size_t\s+Table_Key_Slot\s*\([^)]*\)\s*\{')
    slot_ok = slot is not None and norm(slot) == '{ return ((char*)key - (char*)t->data) / Table_Step(t); }'
    key_ok = (lambda k: k is not None and norm(k) == '{ return (char*)t->data + i * Table_Step(t) + sizeof(uint64_t) + sizeof(struct Header); }')(
        func_body(tab, r'static\s+var\s+Table_Key\s*\(struct Table\* t, uint64_t i\)\s*\{'))
    m = b and re.search(r'if\s*\(\s*curr\s*(>=|>)\s*Table_Key\(t,\s*t->nslots-1\)\s*\)\s*\{\s*return\s+Terminal', b)
    mB = b and slot_ok and key_ok and re.match(
        r'\{ struct Table\* t = self; for \(size_t i = Table_Key_Slot\(t, curr\) \+ 1; i < t->nslots(-1)?; i\+\+\) \{ '
        r'if \(Table_Key_Hash\(t, i\) isnt 0\) \{ return Table_Key\(t, i\); \} \} return Terminal; \}$', norm(b))
    if m:
        emit('iter_table_next_strict', 'Definition iter_table_next_strict : bool := %s.   (* Table_Iter_Next: curr %s Table_Key(t, nslots-1) *)'
             % ('true' if m.group(1) == '>' else 'false', m.group(1)))
    elif mB:
        emit('iter_table_next_strict', 'Definition iter_table_next_strict : bool := %s.   (* Table_Iter_Next, index form: i < nslots%s *)'
             % ('false' if mB.group(1) else 'true', mB.group(1) or ''))
    else:
        emit('iter_table_next_strict', None)
    b = body(tab, 'Table_Iter_Prev')
    okA = b and re.search(r'if\s*\(\s*curr\s*<\s*Table_Key\(t,\s*0\)\s*\)\s*\{\s*return\s+Terminal', b)
    okB = b and slot_ok and key_ok and norm(b) == ('{ struct Table* t = self; for (size_t i = Table_Key_Slot(t, curr); i > 0; i--) { '
                                                   'if (Table_Key_Hash(t, i-1) isnt 0) { return Table_Key(t, i-1); } } return Terminal; }')
    emit('iter_shape_Table_Iter_Prev', 'Definition iter_shape_Table_Iter_Prev : bool := true.' if (okA or okB) else None)

    # small cursor functions modelled as written: exact text after whitespace normalisation
    SHAPES = {
        'Range_Iter_Init': '{ struct Range* r = self; struct Int* i = r->value; if (r->step == 0) { return Terminal; } '
                           'if (r->step > 0) { i->val = r->start; } if (r->step < 0) { i->val = r->stop-1; } '
                           'if (r->step > 0 and i->val >= r->stop) { return Terminal; } '
                           'if (r->step < 0 and i->val < r->start) { return Terminal; } return i; }',
        'Range_Iter_Next': '{ struct Range* r = self; struct Int* i = r->value; i->val += r->step; '
                           'if (r->step == 0) { return Terminal; } if (r->step > 0 and i->val >= r->stop) { return Terminal; } '
                           'if (r->step < 0 and i->val < r->start) { return Terminal; } return i; }',
        'Range_Iter_Prev': '{ struct Range* r = self; struct Int* i = r->value; i->val -= r->step; '
                           'if (r->step == 0) { return Terminal; } if (r->step > 0 and i->val < r->start) { return Terminal; } '
                           'if (r->step < 0 and i->val >= r->stop) { return Terminal; } return i; }',
        'Filter_Iter_Init': '{ struct Filter* f = self; var curr = iter_init(f->iter); while (true) { '
                            'if (curr is Terminal or call_with(f->func, curr)) { return curr; } else { curr = iter_next(f->iter, curr); } } return Terminal; }',
        'Filter_Iter_Last': '{ struct Filter* f = self; var curr = iter_last(f->iter); while (true) { '
                            'if (curr is Terminal or call_with(f->func, curr)) { return curr; } else { curr = iter_prev(f->iter, curr); } } return Terminal; }',
        'Filter_Iter_Next': '{ struct Filter* f = self; curr = iter_next(f->iter, curr); while (true) { '
                            'if (curr is Terminal or call_with(f->func, curr)) { return curr; } else { curr = iter_next(f->iter, curr); } } return Terminal; }',
        'Filter_Iter_Prev': '{ struct Filter* f = self; curr = iter_prev(f->iter, curr); while (true) { '
                            'if (curr is Terminal or call_with(f->func, curr)) { return curr; } else { curr = iter_prev(f->iter, curr); } } return Terminal; }',
        'Map_Iter_Next': '{ struct Map* m = self; m->curr = iter_next(m->iter, m->curr); if (m->curr is Terminal) { return m->curr; } '
                         'else { return call_with(m->func, m->curr); } }',
        'Map_Iter_Prev': '{ struct Map* m = self; m->curr = iter_prev(m->iter, m->curr); if (m->curr is Terminal) { return m->curr; } '
                         'else { return call_with(m->func, m->curr); } }',
        'Zip_Iter_Next': '{ struct Zip* z = self; struct Tuple* values = z->values; struct Tuple* iters = z->iters; size_t num = len(iters); '
                         'if (num is 0) { return Terminal; } for (size_t i = 0; i < num; i++) { var next = iter_next(iters->items[i], get(curr, $I(i))); '
                         'if (next is Terminal) { return Terminal; } values->items[i] = next; } return values; }',
        'Zip_Iter_Prev': '{ struct Zip* z = self; struct Tuple* values = z->values; struct Tuple* iters = z->iters; size_t num = len(iters); '
                         'if (num is 0) { return Terminal; } for (size_t i = 0; i < num; i++) { var prev = iter_prev(iters->items[i], get(curr, $I(i))); '
                         'if (prev is Terminal) { return Terminal; } values->items[i] = prev; } return values; }',
        'Zip_Len': '{ struct Zip* z = self; struct Tuple* values = z->values; struct Tuple* iters = z->iters; size_t num = len(iters); '
                   'if (num is 0) { return 0; } size_t mlen = len(iters->items[0]); for (size_t i = 1; i < num; i++) { '
                   'size_t num = len(iters->items[i]); mlen = num < mlen ? num : mlen; } return mlen; }',
    }
    for fn, want in SHAPES.items():
        b = body(it, fn)
        ok = b is not None and norm(b) == want
        emit('iter_shape_' + fn, ('Definition iter_shape_%s : bool := true.' % fn) if ok else None)
    TREE_SHAPES = {
        'Tree_Iter_Init': '{ struct Tree* m = self; if (m->nitems is 0) { return Terminal; } var node = m->root; while (*Tree_Left(m, node) isnt NULL) { node = *Tree_Left(m, node); } return Tree_Key(m, node); }',
        'Tree_Iter_Next': '{ struct Tree* m = self; var node = (char*)curr - sizeof(struct Header) - 3 * sizeof(var); var prnt = Tree_Get_Parent(m, node); if (*Tree_Right(m, node) isnt NULL) { node = *Tree_Right(m, node); while (*Tree_Left(m, node) isnt NULL) { node = *Tree_Left(m, node); } return Tree_Key(m, node); } while (true) { if (prnt is NULL) { return Terminal; } if (node is *Tree_Left(m, prnt)) { return Tree_Key(m, prnt); } if (node is *Tree_Right(m, prnt)) { prnt = Tree_Get_Parent(m, prnt); node = Tree_Get_Parent(m, node); } } return Terminal; }',
        'Tree_Iter_Last': '{ struct Tree* m = self; if (m->nitems is 0) { return Terminal; } var node = m->root; while (*Tree_Right(m, node) isnt NULL) { node = *Tree_Right(m, node); } return Tree_Key(m, node); }',
        'Tree_Iter_Prev': '{ struct Tree* m = self; var node = (char*)curr - sizeof(struct Header) - 3 * sizeof(var); var prnt = Tree_Get_Parent(m, node); if (*Tree_Left(m, node) isnt NULL) { node = *Tree_Left(m, node); while (*Tree_Right(m, node) isnt NULL) { node = *Tree_Right(m, node); } return Tree_Key(m, node); } while (true) { if (prnt is NULL) { return Terminal; } if (node is *Tree_Right(m, prnt)) { return Tree_Key(m, prnt); } if (node is *Tree_Left(m, prnt)) { prnt = Tree_Get_Parent(m, prnt); node = Tree_Get_Parent(m, node); } } return Terminal; }',
    }
    # second accepted form (same walk, helpers factored out): Tree_Minimum / Tree_Maximum are the leftmost / rightmost
    # descent loops; the climb `while (prnt isnt NULL and node is right(prnt)) { node = prnt; prnt = parent(prnt); }
    # return prnt is NULL ? Terminal : prnt` is the original loop (node is always a child of prnt); `m->root is NULL`
    # is what the model tests (tree_start matches on the empty tree)
    TREE_HELPERS = {
        'Tree_Minimum': '{ while (*Tree_Left(m, node) isnt NULL) { node = *Tree_Left(m, node); } return node; }',
        'Tree_Maximum': '{ while (*Tree_Right(m, node) isnt NULL) { node = *Tree_Right(m, node); } return node; }',
        'Tree_Node_Of': '{ return (char*)curr - sizeof(struct Header) - 3 * sizeof(var); }',
    }
    TREE_SHAPES_B = {
        'Tree_Iter_Init': '{ struct Tree* m = self; if (m->root is NULL) { return Terminal; } return Tree_Key(m, Tree_Minimum(m, m->root)); }',
        'Tree_Iter_Next': '{ struct Tree* m = self; var node = Tree_Node_Of(curr); if (*Tree_Right(m, node) isnt NULL) { return Tree_Key(m, Tree_Minimum(m, *Tree_Right(m, node))); } '
                          'var prnt = Tree_Get_Parent(m, node); while (prnt isnt NULL and node is *Tree_Right(m, prnt)) { node = prnt; prnt = Tree_Get_Parent(m, prnt); } '
                          'return prnt is NULL ? Terminal : Tree_Key(m, prnt); }',
        'Tree_Iter_Last': '{ struct Tree* m = self; if (m->root is NULL) { return Terminal; } return Tree_Key(m, Tree_Maximum(m, m->root)); }',
        'Tree_Iter_Prev': '{ struct Tree* m = self; var node = Tree_Node_Of(curr); if (*Tree_Left(m, node) isnt NULL) { return Tree_Key(m, Tree_Maximum(m, *Tree_Left(m, node))); } '
                          'var prnt = Tree_Get_Parent(m, node); while (prnt isnt NULL and node is *Tree_Left(m, prnt)) { node = prnt; prnt = Tree_Get_Parent(m, prnt); } '
                          'return prnt is NULL ? Terminal : Tree_Key(m, prnt); }',
    }
    helpers_ok = all((lambda hb: hb is not None and norm(hb) == want)(func_body(tree, r'static\s+var\s+%s\s*\([^)]*\)\s*\{' % h))
                     for h, want in TREE_HELPERS.items())
    for fn, want in TREE_SHAPES.items():
        b = body(tree, fn)
        ok = b is not None and (norm(b) == want or (helpers_ok and norm(b) == TREE_SHAPES_B[fn]))
        emit('iter_shape_' + fn, ('Definition iter_shape_%s : bool := true.' % fn) if ok else None)

    # Tree orientation: Tree_Set compares cmp(Tree_Key(m, node), key) and goes LEFT when it is < 0
    b = func_body(tree, r'static\s+void\s+Tree_Set\s*\([^)]*\)\s*\{')
    cmpd = b and re.search(r'int\s+c\s*=\s*cmp\(Tree_Key\(m,\s*node\),\s*key\)', b)
    # form A: if (c < 0) { if (*Tree_Left(m, node) is NULL) ...;  form B: link = c < 0 ? Tree_Left(m, node) : Tree_Right(m, node)
    left_lt = b and (re.search(r'if\s*\(c\s*<\s*0\)\s*\{\s*if\s*\(\*Tree_Left\(m,\s*node\)\s+is\s+NULL\)', b)
                     or re.search(r'=\s*c\s*<\s*0\s*\?\s*Tree_Left\(m,\s*node\)\s*:\s*Tree_Right\(m,\s*node\)', b))
    left_gt = b and (re.search(r'if\s*\(c\s*>\s*0\)\s*\{\s*if\s*\(\*Tree_Left\(m,\s*node\)\s+is\s+NULL\)', b)
                     or re.search(r'=\s*c\s*>\s*0\s*\?\s*Tree_Left\(m,\s*node\)\s*:\s*Tree_Right\(m,\s*node\)', b))
    if cmpd and left_lt and not left_gt:
        emit('iter_tree_desc', 'Definition iter_tree_desc : bool := true.   (* keys greater than the node go left: in-order walk is descending *)')
    elif cmpd and left_gt and not left_lt:
        emit('iter_tree_desc', 'Definition iter_tree_desc : bool := false.')
    else:
        emit('iter_tree_desc', None)
