#!/bin/sh
# tools/mkwork.sh <name> : scratch worktrees for one worker under /tmp/wk/<name>/{verif,repo}
# on branch agent/<name> of both repositories.  An existing branch is RESUMED (never reset);
# main is merged into it so the worker sees what landed meanwhile.
set -e
n="$1"; d=/tmp/wk/$n
mkdir -p "$d"
for r in verif repo; do
  if [ -d "$d/$r/.git" ] || [ -f "$d/$r/.git" ]; then continue; fi
  git -C /$r worktree prune
  if git -C /$r rev-parse -q --verify "agent/$n" >/dev/null; then
    git -C /$r worktree add -q "$d/$r" "agent/$n"
    (cd "$d/$r" && git merge -q -m "merge main into agent/$n" main >/dev/null 2>&1 || echo "NOTE: merge of main into agent/$n ($r) needs manual resolution" >&2)
  else
    git -C /$r worktree add -q -b "agent/$n" "$d/$r" main
  fi
done
echo "$d/repo" > "$d/verif/.cello_repo"
(cd "$d/repo" && make -s >/dev/null 2>&1 || true)
echo "$d"
