#!/bin/sh
# tools/mkwork.sh <name> : scratch worktrees for one worker under /tmp/wk/<name>/{verif,repo}
set -e
n="$1"; d=/tmp/wk/$n
mkdir -p "$d"
git -C /verif worktree add -q -B "agent/$n" "$d/verif" HEAD
git -C /repo worktree add -q -B "agent/$n" "$d/repo" HEAD
echo "$d/repo" > "$d/verif/.cello_repo"
(cd "$d/repo" && make -s >/dev/null 2>&1 || true)
echo "$d"
