"""fmt_shapes.py — source-shape recognisers used by tools/genx_fmt.py (property C14).

Each recogniser consumes the WHOLE body of a function as a sequence of components; a component has a short list
of accepted source forms, each with the reason why it denotes the same function of the Coq model (coq/Format.v).
design.d/C14.md ("Benign changes") repeats the list.  Anything that is not consumed completely is a pattern
failure (= the definition is left out of Generated.v = broken obligation): nothing is accepted without a reason."""
import re

STR = r'"((?:[^"\\]|\\.)*)"'            # a C string literal, group = its inside
STRN = r'"(?:[^"\\]|\\.)*"'             # the same without a group
THROW = r'throw\(FormatError, [^;]*\);'
ID = r'[A-Za-z_]\w*'


def c_unescape(lit):
    out, i = [], 0
    esc = {'n': 10, 't': 9, '\\': 92, '"': 34, "'": 39, '0': 0, 'r': 13, 'a': 7, 'b': 8, 'f': 12, 'v': 11, '?': 63}
    while i < len(lit):
        if lit[i] == '\\' and i + 1 < len(lit):
            out.append(esc.get(lit[i + 1], ord(lit[i + 1]))); i += 2
        else:
            out.append(ord(lit[i])); i += 1
    return out


def norm(b):
    """whitespace, `while(` vs `while (`, `&&` vs `and`, `!=`/`==` vs isnt/is are spelling only"""
    b = re.sub(r'\s+', ' ', b)
    b = re.sub(r'\b(while|if|switch)\(', r'\1 (', b)
    b = b.replace('&&', 'and').replace('||', 'or')
    b = re.sub(r' != ', ' isnt ', b)
    b = re.sub(r' == ', ' is ', b)
    return b.strip()


class Eater:
    def __init__(self, text):
        self.t, self.pos = text, 0

    def eat(self, rx):
        m = re.compile(rx).match(self.t, self.pos)
        if m:
            self.pos = m.end()
        return m

    def done(self):
        return self.pos == len(self.t)


def file_constants(filetext):
    """file-level integer constants: `#define NAME 64` and `enum { NAME = 64, ... }`"""
    consts = {}
    for m in re.finditer(r'^[ \t]*#[ \t]*define[ \t]+(' + ID + r')[ \t]+\(?(\d+)\)?[ \t]*$', filetext, re.M):
        consts[m.group(1)] = int(m.group(2))
    for em in re.finditer(r'\benum\s*(?:' + ID + r'\s*)?\{([^{}]*)\}', filetext):
        for m in re.finditer(r'(' + ID + r')\s*=\s*(\d+)', em.group(1)):
            consts[m.group(1)] = int(m.group(2))
    return consts


def file_macros(filetext):
    """file-level function-like macros: NAME -> (params, body), continuation lines joined"""
    t = re.sub(r'\\\n', ' ', filetext)
    macros = {}
    for m in re.finditer(r'^[ \t]*#[ \t]*define[ \t]+(' + ID + r')\(([^)]*)\)[ \t]+(.*)$', t, re.M):
        macros[m.group(1)] = ([p.strip() for p in m.group(2).split(',') if p.strip()], m.group(3).strip())
    return macros


def _split_args(s):
    out, depth, cur = [], 0, ''
    for ch in s:
        if ch == ',' and depth == 0:
            out.append(cur.strip()); cur = ''
        else:
            depth += ch in '([{'; depth -= ch in ')]}'
            cur += ch
    if cur.strip() or out: out.append(cur.strip())
    return out


def expand(text, filetext):
    """one level of the file's own function-like macros is expanded in place, its integer constants are
    replaced by their values, and spelling that cannot change the meaning is removed: parentheses around a
    single identifier or number, the cast in `(char*)malloc(..)`, the statement wrapper `do { .. } while (0)`"""
    macros, consts = file_macros(filetext), file_constants(filetext)
    for name, (params, mbody) in macros.items():
        while True:
            m = re.search(r'\b' + re.escape(name) + r'\(', text)
            if not m: break
            i, depth = m.end(), 1
            while i < len(text) and depth:
                depth += text[i] == '('; depth -= text[i] == ')'; i += 1
            args = _split_args(text[m.end():i - 1])
            if len(args) != len(params): return text[:m.start()] + '@BADMACRO@' + text[i:]
            b = mbody
            for p_, a_ in zip(params, args):
                b = re.sub(r'\b' + re.escape(p_) + r'\b', lambda _m, a_=a_: a_, b)
            text = text[:m.start()] + b + text[i:]
    for name, v in consts.items():
        text = re.sub(r'\b' + re.escape(name) + r'\b', str(v), text)
    text = re.sub(r'\s+', ' ', text)
    text = re.sub(r'\(char ?\*\) ?malloc\(', 'malloc(', text)
    for _ in range(3):
        text = re.sub(r'(?<![\w\]])(?<!while )(?<!if )(?<!switch )(?<!for )\((\w+)\)', r'\1', text)   # (x) -> x, not a call's argument list nor a statement's condition
    text = re.sub(r'\bdo \{ (.*?) \} while \(0\);', r'\1', text)
    return text


def resolve_set(tok, filetext):
    """a strchr/strcspn set: a literal, or a file-level `static const char* NAME = "..."` / `NAME[] = "..."`
    (a named constant is the literal it is initialised with, provided it is const and assigned nowhere)"""
    m = re.fullmatch(STR, tok)
    if m:
        return m.group(1)
    flat = re.sub(r'\s+', ' ', filetext)
    m = re.search(r'static const char ?\*? ?(?:const )?%s ?(?:\[\])? ?= ?%s ?;' % (re.escape(tok), STR), flat)
    if not m or re.search(r'\b%s ?(?:\[[^\]]*\] ?)?=[^=]' % re.escape(tok), flat.replace(m.group(0), '')):
        return None
    return m.group(1)


def parse_print_to_with(body, filetext):
    """-> dict(convs, int_convs, float_convs, nul_hits, pct_skip, buf_extra, forms) or None"""
    e = Eater(norm(expand(body, filetext)))
    eat = e.eat
    r = {'forms': [], 'stack_cap': 0, 'stack_test': 1}
    # the piece buffer.  A: malloc(strlen(fmt)+K), freed at the end.  B: a stack array of N bytes is used when
    #   strlen(fmt)+T <= N (or <), malloc(strlen(fmt)+K) otherwise, freed only in that case (the size may go through a
    #   local, a file-level macro or constant).  What the scanner needs is capacity >= strlen(fmt)+1 in both cases:
    #   NOT decided here - K, N, T go to Coq (print_buf_extra, print_buf_stack_cap, print_buf_stack_test) and the theorems
    #   hold for every K >= 1 and T >= 1 (FormatProofs.bufsize_gt).
    stack = None
    m = eat(r'\{ char ?\* ?fmt_buf = malloc\(strlen\(fmt\) ?(?:\+ ?(\d+))?\); ')
    if m:
        r['buf_extra'] = int(m.group(1) or 0)
        r['forms'].append('buf:heap')
    else:
        m = eat(r'\{ char (?P<s>' + ID + r')\[(?P<n>\d+)\]; ')
        if not m: return None
        stack, r['stack_cap'] = m.group('s'), int(m.group('n'))
        need = r'strlen\(fmt\) ?(?:\+ ?(\d+))?'
        mv = eat(r'size_t (?P<v>' + ID + r') = ' + need + r'; ')
        if mv:
            k = int(mv.group(2) or 0)
            m = eat(r'char ?\* ?fmt_buf = \(?' + mv.group('v') + r' (?P<op><=|<) (?:sizeof ?\(? ?' + stack + r' ?\)?|' + str(r['stack_cap']) + r') \? '
                    + stack + r' : malloc\(' + mv.group('v') + r'\)\)?; ')
            if not m: return None
            t_, k_ = k, k
        else:
            m = eat(r'char ?\* ?fmt_buf = \(?' + need + r' (?P<op><=|<) (?:sizeof ?\(? ?' + stack + r' ?\)?|' + str(r['stack_cap']) + r') \? '
                    + stack + r' : malloc\(' + need + r'\)\)?; ')
            if not m: return None
            t_, k_ = int(m.group(1) or 0), int(m.group(3) or 0)
        r['stack_test'] = t_ + (1 if m.group('op') == '<' else 0)
        r['buf_extra'] = k_
        r['forms'].append('buf:stack-or-heap')
    if not eat(r'size_t index = 0; '): return None
    # loop head: `while (true) { if (*fmt is NUL) { break; }` == `while (*fmt isnt NUL) {` == `while (*fmt) {`
    #   (the test is the first statement of the body and nothing follows the loop but free/return)
    if eat(r"while \(true\) \{ if \(\*fmt is '\\0'\) \{ break; \} "): r['forms'].append('loop:true+break')
    elif eat(r"while \(\*fmt(?: isnt '\\0')?\) \{ "): r['forms'].append('loop:while-not-NUL')
    else: return None
    if not eat(r'const char ?\* ?start = fmt; '): return None
    # literal run.  A: pointer loop, length fmt - start.  B: n = strcspn(fmt, "%") = number of leading bytes that are
    #   neither '%' nor the terminator = what the loop skips (same bytes read); length n; fmt += n.
    lit_tail = r"int off = format_to\(out, pos, fmt_buf\); if \(off < 0\) \{ " + THROW + r" \} pos \+= off; "
    if eat(r"while \(\*fmt isnt '\\0' and \*fmt isnt '%'\) \{ fmt\+\+; \} if \(start isnt fmt\) \{ memcpy\(fmt_buf, start, fmt - start\); "
           r"fmt_buf\[fmt - start\] = '\\0'; " + lit_tail + r"continue; \} "):
        r['forms'].append('lit:loop')
    elif eat(r"size_t (?P<n>" + ID + r") = strcspn\(fmt, \"%\"\); if \((?P=n) isnt 0\) \{ memcpy\(fmt_buf, start, (?P=n)\); "
             r"fmt_buf\[(?P=n)\] = '\\0'; " + lit_tail + r"fmt \+= (?P=n); continue; \} "):
        r['forms'].append('lit:strcspn')
    else: return None
    # "%%": the half `*fmt is '%' and` may be missing - the literal run was empty and *fmt is not the terminator,
    #   hence *fmt IS '%' (Coq: FormatProofs.pct_guard_redundant); fmt[1] is *(fmt+1).
    m = eat(r"if \((?P<g>\*fmt is '%' and )?(?:\*\(fmt ?\+ ?1\)|fmt\[1\]) is '%'\) \{ int off = format_to\(out, pos, \"%%\"\); if \(off < 0\) \{ "
            + THROW + r" \} pos \+= off; fmt \+= (?P<k>\d+); continue; \} ")
    if not m: return None
    r['pct_skip'] = int(m.group('k'))
    r['forms'].append('pct:guarded' if m.group('g') else 'pct:unguarded')
    # specification.  A: while (not strchr(SET, *fmt)) fmt++; if (start isnt fmt) { memcpy(.., fmt - start + 1) ..
    #   B: n = strcspn(fmt, SET) + 1; fmt += n - 1; if (n < 2) throw; memcpy(.., n) ..   strcspn counts the leading bytes
    #   outside SET and stops at the terminator like strchr (which hits the NUL); n < 2 <=> nothing skipped <=> start == fmt,
    #   the old route to "Invalid Format String!"; n = fmt - start + 1.
    SETTOK = r'(?P<set>' + STRN + r'|' + ID + r')'
    m = eat(r"while \(not strchr\(" + SETTOK + r", \*fmt\)\) \{ fmt\+\+; \} if \(start isnt fmt\) \{ memcpy\(fmt_buf, start, fmt - start \+ 1\); "
            r"fmt_buf\[fmt - start \+ 1\] = '\\0'; ")
    form_b = False
    if m:
        r['forms'].append('spec:loop')
    else:
        m = eat(r"size_t (?P<v>" + ID + r") = strcspn\(fmt, " + SETTOK + r"\) \+ 1; fmt \+= (?P=v) - 1; if \((?P=v) < 2\) \{ " + THROW
                + r" \} memcpy\(fmt_buf, start, (?P=v)\); fmt_buf\[(?P=v)\] = '\\0'; ")
        if not m: return None
        form_b = True
        r['forms'].append('spec:strcspn')
    convs = resolve_set(m.group('set'), filetext)
    if convs is None: return None
    r['convs'] = convs
    if not eat(r"if \(index >= len\(args\)\) \{ " + THROW + r" \} var a = get\(args, \$I\(index\)\); index\+\+; "):
        return None

    # dispatch.  A: six independent ifs, each arm checks off < 0 and adds off.
    def arm(cond, val):
        return (r"if \(" + cond + r"\) \{ int off = format_to\(out, pos, fmt_buf, " + val + r"\); if \(off < 0\) \{ " + THROW + r" \} pos \+= off; \} ")
    save = e.pos
    ok = eat(r"if \(\*fmt is '\$'\) \{ pos = show_to\(a, out, pos\); \} ") and eat(arm(r"\*fmt is 's'", r"c_str\(a\)"))
    if ok:
        mi = eat(arm(r"strchr\(" + STR + r", \*fmt\)", r"c_int\(a\)"))
        mf = mi and eat(arm(r"strchr\(" + STR + r", \*fmt\)", r"c_float\(a\)"))
        ok = mf and eat(arm(r"\*fmt is 'c'", r"c_int\(a\)")) and eat(arm(r"\*fmt is 'p'", r"a"))
        if ok:
            r['int_convs'], r['float_convs'], r['nul_hits'] = mi.group(1), mf.group(1), True
            r['forms'].append('dispatch:if-chain')
    if not ok:
        # B: int off = 0; const char* kind = NULL; switch (*fmt) { arms default: break; } if (kind isnt NULL and off < 0) throw; pos += off;
        #   one arm per class, labels pairwise distinct (checked) = the chain of tests over the label sets with exactly one
        #   hit; '$': off = show_to(a,out,pos) - pos with the common `pos += off` is pos = show_to(..), kind stays NULL so the
        #   result is not checked (as before); every other arm sets kind, so off < 0 throws FormatError (as before); the NUL
        #   goes to default (print_dispatch_nul_hits = false).
        e.pos = save
        m = eat(r"int off = 0; const char ?\* ?(?P<k>" + ID + r") = NULL; switch \(\*fmt\) \{ ")
        if not m: return None
        kv = m.group('k')
        table = {}
        while True:
            m = eat(r"(?P<labels>(?:case '(?:[^'\\]|\\.)': ?)+)off = (?P<e>[^;]*); (?P<kind>" + kv + r" = " + STRN + r"; )?break; ")
            if not m: break
            labels = [c_unescape(x)[0] for x in re.findall(r"case '((?:[^'\\]|\\.))'", m.group('labels'))]
            ex, has_kind = m.group('e'), bool(m.group('kind'))
            if ex == 'show_to(a, out, pos) - pos' and not has_kind: k = 'show'
            elif ex == 'format_to(out, pos, fmt_buf, c_str(a))' and has_kind: k = 'str'
            elif ex == 'format_to(out, pos, fmt_buf, c_int(a))' and has_kind: k = 'int'
            elif ex == 'format_to(out, pos, fmt_buf, c_float(a))' and has_kind: k = 'float'
            elif ex == 'format_to(out, pos, fmt_buf, a)' and has_kind: k = 'ptr'
            else: return None
            for l in labels:
                if l in table or l == 0: return None
                table[l] = k
        if not eat(r"default: ?break; \} if \(" + kv + r" isnt NULL and off < 0\) \{ " + THROW + r" \} pos \+= off; "): return None
        # the model's fixed arms are '$' show, 's' c_str, 'c' c_int, 'p' the object; the other c_int / c_float labels are the two sets
        if table.get(36) != 'show' or table.get(115) != 'str' or table.get(99) != 'int' or table.get(112) != 'ptr': return None
        if any(k in ('show', 'str', 'ptr') and l not in (36, 115, 112) for l, k in table.items()): return None
        r['int_convs'] = ''.join(chr(l) for l, k in table.items() if k == 'int' and l != 99)
        r['float_convs'] = ''.join(chr(l) for l, k in table.items() if k == 'float')
        r['nul_hits'] = False
        r['forms'].append('dispatch:switch')
    # end of the iteration.  A closes the `if (start isnt fmt)` block and has the unreachable throw behind it; B threw before.
    if form_b:
        if not eat(r"fmt\+\+; (?:continue; )?\} "): return None
    else:
        if not eat(r"fmt\+\+; continue; \} " + THROW + r" \} "): return None
    if stack:
        if not eat(r"if \(fmt_buf isnt " + stack + r"\) \{ free\(fmt_buf\); \} return pos; \}$"): return None
    else:
        if not eat(r"free\(fmt_buf\); return pos; \}$"): return None
    return r


ALLOC_IF = (r"if \(header\(self\)->alloc is \(var\)AllocStack or header\(self\)->alloc is \(var\)AllocStatic\) "
            r"\{ throw\(ValueError, [^;]*\); \}")
ALLOC_SWITCH = (r"switch \(\((?:intptr_t|uintptr_t|size_t|long)\) ?header\(self\)->alloc\) \{ case AllocStack: case AllocStatic: "
                r"throw\(ValueError, [^;]*\); default: ?break; \}")


def guard_helpers(filetext, func_body):
    """names of file-level helpers `static void NAME(var self, ..)` whose whole body is the "not on heap -> ValueError"
    refusal (if- or switch-spelling, with or without the CELLO_ALLOC_CHECK guard): a call NAME(self, ..); is that refusal"""
    names = []
    for m in re.finditer(r'static\s+void\s+(' + ID + r')\s*\(\s*var\s+self\s*(?:,[^)]*)?\)\s*\{', filetext):
        b = func_body(filetext, r'static\s+void\s+' + m.group(1) + r'\s*\([^)]*\)\s*\{')
        if not b: continue
        t = norm(b)
        core = r'(?:' + ALLOC_IF + r'|' + ALLOC_SWITCH + r')'
        if re.fullmatch(r'\{ (?:#if CELLO_ALLOC_CHECK (?:==|is) 1 ' + core + r' #endif|' + core + r') \}', t):
            names.append(m.group(1))
    return names


def _strip_checks(gen, helpers=()):
    """the build-option guarded checks (not on heap -> ValueError, allocation failed -> OutOfMemoryError) are
    outside the model; they are removed wherever they stand, inline or as a call of a recognised refusal helper"""
    gen = re.sub(r"#if CELLO_ALLOC_CHECK (?:==|is) 1 " + ALLOC_IF + r" #endif ", '', gen)
    for h in helpers:
        gen = re.sub(r"\b" + re.escape(h) + r"\(self(?:, " + STRN + r")?\); ", '', gen)
    gen = re.sub(r"#if CELLO_MEMORY_CHECK (?:==|is) 1 if \((?:s->val|tmp) is NULL\) \{ throw\(OutOfMemoryError, [^;]*\); \} #endif ", '', gen)
    return gen


def _heap_limit(cond, buf, cap):
    """cond = the test under which the heap path is taken; -> smallest size for which it holds (sizes below use
    the stack buffer), or None when the test is not a plain threshold on size"""
    c = re.sub(r'\((?:int|size_t|unsigned|long|unsigned long|unsigned int)\) ?', '', cond)
    c = re.sub(r'sizeof ?\(? ?%s ?\)?' % re.escape(buf), str(cap), c).strip()
    c = re.sub(r'^\((.*)\)$', r'\1', c).strip()
    num = r'(\d+)(?: ?([+-]) ?(\d+))?'

    def val(a, op, b):
        v = int(a)
        if op: v = v + int(b) if op == '+' else v - int(b)
        return v
    m = re.fullmatch(r'size (>=|>) ' + num, c)
    if m:
        v = val(m.group(2), m.group(3), m.group(4))
        return v if m.group(1) == '>=' else v + 1
    m = re.fullmatch(num + r' (<=|<) size', c)
    if m:
        v = val(m.group(1), m.group(2), m.group(3))
        return v if m.group(4) == '<=' else v + 1
    return None


def parse_string_format_to(fb, helpers=()):
    """generic (non-Windows, non-Mac) branch of String_Format_To -> dict(room, cap, limit, form) or None.
       form 0  size = vsnprintf(NULL,0,..va_tmp); realloc(pos+size+K); return vsprintf(val+pos, fmt, va);
       form 1  ..; tmp = malloc(size+1); vsprintf(tmp, fmt, va); realloc(pos+size+K); memcpy(val+pos, tmp, size+1); free(tmp); return size;
               (the text is rendered before the String may move; same bytes at the same place, same count)
       form 2  char B[N]; size = vsnprintf(B, sizeof(B), ..va_tmp); tmp = B; if (HEAP) { tmp = malloc(size+1); vsprintf(tmp, fmt, va); }
               realloc; memcpy(val+pos, tmp, size+1); if (tmp isnt B) free(tmp); return size;
               vsnprintf(B, N, ..) returns the same count and, when count < N, has written the complete text and its NUL:
               sound iff the stack text is used only for size + 1 <= N - that inequality is NOT decided here but handed to
               Coq as string_fmt_stack_limit <= string_fmt_stack_cap (limit = smallest size that takes the heap path).
       form 2' the same with `tmp = HEAP ? malloc(size+1) : B; if (tmp isnt B) { vsprintf(tmp, fmt, va); }`
       In every form the measuring call uses a va_copy and `va` itself is consumed exactly once."""
    i = fb.rfind('#else')
    gen = norm(fb[i + len('#else'):] if i >= 0 else fb)
    gen = re.sub(r' ?#endif \}$', '', gen).strip() if i >= 0 else gen
    gen = _strip_checks(gen + ' ', helpers)
    if len(re.findall(r'\bva\b', gen)) != 2:
        return None
    e = Eater(gen)
    eat = e.eat
    if i < 0 and not eat(r'\{ struct String ?\* ?s = self; '): return None
    buf, cap = None, 0
    m = eat(r'char (?P<b>' + ID + r')\[(?P<n>\d+)\]; ')
    if m: buf, cap = m.group('b'), int(m.group('n'))
    if not eat(r'va_list va_tmp; '): return None
    if not buf:
        m = eat(r'char (?P<b>' + ID + r')\[(?P<n>\d+)\]; ')
        if m: buf, cap = m.group('b'), int(m.group('n'))
    if not eat(r'va_copy\(va_tmp, va\); '): return None
    if buf:
        if cap < 1: return None
        if not eat(r'int size = vsnprintf\(%s, (?:sizeof ?\(? ?%s ?\)?|%d), fmt, va_tmp\); va_end\(va_tmp\); ' % (buf, buf, cap)): return None
    else:
        if not eat(r'int size = vsnprintf\(NULL, 0, fmt, va_tmp\); va_end\(va_tmp\); '): return None
    REALLOC = r's->val = realloc\(s->val, pos \+ size(?: \+ (?P<k>\d+))?\); '
    if not buf:
        m = eat(REALLOC + r'return vsprintf\(s->val \+ pos, fmt, va\); $')
        if m: return {'room': int(m.group('k') or 0), 'cap': 0, 'limit': 0, 'form': 'in-place'}
        m = eat(r'char ?\* ?tmp = malloc\(size \+ 1\); vsprintf\(tmp, fmt, va\); ' + REALLOC
                + r'memcpy\(s->val \+ pos, tmp, size \+ 1\); free\(tmp\); return size; $')
        if m: return {'room': int(m.group('k') or 0), 'cap': 0, 'limit': 0, 'form': 'temporary'}
        return None
    m = eat(r'char ?\* ?tmp = %s; if \((?P<c>[^{};?]*)\) \{ tmp = malloc\(size \+ 1\); vsprintf\(tmp, fmt, va\); \} ' % buf)
    if not m:
        m = eat(r'char ?\* ?tmp = (?P<c>[^{};?]*) \? malloc\(size \+ 1\) : %s; if \(tmp isnt %s\) \{ vsprintf\(tmp, fmt, va\); \} ' % (buf, buf))
        if not m: return None
    limit = _heap_limit(m.group('c'), buf, cap)
    if limit is None or limit < 0: return None
    m = eat(REALLOC + r'memcpy\(s->val \+ pos, tmp, size \+ 1\); if \(tmp isnt %s\) \{ free\(tmp\); \} return size; $' % buf)
    if not m: return None
    return {'room': int(m.group('k') or 0), 'cap': cap, 'limit': limit, 'form': 'stack-buffer'}


def stream_helpers(filetext, func_body):
    """file-level helpers `static FILE* NAME(var self, ..)` whose whole body is: fetch the stream of self, refuse a closed
    file with IOError, return the stream.  NAME(self, ..) then stands for f->file behind the closed-file test."""
    names = []
    for m in re.finditer(r'static\s+FILE\s*\*\s*(' + ID + r')\s*\(\s*var\s+self\s*(?:,[^)]*)?\)\s*\{', filetext):
        b = func_body(filetext, r'static\s+FILE\s*\*\s*' + m.group(1) + r'\s*\([^)]*\)\s*\{')
        if not b: continue
        t = norm(b)
        if (re.fullmatch(r'\{ struct File ?\* ?f = self; FILE ?\* ?(' + ID + r') = f->file; if \(\1 is NULL\) \{ throw\(IOError, [^;]*\); \} return \1; \}', t)
                or re.fullmatch(r'\{ struct File ?\* ?f = self; if \(f->file is NULL\) \{ throw\(IOError, [^;]*\); \} return f->file; \}', t)):
            names.append(m.group(1))
    return names


def parse_file_format_to(fb, helpers=()):
    """the whole body is: refuse a closed file, then `return vfprintf(<the stream>, fmt, va);` - va consumed exactly once.
    The closed-file test may be inline or inside a recognised stream helper (called directly or through one local)."""
    t = norm(fb)
    if len(re.findall(r'\bva\b', t)) != 1:
        return False
    if re.fullmatch(r'\{ struct File ?\* ?f = self; if \(f->file is NULL\) \{ throw\(IOError, [^;]*\); \} '
                    r'return vfprintf\(f->file, fmt, va\); \}', t):
        return True
    for h in helpers:
        call = re.escape(h) + r'\(self(?:, ' + STRN + r')?\)'
        if re.fullmatch(r'\{ return vfprintf\(' + call + r', fmt, va\); \}', t):
            return True
        if re.fullmatch(r'\{ FILE ?\* ?(' + ID + r') = ' + call + r'; return vfprintf\(\1, fmt, va\); \}', t):
            return True
    return False


def parse_number_show(fb, kind):
    """Int_Show / Float_Show -> the format string handed to the sink for the object's C value, or None.
       A  return print_to(output, pos, "<fmt>", self);
       B  [T val = GET(self);] int off = format_to(output, pos, "<fmt>", val | GET(self)); if (off < 0) { throw(FormatError, ..); }
          return pos + off;            GET = Int_C_Int / c_int (T long or int64_t)  resp.  Float_C_Float / c_float (T double)
          - this is what print_to does for a format that is one specification: one format_to call with that piece and the
          object's C value, FormatError on a negative count, position + count."""
    t = norm(fb)
    m = re.fullmatch(r'\{ return print_to\(output, pos, ' + STR + r', self\); \}', t)
    if m: return m.group(1)
    get = r'(?:Int_C_Int|c_int)\(self\)' if kind == 'int' else r'(?:Float_C_Float|c_float)\(self\)'
    ty = r'(?:long|int64_t|long long)' if kind == 'int' else r'double'
    m = re.fullmatch(r'\{ (?:' + ty + r' (?P<v>' + ID + r') = ' + get + r'; )?int (?P<o>' + ID + r') = format_to\(output, pos, ' + STR
                     + r', (?P<a>' + ID + r'|' + get + r')\); if \((?P=o) < 0\) \{ ' + THROW + r' \} return pos \+ (?P=o); \}', t)
    if not m: return None
    if m.group('v'):
        if m.group('a') != m.group('v'): return None
    elif not re.fullmatch(get, m.group('a')): return None
    return m.group(3)
