"""genx_exn.py — Generated.v parameters for property C07 (Exn.v / ExnProofs.v).

* clear_active_on_catch : bool   — does exception_catch execute `e->active = false;` before
  each `return e->obj;` ?  (true: both returns, false: neither, mixed: pattern failure)
* exn_macro_try / exn_macro_catch / exn_macro_catch_in / exn_macro_throw : string — normalised
  token strings of the macros in include/Cello.h (Exn.v holds the shapes the machine encodes;
  ExnProofs.exn_macro_shapes compares them by reflexivity)
* exn_src_try / exn_src_try_end / exn_src_try_fail / exn_src_throw / exn_src_catch /
  exn_src_buffer / exn_src_len / exn_src_error : string — normalised token strings of the bodies of the eight C functions the
  machine models one Gallina function each (the `e->active = false;` statements in front of
  `return e->obj;` are taken out of exn_src_catch: they are the parameter above).
* throw_records_obj_after_format : bool — is `e->obj = obj;` placed after print_to_with in exception_throw
* try_keeps_obj : bool — exception_try does not touch e->obj
* exn_kind_defs : list (string * string) — (NAME, ARG) of every `var NAME = CelloEmpty(ARG);` in
  src/Exception.c (the library's exception kinds)
A macro/function that is not found emits None (= broken obligation)."""
import re, os

TOK = re.compile(r'"(?:[^"\\]|\\.)*"|[A-Za-z_][A-Za-z0-9_]*|\d+|->|\+\+|--|>=|<=|==|!=|&&|\|\||\.\.\.|\S')


def norm(text):
    return ' '.join(TOK.findall(text))


def coq_string(s):
    return '"' + s.replace('"', '""') + '"'


def macro(h, name):
    """replacement text (with parameter list, if any) of `#define name...`, continuation lines joined"""
    m = re.search(r'^[ \t]*#[ \t]*define[ \t]+%s\b((?:[^\n\\]|\\\n|\\.)*)$' % re.escape(name), h, re.M)
    if not m:
        return None
    return norm(m.group(1).replace('\\\n', ' '))


def kind_defs(c):
    """[(variable name, CelloEmpty argument)] in source order"""
    return re.findall(r'^\s*var\s+(\w+)\s*=\s*CelloEmpty\s*\(\s*(\w+)\s*\)\s*;', c, re.M)


def generate(repo, emit, src, func_body):
    h = src('include/Cello.h')
    for coq, name in (('exn_macro_try', 'try'), ('exn_macro_catch', 'catch'),
                      ('exn_macro_catch_in', 'catch_in'), ('exn_macro_throw', 'throw')):
        t = macro(h, name)
        emit(coq, None if t is None else 'Definition %s : string := %s%%string.' % (coq, coq_string(t)))

    c = src('src/Exception.c')
    c = re.sub(r'//[^\n]*', ' ', c)
    # every exception kind the library defines: `var NAME = CelloEmpty(ARG);` at file scope.  A kind is
    # matched by eq, and Type objects compare by NAME (= ARG), so ARG must be the variable's own name
    # and the names must be pairwise distinct (ExnProofs.kinds_ok_dec decides it)
    kinds = kind_defs(c)
    emit('exn_kind_defs', None if not kinds else
         'Definition exn_kind_defs : list (string * string) :=\n  [' +
         ';\n   '.join('(%s, %s)' % (coq_string(n), coq_string(a)) for n, a in kinds) + ']%string.')
    bodies = {}
    for coq, hdr in (('exn_src_try', r'void\s+exception_try\s*\(\s*jmp_buf\s*\*\s*env\s*\)\s*\{'),
                     ('exn_src_try_end', r'void\s+exception_try_end\s*\(\s*void\s*\)\s*\{'),
                     ('exn_src_try_fail', r'void\s+exception_try_fail\s*\(\s*void\s*\)\s*\{'),
                     ('exn_src_throw', r'var\s+exception_throw\s*\(\s*var\s+obj\s*,\s*const\s+char\s*\*\s*fmt\s*,\s*var\s+args\s*\)\s*\{'),
                     ('exn_src_catch', r'var\s+exception_catch\s*\(\s*var\s+args\s*\)\s*\{'),
                     ('exn_src_buffer', r'static\s+jmp_buf\s*\*\s*Exception_Buffer\s*\(\s*struct\s+Exception\s*\*\s*e\s*\)\s*\{'),
                     ('exn_src_len', r'static\s+size_t\s+Exception_Len\s*\(\s*var\s+self\s*\)\s*\{'),
                     ('exn_src_signal', r'static\s+void\s+Exception_Signal\s*\(\s*int\s+sig\s*\)\s*\{'),
                     ('exn_src_error', r'static\s+void\s+Exception_Error\s*\(\s*struct\s+Exception\s*\*\s*e\s*\)\s*\{')):
        b = func_body(c, hdr)
        bodies[coq] = None if b is None else norm(b)

    # translation of the five state-changing functions (and the two helpers they call) into Gallina
    # state transformers: tools/exn_symex.py.  ExnProofs.v proves each equal to the model's function.
    try:
        import exn_symex
        raw = {}
        for cname, key in (('exception_try', 'exn_src_try'), ('exception_try_end', 'exn_src_try_end'),
                           ('exception_try_fail', 'exn_src_try_fail'), ('exception_throw', 'exn_src_throw'),
                           ('exception_catch', 'exn_src_catch'), ('Exception_Buffer', 'exn_src_buffer'),
                           ('Exception_Len', 'exn_src_len')):
            raw[cname] = bodies.get(key)
        text = exn_symex.gallina(raw)
        # the module must typecheck on its own: a term Coq rejects would take all of Generated.v with it
        import tempfile, subprocess, shutil
        td = tempfile.mkdtemp(prefix='exn_tr_')
        try:
            with open(os.path.join(td, 'T.v'), 'w') as fh:
                fh.write('From Coq Require Import List Arith NArith ZArith String Ascii.\nImport ListNotations.\n'
                         'Local Open Scope nat_scope.\nDefinition exc_max_depth : nat := 0.\n' + text + '\n')
            r = subprocess.run(['coqc', 'T.v'], cwd=td, stdout=subprocess.PIPE, stderr=subprocess.STDOUT, timeout=120, text=True)
            if r.returncode != 0:
                raise exn_symex.Untranslatable('translated module does not typecheck: ' + r.stdout[-300:].replace('\n', ' '))
        finally:
            shutil.rmtree(td, ignore_errors=True)
        emit('exn_translation', text)
    except Exception as ex:          # outside the fragment: no definition = broken obligation
        emit('exn_translation', None)
        print('exn_translation: %s' % ex)

    cb = bodies.get('exn_src_catch')
    if cb is None:
        emit('clear_active_on_catch', None)
    else:
        nret = len(re.findall(r'return e -> obj ;', cb))
        ncl = len(re.findall(r'e -> active = false ; return e -> obj ;', cb))
        if nret == 2 and ncl == 2:
            emit('clear_active_on_catch', 'Definition clear_active_on_catch : bool := true.   (* source: e->active = false; before both return e->obj; *)')
        elif nret == 2 and ncl == 0 and 'active = false' not in cb:
            emit('clear_active_on_catch', 'Definition clear_active_on_catch : bool := false.   (* source: exception_catch never clears e->active *)')
        else:
            emit('clear_active_on_catch', None)
        bodies['exn_src_catch'] = cb.replace('e -> active = false ; return e -> obj ;', 'return e -> obj ;')
    tb = bodies.get('exn_src_throw')
    if tb is None:
        emit('throw_records_obj_after_format', None)
    else:
        io, ip = tb.find('e -> obj = obj ;'), tb.find('print_to_with (')
        ok = io >= 0 and ip >= 0 and tb.count('e -> obj =') == 1 and tb.count('print_to_with (') == 1
        emit('throw_records_obj_after_format', None if not ok else
             'Definition throw_records_obj_after_format : bool := %s.   (* source: e->obj = obj; %s print_to_with(e->msg, ..) *)'
             % (('true', 'after') if io > ip else ('false', 'before')))
        bodies['exn_src_throw'] = tb.replace('e -> obj = obj ; ', '', 1)      # its position is the flag above
    yb = bodies.get('exn_src_try')
    emit('try_keeps_obj', None if yb is None else
         'Definition try_keeps_obj : bool := %s.   (* source: exception_try %s e->obj *)'
         % (('false', 'mentions') if re.search(r'-> obj\b', yb) else ('true', 'does not mention')))
    for coq, t in bodies.items():
        emit(coq, None if t is None else 'Definition %s : string := %s%%string.' % (coq, coq_string(t)))


if __name__ == '__main__':
    import sys, os
    repo = sys.argv[1]

    def src(name):
        s = open(os.path.join(repo, name), errors='replace').read()
        return re.sub(r'/\*.*?\*/', ' ', s, flags=re.S)

    def func_body(s, header_re):
        m = re.search(header_re, s)
        if not m:
            return None
        i = s.find('{', m.end() - 1)
        d, j = 0, i
        while j < len(s):
            if s[j] == '{':
                d += 1
            elif s[j] == '}':
                d -= 1
                if d == 0:
                    return s[i:j + 1]
            j += 1
        return None
    generate(repo, lambda n, t: print(n, '=>', t), src, func_body)
