"""genx_exn.py — Generated.v parameters for property C07 (Exn.v / ExnProofs.v).

* clear_active_on_catch : bool   — does exception_catch execute `e->active = false;` before
  each `return e->obj;` ?  (true: both returns, false: neither, mixed: pattern failure)
* exn_macro_try / exn_macro_catch / exn_macro_catch_in / exn_macro_throw : string — normalised
  token strings of the macros in include/Cello.h (Exn.v holds the shapes the machine encodes;
  ExnProofs.exn_macro_shapes compares them by reflexivity)
* exn_src_try / exn_src_try_end / exn_src_try_fail / exn_src_throw / exn_src_catch /
  exn_src_buffer / exn_src_len / exn_src_error : string — normalised token strings of the bodies of the eight C functions the
  machine models one Gallina function each (the `e->active = false;` statements in front of
  `return e->obj;` are taken out of exn_src_catch: they are the parameter above).
* throw_records_obj_after_format : bool — is `e->obj = obj;` placed after print_to_with in exception_throw
* try_keeps_obj : bool — exception_try does not touch e->obj
* exn_kind_defs : list (string * string) — (NAME, ARG) of every `var NAME = CelloEmpty(ARG);` in
  src/Exception.c (the library's exception kinds)
A macro/function that is not found emits None (= broken obligation)."""
import re, os

TOK = re.compile(r'"(?:[^"\\]|\\.)*"|[A-Za-z_][A-Za-z0-9_]*|\d+|->|\+\+|--|>=|<=|==|!=|&&|\|\||\.\.\.|\S')


def norm(text):
    return ' '.join(TOK.findall(text))


def coq_string(s):
    return '"' + s.replace('"', '""') + '"'


def macro(h, name):
    """replacement text (with parameter list, if any) of `#define name...`, continuation lines joined"""
    m = re.search(r'^[ \t]*#[ \t]*define[ \t]+%s\b((?:[^\n\\]|\\\n|\\.)*)$' % re.escape(name), h, re.M)
    if not m:
        return None
    return norm(m.group(1).replace('\\\n', ' '))


def kind_defs(c):
    """[(variable name, CelloEmpty argument)] in source order"""
    return re.findall(r'^\s*var\s+(\w+)\s*=\s*CelloEmpty\s*\(\s*(\w+)\s*\)\s*;', c, re.M)


def generate(repo, emit, src, func_body):
    h = src('include/Cello.h')
    for coq, name in (('exn_macro_try', 'try'), ('exn_macro_catch', 'catch'),
                      ('exn_macro_catch_in', 'catch_in'), ('exn_macro_throw', 'throw')):
        t = macro(h, name)
        emit(coq, None if t is None else 'Definition %s : string := %s%%string.' % (coq, coq_string(t)))

    c = src('src/Exception.c')
    c = re.sub(r'//[^\n]*', ' ', c)
    # every exception kind the library defines: `var NAME = CelloEmpty(ARG);` at file scope.  A kind is
    # matched by eq, and Type objects compare by NAME (= ARG), so ARG must be the variable's own name
    # and the names must be pairwise distinct (ExnProofs.kinds_ok_dec decides it)
    kinds = kind_defs(c)
    emit('exn_kind_defs', None if not kinds else
         'Definition exn_kind_defs : list (string * string) :=\n  [' +
         ';\n   '.join('(%s, %s)' % (coq_string(n), coq_string(a)) for n, a in kinds) + ']%string.')
    bodies = {}
    for coq, hdr in (('exn_src_try', r'void\s+exception_try\s*\(\s*jmp_buf\s*\*\s*env\s*\)\s*\{'),
                     ('exn_src_try_end', r'void\s+exception_try_end\s*\(\s*void\s*\)\s*\{'),
                     ('exn_src_try_fail', r'void\s+exception_try_fail\s*\(\s*void\s*\)\s*\{'),
                     ('exn_src_throw', r'var\s+exception_throw\s*\(\s*var\s+obj\s*,\s*const\s+char\s*\*\s*fmt\s*,\s*var\s+args\s*\)\s*\{'),
                     ('exn_src_catch', r'var\s+exception_catch\s*\(\s*var\s+args\s*\)\s*\{'),
                     ('exn_src_buffer', r'static\s+jmp_buf\s*\*\s*Exception_Buffer\s*\(\s*struct\s+Exception\s*\*\s*e\s*\)\s*\{'),
                     ('exn_src_len', r'static\s+size_t\s+Exception_Len\s*\(\s*var\s+self\s*\)\s*\{'),
                     ('exn_src_signal', r'static\s+void\s+Exception_Signal\s*\(\s*int\s+sig\s*\)\s*\{'),
                     ('exn_src_error', r'static\s+void\s+Exception_Error\s*\(\s*struct\s+Exception\s*\*\s*e\s*\)\s*\{')):
        b = func_body(c, hdr)
        bodies[coq] = None if b is None else norm(b)

    # translation of the five state-changing functions (and the two helpers they call) into Gallina
    # state transformers: tools/exn_symex.py.  ExnProofs.v proves each equal to the model's function.
    try:
        import exn_symex
        raw = {}
        for cname, key in (('exception_try', 'exn_src_try'), ('exception_try_end', 'exn_src_try_end'),
                           ('exception_try_fail', 'exn_src_try_fail'), ('exception_throw', 'exn_src_throw'),
                           ('exception_catch', 'exn_src_catch')):
            raw[cname] = bodies.get(key)
        helper_srcs = {}
        for m in re.finditer(r'\bstatic\s+(?:const\s+)?[A-Za-z_][\w\s]*?[\s\*]+(\w+)\s*\(([^)]*)\)\s*\{', c):
            hb = func_body(c, r'\b%s\s*\(%s\)\s*\{' % (re.escape(m.group(1)), re.escape(m.group(2))))
            if hb is None: continue
            names = [re.findall(r'\w+', prm)[-1] for prm in m.group(2).split(',') if re.findall(r'\w+', prm) and prm.strip() != 'void']
            helper_srcs[m.group(1)] = (names, norm(hb))
        text = exn_symex.gallina(raw, helper_srcs)
        # the module must typecheck on its own: a term Coq rejects would take all of Generated.v with it
        import tempfile, subprocess, shutil
        td = tempfile.mkdtemp(prefix='exn_tr_')
        try:
            with open(os.path.join(td, 'T.v'), 'w') as fh:
                fh.write('From Coq Require Import List Arith NArith ZArith String Ascii.\nImport ListNotations.\n'
                         'Local Open Scope nat_scope.\nDefinition exc_max_depth : nat := 5.\n' + text + '\n')
            with open(os.path.join(td, 'T.v'), 'a') as fh:
                fh.write('Import ExnTr.\nDefinition probe := CS (Some 0) 0 0 true (fun _ => 0).\n'
                         'Compute (match tr_exception_catch (fun _ _ => true) true nil probe with CRet s _ => negb (c_active s) | _ => false end).\n'
                         'Compute (match tr_exception_throw (fun m => m) 7 (CS None 0 0 false (fun _ => 0)) with CFormat s _ => match c_obj s with None => true | Some _ => false end | _ => false end).\n'
                         'Compute (match tr_exception_try 1 (CS (Some 0) 0 0 false (fun _ => 0)) with CRet s _ => match c_obj s with Some _ => true | None => false end | _ => false end).\n')
            r = subprocess.run(['coqc', 'T.v'], cwd=td, stdout=subprocess.PIPE, stderr=subprocess.STDOUT, timeout=120, text=True)
            if r.returncode != 0:
                raise exn_symex.Untranslatable('translated module does not typecheck: ' + r.stdout[-300:].replace('\n', ' '))
            flags = re.findall(r'=\s*(true|false)\s*:\s*bool', r.stdout)
            if len(flags) != 3:
                raise exn_symex.Untranslatable('probe output: ' + r.stdout[-200:])
        finally:
            shutil.rmtree(td, ignore_errors=True)
        for name, val, what in (('clear_active_on_catch', flags[0], 'exception_catch on a pending exception with an empty filter leaves active clear'),
                                ('throw_records_obj_after_format', flags[1], 'exception_throw has not stored the object yet when it formats the message'),
                                ('try_keeps_obj', flags[2], 'exception_try leaves e->obj alone')):
            emit(name, 'Definition %s : bool := %s.   (* read off the translation on a probe state: %s = %s *)' % (name, val, what, val))
        emit('exn_translation', text)
    except Exception as ex:          # outside the fragment: no definition = broken obligation
        emit('exn_translation', None)
        for name in ('clear_active_on_catch', 'throw_records_obj_after_format', 'try_keeps_obj'):
            emit(name, None)
        print('exn_translation: %s' % ex)

    # the token shapes of the translated functions are no longer obligations; the flags of the machine are
    # READ OFF the translation by running it on probe states (see the translation block above): the tie
    # theorems of ExnTie.v then check the whole transformer against the model at these flags
    for k in ('exn_src_try', 'exn_src_try_end', 'exn_src_try_fail', 'exn_src_throw', 'exn_src_catch',
              'exn_src_buffer', 'exn_src_len'):
        bodies.pop(k, None)
    # Exception_Error: a sequence of output calls (print_to / fprintf / fflush / Exception_Backtrace) that
    # reports "Uncaught <obj>" and the message on stderr and then leaves through exit(EXIT_FAILURE) —
    # checked on the parsed statements, not on the text (flushing a stream more is the same function)
    eb = bodies.pop('exn_src_error', None)
    ok = False
    try:
        import exn_symex
        sts = exn_symex.Parser(eb).block()[1] if eb else []
        calls = [s[1] for s in sts if s[0] == 'expr' and s[1][0] == 'call']
        on_stderr = lambda c: c[2] and c[2][0] == ('call', '$', [('id', 'File'), ('id', 'stderr')])
        is_e = lambda x, f: x == ('field', ('id', 'e'), f)
        ok = (len(calls) == len(sts) and len(sts) >= 2
              and all(c[1] in ('print_to', 'fprintf', 'fflush', 'Exception_Backtrace', 'exit') for c in calls)
              and calls[-1] == ('call', 'exit', [('id', 'EXIT_FAILURE')])
              and sum(1 for c in calls if c[1] == 'exit') == 1
              and any(c[1] == 'print_to' and on_stderr(c) and len(c[2]) == 4 and c[2][2][0] == 'str'
                      and 'Uncaught %$' in c[2][2][1] and is_e(c[2][3], 'obj') for c in calls)
              and any(c[1] == 'print_to' and on_stderr(c) and len(c[2]) == 4 and is_e(c[2][3], 'msg') for c in calls))
    except Exception:
        ok = False
    emit('exn_error_reports_and_exits', 'Definition exn_error_reports_and_exits : bool := true.   (* source: Exception_Error prints "Uncaught %$" with e->obj and the message to stderr, then exit(EXIT_FAILURE) *)' if ok else None)
    for coq, t in bodies.items():
        emit(coq, None if t is None else 'Definition %s : string := %s%%string.' % (coq, coq_string(t)))


if __name__ == '__main__':
    import sys, os
    repo = sys.argv[1]

    def src(name):
        s = open(os.path.join(repo, name), errors='replace').read()
        return re.sub(r'/\*.*?\*/', ' ', s, flags=re.S)

    def func_body(s, header_re):
        m = re.search(header_re, s)
        if not m:
            return None
        i = s.find('{', m.end() - 1)
        d, j = 0, i
        while j < len(s):
            if s[j] == '{':
                d += 1
            elif s[j] == '}':
                d -= 1
                if d == 0:
                    return s[i:j + 1]
            j += 1
        return None
    generate(repo, lambda n, t: print(n, '=>', t), src, func_body)
