"""genx_hash.py — data and tiny rules of the hashing / equality code that the C10 proofs rely on,
re-extracted from the C sources on every check (see tools/gen_params.py).

  hash_m, hash_r, hash_seed      constants of hash_data (src/Hash.c)
  hash_data_shape_ok             loop body, tail switch and finalisation still have the modelled shape
  int_hash_shape_ok              Int_Hash returns (uint64_t)c_int(self)
  float_hash_normalises_zero     true: Float_Hash maps both zeros to +0.0 (repaired); false: raw bits (pinned)
  hash_float_cmp_shape_ok             Float_Cmp is sign of the double difference
  table_cmp_by_lookup            true: Table_Cmp first compares by lookup (repaired); false: slot-order walk only
  xor_fold_shape_ok              Array/List/Tuple/Table/Tree_Hash XOR the hashes of all elements
  memswap_shape_ok               memswap swaps bytes 0..s-1; swap calls it with size(type) for objects of one type
  copy_shape_ok                  copy = the type's Copy instance, else assign(alloc(type_of(self)), self)
"""
import re


def norm(s):
    return re.sub(r'\s+', '', s or '')


def generate(repo, emit, src, func_body):
    h = src('src/Hash.c')
    b = func_body(h, r'uint64_t\s+hash_data\s*\([^)]*\)\s*\{')
    nb = norm(b)
    m = re.search(r'constuint64_tm=(0x[0-9a-fA-F]+|\d+)', nb)
    r = re.search(r'constintr=(\d+)', nb)
    s = re.search(r'uint64_th=(0x[0-9a-fA-F]+|\d+)\^\(size\*m\)', nb)
    emit('hash_m', 'Definition hash_m : N := %d%%N.' % int(m.group(1), 0) if m else None)
    emit('hash_r', 'Definition hash_r : N := %d%%N.' % int(r.group(1)) if r else None)
    emit('hash_seed', 'Definition hash_seed : N := %d%%N.' % int(s.group(1), 0) if s else None)
    shape = [
        'constuint8_t*end=d+(size&~7ULL);',
        'while(d!=end){uint64_tk;memcpy(&k,d,sizeof(uint64_t));d+=sizeof(uint64_t);k*=m;k^=k>>r;k*=m;h^=k;h*=m;}',
        'switch(size&7){case7:h^=(uint64_t)(d[6])<<48;case6:h^=(uint64_t)(d[5])<<40;case5:h^=(uint64_t)(d[4])<<32;'
        'case4:h^=(uint64_t)(d[3])<<24;case3:h^=(uint64_t)(d[2])<<16;case2:h^=(uint64_t)(d[1])<<8;'
        'case1:h^=(uint64_t)(d[0]);h*=m;};',
        'h^=h>>r;h*=m;h^=h>>r;returnh;',
    ]
    ok = bool(b) and all(x in nb for x in shape)
    emit('hash_data_shape_ok', 'Definition hash_data_shape_ok : bool := true.' if ok else None)

    n = src('src/Num.c')
    ih = norm(func_body(n, r'static\s+uint64_t\s+Int_Hash\s*\([^)]*\)\s*\{'))
    emit('int_hash_shape_ok', 'Definition int_hash_shape_ok : bool := true.'
         if ih == '{return(uint64_t)c_int(self);}' else None)
    fh = norm(func_body(n, r'static\s+uint64_t\s+Float_Hash\s*\([^)]*\)\s*\{'))
    if fh == '{unioninterp_castic;ic.as_flt=c_float(self);if(ic.as_flt==0.0){ic.as_flt=0.0;}returnic.as_int;}':
        emit('float_hash_normalises_zero',
             'Definition float_hash_normalises_zero : bool := true.   (* source: if (ic.as_flt == 0.0) { ic.as_flt = 0.0; } *)')
    elif fh == '{unioninterp_castic;ic.as_flt=c_float(self);returnic.as_int;}':
        emit('float_hash_normalises_zero',
             'Definition float_hash_normalises_zero : bool := false.   (* source: the raw bit pattern *)')
    else:
        emit('float_hash_normalises_zero', None)
    fc = norm(func_body(n, r'static\s+int\s+Float_Cmp\s*\([^)]*\)\s*\{'))
    emit('hash_float_cmp_shape_ok', 'Definition hash_float_cmp_shape_ok : bool := true.'
         if fc == '{doublec=Float_C_Float(self)-c_float(obj);returnc>0?1:c<0?-1:0;}' else None)

    t = src('src/Table.c')
    tc = norm(func_body(t, r'static\s+int\s+Table_Cmp\s*\([^)]*\)\s*\{'))
    head = '{intc;varitem0=Table_Iter_Init(self);varitem1=iter_init(obj);'
    walk = ('while(true){if(item0isTerminalanditem1isTerminal){return0;}if(item0isTerminal){return-1;}'
            'if(item1isTerminal){return1;}c=cmp(item0,item1);if(c<0){return-1;}if(c>0){return1;}'
            'c=cmp(Table_Get(self,item0),get(obj,item1));if(c<0){return-1;}if(c>0){return1;}'
            'item0=Table_Iter_Next(self,item0);item1=iter_next(obj,item1);}return0;}')
    lookup = ('if(len(self)islen(obj)){boolsame=true;foreach(keyinself){'
              'if(notmem(obj,key)orneq(Table_Get(self,key),get(obj,key))){same=false;break;}}if(same){return0;}}')
    if tc == head + lookup + walk:
        emit('table_cmp_by_lookup', 'Definition table_cmp_by_lookup : bool := true.   (* source: lookup loop, then the slot-order walk *)')
    elif tc == head + walk:
        emit('table_cmp_by_lookup', 'Definition table_cmp_by_lookup : bool := false.   (* source: slot-order walk only *)')
    else:
        emit('table_cmp_by_lookup', None)

    # XOR folds over all elements
    pats = {
        'src/Array.c': (r'static\s+uint64_t\s+Array_Hash', '{structArray*a=self;uint64_th=0;for(size_ti=0;i<a->nitems;i++){h^=hash(Array_Item(a,i));}returnh;}'),
        'src/List.c': (r'static\s+uint64_t\s+List_Hash', '{structList*l=self;uint64_th=0;varitem=l->head;for(size_ti=0;i<l->nitems;i++){h^=hash(item);item=*List_Next(l,item);}returnh;}'),
        'src/Tuple.c': (r'static\s+uint64_t\s+Tuple_Hash', '{structTuple*t=self;uint64_th=0;size_tn=Tuple_Len(self);for(size_ti=0;i<n;i++){h^=hash(t->items[i]);}returnh;}'),
        'src/Table.c': (r'static\s+uint64_t\s+Table_Hash', '{structTable*t=self;uint64_th=0;varcurr=Table_Iter_Init(self);while(currisntTerminal){varvurr=(char*)curr+t->ksize+sizeof(structHeader);h=h^hash(curr)^hash(vurr);curr=Table_Iter_Next(self,curr);}returnh;}'),
        'src/Tree.c': (r'static\s+uint64_t\s+Tree_Hash', '{structTree*m=self;uint64_th=0;varcurr=Tree_Iter_Init(self);while(currisntTerminal){varnode=(char*)curr-sizeof(structHeader)-3*sizeof(var);h=h^hash(Tree_Key(m,node))^hash(Tree_Val(m,node));curr=Tree_Iter_Next(self,curr);}returnh;}'),
    }
    good = True
    for f, (hdr, want) in pats.items():
        body = norm(func_body(src(f), hdr + r'\s*\([^)]*\)\s*\{'))
        if body != want:
            good = False
    emit('xor_fold_shape_ok', 'Definition xor_fold_shape_ok : bool := true.' if good else None)

    a = src('src/Assign.c')
    ms = norm(func_body(a, r'static\s+void\s+memswap\s*\([^)]*\)\s*\{'))
    sw = norm(func_body(a, r'void\s+swap\s*\(\s*var\s+self\s*,\s*var\s+obj\s*\)\s*\{'))
    ok = (ms == '{if(p0==p1){return;}for(size_ti=0;i<s;i++){chart=((char*)p0)[i];((char*)p0)[i]=((char*)p1)[i];((char*)p1)[i]=t;}}'
          and sw.startswith('{structSwap*s=instance(self,Swap);if(sands->swap){s->swap(self,obj);return;}'
                            'size_tn=size(type_of(self));if(type_of(self)istype_of(obj)andn){memswap(self,obj,n);return;}'))
    emit('memswap_shape_ok', 'Definition memswap_shape_ok : bool := true.' if ok else None)
    al = src('src/Alloc.c')
    cp = norm(func_body(al, r'var\s+copy\s*\(\s*var\s+self\s*\)\s*\{'))
    emit('copy_shape_ok', 'Definition copy_shape_ok : bool := true.'
         if cp == '{structCopy*c=instance(self,Copy);if(candc->copy){returnc->copy(self);}returnassign(alloc(type_of(self)),self);}' else None)
