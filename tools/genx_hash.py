"""genx_hash.py — data and tiny rules of the hashing / equality code that the C10 proofs rely on,
re-extracted from the C sources on every check (see tools/gen_params.py).

  hash_m, hash_r, hash_seed      constants of hash_data (src/Hash.c)
  hash_data_shape_ok             block loop and finalisation still have the modelled shape
  hash_tail_shape                0: fall-through switch over size & 7;  1: loop building one little-endian word
  int_hash_shape_ok              Int_Hash returns (uint64_t)c_int(self)
  float_hash_normalises_zero     true: Float_Hash maps both zeros to +0.0 (repaired); false: raw bits (pinned)
  hash_float_cmp_shape_ok             Float_Cmp is sign of the double difference
  table_cmp_by_lookup            true: Table_Cmp first compares by lookup (repaired); false: slot-order walk only
  xor_fold_shape_ok              Array/List/Tuple/Table/Tree_Hash XOR the hashes of all elements
  memswap_plan                   memswap's loops as a list of (tag, width) steps (see HashModel.step_indices)
  swap_shape_ok                  swap calls memswap with size(type) for two objects of one type
  copy_shape_ok                  copy = the type's Copy instance, else assign(alloc(type_of(self)), self)
  string_hash_shape_ok           String_Hash is hash_data(s->val, strlen(s->val)); Type_Hash likewise over the name;
                                 hash() dispatches to the instance or hash_data(self, size(type))
  hash_instances_stateless       no `static` storage inside hash, hash_data or any *_Hash instance (the value is
                                 hashed afresh at every call: nothing is remembered between calls)
"""
import re


def norm(s):
    return re.sub(r'\s+', '', s or '')


def generate(repo, emit, src, func_body):
    h = src('src/Hash.c')
    b = func_body(h, r'uint64_t\s+hash_data\s*\([^)]*\)\s*\{')
    nb = norm(b)
    m = re.search(r'constuint64_tm=(0x[0-9a-fA-F]+|\d+)', nb)
    r = re.search(r'constintr=(\d+)', nb)
    s = re.search(r'uint64_th=(0x[0-9a-fA-F]+|\d+)\^\(size\*m\)', nb)
    emit('hash_m', 'Definition hash_m : N := %d%%N.' % int(m.group(1), 0) if m else None)
    emit('hash_r', 'Definition hash_r : N := %d%%N.' % int(r.group(1)) if r else None)
    emit('hash_seed', 'Definition hash_seed : N := %d%%N.' % int(s.group(1), 0) if s else None)
    shape = [
        'constuint8_t*end=d+(size&~7ULL);',
        'while(d!=end){uint64_tk;memcpy(&k,d,sizeof(uint64_t));d+=sizeof(uint64_t);k*=m;k^=k>>r;k*=m;h^=k;h*=m;}',
        'h^=h>>r;h*=m;h^=h>>r;returnh;',
    ]
    ok = bool(b) and all(x in nb for x in shape)
    emit('hash_data_shape_ok', 'Definition hash_data_shape_ok : bool := true.' if ok else None)
    # the tail (size & 7 bytes): two shapes, each modelled as written (HashModel.tail_step)
    loop_end = 'k*=m;k^=k>>r;k*=m;h^=k;h*=m;}'
    fin = 'h^=h>>r;h*=m;h^=h>>r;returnh;'
    i0, i1 = nb.find(loop_end), nb.find(fin)
    tail = nb[i0 + len(loop_end):i1] if i0 >= 0 and i1 > i0 else None
    switch = ('switch(size&7){case7:h^=(uint64_t)(d[6])<<48;case6:h^=(uint64_t)(d[5])<<40;case5:h^=(uint64_t)(d[4])<<32;'
              'case4:h^=(uint64_t)(d[3])<<24;case3:h^=(uint64_t)(d[2])<<16;case2:h^=(uint64_t)(d[1])<<8;'
              'case1:h^=(uint64_t)(d[0]);h*=m;};')
    word = 'size_trest=size&7;if(restisnt0){uint64_tk=0;while(rest-->0){k=(k<<8)|(uint64_t)d[rest];}h^=k;h*=m;}'
    if tail == switch:
        emit('hash_tail_shape', 'Definition hash_tail_shape : nat := 0.   (* source: fall-through switch over size & 7 *)')
    elif tail in (word, word.replace('restisnt0', 'rest!=0'), word.replace('if(restisnt0)', 'if(rest)')):
        emit('hash_tail_shape', 'Definition hash_tail_shape : nat := 1.   (* source: while (rest-- > 0) k = (k << 8) | d[rest]; h ^= k; h *= m; *)')
    else:
        emit('hash_tail_shape', None)

    n = src('src/Num.c')
    ih = norm(func_body(n, r'static\s+uint64_t\s+Int_Hash\s*\([^)]*\)\s*\{'))
    emit('int_hash_shape_ok', 'Definition int_hash_shape_ok : bool := true.'
         if ih == '{return(uint64_t)c_int(self);}' else None)
    fh = norm(func_body(n, r'static\s+uint64_t\s+Float_Hash\s*\([^)]*\)\s*\{'))
    pre = '{unioninterp_castic;ic.as_flt=c_float(self);'
    if fh == pre + 'if(ic.as_flt==0.0){ic.as_flt=0.0;}returnic.as_int;}':
        emit('float_hash_shape', 'Definition float_hash_shape : nat := 1.   (* source: if (ic.as_flt == 0.0) { ic.as_flt = 0.0; } *)')
    elif fh in (pre + 'if((ic.as_int<<1)is0){return0;}returnic.as_int;}', pre + 'if((ic.as_int<<1)==0){return0;}returnic.as_int;}'):
        emit('float_hash_shape', 'Definition float_hash_shape : nat := 2.   (* source: if ((ic.as_int << 1) is 0) { return 0; } *)')
    elif fh == pre + 'returnic.as_int;}':
        emit('float_hash_shape', 'Definition float_hash_shape : nat := 0.   (* source: the raw bit pattern *)')
    else:
        emit('float_hash_shape', None)
    fc = norm(func_body(n, r'static\s+int\s+Float_Cmp\s*\([^)]*\)\s*\{'))
    direct = re.fullmatch(r'\{double(\w+)=Float_C_Float\(self\);double(\w+)=c_float\(obj\);return(.*);\}', fc or '')
    form = None
    if re.fullmatch(r'\{double(\w+)=Float_C_Float\(self\)-c_float\(obj\);return\1>0\?1:\1<0\?-1:0;\}', fc or ''):
        form = (0, 'sign of the rounded difference')
    elif direct:
        a, b2, e = direct.group(1), direct.group(2), direct.group(3)
        # every accepted expression is -1 for a < b, 1 for a > b, 0 otherwise (NaN: all comparisons false)
        if e in ('(%s>%s)-(%s<%s)' % (a, b2, a, b2), '%s<%s?-1:%s>%s?1:0' % (a, b2, a, b2), '%s>%s?1:%s<%s?-1:0' % (a, b2, a, b2)):
            form = (1, 'the operands compared directly: ' + e)
    emit('float_cmp_form', 'Definition float_cmp_form : nat := %d.   (* source: %s *)' % form if form else None)

    t = src('src/Table.c')
    tc = norm(func_body(t, r'static\s+int\s+Table_Cmp\s*\([^)]*\)\s*\{'))
    head = '{intc;varitem0=Table_Iter_Init(self);varitem1=iter_init(obj);'
    walk = ('while(true){if(item0isTerminalanditem1isTerminal){return0;}if(item0isTerminal){return-1;}'
            'if(item1isTerminal){return1;}c=cmp(item0,item1);if(c<0){return-1;}if(c>0){return1;}'
            'c=cmp(Table_Get(self,item0),get(obj,item1));if(c<0){return-1;}if(c>0){return1;}'
            'item0=Table_Iter_Next(self,item0);item1=iter_next(obj,item1);}return0;}')
    lookup = ('if(len(self)islen(obj)){boolsame=true;foreach(keyinself){'
              'if(notmem(obj,key)orneq(Table_Get(self,key),get(obj,key))){same=false;break;}}if(same){return0;}}')
    if tc == head + lookup + walk:
        emit('table_cmp_by_lookup', 'Definition table_cmp_by_lookup : bool := true.   (* source: lookup loop, then the slot-order walk *)')
    elif tc == head + walk:
        emit('table_cmp_by_lookup', 'Definition table_cmp_by_lookup : bool := false.   (* source: slot-order walk only *)')
    else:
        emit('table_cmp_by_lookup', None)

    # XOR folds over all elements
    pats = {
        'src/Array.c': (r'static\s+uint64_t\s+Array_Hash', '{structArray*a=self;uint64_th=0;for(size_ti=0;i<a->nitems;i++){h^=hash(Array_Item(a,i));}returnh;}'),
        'src/List.c': (r'static\s+uint64_t\s+List_Hash', '{structList*l=self;uint64_th=0;varitem=l->head;for(size_ti=0;i<l->nitems;i++){h^=hash(item);item=*List_Next(l,item);}returnh;}'),
        'src/Tuple.c': (r'static\s+uint64_t\s+Tuple_Hash', '{structTuple*t=self;uint64_th=0;size_tn=Tuple_Len(self);for(size_ti=0;i<n;i++){h^=hash(t->items[i]);}returnh;}'),
        'src/Table.c': (r'static\s+uint64_t\s+Table_Hash', '{structTable*t=self;uint64_th=0;varcurr=Table_Iter_Init(self);while(currisntTerminal){varvurr=(char*)curr+t->ksize+sizeof(structHeader);h=h^hash(curr)^hash(vurr);curr=Table_Iter_Next(self,curr);}returnh;}'),
        'src/Tree.c': (r'static\s+uint64_t\s+Tree_Hash', '{structTree*m=self;uint64_th=0;varcurr=Tree_Iter_Init(self);while(currisntTerminal){varnode=(char*)curr-sizeof(structHeader)-3*sizeof(var);h=h^hash(Tree_Key(m,node))^hash(Tree_Val(m,node));curr=Tree_Iter_Next(self,curr);}returnh;}'),
    }
    good = True
    for f, (hdr, want) in pats.items():
        body = norm(func_body(src(f), hdr + r'\s*\([^)]*\)\s*\{'))
        if body != want:
            good = False
    emit('xor_fold_shape_ok', 'Definition xor_fold_shape_ok : bool := true.' if good else None)

    a = src('src/Assign.c')
    ms = norm(func_body(a, r'static\s+void\s+memswap\s*\([^)]*\)\s*\{'))
    plan = memswap_plan(ms)
    emit('memswap_plan', 'Definition memswap_plan : list (nat * nat) := [%s].   (* (tag, width) steps read from memswap *)'
         % '; '.join('(%d, %d)' % st for st in plan) if plan is not None else None)
    sw = norm(func_body(a, r'void\s+swap\s*\(\s*var\s+self\s*,\s*var\s+obj\s*\)\s*\{'))
    ok = sw.startswith('{structSwap*s=instance(self,Swap);if(sands->swap){s->swap(self,obj);return;}'
                       'size_tn=size(type_of(self));if(type_of(self)istype_of(obj)andn){memswap(self,obj,n);return;}')
    emit('swap_shape_ok', 'Definition swap_shape_ok : bool := true.' if ok else None)
    al = src('src/Alloc.c')
    cp = norm(func_body(al, r'var\s+copy\s*\(\s*var\s+self\s*\)\s*\{'))
    emit('copy_shape_ok', 'Definition copy_shape_ok : bool := true.'
         if cp == '{structCopy*c=instance(self,Copy);if(candc->copy){returnc->copy(self);}returnassign(alloc(type_of(self)),self);}' else None)

    # Hash instances keep no state between calls
    st = src('src/String.c')
    sh = norm(func_body(st, r'static\s+uint64_t\s+String_Hash\s*\([^)]*\)\s*\{'))
    ty = src('src/Type.c')
    th = norm(func_body(ty, r'static\s+uint64_t\s+Type_Hash\s*\([^)]*\)\s*\{'))
    hh = norm(func_body(h, r'uint64_t\s+hash\s*\(\s*var\s+self\s*\)\s*\{'))
    ok = (sh == '{structString*s=self;returnhash_data(s->val,strlen(s->val));}'
          and th == '{constchar*name=Type_Builtin_Name(self);returnhash_data(name,strlen(name));}'
          and hh == '{structHash*h=instance(self,Hash);if(handh->hash){returnh->hash(self);}returnhash_data(self,size(type_of(self)));}')
    emit('string_hash_shape_ok', 'Definition string_hash_shape_ok : bool := true.' if ok else None)
    bodies = [func_body(h, r'uint64_t\s+hash\s*\(\s*var\s+self\s*\)\s*\{'), b]
    for f, fn in (('src/Num.c', 'Int_Hash'), ('src/Num.c', 'Float_Hash'), ('src/String.c', 'String_Hash'), ('src/Type.c', 'Type_Hash'),
                  ('src/Array.c', 'Array_Hash'), ('src/List.c', 'List_Hash'), ('src/Tuple.c', 'Tuple_Hash'),
                  ('src/Table.c', 'Table_Hash'), ('src/Tree.c', 'Tree_Hash')):
        bodies.append(func_body(src(f), r'static\s+uint64_t\s+%s\s*\([^)]*\)\s*\{' % fn))
    stateless = all(x is not None and not re.search(r'\bstatic\b', x) for x in bodies)
    emit('hash_instances_stateless', 'Definition hash_instances_stateless : bool := true.   (* no static storage in hash, hash_data, *_Hash *)'
         if stateless else None)


SIZES = {'sizeof(uint64_t)': 8, 'sizeof(int64_t)': 8, 'sizeof(uint32_t)': 4, 'sizeof(int32_t)': 4,
         'sizeof(uint16_t)': 2, 'sizeof(uint8_t)': 1, 'sizeof(char)': 1}
TYPES = {'uint64_t': 8, 'int64_t': 8, 'uint32_t': 4, 'int32_t': 4, 'uint16_t': 2, 'uint8_t': 1, 'char': 1}


def memswap_plan(ms):
    """Translate the (whitespace-free) body of memswap into a list of (tag, width) steps, or None when a
    piece is not one of the recognised loop forms.  Only the loop structure is translated here (bounds,
    offsets, advance); whether the steps cover every byte below s exactly once is decided in Coq
    (HashModel.plan_ok, HashProofs.plan_covers)."""
    if not ms or not ms.startswith('{if(p0==p1){return;}') or not ms.endswith('}'):
        return None
    rest = ms[len('{if(p0==p1){return;}'):-1]
    W = r'(sizeof\(\w+\)|\d+)'
    byte_i = r'chart=\(\(char\*\)p0\)\[i\];\(\(char\*\)p0\)\[i\]=\(\(char\*\)p1\)\[i\];\(\(char\*\)p1\)\[i\]=t;'
    word_i = (r'(\w+)t;memcpy\(&t,\(char\*\)p0\+i,sizeof\(t\)\);memcpy\(\(char\*\)p0\+i,\(char\*\)p1\+i,sizeof\(t\)\);'
              r'memcpy\(\(char\*\)p1\+i,&t,sizeof\(t\)\);')

    def width(txt):
        return SIZES.get(txt) if not txt.isdigit() else int(txt)

    plan, cursor, pointer = [], None, False      # cursor: is the index variable i declared and where it stands
    while rest:
        m = re.match(r'size_ti=0;', rest)
        if m and cursor is None and not pointer:
            cursor = 'decl'; rest = rest[m.end():]; continue
        m = re.match(r'for\(size_ti=0;i<s;i\+\+\)\{' + byte_i + r'\}', rest)
        if m and cursor is None and not pointer:
            plan.append((0, 1)); cursor = 'loop'; rest = rest[m.end():]; continue
        m = re.match(r'for\(;i<s;i\+\+\)\{' + byte_i + r'\}', rest)
        if m and cursor and not pointer:
            plan.append((0, 1)); rest = rest[m.end():]; continue
        m = re.match(r'for\(;i\+' + W + r'<=s;i\+=' + W + r'\)\{' + word_i + r'\}', rest)
        if m and cursor and not pointer:
            w1, w2, ty = width(m.group(1)), width(m.group(2)), TYPES.get(m.group(3))
            if not w1 or w1 != w2 or w1 != ty:
                return None
            plan.append((0, w1)); rest = rest[m.end():]; continue
        m = re.match(r'if\(i\+' + W + r'<=s\)\{' + word_i + r'(i\+=' + W + r';)?\}', rest)
        if m and cursor and not pointer:
            w1, ty = width(m.group(1)), TYPES.get(m.group(2))
            if not w1 or w1 != ty:
                return None
            if m.group(3):
                if width(m.group(4)) != w1:
                    return None
                plan.append((1, w1))
            else:
                plan.append((2, w1))          # the cursor is NOT advanced
            rest = rest[m.end():]; continue
        # pointer form: two char pointers walk the regions, the counts come from the size
        m = re.match(r'char\*a=p0;char\*b=p1;', rest)
        if m and cursor is None and not pointer and not plan:
            pointer = True; rest = rest[m.end():]; continue
        m = re.match(r'size_t(\w+)=s/' + W + r';while\(\1>0\)\{(\w+)wa,wb;memcpy\(&wa,a,' + W + r'\);memcpy\(&wb,b,' + W
                     + r'\);memcpy\(a,&wb,' + W + r'\);memcpy\(b,&wa,' + W + r'\);a\+=' + W + r';b\+=' + W + r';\1--;\}', rest)
        if m and pointer:
            ws = [width(m.group(k)) for k in (2, 4, 5, 6, 7, 8, 9)]
            if not ws[0] or len(set(ws)) != 1 or TYPES.get(m.group(3)) != ws[0]:
                return None
            plan.append((3, ws[0])); rest = rest[m.end():]; continue
        m = re.match(r'size_t(\w+)=s%' + W + r';while\(\1>0\)\{chart=\*a;\*a\+\+=\*b;\*b\+\+=t;\1--;\}', rest)
        if m and pointer:
            w = width(m.group(2))
            if not w:
                return None
            plan.append((4, w)); rest = rest[m.end():]; continue
        return None
    return plan or None
