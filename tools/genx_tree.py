"""tools/genx_tree.py — tiny rules of src/Tree.c that the model RBTree.v hard-codes or takes as a parameter,
re-extracted on every run (C03).  A rule that no longer matches any ACCEPTED form is emitted as None (= broken
obligation `tree_source_rules_as_modelled`).  Function bodies are normalised first (comments removed, white space
collapsed); every accepted form is listed with its justification in design.d/C03.md ("Benign changes").

  tree_search_left_when : comparison   the three searches (Tree_Mem, Tree_Get, Tree_Rem) descend with
                                       `node = c < 0 ? *Tree_Left(m, node) : *Tree_Right(m, node);`  -> Lt
  tree_set_left_when    : comparison   Tree_Set inserts under *Tree_Left when c < 0 -> Lt.  Forms: (a) the three
                                       copies `if (c < 0) {... *Tree_Left ...} if (c > 0) {... *Tree_Right ...}`;
                                       (b) slot pointer `var* link = &m->root; while (*link isnt NULL) {... prnt = node;
                                       link = c < 0 ? Tree_Left(m, node) : Tree_Right(m, node); } ... *link = newn;
                                       Tree_Set_Parent(m, newn, prnt);`
  tree_new_node_red     : bool         Tree_Alloc ends with Tree_Set_Red(m, node)
  tree_iter_from_left   : bool         Tree_Iter_Init walks *Tree_Left, Tree_Iter_Last walks *Tree_Right — inline loop
                                       or through Tree_Minimum / Tree_Maximum (helper inlined one level); the emptiness
                                       test is `m->nitems is 0` or `m->root is NULL` (equal under rb_inv:
                                       tree_empty_tests_agree)
  tree_rem_use_succ     : bool -> bool -> bool   donor rule of Tree_Rem for a node with two children, as a function of
                                       (predecessor is black) (successor is red): PARAMETER of the model; forms:
                                       (a) always Tree_Maximum(left) -> false; (b)/(c) the successor Tree_Minimum(right)
                                       when the predecessor is black and the successor red -> andb
  tree_donor_helpers_ok : bool         Tree_Maximum follows *Tree_Right only, Tree_Minimum (if present) *Tree_Left only
"""
import re


def norm(b):
    b = re.sub(r'/\*.*?\*/', ' ', b or '', flags=re.S)
    return re.sub(r'\s+', ' ', b).strip()


def generate(repo, emit, src, func_body):
    s = src('src/Tree.c')

    def body(name):
        return norm(func_body(s, r'static\s+\w+\s*\*?\s*%s\s*\([^)]*\)\s*\{' % name) or '')
    pat = re.compile(r'node = c ([<>]) 0 \? \*Tree_(Left|Right)\(m, node\) : \*Tree_(Left|Right)\(m, node\) ;'.replace(' ;', ';'))
    rules = set()
    for fn in ('Tree_Mem', 'Tree_Get', 'Tree_Rem'):
        m = pat.search(body(fn))
        rules.add((m.group(1), m.group(2), m.group(3)) if m else None)
    val = None
    if len(rules) == 1 and None not in rules:
        op, a, b = rules.pop()
        if a != b:
            val = 'Lt' if (op == '<') == (a == 'Left') else 'Gt'
    emit('tree_search_left_when', ('Definition tree_search_left_when : comparison := %s.' % val) if val else None)

    # ---- Tree_Set
    b = body('Tree_Set')
    val = None
    m1 = re.search(r'if \(c < 0\) \{(.*?)if \(c > 0\) \{(.*)', b)
    if m1:                                                     # form (a)
        lt, gt = m1.group(1), m1.group(2)
        if 'Tree_Left' in lt and 'Tree_Right' not in lt and 'Tree_Right' in gt and 'Tree_Left' not in gt:
            val = 'Lt'
        elif 'Tree_Right' in lt and 'Tree_Left' not in lt and 'Tree_Left' in gt and 'Tree_Right' not in gt:
            val = 'Gt'
    else:                                                      # form (b): slot pointer
        m2 = re.search(r'var prnt = NULL; var\* link = &m->root; while \(\*link isnt NULL\) \{ var node = \*link; '
                       r'int c = cmp\(Tree_Key\(m, node\), key\); if \(c is 0\) \{[^}]*return; \} prnt = node; '
                       r'link = c ([<>]) 0 \? Tree_(Left|Right)\(m, node\) : Tree_(Left|Right)\(m, node\); \}', b)
        if m2 and m2.group(2) != m2.group(3) and re.search(r'\*link = newn; Tree_Set_Parent\(m, newn, prnt\);', b):
            val = 'Lt' if (m2.group(1) == '<') == (m2.group(2) == 'Left') else 'Gt'
    emit('tree_set_left_when', ('Definition tree_set_left_when : comparison := %s.' % val) if val else None)

    b = body('Tree_Alloc')
    ok = bool(re.search(r'Tree_Set_Red\(m, node\); return node;', b))
    emit('tree_new_node_red', 'Definition tree_new_node_red : bool := %s.' % ('true' if ok else 'false'))

    # ---- helpers
    bmax, bmin = body('Tree_Maximum'), body('Tree_Minimum')
    max_ok = bool(re.search(r'while \(\*Tree_Right\(m, node\) isnt NULL\) \{ node = \*Tree_Right\(m, node\); \} return node;', bmax)) \
        and 'Tree_Left' not in bmax
    min_ok = bool(re.search(r'while \(\*Tree_Left\(m, node\) isnt NULL\) \{ node = \*Tree_Left\(m, node\); \} return node;', bmin)) \
        and 'Tree_Right' not in bmin

    # ---- iteration ends
    bi, bl = body('Tree_Iter_Init'), body('Tree_Iter_Last')
    empty = r'if \((?:m->nitems is 0|m->root is NULL)\) \{ return Terminal; \}'
    init_ok = bool(re.search(empty + r' var node = m->root; while \(\*Tree_Left\(m, node\) isnt NULL\) \{ node = \*Tree_Left\(m, node\); \} return Tree_Key\(m, node\);', bi)) \
        or (min_ok and bool(re.search(empty + r' return Tree_Key\(m, Tree_Minimum\(m, m->root\)\);', bi)))
    last_ok = bool(re.search(empty + r' var node = m->root; while \(\*Tree_Right\(m, node\) isnt NULL\) \{ node = \*Tree_Right\(m, node\); \} return Tree_Key\(m, node\);', bl)) \
        or (max_ok and bool(re.search(empty + r' return Tree_Key\(m, Tree_Maximum\(m, m->root\)\);', bl)))
    emit('tree_iter_from_left', 'Definition tree_iter_from_left : bool := %s.' % ('true' if init_ok and last_ok else 'false'))

    # ---- donor rule of Tree_Rem
    br = body('Tree_Rem')
    two = re.search(r'if \(\(\*Tree_Left\(m, node\) isnt NULL\) and \(\*Tree_Right\(m, node\) isnt NULL\)\) \{(.*?)\} var chld =', br)
    rule = None
    uses_min = False
    if two:
        t = two.group(1)
        tail = (r' bool ncol = Tree_Get_Color\(m, node\); memcpy\(\(char\*\)node \+ 3 \* sizeof\(var\), \(char\*\)%s \+ 3 \* sizeof\(var\), '
                r'sizeof\(struct Header\) \+ m->ksize \+ sizeof\(struct Header\) \+ m->vsize\); Tree_Set_Color\(m, node, ncol\); node = %s;$')
        PRED = r'Tree_Maximum\(m, \*Tree_Left\(m, node\)\)'
        SUCC = r'Tree_Minimum\(m, \*Tree_Right\(m, node\)\)'
        if re.match(r'^var pred = ' + PRED + ';' + tail % ('pred', 'pred'), t.strip()):
            rule = 'false'                                                   # (a) always the predecessor
        elif re.match(r'^var repl = ' + PRED + r'; if \(Tree_Is_Black\(m, repl\)\) \{ var succ = ' + SUCC +
                      r'; if \(Tree_Is_Red\(m, succ\)\) \{ repl = succ; \} \}' + tail % ('repl', 'repl'), t.strip()):
            rule, uses_min = 'andb pred_black succ_red', True                # (b)
        elif re.match(r'^var pred = ' + PRED + r'; var succ = ' + SUCC +
                      r'; var repl = \(Tree_Is_Black\(m, pred\) and Tree_Is_Red\(m, succ\)\) \? succ : pred;' + tail % ('repl', 'repl'), t.strip()):
            rule, uses_min = 'andb pred_black succ_red', True                # (c)
    emit('tree_rem_use_succ', ('Definition tree_rem_use_succ (pred_black succ_red : bool) : bool := %s.' % rule) if rule else None)
    emit('tree_donor_helpers_ok', 'Definition tree_donor_helpers_ok : bool := %s.' % ('true' if max_ok and (min_ok or not uses_min) else 'false'))
