"""tools/genx_tree.py — tiny rules of src/Tree.c that the model RBTree.v hard-codes, re-extracted on every run
(C03).  A rule that no longer matches is emitted as None (= broken obligation `tree_source_rules_as_modelled`).

  tree_search_left_when : comparison   the three searches (Tree_Mem, Tree_Get, Tree_Rem) descend with
                                       `node = c < 0 ? *Tree_Left(m, node) : *Tree_Right(m, node);`  -> Lt
  tree_set_left_when    : comparison   Tree_Set inserts under *Tree_Left in its `if (c < 0)` block          -> Lt
  tree_new_node_red     : bool         Tree_Alloc ends with Tree_Set_Red(m, node)
  tree_iter_from_left   : bool         Tree_Iter_Init walks *Tree_Left, Tree_Iter_Last walks *Tree_Right
  tree_pred_is_left_max : bool         Tree_Rem copies Tree_Maximum(m, *Tree_Left(m, node)) and Tree_Maximum follows *Tree_Right
"""
import re


def generate(repo, emit, src, func_body):
    s = src('src/Tree.c')

    def body(name):
        return func_body(s, r'static\s+\w+\s*\*?\s*%s\s*\([^)]*\)\s*\{' % name) or ''
    pat = re.compile(r'node\s*=\s*c\s*([<>])\s*0\s*\?\s*\*Tree_(Left|Right)\(m,\s*node\)\s*:\s*\*Tree_(Left|Right)\(m,\s*node\)\s*;')
    rules = set()
    for fn in ('Tree_Mem', 'Tree_Get', 'Tree_Rem'):
        m = pat.search(body(fn))
        rules.add((m.group(1), m.group(2), m.group(3)) if m else None)
    val = None
    if len(rules) == 1 and None not in rules:
        op, a, b = rules.pop()
        if a != b:
            left_on_lt = (op == '<') == (a == 'Left')
            val = 'Lt' if left_on_lt else 'Gt'
    emit('tree_search_left_when', ('Definition tree_search_left_when : comparison := %s.' % val) if val else None)

    b = body('Tree_Set')
    m1 = re.search(r'if\s*\(c\s*<\s*0\)\s*\{(.*?)if\s*\(c\s*>\s*0\)\s*\{(.*)', b, re.S)
    val = None
    if m1:
        lt, gt = m1.group(1), m1.group(2)
        if 'Tree_Left' in lt and 'Tree_Right' not in lt and 'Tree_Right' in gt and 'Tree_Left' not in gt:
            val = 'Lt'
        elif 'Tree_Right' in lt and 'Tree_Left' not in lt and 'Tree_Left' in gt and 'Tree_Right' not in gt:
            val = 'Gt'
    emit('tree_set_left_when', ('Definition tree_set_left_when : comparison := %s.' % val) if val else None)

    b = body('Tree_Alloc')
    ok = bool(re.search(r'Tree_Set_Red\(m,\s*node\);\s*return\s+node;', b))
    emit('tree_new_node_red', 'Definition tree_new_node_red : bool := %s.' % ('true' if ok else 'false'))

    bi, bl = body('Tree_Iter_Init'), body('Tree_Iter_Last')
    ok = bool(re.search(r'while\s*\(\*Tree_Left\(m,\s*node\)\s*isnt\s*NULL\)', bi)) and 'Tree_Right' not in bi \
        and bool(re.search(r'while\s*\(\*Tree_Right\(m,\s*node\)\s*isnt\s*NULL\)', bl)) and 'Tree_Left' not in bl
    emit('tree_iter_from_left', 'Definition tree_iter_from_left : bool := %s.' % ('true' if ok else 'false'))

    br, bm = body('Tree_Rem'), body('Tree_Maximum')
    ok = bool(re.search(r'pred\s*=\s*Tree_Maximum\(m,\s*\*Tree_Left\(m,\s*node\)\)', br)) \
        and bool(re.search(r'while\s*\(\*Tree_Right\(m,\s*node\)\s*isnt\s*NULL\)', bm)) and 'Tree_Left' not in bm
    emit('tree_pred_is_left_max', 'Definition tree_pred_is_left_max : bool := %s.' % ('true' if ok else 'false'))
