#!/usr/bin/env python3
"""tools/benign.py [name ...] [--jobs N] [--all-checks] — false-alarm test by property-preserving changes.

benign/<name>/{patch.diff, meta.json[, demo.c]} is a change to the library that keeps every property true
(a refactoring, a tuning change, another message text ...), written by hand or by a sub-agent that saw only a
property text.  For each one: scratch worktree of /repo's HEAD, apply, suite must pass, then run the quick check
of every property whose anchor files the patch touches (meta.checks overrides; --all-checks runs all 20).
Outcome per check: SILENT | ALARM-concrete (a VIOLATION with a failing input: a false alarm unless the change is
not benign after all — look at the replay) | ALARM-obligation (VIOLATION ... no-failing-input-found: the model/source
tie broke, the search found nothing; by the interface this is still reported, see DESIGN §6).
Results go to benign/RESULTS.json (development-time record; nothing here is used by a registered check)."""
import sys, os, json, glob, re, subprocess, shutil, time
from concurrent.futures import ThreadPoolExecutor
V = os.path.dirname(os.path.dirname(os.path.abspath(__file__)))
ST = '/tmp/benign_scratch_%d' % os.getpid()
ONLY = None
props = [json.loads(l) for l in open(os.path.join(V, 'properties.jsonl'))]


def sh(cmd, **kw):
    try:
        p = subprocess.run(cmd, stdout=subprocess.PIPE, stderr=subprocess.STDOUT, text=True, errors='replace', **kw)
        return p.returncode, p.stdout
    except subprocess.TimeoutExpired:
        return -9, 'TIMEOUT'


def run_one(name, allchecks):
    d = os.path.join(V, 'benign', name)
    patch = os.path.join(d, 'patch.diff')
    meta = json.load(open(os.path.join(d, 'meta.json'))) if os.path.exists(os.path.join(d, 'meta.json')) else {}
    rd = os.path.join(ST, 'repo_' + name)
    vd = os.path.join(ST, 'verif_' + name)
    sh(['git', '-C', '/repo', 'worktree', 'remove', '--force', rd]); shutil.rmtree(rd, ignore_errors=True)
    sh(['git', '-C', '/repo', 'worktree', 'prune'])
    sh(['git', '-C', '/repo', 'worktree', 'add', '--detach', '-f', rd, 'HEAD'])
    res = {'name': name, 'what': meta.get('what', '')[:300]}
    try:
        rc, o = sh(['git', '-C', rd, 'apply', '--whitespace=nowarn', patch])
        if rc != 0:
            res['status'] = 'PATCH-DOES-NOT-APPLY'; return res
        rc, o = sh(['sh', os.path.join(V, 'tools', 'repo_check.sh'), rd], timeout=900)
        m = re.search(r'Tests\s+\|\|\s+Total\s+(\d+)\s+\|\s+Passed\s+(\d+)\s+\|\s+Failed\s+(\d+)', o)
        if not m or m.group(3) != '0':
            res['status'] = 'SUITE-FAILS'; return res
        touched = set(re.findall(r'^\+\+\+ b/(\S+)', open(patch).read(), re.M))
        checks = meta.get('checks') or sorted(p['id'] for p in props if touched & set(p['anchors']['files']))
        if allchecks:
            checks = [p['id'] for p in props]
        if ONLY:
            checks = [c for c in checks if c in ONLY]
        os.makedirs(vd, exist_ok=True)
        sh(['rsync', '-a', '--delete', '--exclude', '.git', '--exclude', 'replays', '--exclude', '.cello_repo', V + '/', vd + '/'])
        out = {}
        for c in checks:
            t = time.time()
            env = dict(os.environ, CELLO_REPO=rd, VERIF_SEED='1')
            rc, o = sh([sys.executable, 'check.py', c, '--tier', 'quick'], cwd=vd, env=env, timeout=3600)
            viol = [l for l in o.splitlines() if l.startswith('VIOLATION')]
            if rc == 0 and not viol:
                out[c] = {'result': 'SILENT'}
            else:
                r = {'result': 'ALARM-obligation' if viol and 'no-failing-input-found' in viol[0] else 'ALARM-concrete', 'line': (viol or [o[-200:]])[0]}
                rp = re.search(r'replay=(\S+)', viol[0]) if viol else None
                if rp and os.path.exists(rp.group(1)):
                    try:
                        rj = json.load(open(rp.group(1)))
                        r['replay'] = {k: str(rj[k])[:400] for k in ('kind', 'case', 'why', 'theorem_or_file', 'failed') if k in rj}
                    except Exception:
                        pass
                out[c] = r
            out[c]['wall_s'] = round(time.time() - t, 1)
        res['checks'] = out
        res['status'] = 'SILENT' if all(v['result'] == 'SILENT' for v in out.values()) else 'ALARM'
    finally:
        sh(['git', '-C', '/repo', 'worktree', 'remove', '--force', rd]); shutil.rmtree(rd, ignore_errors=True)
        shutil.rmtree(vd, ignore_errors=True)
    return res


def main():
    a = sys.argv[1:]
    jobs = int(a[a.index('--jobs') + 1]) if '--jobs' in a else 3
    allchecks = '--all-checks' in a
    global ONLY
    ONLY = a[a.index('--checks') + 1].split(',') if '--checks' in a else None
    names = [x for i, x in enumerate(a) if not x.startswith('--') and (i == 0 or a[i - 1] not in ('--jobs', '--checks'))]
    if not names:
        names = sorted(os.path.basename(os.path.dirname(p)) for p in glob.glob(os.path.join(V, 'benign', '*', 'patch.diff')))
    os.makedirs(ST, exist_ok=True)
    rp = os.path.join(V, 'benign', 'RESULTS.json')
    allr = json.load(open(rp)) if os.path.exists(rp) else {}
    with ThreadPoolExecutor(jobs) as ex:
        for r in ex.map(lambda n: run_one(n, allchecks), names):
            allr[r['name']] = r
            print('%-46s %-8s %s' % (r['name'], r['status'], ' '.join('%s:%s' % (c, v['result'].replace('ALARM-', '!')) for c, v in r.get('checks', {}).items())), flush=True)
            json.dump(allr, open(rp, 'w'), indent=1, sort_keys=True)
    shutil.rmtree(ST, ignore_errors=True)


if __name__ == '__main__':
    main()
