"""genx_gcreg.py — data and tiny rules of src/GC.c that the registry model (C17) relies on,
re-read from the working tree on every check (called by tools/gen_params.py).

  gc_hash_shift      GC_Hash: ((uintptr_t)ptr) >> K
  gc_rem_fin         does GC_Rem_Ptr finalise an object it finds in the pending list (freelist)?
                     (false = pinned code: the entry is only NULLed; true = repaired code, D18)
  gc_null_first      does GC_Sweep's finaliser loop clear freelist[i] before finalising it?
  gc_mitems_rule_ok  both threshold updates read  nitems + nitems / 2 + 1
  gc_set_shape_ok    GC_Set: running test, nitems++, bounds, Resize_More, Set_Ptr, `nitems > mitems`
                     (an early return while a sweep is running, `gc->freelist isnt NULL`, is accepted:
                     the model has no allocation inside a sweep, outside one the freelist is NULL)
  gc_rem_shape_ok    GC_Rem: running test, Rem_Ptr, Resize_Less, mitems
  gc_sweep_shape_ok  GC_Sweep: compaction loop with `continue` and no i++ after a removal,
                     mark-clearing loop, Resize_Less, mitems, finaliser loop
"""
import re


def _loops(body, key):
    """texts of the `for (...) {...}` blocks of body whose header mentions key"""
    res = []
    for m in re.finditer(r'for\s*\(([^)]*)\)\s*\{', body):
        if key not in m.group(1):
            continue
        i = body.find('{', m.end() - 1)
        depth, j = 0, i
        while j < len(body):
            if body[j] == '{':
                depth += 1
            elif body[j] == '}':
                depth -= 1
                if depth == 0:
                    break
            j += 1
        res.append(body[i:j + 1])
    return res


def generate(repo, emit, src, func_body):
    s = src('src/GC.c')

    b = func_body(s, r'static\s+uint64_t\s+GC_Hash\s*\(\s*var\s+ptr\s*\)\s*\{')
    m = b and re.search(r'return\s*\(\s*\(uintptr_t\)\s*ptr\s*\)\s*>>\s*(\d+)\s*;', b)
    emit('gc_hash_shift', ('Definition gc_hash_shift : N := %s%%N.' % m.group(1)) if m else None)

    rp = func_body(s, r'static\s+void\s+GC_Rem_Ptr\s*\([^)]*\)\s*\{')
    fl = _loops(rp, 'freenum') if rp else []
    if len(fl) == 1 and re.search(r'freelist\s*\[\s*i\s*\]\s*=\s*NULL', fl[0]):
        fin = bool(re.search(r'dealloc\s*\(\s*destruct\s*\(', fl[0]) and re.search(r'\breturn\b', fl[0]))
        plain = not re.search(r'destruct|dealloc|return', fl[0])
        if fin or plain:
            emit('gc_rem_fin', 'Definition gc_rem_fin : bool := %s.   (* GC_Rem_Ptr %s a pending object *)'
                 % (('true', 'finalises') if fin else ('false', 'only NULLs')))
        else:
            emit('gc_rem_fin', None)
    else:
        emit('gc_rem_fin', None)

    sw = func_body(s, r'void\s+GC_Sweep\s*\(\s*struct\s+GC\s*\*\s*gc\s*\)\s*\{')
    fl = _loops(sw, 'freenum') if sw else []
    if len(fl) == 1 and re.search(r'dealloc\s*\(\s*destruct\s*\(', fl[0]):
        mnull = re.search(r'freelist\s*\[\s*i\s*\]\s*=\s*NULL', fl[0])
        mfin = re.search(r'dealloc\s*\(\s*destruct\s*\(', fl[0])
        first = bool(mnull and mnull.start() < mfin.start())
        emit('gc_null_first', 'Definition gc_null_first : bool := %s.   (* GC_Sweep %s the pending slot before finalising *)'
             % (('true', 'clears') if first else ('false', 'does not clear')))
    else:
        emit('gc_null_first', None)

    rule = r'gc->mitems\s*=\s*gc->nitems\s*\+\s*gc->nitems\s*/\s*2\s*\+\s*1\s*;'
    emit('gc_mitems_rule_ok', 'Definition gc_mitems_rule_ok : bool := true.'
         if len(re.findall(rule, s)) == 2 and len(re.findall(r'gc->mitems\s*=', s)) == 2 else None)

    st = func_body(s, r'static\s+void\s+GC_Set\s*\(\s*var\s+self\s*,\s*var\s+key\s*,\s*var\s+val\s*\)\s*\{')
    ok = bool(st) and re.search(
        r'if\s*\(\s*not\s+gc->running\s*\)\s*\{\s*return;\s*\}\s*gc->nitems\+\+;\s*'
        r'gc->maxptr\s*=[^;]*;\s*gc->minptr\s*=[^;]*;\s*GC_Resize_More\(gc\);\s*'
        r'GC_Set_Ptr\(gc,\s*key,\s*\(bool\)c_int\(val\)\);\s*'
        r'(?:if\s*\(\s*gc->freelist\s+isnt\s+NULL\s*\)\s*\{\s*return;\s*\}\s*)?'   # no threshold collection inside a sweep
        r'if\s*\(\s*gc->nitems\s*>\s*gc->mitems\s*\)\s*\{\s*GC_Mark\(gc\);\s*GC_Sweep\(gc\);\s*\}', st)
    emit('gc_set_shape_ok', 'Definition gc_set_shape_ok : bool := true.' if ok else None)

    rm = func_body(s, r'static\s+void\s+GC_Rem\s*\(\s*var\s+self\s*,\s*var\s+key\s*\)\s*\{')
    ok = bool(rm) and re.search(
        r'if\s*\(\s*not\s+gc->running\s*\)\s*\{\s*return;\s*\}\s*GC_Rem_Ptr\(gc,\s*key\);\s*'
        r'GC_Resize_Less\(gc\);\s*' + rule, rm)
    emit('gc_rem_shape_ok', 'Definition gc_rem_shape_ok : bool := true.' if ok else None)

    ok = False
    if sw:
        m = re.search(r'while\s*\(\s*i\s*<\s*gc->nslots\s*\)\s*\{', sw)
        if m:
            i = sw.find('{', m.end() - 1)
            depth, j = 0, i
            while j < len(sw):
                if sw[j] == '{':
                    depth += 1
                elif sw[j] == '}':
                    depth -= 1
                    if depth == 0:
                        break
                j += 1
            loop, rest = sw[i:j + 1], sw[j + 1:]
            ok = bool(re.search(r'gc->nitems--;\s*continue;\s*\}\s*i\+\+;\s*\}\s*$', loop)
                      and re.search(r'if\s*\(\s*gc->entries\[i\]\.hash\s+is\s+0\s*\)\s*\{\s*i\+\+;\s*continue;\s*\}\s*'
                                    r'if\s*\(\s*gc->entries\[i\]\.marked\s*\)\s*\{\s*i\+\+;\s*continue;\s*\}\s*'
                                    r'if\s*\(\s*not\s+gc->entries\[i\]\.root\s+and\s+not\s+gc->entries\[i\]\.marked\s*\)', loop)
                      and re.search(r'marked\s*=\s*false;.*GC_Resize_Less\(gc\);\s*' + rule + r'.*freenum', rest, re.S))
    emit('gc_sweep_shape_ok', 'Definition gc_sweep_shape_ok : bool := true.' if ok else None)
