"""genx_gcreg.py — data and tiny rules of src/GC.c that the registry model (C17) relies on,
re-read from the working tree on every check (called by tools/gen_params.py).

  gc_hash_shift      GC_Hash: ((uintptr_t)ptr) >> K
  gc_rem_fin         does GC_Rem_Ptr finalise an object it finds in the pending list (freelist)?
                     (false = pinned code: the entry is only NULLed; true = repaired code, D18)
  gc_null_first      does GC_Sweep's finaliser loop clear freelist[i] before finalising it?
  gc_shrink_wanted   (Notation) when GC_Resize_Less rehashes to ideal(nitems): `n < nslots`, optionally behind an
                     early-return guard (hysteresis) over nitems / nslots / named constants
  gc_reg_mitems_rule (Notation) the collection threshold written at both places, as an expression in nitems
  gc_mitems_rule_ok  both threshold updates use the same expression
  gc_set_shape_ok    GC_Set: running test, nitems++, bounds, Resize_More, Set_Ptr, `nitems > mitems`
                     (an early return while a sweep is running, `gc->freelist isnt NULL`, is accepted:
                     the model has no allocation inside a sweep, outside one the freelist is NULL)
  gc_rem_shape_ok    GC_Rem: running test, Rem_Ptr, Resize_Less, mitems
  gc_sweep_shape_ok  GC_Sweep: compaction loop with `continue` and no i++ after a removal,
                     mark-clearing loop, Resize_Less, mitems, finaliser loop
"""
import re


def _loops(body, key):
    """texts of the `for (...) {...}` blocks of body whose header mentions key"""
    res = []
    for m in re.finditer(r'for\s*\(([^)]*)\)\s*\{', body):
        if key not in m.group(1):
            continue
        i = body.find('{', m.end() - 1)
        depth, j = 0, i
        while j < len(body):
            if body[j] == '{':
                depth += 1
            elif body[j] == '}':
                depth -= 1
                if depth == 0:
                    break
            j += 1
        res.append(body[i:j + 1])
    return res


class _Bad(Exception):
    pass


def _cexpr(text, env, consts, helpers=None):
    """Translate a small C expression into a Coq nat/bool expression: identifiers of env, named integer
    constants, literals, * / +, comparisons, `c ? a : b`, max(a, b) / MAX(a, b), parentheses, and calls
    of one-line helper functions of the same file (inlined ONE level: `helpers` maps a name to
    (parameter, body); a helper body may declare `size_t x = e;` locals and must end in `return e;`, and
    may not call helpers itself).  Unsigned C arithmetic and Coq nat arithmetic agree as long as nothing
    overflows size_t (table sizes are far below); there is no subtraction."""
    helpers = helpers or {}
    toks = re.findall(r'gc->\w+|[A-Za-z_]\w*|\d+|>=|<=|==|\S', text)
    pos = [0]

    def peek():
        return toks[pos[0]] if pos[0] < len(toks) else None

    def take():
        t = peek(); pos[0] += 1; return t

    def expect(t):
        if take() != t: raise _Bad(text)

    def atom():
        t = take()
        if t == '(':
            e = tern(); expect(')')
            return e
        if t is None: raise _Bad(text)
        if t.isdigit(): return t
        if peek() == '(' and re.fullmatch(r'[A-Za-z_]\w*', t):
            take()
            args = [tern()]
            while peek() == ',':
                take(); args.append(tern())
            expect(')')
            if t in ('max', 'MAX') and len(args) == 2:
                return '(Nat.max %s %s)' % tuple(args)
            if t in ('min', 'MIN') and len(args) == 2:
                return '(Nat.min %s %s)' % tuple(args)
            if t in helpers and len(args) == 1:
                par, body = helpers[t]
                return _helper(body, {par: args[0]}, consts)
            raise _Bad('unknown function %r in %r' % (t, text))
        if t in env: return env[t]
        if t in consts: return str(consts[t])
        raise _Bad('unknown token %r in %r' % (t, text))

    def mul():
        e = atom()
        while peek() in ('*', '/'):
            o = take(); e = '(%s %s %s)' % (e, o, atom())
        return e

    def add():
        e = mul()
        while peek() == '+':
            take(); e = '(%s + %s)' % (e, mul())
        return e

    def cmp_():
        a = add()
        if peek() in ('>=', '<=', '>', '<', '=='):
            o = take(); b = add()
            return {'>=': '(%s <=? %s)' % (b, a), '<=': '(%s <=? %s)' % (a, b), '>': '(%s <? %s)' % (b, a),
                    '<': '(%s <? %s)' % (a, b), '==': '(%s =? %s)' % (a, b)}[o]
        return a

    def tern():
        c = cmp_()
        if peek() == '?':
            take(); x = tern(); expect(':'); y = tern()
            return '(if %s then %s else %s)' % (c, x, y)
        return c
    e = tern()
    if pos[0] != len(toks): raise _Bad(text)
    return e


def _helper(body, env, consts):
    """body of `static size_t f(size_t x) { [size_t v = e;]* return e; }` as an expression in env"""
    env = dict(env)
    stmts = [t.strip() for t in body.strip()[1:-1].split(';') if t.strip()]
    if not stmts or not stmts[-1].startswith('return'):
        raise _Bad(body)
    for st in stmts[:-1]:
        m = re.fullmatch(r'(?:const\s+)?size_t\s+([A-Za-z_]\w*)\s*=\s*(.*)', st, re.S)
        if not m:
            raise _Bad(st)
        env[m.group(1)] = _cexpr(m.group(2), env, consts)
    return _cexpr(stmts[-1][len('return'):], env, consts)


def _helpers(s, func_body):
    """one-parameter static size_t helpers of the file: name -> (parameter, body)"""
    h = {}
    for m in re.finditer(r'static\s+size_t\s+([A-Za-z_]\w*)\s*\(\s*size_t\s+([A-Za-z_]\w*)\s*\)\s*\{', s):
        b = func_body(s, re.escape(m.group(0)))
        if b and b.count(';') <= 4 and 'for' not in b and 'while' not in b:
            h[m.group(1)] = (m.group(2), b)
    return h


def _consts(s):
    c = {}
    for m in re.finditer(r'\b([A-Z][A-Z0-9_]+)\s*=\s*(\d+)\b', s):
        c[m.group(1)] = int(m.group(2))
    for m in re.finditer(r'#define\s+([A-Z][A-Z0-9_]+)\s+(\d+)\b', s):
        c[m.group(1)] = int(m.group(2))
    return c


def generate(repo, emit, src, func_body):
    s = src('src/GC.c')
    consts = _consts(s)
    helpers = _helpers(s, func_body)

    # ---- tuning: when GC_Resize_Less gives slots back, and the collection threshold.  Both are emitted as
    # NOTATIONS, so the model text of coq/RegistryModel.v follows the source expression; the proofs use no
    # property of either (any boolean shrink condition, any threshold rule: RegistryProofs.resize_less_ok,
    # Inv_new_mitems), and are re-checked against whatever is generated here.
    rl = func_body(s, r'static\s+void\s+GC_Resize_Less\s*\(\s*struct\s+GC\s*\*\s*gc\s*\)\s*\{')
    shrink = None
    if rl:
        body = re.sub(r'\s+', ' ', rl.strip()[1:-1]).strip()
        core = r'size_t new_size = GC_Ideal_Size\(gc->nitems\); '
        old = r'size_t old_size = gc->nslots; '
        tail = r'if \(new_size < old_size\) \{ GC_Rehash\(gc, new_size\); \}'
        guard = r'if \((?P<g>[^{};]*)\) \{ return; \} '
        m = (re.fullmatch(core + old + tail, body) or re.fullmatch(old + core + tail, body)
             or re.fullmatch(old + guard + core + tail, body) or re.fullmatch(core + old + guard + tail, body)
             or re.fullmatch(old + core + guard + tail, body))
        if m:
            try:
                g = m.groupdict().get('g')
                if g is None:
                    shrink = '(n <? ns)%nat'
                else:
                    env = {'gc->nitems': 'ni', 'gc->nslots': 'ns', 'old_size': 'ns'}
                    shrink = '(andb (negb %s%%nat) (n <? ns)%%nat)' % _cexpr(g, env, consts)
            except _Bad:
                shrink = None
    emit('gc_shrink_wanted', ('Notation gc_shrink_wanted ni ns n := %s (only parsing).   (* GC_Resize_Less: rehash to n = ideal(nitems) when this holds *)'
                              % shrink) if shrink else None)

    rules = re.findall(r'gc->mitems\s*=\s*([^;]*);', s)
    mit = None
    if len(rules) == 2 and re.sub(r'\s+', '', rules[0]) == re.sub(r'\s+', '', rules[1]):
        try:
            mit = _cexpr(rules[0], {'gc->nitems': 'n'}, consts, helpers)
        except _Bad:
            mit = None
    emit('gc_reg_mitems_rule', ('Notation gc_reg_mitems_rule n := %s%%nat (only parsing).   (* gc->mitems = %s *)'
                            % (mit if mit.startswith('(') else '(%s)' % mit, re.sub(r'\s+', ' ', rules[0]).strip())) if mit else None)

    b = func_body(s, r'static\s+uint64_t\s+GC_Hash\s*\(\s*var\s+ptr\s*\)\s*\{')
    m = b and re.search(r'return\s*\(\s*\(uintptr_t\)\s*ptr\s*\)\s*>>\s*(\d+)\s*;', b)
    emit('gc_hash_shift', ('Definition gc_hash_shift : N := %s%%N.' % m.group(1)) if m else None)

    rp = func_body(s, r'static\s+void\s+GC_Rem_Ptr\s*\([^)]*\)\s*\{')
    fl = _loops(rp, 'freenum') if rp else []
    if len(fl) == 1 and re.search(r'freelist\s*\[\s*i\s*\]\s*=\s*NULL', fl[0]):
        fin = bool(re.search(r'dealloc\s*\(\s*destruct\s*\(', fl[0]) and re.search(r'\breturn\b', fl[0]))
        plain = not re.search(r'destruct|dealloc|return', fl[0])
        if fin or plain:
            emit('gc_rem_fin', 'Definition gc_rem_fin : bool := %s.   (* GC_Rem_Ptr %s a pending object *)'
                 % (('true', 'finalises') if fin else ('false', 'only NULLs')))
        else:
            emit('gc_rem_fin', None)
    else:
        emit('gc_rem_fin', None)

    sw = func_body(s, r'void\s+GC_Sweep\s*\(\s*struct\s+GC\s*\*\s*gc\s*\)\s*\{')
    fl = _loops(sw, 'freenum') if sw else []
    if len(fl) == 1 and re.search(r'dealloc\s*\(\s*destruct\s*\(', fl[0]):
        mnull = re.search(r'freelist\s*\[\s*i\s*\]\s*=\s*NULL', fl[0])
        mfin = re.search(r'dealloc\s*\(\s*destruct\s*\(', fl[0])
        first = bool(mnull and mnull.start() < mfin.start())
        emit('gc_null_first', 'Definition gc_null_first : bool := %s.   (* GC_Sweep %s the pending slot before finalising *)'
             % (('true', 'clears') if first else ('false', 'does not clear')))
    else:
        emit('gc_null_first', None)

    rule = r'gc->mitems\s*=\s*[^;]*;'
    emit('gc_mitems_rule_ok', 'Definition gc_mitems_rule_ok : bool := true.' if mit else None)

    st = func_body(s, r'static\s+void\s+GC_Set\s*\(\s*var\s+self\s*,\s*var\s+key\s*,\s*var\s+val\s*\)\s*\{')
    ok = bool(st) and re.search(
        r'if\s*\(\s*not\s+gc->running\s*\)\s*\{\s*return;\s*\}\s*gc->nitems\+\+;\s*'
        r'gc->maxptr\s*=[^;]*;\s*gc->minptr\s*=[^;]*;\s*GC_Resize_More\(gc\);\s*'
        r'GC_Set_Ptr\(gc,\s*key,\s*\(bool\)c_int\(val\)\);\s*'
        r'(?:if\s*\(\s*gc->freelist\s+isnt\s+NULL\s*\)\s*\{\s*return;\s*\}\s*)?'   # no threshold collection inside a sweep
        r'if\s*\(\s*gc->nitems\s*>\s*gc->mitems\s*\)\s*\{\s*GC_Mark\(gc\);\s*GC_Sweep\(gc\);\s*\}', st)
    emit('gc_set_shape_ok', 'Definition gc_set_shape_ok : bool := true.' if ok else None)

    rm = func_body(s, r'static\s+void\s+GC_Rem\s*\(\s*var\s+self\s*,\s*var\s+key\s*\)\s*\{')
    ok = bool(rm) and re.search(
        r'if\s*\(\s*not\s+gc->running\s*\)\s*\{\s*return;\s*\}\s*GC_Rem_Ptr\(gc,\s*key\);\s*'
        r'GC_Resize_Less\(gc\);\s*' + rule, rm)
    emit('gc_rem_shape_ok', 'Definition gc_rem_shape_ok : bool := true.' if ok else None)

    ok = False
    if sw:
        m = re.search(r'while\s*\(\s*i\s*<\s*gc->nslots\s*\)\s*\{', sw)
        if m:
            i = sw.find('{', m.end() - 1)
            depth, j = 0, i
            while j < len(sw):
                if sw[j] == '{':
                    depth += 1
                elif sw[j] == '}':
                    depth -= 1
                    if depth == 0:
                        break
                j += 1
            loop, rest = sw[i:j + 1], sw[j + 1:]
            ok = bool(re.search(r'gc->nitems--;\s*continue;\s*\}\s*i\+\+;\s*\}\s*$', loop)
                      and re.search(r'if\s*\(\s*gc->entries\[i\]\.hash\s+is\s+0\s*\)\s*\{\s*i\+\+;\s*continue;\s*\}\s*'
                                    r'if\s*\(\s*gc->entries\[i\]\.marked\s*\)\s*\{\s*i\+\+;\s*continue;\s*\}\s*'
                                    r'if\s*\(\s*not\s+gc->entries\[i\]\.root\s+and\s+not\s+gc->entries\[i\]\.marked\s*\)', loop)
                      and re.search(r'marked\s*=\s*false;.*GC_Resize_Less\(gc\);\s*' + rule + r'.*freenum', rest, re.S))
    emit('gc_sweep_shape_ok', 'Definition gc_sweep_shape_ok : bool := true.' if ok else None)
