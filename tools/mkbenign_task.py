#!/usr/bin/env python3
"""tools/mkbenign_task.py <id> : scratch worktree /tmp/seed/B<id>/repo + PROPERTY.txt + TASK.txt for an author of
property-PRESERVING changes (false-alarm test, see tools/benign.py)."""
import sys, os, subprocess, shutil
V = os.path.dirname(os.path.dirname(os.path.abspath(__file__)))
pid = sys.argv[1]; d = '/tmp/seed/B' + pid
shutil.rmtree(d + '/out', ignore_errors=True)
os.makedirs(d + '/out', exist_ok=True)
subprocess.run(['git', '-C', '/repo', 'worktree', 'prune'])
if not os.path.isdir(d + '/repo'):
    subprocess.run(['git', '-C', '/repo', 'worktree', 'add', '-q', '--detach', d + '/repo', 'main'], check=True)
subprocess.run(['sh', os.path.join(V, 'tools', 'mkseed.sh'), pid], stdout=subprocess.DEVNULL)   # writes /tmp/seed/<id>/PROPERTY.txt
shutil.copy('/tmp/seed/%s/PROPERTY.txt' % pid, d + '/PROPERTY.txt')
open(d + '/TASK.txt', 'w').write(open(os.path.join(V, 'tools', 'benign_prompt.txt')).read().replace('/tmp/seed/ID', d))
print(d + '/TASK.txt')
