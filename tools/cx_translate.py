"""cx_translate.py — a tiny translator for small pure C functions (used by genx_cmp.py).

It reads the body of a function that computes an `int` from two scalar operands (Int_Cmp, Float_Cmp)
or from the result of one call (the predicates of Cmp.c) and produces a term of the expression
language `cexp` (emitted into coq/Generated.v, semantics in coq/Values.v):

   body   := decl* stmt*
   decl   := type ident '=' expr ';'
   stmt   := 'return' expr ';'  |  'if' '(' expr ')' block ['else' block]      block := stmt | '{' stmt* '}'
   expr   := C conditional / || && ! / == != < > <= >= / binary + - / unary - / casts (int) / literals /
             identifiers / the operand atoms given by the caller (e.g. `Int_C_Int(self)`, `c_int(obj)`)
   Cello spellings: and or not is isnt.

If-return chains become nested conditionals (`if (c) return e; rest`  =  `c ? e : rest`), locals
become let-bound environment slots.  Anything outside the fragment raises Untranslatable: the caller
then emits no code and the obligations depending on it break (never a silent guess)."""
import re


class Untranslatable(Exception):
    pass


TOK = re.compile(r'\s*(->|<=|>=|==|!=|&&|\|\||[A-Za-z_][A-Za-z0-9_]*|\d+\.\d*|\d+|[-+*/<>!?:(),;{}=.&|])')
TYPES = {'int', 'int64_t', 'double', 'long', 'bool', 'size_t', 'float', 'uint64_t', 'const', 'unsigned', 'signed'}


def tokens(s):
    out, i = [], 0
    s = s.strip()
    while i < len(s):
        m = TOK.match(s, i)
        if not m:
            raise Untranslatable('token at %r' % s[i:i + 12])
        out.append(m.group(1)); i = m.end()
    return out


class Parser:
    def __init__(self, toks, atoms, zero_var=None):
        """atoms: {normalised text of an operand expression: variable index}; zero_var: index standing for the
        literal 0 (used when the function is a test of one int against 0)"""
        self.t, self.i = toks, 0
        self.atoms = atoms
        self.env = {}            # local name -> index
        self.locals = []         # cexp text of locals beyond the operands
        self.nvars = max([v for v in atoms.values() if isinstance(v, int)] + ([zero_var] if zero_var is not None else [-1])) + 1
        self.zero_var = zero_var

    def peek(self, k=0):
        return self.t[self.i + k] if self.i + k < len(self.t) else None

    def eat(self, x=None):
        tok = self.peek()
        if tok is None or (x is not None and tok != x):
            raise Untranslatable('expected %r at %r' % (x, self.t[self.i:self.i + 6]))
        self.i += 1
        return tok

    # ---- atoms: try to match an operand expression textually at the cursor
    def atom_here(self):
        for text, idx in sorted(self.atoms.items(), key=lambda kv: -len(kv[0])):
            tt = tokens(text)
            if self.t[self.i:self.i + len(tt)] == tt:
                self.i += len(tt)
                return idx if isinstance(idx, str) else '(CVar %d)' % idx
        return None

    # ---- expressions, precedence climbing
    def expr(self):
        c = self.lor()
        if self.peek() == '?':
            self.eat('?'); a = self.expr(); self.eat(':'); b = self.expr()
            return '(CCond %s %s %s)' % (c, a, b)
        return c

    def lor(self):
        a = self.land()
        while self.peek() in ('||', 'or'):
            self.eat(); a = '(COr %s %s)' % (a, self.land())
        return a

    def land(self):
        a = self.equality()
        while self.peek() in ('&&', 'and'):
            self.eat(); a = '(CAnd %s %s)' % (a, self.equality())
        return a

    def equality(self):
        a = self.relational()
        while self.peek() in ('==', '!=', 'is', 'isnt'):
            op = self.eat(); b = self.relational()
            a = '(CCmp %s %s %s)' % ('OpEq' if op in ('==', 'is') else 'OpNe', a, b)
        return a

    def relational(self):
        a = self.additive()
        while self.peek() in ('<', '>', '<=', '>='):
            op = self.eat(); b = self.additive()
            a = '(CCmp %s %s %s)' % ({'<': 'OpLt', '>': 'OpGt', '<=': 'OpLe', '>=': 'OpGe'}[op], a, b)
        return a

    def additive(self):
        a = self.unary()
        while self.peek() in ('-', '+'):
            op = self.eat(); b = self.unary()
            if op == '+':
                raise Untranslatable('addition')
            a = '(CSub %s %s)' % (a, b)
        return a

    def unary(self):
        tok = self.peek()
        if tok in ('!', 'not'):
            self.eat(); return '(CNot %s)' % self.unary()
        if tok == '-':
            self.eat()
            if self.peek() and self.peek().isdigit():
                return '(CInt (-%s)%%Z)' % self.eat()
            return '(CSub (CInt 0%%Z) %s)' % self.unary()
        if tok == '(' and self.peek(1) in TYPES:
            self.eat('(')
            ty = []
            while self.peek() != ')':
                ty.append(self.eat())
            self.eat(')')
            inner = self.unary()
            if ty == ['int']:
                return '(CCast32 %s)' % inner
            raise Untranslatable('cast to %s' % ' '.join(ty))
        return self.primary()

    def primary(self):
        a = self.atom_here()
        if a:
            return a
        tok = self.peek()
        if tok == '(':
            self.eat('('); e = self.expr(); self.eat(')'); return e
        if tok is not None and re.fullmatch(r'\d+', tok):
            self.eat()
            if tok == '0' and self.zero_var is not None:
                return '(CVar %d)' % self.zero_var
            return '(CInt %s%%Z)' % tok
        if tok is not None and re.fullmatch(r'\d+\.\d*', tok):
            self.eat()
            if float(tok) == 0.0:
                return '(CInt 0%Z)'          # 0.0 and the int 0 convert to the same double
            raise Untranslatable('floating literal ' + tok)
        if tok in self.env:
            self.eat(); return '(CVar %d)' % self.env[tok]
        raise Untranslatable('primary %r' % (self.t[self.i:self.i + 6],))

    # ---- statements
    def block(self):
        if self.peek() == '{':
            self.eat('{')
            e = self.stmts('}')
            self.eat('}')
            return e
        return self.stmt_then(lambda: None)

    def stmts(self, end):
        """a statement list that must end every path with a return; -> cexp"""
        if self.peek() == end or self.peek() is None:
            return None
        return self.stmt_then(lambda: self.stmts(end))

    def stmt_then(self, rest):
        tok = self.peek()
        if tok == 'return':
            self.eat('return'); e = self.expr(); self.eat(';')
            # statements after a return are unreachable; tolerate a trailing `return 0;`
            r = rest()
            return e
        if tok == 'if':
            self.eat('if'); self.eat('('); c = self.expr(); self.eat(')')
            a = self.block()
            b = None
            if self.peek() == 'else':
                self.eat('else'); b = self.block()
            r = rest()
            if a is None:
                raise Untranslatable('if without return')
            other = b if b is not None else r
            if other is None:
                raise Untranslatable('path without return')
            return '(CCond %s %s %s)' % (c, a, other)
        if tok == ';':
            self.eat(';'); return rest()
        raise Untranslatable('statement %r' % (self.t[self.i:self.i + 6],))

    def decls(self):
        while self.peek() in TYPES:
            while self.peek() in TYPES:
                self.eat()
            name = self.eat()
            self.eat('=')
            save = self.i
            a = self.atom_here()
            m = re.fullmatch(r'\(CVar (\d+)\)', a or '')
            if m and self.peek() == ';':
                self.eat(';')
                self.env[name] = int(m.group(1))
                continue
            self.i = save
            e = self.expr(); self.eat(';')
            self.env[name] = self.nvars + len(self.locals)
            self.locals.append(e)

    def function(self):
        self.eat('{')
        self.decls()
        e = self.stmts('}')
        self.eat('}')
        if e is None:
            raise Untranslatable('no return')
        return '([%s], %s)' % ('; '.join(self.locals), e)


def translate(body, atoms, zero_var=None):
    """body: text of a function body including braces -> Gallina text of a cprog, or raises Untranslatable"""
    return Parser(tokens(body), atoms, zero_var).function()


AST = '''Inductive cop := OpLt | OpLe | OpEq | OpNe | OpGt | OpGe.
Inductive cexp :=
| CVar (n : nat) | CInt (z : Z)
| CSub (a b : cexp) | CCmp (o : cop) (a b : cexp)
| CCond (c a b : cexp) | CNot (a : cexp) | CAnd (a b : cexp) | COr (a b : cexp)
| CCast32 (a : cexp).
Definition cprog : Type := (list cexp * cexp)%type.'''

if __name__ == '__main__':
    A = {'Int_C_Int(self)': 0, 'c_int(obj)': 1}
    for b in ['{ int64_t a = Int_C_Int(self); int64_t b = c_int(obj); return a < b ? -1 : a > b ? 1 : 0; }',
              '{ int64_t lhs = Int_C_Int(self); int64_t rhs = c_int(obj); return (lhs > rhs) - (lhs < rhs); }',
              '{ int64_t a = Int_C_Int(self); int64_t b = c_int(obj); if (a < b) { return -1; } if (a > b) { return 1; } return 0; }',
              '{ return (int)(Int_C_Int(self) - c_int(obj)); }',
              '{ int64_t c = Int_C_Int(self) - c_int(obj); return c > 0 ? 1 : c < 0 ? -1 : 0; }']:
        print(translate(b, A))
    F = {'Float_C_Float(self)': 0, 'c_float(obj)': 1}
    print(translate('{ double c = Float_C_Float(self) - c_float(obj); return c > 0 ? 1 : c < 0 ? -1 : 0; }', F))
    print(translate('{ return cmp(self, obj) isnt 0; }', {'cmp(self, obj)': 0}, zero_var=1))


# ------------------------------------------------------------------------------------------------
# cmp() of Cmp.c: a decision procedure over four facts.  It is executed symbolically for every
# assignment of the facts, following if / else / return / throw, local aliases and one or two levels
# of helper functions of the same file; the result is the outcome TABLE (data for Generated.v).
#   facts:    hc = instance(self, Cmp) is not NULL      hm = its cmp member is not NULL
#             t  = type_of(self) is type_of(obj)        s  = size(type_of(self)) is not 0
#   outcomes: 0 call the instance   1 memcmp(self, obj, size(type_of(self)))   2 throw TypeError   3 NULL dereference
STOK = re.compile(r'\s*("(?:[^"\\]|\\.)*"|->|<=|>=|==|!=|&&|\|\||[A-Za-z_][A-Za-z0-9_]*|\d+|[-+*/<>!?:(),;{}=.&|\[\]%$])')


def stokens(s):
    out, i = [], 0
    s = s.strip()
    while i < len(s):
        m = STOK.match(s, i)
        if not m:
            raise Untranslatable('token at %r' % s[i:i + 12])
        out.append(m.group(1)); i = m.end()
    return out


class Crash(Exception):
    pass


class Dispatch:
    def __init__(self, file_src, func_body):
        self.src, self.func_body = file_src, func_body

    def run(self, facts):
        body = self.func_body(self.src, r'\bint\s+cmp\s*\(\s*var\s+self\s*,\s*var\s+obj\s*\)\s*\{')
        if body is None:
            raise Untranslatable('cmp not found')
        try:
            return self.exec_body(stokens(body), facts, 0)
        except Crash:
            return 3

    # ---- statements
    def exec_body(self, t, facts, depth):
        self.alias = dict(getattr(self, 'alias', {})) if depth else {}
        pos = [1]                                  # after '{'
        r = self.exec_stmts(t, pos, facts, depth)
        if r is None:
            raise Untranslatable('path without return')
        return r

    def exec_stmts(self, t, pos, facts, depth):
        while t[pos[0]] != '}':
            r = self.exec_stmt(t, pos, facts, depth, live=True)
            if r is not None:
                # skip the rest of the block
                d = 0
                while not (t[pos[0]] == '}' and d == 0):
                    d += (t[pos[0]] == '{') - (t[pos[0]] == '}')
                    pos[0] += 1
                return r
        return None

    def skip_stmt(self, t, pos):
        if t[pos[0]] == '{':
            d = 0
            while True:
                d += (t[pos[0]] == '{') - (t[pos[0]] == '}')
                pos[0] += 1
                if d == 0:
                    return
        if t[pos[0]] == 'if':
            pos[0] += 1
            self.paren(t, pos)
            self.skip_stmt(t, pos)
            if t[pos[0]] == 'else':
                pos[0] += 1; self.skip_stmt(t, pos)
            return
        while t[pos[0]] != ';':
            if t[pos[0]] == '(':
                self.paren(t, pos)
            else:
                pos[0] += 1
        pos[0] += 1

    def paren(self, t, pos):
        """returns the tokens inside a balanced (...) starting at pos"""
        assert t[pos[0]] == '('
        d, b = 0, pos[0]
        while True:
            d += (t[pos[0]] == '(') - (t[pos[0]] == ')')
            pos[0] += 1
            if d == 0:
                return t[b + 1:pos[0] - 1]

    def block(self, t, pos, facts, depth, live):
        if not live:
            self.skip_stmt(t, pos); return None
        if t[pos[0]] == '{':
            pos[0] += 1
            r = self.exec_stmts(t, pos, facts, depth)
            pos[0] += 1                              # '}'
            return r
        return self.exec_stmt(t, pos, facts, depth, True)

    def exec_stmt(self, t, pos, facts, depth, live):
        tok = t[pos[0]]
        if tok == ';':
            pos[0] += 1; return None
        if tok == 'if':
            pos[0] += 1
            c = self.truth(self.paren(t, pos), facts)
            r = self.block(t, pos, facts, depth, c)
            if t[pos[0]] == 'else':
                pos[0] += 1
                r2 = self.block(t, pos, facts, depth, not c)
                r = r if c else r2
            return r
        if tok == 'return' or tok == 'throw':
            b = pos[0]
            self.skip_stmt(t, pos)
            e = t[b + (1 if tok == 'return' else 0):pos[0] - 1]
            return self.outcome(e, facts, depth)
        # declaration with initialiser:  <type tokens> name = expr ;
        b = pos[0]
        self.skip_stmt(t, pos)
        st = t[b:pos[0] - 1]
        if '=' in st:
            k = st.index('=')
            self.alias[st[k - 1]] = st[k + 1:]
            return None
        raise Untranslatable('statement %r' % st[:8])

    # ---- expressions
    def expand(self, e, n=0):
        out = []
        for i, x in enumerate(e):
            if x in self.alias and n < 8 and not (i > 0 and e[i - 1] in ('->', '.')):
                out += ['('] + self.expand(self.alias[x], n + 1) + [')']
            else:
                out.append(x)
        return out

    def outcome(self, e, facts, depth):
        e = self.strip(self.expand(e))
        s = ''.join(e)
        if s.startswith('throw(TypeError'):
            return 2
        m = re.fullmatch(r'\(?instance\(self,Cmp\)\)?->cmp\(self,obj\)', s)
        if m:
            if not facts['hc'] or not facts['hm']:
                raise Crash()
            return 0
        m = re.fullmatch(r'memcmp\(self,obj,(.*)\)', s)
        if m:
            if ''.join(self.strip(stokens(m.group(1)))) != 'size(type_of(self))':
                raise Untranslatable('memcmp length ' + m.group(1))
            return 1
        m = re.fullmatch(r'([A-Za-z_][A-Za-z0-9_]*)\(self,obj\)', s)
        if m and depth < 2:
            hb = self.func_body(self.src, r'\bint\s+%s\s*\(\s*var\s+self\s*,\s*var\s+obj\s*\)\s*\{' % m.group(1))
            if hb is None:
                raise Untranslatable('helper ' + m.group(1))
            save = self.alias
            try:
                return self.exec_body(stokens(hb), facts, depth + 1)
            finally:
                self.alias = save
        raise Untranslatable('return ' + s[:40])

    def strip(self, e):
        """remove redundant outer parentheses and parentheses around single alias expansions"""
        e = list(e)
        changed = True
        while changed:
            changed = False
            if len(e) >= 2 and e[0] == '(' and self.match(e, 0) == len(e) - 1:
                e = e[1:-1]; changed = True
        # inner: "( X )" where X has no top-level operator
        out, i = [], 0
        while i < len(e):
            if e[i] == '(' and (i == 0 or not re.fullmatch(r'[A-Za-z_]\w*', e[i - 1])):
                j = self.match(e, i)
                inner = self.strip(e[i + 1:j])
                if not any(x in ('and', 'or', 'not', 'is', 'isnt', '&&', '||', '!', '==', '!=', '?', '<', '>', '-', '+') for x in self.top(inner)):
                    out += inner; i = j + 1; continue
                out += ['('] + inner + [')']; i = j + 1; continue
            out.append(e[i]); i += 1
        return out

    def match(self, e, i):
        d = 0
        for j in range(i, len(e)):
            d += (e[j] == '(') - (e[j] == ')')
            if d == 0:
                return j
        raise Untranslatable('parenthesis')

    def top(self, e):
        d, out = 0, []
        for x in e:
            if x == '(': d += 1
            elif x == ')': d -= 1
            elif d == 0: out.append(x)
        return out

    def split_top(self, e, ops):
        d, parts, cur, used = 0, [], [], []
        for x in e:
            if x == '(': d += 1
            if x == ')': d -= 1
            if d == 0 and x in ops:
                parts.append(cur); cur = []; used.append(x)
            else:
                cur.append(x)
        parts.append(cur)
        return parts, used

    def truth(self, e, facts):
        e = self.strip(self.expand(e))
        parts, _ = self.split_top(e, ('or', '||'))
        if len(parts) > 1:
            return any(self.truth_lazy(p, facts) for p in parts)      # any() short-circuits over the generator
        parts, _ = self.split_top(e, ('and', '&&'))
        if len(parts) > 1:
            return all(self.truth_lazy(p, facts) for p in parts)
        if e and e[0] in ('not', '!'):
            return not self.truth(e[1:], facts)
        parts, used = self.split_top(e, ('is', 'isnt', '==', '!='))
        if len(parts) == 2:
            a, b = ''.join(self.strip(parts[0])), ''.join(self.strip(parts[1]))
            neg = used[0] in ('isnt', '!=')
            if {a, b} == {'type_of(self)', 'type_of(obj)'}:
                return facts['t'] != neg
            if b in ('NULL', '0'):
                return (not self.value(a, facts)) != neg
            if a in ('NULL', '0'):
                return (not self.value(b, facts)) != neg
            raise Untranslatable('comparison %s / %s' % (a, b))
        return self.value(''.join(e), facts)

    def truth_lazy(self, p, facts):
        return self.truth(p, facts)

    def value(self, s, facts):
        if s == 'instance(self,Cmp)':
            return facts['hc']
        if re.fullmatch(r'\(?instance\(self,Cmp\)\)?->cmp', s):
            if not facts['hc']:
                raise Crash()
            return facts['hm']
        if s == 'size(type_of(self))':
            return facts['s']
        raise Untranslatable('condition ' + s[:40])


def dispatch_table(file_src, func_body):
    d = Dispatch(file_src, func_body)
    rows = []
    for hc in (False, True):
        for hm in (False, True):
            for t in (False, True):
                for s in (False, True):
                    rows.append((hc, hm, t, s, d.run({'hc': hc, 'hm': hm, 't': t, 's': s})))
    return rows
