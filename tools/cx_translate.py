"""cx_translate.py — a tiny translator for small pure C functions (used by genx_cmp.py).

It reads the body of a function that computes an `int` from two scalar operands (Int_Cmp, Float_Cmp)
or from the result of one call (the predicates of Cmp.c) and produces a term of the expression
language `cexp` (emitted into coq/Generated.v, semantics in coq/Values.v):

   body   := decl* stmt*
   decl   := type ident '=' expr ';'
   stmt   := 'return' expr ';'  |  'if' '(' expr ')' block ['else' block]      block := stmt | '{' stmt* '}'
   expr   := C conditional / || && ! / == != < > <= >= / binary + - / unary - / casts (int) / literals /
             identifiers / the operand atoms given by the caller (e.g. `Int_C_Int(self)`, `c_int(obj)`)
   Cello spellings: and or not is isnt.

If-return chains become nested conditionals (`if (c) return e; rest`  =  `c ? e : rest`), locals
become let-bound environment slots.  Anything outside the fragment raises Untranslatable: the caller
then emits no code and the obligations depending on it break (never a silent guess)."""
import re


class Untranslatable(Exception):
    pass


TOK = re.compile(r'\s*(->|<=|>=|==|!=|&&|\|\||[A-Za-z_][A-Za-z0-9_]*|\d+\.\d*|\d+|[-+*/<>!?:(),;{}=.&|])')
TYPES = {'int', 'int64_t', 'double', 'long', 'bool', 'size_t', 'float', 'uint64_t', 'const', 'unsigned', 'signed'}


def tokens(s):
    out, i = [], 0
    s = s.strip()
    while i < len(s):
        m = TOK.match(s, i)
        if not m:
            raise Untranslatable('token at %r' % s[i:i + 12])
        out.append(m.group(1)); i = m.end()
    return out


class Parser:
    def __init__(self, toks, atoms, zero_var=None):
        """atoms: {normalised text of an operand expression: variable index}; zero_var: index standing for the
        literal 0 (used when the function is a test of one int against 0)"""
        self.t, self.i = toks, 0
        self.atoms = atoms
        self.env = {}            # local name -> index
        self.locals = []         # cexp text of locals beyond the operands
        self.nvars = max([v for v in atoms.values() if isinstance(v, int)] + ([zero_var] if zero_var is not None else [-1])) + 1
        self.zero_var = zero_var

    def peek(self, k=0):
        return self.t[self.i + k] if self.i + k < len(self.t) else None

    def eat(self, x=None):
        tok = self.peek()
        if tok is None or (x is not None and tok != x):
            raise Untranslatable('expected %r at %r' % (x, self.t[self.i:self.i + 6]))
        self.i += 1
        return tok

    # ---- atoms: try to match an operand expression textually at the cursor
    def atom_here(self):
        for text, idx in sorted(self.atoms.items(), key=lambda kv: -len(kv[0])):
            tt = tokens(text)
            if self.t[self.i:self.i + len(tt)] == tt:
                self.i += len(tt)
                return idx if isinstance(idx, str) else '(CVar %d)' % idx
        return None

    # ---- expressions, precedence climbing
    def expr(self):
        c = self.lor()
        if self.peek() == '?':
            self.eat('?'); a = self.expr(); self.eat(':'); b = self.expr()
            return '(CCond %s %s %s)' % (c, a, b)
        return c

    def lor(self):
        a = self.land()
        while self.peek() in ('||', 'or'):
            self.eat(); a = '(COr %s %s)' % (a, self.land())
        return a

    def land(self):
        a = self.equality()
        while self.peek() in ('&&', 'and'):
            self.eat(); a = '(CAnd %s %s)' % (a, self.equality())
        return a

    def equality(self):
        a = self.relational()
        while self.peek() in ('==', '!=', 'is', 'isnt'):
            op = self.eat(); b = self.relational()
            a = '(CCmp %s %s %s)' % ('OpEq' if op in ('==', 'is') else 'OpNe', a, b)
        return a

    def relational(self):
        a = self.additive()
        while self.peek() in ('<', '>', '<=', '>='):
            op = self.eat(); b = self.additive()
            a = '(CCmp %s %s %s)' % ({'<': 'OpLt', '>': 'OpGt', '<=': 'OpLe', '>=': 'OpGe'}[op], a, b)
        return a

    def additive(self):
        a = self.unary()
        while self.peek() in ('-', '+'):
            op = self.eat(); b = self.unary()
            if op == '+':
                raise Untranslatable('addition')
            a = '(CSub %s %s)' % (a, b)
        return a

    def unary(self):
        tok = self.peek()
        if tok in ('!', 'not'):
            self.eat(); return '(CNot %s)' % self.unary()
        if tok == '-':
            self.eat()
            if self.peek() and self.peek().isdigit():
                return '(CInt (-%s)%%Z)' % self.eat()
            return '(CSub (CInt 0%%Z) %s)' % self.unary()
        if tok == '(' and self.peek(1) in TYPES:
            self.eat('(')
            ty = []
            while self.peek() != ')':
                ty.append(self.eat())
            self.eat(')')
            inner = self.unary()
            if ty == ['int']:
                return '(CCast32 %s)' % inner
            raise Untranslatable('cast to %s' % ' '.join(ty))
        return self.primary()

    def primary(self):
        a = self.atom_here()
        if a:
            return a
        tok = self.peek()
        if tok == '(':
            self.eat('('); e = self.expr(); self.eat(')'); return e
        if tok is not None and re.fullmatch(r'\d+', tok):
            self.eat()
            if tok == '0' and self.zero_var is not None:
                return '(CVar %d)' % self.zero_var
            return '(CInt %s%%Z)' % tok
        if tok is not None and re.fullmatch(r'\d+\.\d*', tok):
            self.eat()
            if float(tok) == 0.0:
                return '(CInt 0%Z)'          # 0.0 and the int 0 convert to the same double
            raise Untranslatable('floating literal ' + tok)
        if tok in self.env:
            self.eat(); return '(CVar %d)' % self.env[tok]
        raise Untranslatable('primary %r' % (self.t[self.i:self.i + 6],))

    # ---- statements
    def block(self):
        if self.peek() == '{':
            self.eat('{')
            e = self.stmts('}')
            self.eat('}')
            return e
        return self.stmt_then(lambda: None)

    def stmts(self, end):
        """a statement list that must end every path with a return; -> cexp"""
        if self.peek() == end or self.peek() is None:
            return None
        return self.stmt_then(lambda: self.stmts(end))

    def stmt_then(self, rest):
        tok = self.peek()
        if tok == 'return':
            self.eat('return'); e = self.expr(); self.eat(';')
            # statements after a return are unreachable; tolerate a trailing `return 0;`
            r = rest()
            return e
        if tok == 'if':
            self.eat('if'); self.eat('('); c = self.expr(); self.eat(')')
            a = self.block()
            b = None
            if self.peek() == 'else':
                self.eat('else'); b = self.block()
            r = rest()
            if a is None:
                raise Untranslatable('if without return')
            other = b if b is not None else r
            if other is None:
                raise Untranslatable('path without return')
            return '(CCond %s %s %s)' % (c, a, other)
        if tok == ';':
            self.eat(';'); return rest()
        raise Untranslatable('statement %r' % (self.t[self.i:self.i + 6],))

    def decls(self):
        while self.peek() in TYPES:
            while self.peek() in TYPES:
                self.eat()
            name = self.eat()
            self.eat('=')
            save = self.i
            a = self.atom_here()
            m = re.fullmatch(r'\(CVar (\d+)\)', a or '')
            if m and self.peek() == ';':
                self.eat(';')
                self.env[name] = int(m.group(1))
                continue
            self.i = save
            e = self.expr(); self.eat(';')
            self.env[name] = self.nvars + len(self.locals)
            self.locals.append(e)

    def function(self):
        self.eat('{')
        self.decls()
        e = self.stmts('}')
        self.eat('}')
        if e is None:
            raise Untranslatable('no return')
        return '([%s], %s)' % ('; '.join(self.locals), e)


def translate(body, atoms, zero_var=None):
    """body: text of a function body including braces -> Gallina text of a cprog, or raises Untranslatable"""
    return Parser(tokens(body), atoms, zero_var).function()


AST = '''Inductive cop := OpLt | OpLe | OpEq | OpNe | OpGt | OpGe.
Inductive cexp :=
| CVar (n : nat) | CInt (z : Z)
| CSub (a b : cexp) | CCmp (o : cop) (a b : cexp)
| CCond (c a b : cexp) | CNot (a : cexp) | CAnd (a b : cexp) | COr (a b : cexp)
| CCast32 (a : cexp).
Definition cprog : Type := (list cexp * cexp)%type.'''

if __name__ == '__main__':
    A = {'Int_C_Int(self)': 0, 'c_int(obj)': 1}
    for b in ['{ int64_t a = Int_C_Int(self); int64_t b = c_int(obj); return a < b ? -1 : a > b ? 1 : 0; }',
              '{ int64_t lhs = Int_C_Int(self); int64_t rhs = c_int(obj); return (lhs > rhs) - (lhs < rhs); }',
              '{ int64_t a = Int_C_Int(self); int64_t b = c_int(obj); if (a < b) { return -1; } if (a > b) { return 1; } return 0; }',
              '{ return (int)(Int_C_Int(self) - c_int(obj)); }',
              '{ int64_t c = Int_C_Int(self) - c_int(obj); return c > 0 ? 1 : c < 0 ? -1 : 0; }']:
        print(translate(b, A))
    F = {'Float_C_Float(self)': 0, 'c_float(obj)': 1}
    print(translate('{ double c = Float_C_Float(self) - c_float(obj); return c > 0 ? 1 : c < 0 ? -1 : 0; }', F))
    print(translate('{ return cmp(self, obj) isnt 0; }', {'cmp(self, obj)': 0}, zero_var=1))
