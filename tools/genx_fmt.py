"""genx_fmt.py — data of the print scanner (C14) re-extracted from src/Show.c, src/String.c and
src/File.c: the character sets given as strchr literals in print_to_with, the `fmt += 2` after
`%%`, the size of the piece buffer, the room String_Format_To reserves, what File_Format_To returns.
Loaded by tools/gen_params.py (generate(repo, emit, src, func_body))."""
import re


def c_unescape(lit):
    out, i = [], 0
    esc = {'n': 10, 't': 9, '\\': 92, '"': 34, "'": 39, '0': 0, 'r': 13, 'a': 7, 'b': 8, 'f': 12, 'v': 11, '?': 63}
    while i < len(lit):
        if lit[i] == '\\' and i + 1 < len(lit):
            out.append(esc.get(lit[i + 1], ord(lit[i + 1]))); i += 2
        else:
            out.append(ord(lit[i])); i += 1
    return out


def natlist(name, xs, comment):
    return 'Definition %s : list nat := [%s].   (* %s *)' % (name, '; '.join(str(x) for x in xs), comment)


def generate(repo, emit, src, func_body):
    s = src('src/Show.c')
    b = func_body(s, r'int\s+print_to_with\s*\([^)]*\)\s*\{')
    if not b:
        for n in ('print_convs', 'print_int_convs', 'print_float_convs', 'print_shape_ok', 'print_pct_skip', 'print_buf_extra'):
            emit(n, None)
    else:
        # while(not strchr("....", *fmt)) { fmt++; }   -- the conversion characters ending a specification
        m = re.search(r'while\s*\(\s*not\s+strchr\s*\(\s*"((?:[^"\\]|\\.)*)"\s*,\s*\*fmt\s*\)\s*\)\s*\{\s*fmt\+\+;\s*\}', b)
        emit('print_convs', natlist('print_convs', c_unescape(m.group(1)), 'source: while(not strchr("%s", *fmt))' % m.group(1)) if m else None)
        # if (strchr("diouxX", *fmt)) { ... c_int(a) ... }
        mi = re.search(r'if\s*\(\s*strchr\s*\(\s*"((?:[^"\\]|\\.)*)"\s*,\s*\*fmt\s*\)\s*\)\s*\{[^{}]*c_int\(a\)', b)
        emit('print_int_convs', natlist('print_int_convs', c_unescape(mi.group(1)), 'source: if (strchr("%s", *fmt)) ... c_int(a)' % mi.group(1)) if mi else None)
        mf = re.search(r'if\s*\(\s*strchr\s*\(\s*"((?:[^"\\]|\\.)*)"\s*,\s*\*fmt\s*\)\s*\)\s*\{[^{}]*c_float\(a\)', b)
        emit('print_float_convs', natlist('print_float_convs', c_unescape(mf.group(1)), 'source: if (strchr("%s", *fmt)) ... c_float(a)' % mf.group(1)) if mf else None)
        # single-character branches and the rest of the shape the model encodes
        flat = re.sub(r'\s+', ' ', b)
        shape = [
            r"if \(\*fmt is '\\0'\) \{ break; \}",
            r"while\(\*fmt isnt '\\0' and \*fmt isnt '%'\) \{ fmt\+\+; \}",
            r"if \(start isnt fmt\) \{ memcpy\(fmt_buf, start, fmt - start\); fmt_buf\[fmt - start\] = '\\0'; int off = format_to\(out, pos, fmt_buf\);",
            r"if \(\*fmt is '%' && \*\(fmt\+1\) is '%'\) \{ int off = format_to\(out, pos, \"%%\"\);",
            r"memcpy\(fmt_buf, start, fmt - start \+ 1\); fmt_buf\[fmt - start \+ 1\] = '\\0'; if \(index >= len\(args\)\) \{ throw\(FormatError,",
            r"var a = get\(args, \$I\(index\)\); index\+\+;",
            r"if \(\*fmt is '\$'\) \{ pos = show_to\(a, out, pos\); \}",
            r"if \(\*fmt is 's'\) \{ int off = format_to\(out, pos, fmt_buf, c_str\(a\)\);",
            r"if \(\*fmt is 'c'\) \{ int off = format_to\(out, pos, fmt_buf, c_int\(a\)\);",
            r"if \(\*fmt is 'p'\) \{ int off = format_to\(out, pos, fmt_buf, a\);",
            r"pos \+= off; \} fmt\+\+; continue; \}",
        ]
        missing = [p for p in shape if not re.search(p, flat)]
        emit('print_shape_ok', 'Definition print_shape_ok : bool := true.   (* print_to_with has the statement shape Format.v encodes *)'
             if not missing else None)
        # fmt += 2 after "%%"
        mp = re.search(r'format_to\(out, pos, "%%"\);.*?pos \+= off; fmt \+= (\d+); continue;', flat)
        emit('print_pct_skip', ('Definition print_pct_skip : nat := %s.   (* source: fmt += %s after "%%%%" *)' % (mp.group(1), mp.group(1))) if mp else None)
        # char* fmt_buf = malloc(strlen(fmt)+1);
        mb = re.search(r'char\*\s*fmt_buf\s*=\s*malloc\(\s*strlen\(fmt\)\s*(?:\+\s*(\d+))?\s*\)', flat)
        emit('print_buf_extra', ('Definition print_buf_extra : nat := %s.   (* source: malloc(strlen(fmt)+%s) *)' % (mb.group(1) or '0', mb.group(1) or '0')) if mb else None)

    # String_Format_To, generic branch: size = vsnprintf(NULL,0,..); realloc(s->val, pos + size + 1); return vsprintf(s->val + pos, ..)
    st = src('src/String.c')
    fb = func_body(st, r'static\s+int\s+String_Format_To\s*\([^)]*\)\s*\{')
    ok = None
    if fb:
        i = fb.rfind('#else')
        gen = re.sub(r'\s+', ' ', fb[i:] if i >= 0 else fb)
        m1 = re.search(r'int size = vsnprintf\(NULL, 0, fmt, va_tmp\);', gen)
        m2 = re.search(r's->val = realloc\(s->val, pos \+ size(?: \+ (\d+))?\);', gen)
        m3 = re.search(r'return vsprintf\(s->val \+ pos, fmt, va\);', gen)
        if not m3:
            # repaired form (fix: arguments are rendered into a temporary before the String is reallocated):
            #   char* tmp = malloc(size + 1); vsprintf(tmp, fmt, va); realloc(..., pos + size + 1);
            #   memcpy(s->val + pos, tmp, size + 1); free(tmp); return size;
            m3 = (re.search(r'char\* tmp = malloc\(size \+ 1\);', gen) and re.search(r'vsprintf\(tmp, fmt, va\);', gen)
                  and re.search(r'memcpy\(s->val \+ pos, tmp, size \+ 1\); free\(tmp\); return size;', gen))
        if m1 and m2 and m3:
            ok = 'Definition string_fmt_room : nat := %s.   (* source: realloc(s->val, pos + size + %s) then vsprintf(s->val + pos, ...) *)' % (
                m2.group(1) or '0', m2.group(1) or '0')
    emit('string_fmt_room', ok)

    fl = src('src/File.c')
    fb = func_body(fl, r'static\s+int\s+File_Format_To\s*\([^)]*\)\s*\{')
    ok = None
    if fb and re.search(r'return\s+vfprintf\(f->file,\s*fmt,\s*va\);', fb):
        ok = 'Definition file_fmt_returns_count : bool := true.   (* source: return vfprintf(f->file, fmt, va); *)'
    emit('file_fmt_returns_count', ok)


def _show_strings(emit, src, func_body, file, fn, prefix, item_re, sep_re):
    """opener/closer literals and loop shape of a container Show function"""
    s = src(file)
    b = func_body(s, r'static\s+int\s+%s\s*\([^)]*\)\s*\{' % fn)
    names = (prefix + '_show_open', prefix + '_show_close', prefix + '_show_shape_ok')
    if not b:
        for n in names: emit(n, None)
        return
    flat = re.sub(r'\s+', ' ', b)
    mo = re.search(r'pos = print_to\(output, pos, "((?:[^"\\]|\\.)*)", self\);', flat)
    mc = re.search(r'return print_to\(output, pos, "((?:[^"\\]|\\.)*)"\);', flat)
    emit(names[0], natlist(names[0], c_unescape(mo.group(1)), 'source: %s opens with "%s"' % (fn, mo.group(1))) if mo else None)
    emit(names[1], natlist(names[1], c_unescape(mc.group(1)), 'source: %s closes with "%s"' % (fn, mc.group(1))) if mc else None)
    ok = re.search(item_re, flat) and re.search(sep_re, flat)
    emit(names[2], ('Definition %s : bool := true.   (* one print_to per element, ", " between elements *)' % names[2]) if ok else None)


def generate_show(repo, emit, src, func_body):
    SEP = r'\{ pos = print_to\(output, pos, ", "\); \}'
    _show_strings(emit, src, func_body, 'src/Array.c', 'Array_Show', 'array',
                  r'pos = print_to\(output, pos, "%\$", Array_Item\(a, i\)\);', r'if \(i < a->nitems-1\) ' + SEP)
    _show_strings(emit, src, func_body, 'src/List.c', 'List_Show', 'list',
                  r'pos = print_to\(output, pos, "%\$", item\);', r'item = \*List_Next\(l, item\); if \(item\) ' + SEP)
    _show_strings(emit, src, func_body, 'src/Tuple.c', 'Tuple_Show', 'tuple',
                  r'pos = print_to\(output, pos, "%\$", t->items\[i\]\);', r'if \(t->items\[i\+1\] isnt Terminal\) ' + SEP)
    _show_strings(emit, src, func_body, 'src/Table.c', 'Table_Show', 'table',
                  r'pos = print_to\(output, pos, "%\$:%\$", Table_Key\(t, i\), Table_Val\(t, i\)\);', r'if \(j < Table_Len\(t\)-1\) ' + SEP)
    _show_strings(emit, src, func_body, 'src/Tree.c', 'Tree_Show', 'tree',
                  r'pos = print_to\(output, pos, "%\$:%\$", Tree_Key\(m, node\), Tree_Val\(m, node\)\);', r'if \(curr isnt Terminal\) ' + SEP)
    # Int_Show / Float_Show: return print_to(output, pos, "%li", self);
    n = src('src/Num.c')
    for fn, name in (('Int_Show', 'int_show_fmt'), ('Float_Show', 'float_show_fmt')):
        b = func_body(n, r'int\s+%s\s*\([^)]*\)\s*\{' % fn)
        m = re.search(r'return\s+print_to\(output,\s*pos,\s*"((?:[^"\\]|\\.)*)",\s*self\);', b or '')
        emit(name, natlist(name, c_unescape(m.group(1)), 'source: %s prints "%s"' % (fn, m.group(1))) if m else None)


_generate_scanner = generate


def generate(repo, emit, src, func_body):
    _generate_scanner(repo, emit, src, func_body)
    generate_show(repo, emit, src, func_body)
