"""genx_fmt.py — data of the print scanner (C14) re-extracted from src/Show.c, src/String.c and
src/File.c: the character sets given as strchr literals in print_to_with, the `fmt += 2` after
`%%`, the size of the piece buffer, the room String_Format_To reserves, what File_Format_To returns.
Loaded by tools/gen_params.py (generate(repo, emit, src, func_body))."""
import re


def c_unescape(lit):
    out, i = [], 0
    esc = {'n': 10, 't': 9, '\\': 92, '"': 34, "'": 39, '0': 0, 'r': 13, 'a': 7, 'b': 8, 'f': 12, 'v': 11, '?': 63}
    while i < len(lit):
        if lit[i] == '\\' and i + 1 < len(lit):
            out.append(esc.get(lit[i + 1], ord(lit[i + 1]))); i += 2
        else:
            out.append(ord(lit[i])); i += 1
    return out


def _c(comment):
    """source text quoted inside a Coq comment must not open or close one (nor start a string)"""
    return comment.replace('(*', '( *').replace('*)', '* )').replace('"', "'")


def natlist(name, xs, comment):
    return 'Definition %s : list nat := [%s].   (* %s *)' % (name, '; '.join(str(x) for x in xs), _c(comment))


def generate(repo, emit, src, func_body):
    import fmt_shapes
    s = src('src/Show.c')
    b = func_body(s, r'int\s+print_to_with\s*\([^)]*\)\s*\{')
    names = ('print_convs', 'print_int_convs', 'print_float_convs', 'print_dispatch_nul_hits', 'print_shape_ok', 'print_pct_skip', 'print_buf_extra',
             'print_buf_stack_cap', 'print_buf_stack_test')
    r = fmt_shapes.parse_print_to_with(b, s) if b else None
    if not r:
        for n in names:
            emit(n, None)
    else:
        emit('print_convs', natlist('print_convs', c_unescape(r['convs']), 'source: a specification ends at the first of "%s" (or the NUL)' % r['convs']))
        emit('print_int_convs', natlist('print_int_convs', c_unescape(r['int_convs']), 'source: "%s" -> format_to(.., c_int(a))' % r['int_convs']))
        emit('print_float_convs', natlist('print_float_convs', c_unescape(r['float_convs']), 'source: "%s" -> format_to(.., c_float(a))' % r['float_convs']))
        emit('print_dispatch_nul_hits', 'Definition print_dispatch_nul_hits : bool := %s.   (* %s *)' % (
            ('true', 'source: arms tested with strchr(set, c) - the NUL is a hit') if r['nul_hits'] else ('false', 'source: switch on the conversion character - the NUL goes to default')))
        emit('print_shape_ok', 'Definition print_shape_ok : bool := true.   (* the whole body of print_to_with is a sequence of accepted statement forms: %s *)'
             % ' '.join(r['forms']))
        emit('print_pct_skip', 'Definition print_pct_skip : nat := %d.   (* source: fmt += %d after "%%%%" *)' % (r['pct_skip'], r['pct_skip']))
        emit('print_buf_extra', 'Definition print_buf_extra : nat := %d.   (* source: malloc(strlen(fmt)+%d) *)' % (r['buf_extra'], r['buf_extra']))
        emit('print_buf_stack_cap', 'Definition print_buf_stack_cap : nat := %d.   (* source: size of the stack array used for the piece when the format is short (0 = none) *)' % r['stack_cap'])
        emit('print_buf_stack_test', 'Definition print_buf_stack_test : nat := %d.   (* source: the stack array is used when strlen(fmt)+%d <= its size *)' % (r['stack_test'], r['stack_test']))

    # String_Format_To, generic branch
    st = src('src/String.c')
    fb = func_body(st, r'static\s+int\s+String_Format_To\s*\([^)]*\)\s*\{')
    r = fmt_shapes.parse_string_format_to(fb, fmt_shapes.guard_helpers(st, func_body)) if fb else None
    if not r:
        for n in ('string_fmt_room', 'string_fmt_stack_cap', 'string_fmt_stack_limit'):
            emit(n, None)
    else:
        emit('string_fmt_room', 'Definition string_fmt_room : nat := %d.   (* source (%s form): realloc(s->val, pos + size + %d), text and NUL written at s->val + pos *)'
             % (r['room'], r['form'], r['room']))
        emit('string_fmt_stack_cap', 'Definition string_fmt_stack_cap : nat := %d.   (* source: size of the stack buffer the measuring vsnprintf writes into (0 = none) *)' % r['cap'])
        emit('string_fmt_stack_limit', 'Definition string_fmt_stack_limit : nat := %d.   (* source: texts of size < %d are taken from the stack buffer, the others rendered again on the heap *)'
             % (r['limit'], r['limit']))

    fl = src('src/File.c')
    fb = func_body(fl, r'static\s+int\s+File_Format_To\s*\([^)]*\)\s*\{')
    ok = None
    if fb and fmt_shapes.parse_file_format_to(fb, fmt_shapes.stream_helpers(fl, func_body)):
        ok = 'Definition file_fmt_returns_count : bool := true.   (* source: the body is `return vfprintf(<stream>, fmt, va);` behind the closed-file test *)'
    emit('file_fmt_returns_count', ok)


def _show_strings(emit, src, func_body, file, fn, prefix, item_re, sep_re):
    """opener/closer literals and loop shape of a container Show function"""
    s = src(file)
    b = func_body(s, r'static\s+int\s+%s\s*\([^)]*\)\s*\{' % fn)
    names = (prefix + '_show_open', prefix + '_show_close', prefix + '_show_shape_ok')
    if not b:
        for n in names: emit(n, None)
        return
    flat = re.sub(r'\s+', ' ', b)
    mo = re.search(r'pos = print_to\(output, pos, "((?:[^"\\]|\\.)*)", self\);', flat)
    mc = re.search(r'return print_to\(output, pos, "((?:[^"\\]|\\.)*)"\);', flat)
    emit(names[0], natlist(names[0], c_unescape(mo.group(1)), 'source: %s opens with "%s"' % (fn, mo.group(1))) if mo else None)
    emit(names[1], natlist(names[1], c_unescape(mc.group(1)), 'source: %s closes with "%s"' % (fn, mc.group(1))) if mc else None)
    ok = re.search(item_re, flat) and re.search(sep_re, flat)
    emit(names[2], ('Definition %s : bool := true.   (* one print_to per element, ", " between elements *)' % names[2]) if ok else None)


def generate_show(repo, emit, src, func_body):
    SEP = r'\{ pos = print_to\(output, pos, ", "\); \}'
    _show_strings(emit, src, func_body, 'src/Array.c', 'Array_Show', 'array',
                  r'pos = print_to\(output, pos, "%\$", Array_Item\(a, i\)\);', r'if \(i < a->nitems-1\) ' + SEP)
    _show_strings(emit, src, func_body, 'src/List.c', 'List_Show', 'list',
                  r'pos = print_to\(output, pos, "%\$", item\);', r'item = \*List_Next\(l, item\); if \(item\) ' + SEP)
    _show_strings(emit, src, func_body, 'src/Tuple.c', 'Tuple_Show', 'tuple',
                  r'pos = print_to\(output, pos, "%\$", t->items\[i\]\);', r'if \(t->items\[i\+1\] isnt Terminal\) ' + SEP)
    _show_strings(emit, src, func_body, 'src/Table.c', 'Table_Show', 'table',
                  r'pos = print_to\(output, pos, "%\$:%\$", Table_Key\(t, i\), Table_Val\(t, i\)\);', r'if \(j < Table_Len\(t\)-1\) ' + SEP)
    _show_strings(emit, src, func_body, 'src/Tree.c', 'Tree_Show', 'tree',
                  r'pos = print_to\(output, pos, "%\$:%\$", Tree_Key\(m, node\), Tree_Val\(m, node\)\);', r'if \(curr isnt Terminal\) ' + SEP)
    # Int_Show / Float_Show: the format handed to the sink for the number's C value (print_to or format_to form)
    import fmt_shapes
    n = src('src/Num.c')
    for fn, name, kind in (('Int_Show', 'int_show_fmt', 'int'), ('Float_Show', 'float_show_fmt', 'float')):
        b = func_body(n, r'int\s+%s\s*\([^)]*\)\s*\{' % fn)
        f = fmt_shapes.parse_number_show(b, kind) if b else None
        emit(name, natlist(name, c_unescape(f), 'source: %s prints "%s"' % (fn, f)) if f is not None else None)


_generate_scanner = generate


def generate(repo, emit, src, func_body):
    _generate_scanner(repo, emit, src, func_body)
    generate_show(repo, emit, src, func_body)
