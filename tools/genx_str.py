"""genx_str.py — re-extracts from src/String.c the rules and policies the String model (C16) relies on.

Each modelled function (String_Assign, String_Concat, String_Resize, String_Format_To's generic branch,
String_Rem) is NORMALISED (comments, string literals, the `#if CELLO_*_CHECK == 1 if (..) { throw(..); } #endif`
blocks, casts, `const`, `is/isnt/not`, all white space removed; for String_Rem simple local definitions are
inlined) and then matched AS A WHOLE against the accepted code shapes: a statement the shapes do not know
makes the match fail (definition left out = broken obligation).  What varies inside a shape comes out as a
parameter of the model: realloc size expressions, String_Rem's memmove count, the condition / fill count /
early return of String_Resize, the local buffer and its threshold in String_Format_To.  Whether the values
are ADMISSIBLE is decided by Coq lemmas (StringProofs.v gen_*), not here.  The accepted shapes and why
each denotes the modelled function are listed in design.d/C16.md ("Accepted code shapes").
Called by tools/gen_params.py: generate(repo, emit, src, func_body)."""
import re


def _expr(text, terms, signed):
    """Translate a C size expression built from known terms, integer literals, + and - into Coq.
    terms: {c_text_without_spaces: coq_text}.  nat expressions (signed=False) may only use +."""
    t = re.sub(r'\s+', '', text)
    while t.startswith('(') and _balanced_outer(t):
        t = t[1:-1]
    keys = sorted(terms, key=len, reverse=True)
    for i, c in enumerate(keys):
        t = t.replace(c, '@%d@' % i)
    toks = re.findall(r'@\d+@|\d+|[+\-]|.', t)
    out = []
    expect_operand = True
    for k in toks:
        if expect_operand:
            if re.fullmatch(r'@\d+@', k):
                out.append(terms[keys[int(k.strip('@'))]])
            elif re.fullmatch(r'\d+', k):
                out.append(k)
            else:
                return None
            expect_operand = False
        else:
            if k == '+' or (k == '-' and signed):
                out.append(k)
            else:
                return None
            expect_operand = True
    if expect_operand:
        return None
    return ' '.join(out)


def _balanced_outer(t):
    """t starts with '(' — does that parenthesis close at the very end?"""
    d = 0
    for i, ch in enumerate(t):
        if ch == '(':
            d += 1
        elif ch == ')':
            d -= 1
            if d == 0:
                return i == len(t) - 1
    return False


GUARDS = set()     # names of helper functions verified to be pure stack/static guards (see guard_helpers)


def guard_helpers(s):
    """static void NAME(var self[, const char* x]) whose whole body is the stack/static guard
    (throws ValueError when header(self)->alloc is AllocStack or AllocStatic, does nothing else, compiled in
    only under CELLO_ALLOC_CHECK): a call `NAME(self[, ".."]);` is then the same as the inline
    `#if CELLO_ALLOC_CHECK == 1 if (..) { throw(..); } #endif` block and is dropped by compact()."""
    names = set()
    for m in re.finditer(r'static\s+void\s+(\w+)\s*\(\s*var\s+self\s*(?:,\s*const\s+char\s*\*\s*\w+\s*)?\)\s*\{', s):
        i = s.find('{', m.end() - 1)
        d, j = 0, i
        while j < len(s):
            if s[j] == '{':
                d += 1
            elif s[j] == '}':
                d -= 1
                if d == 0:
                    break
            j += 1
        b = s[i:j + 1]
        b = re.sub(r'"(?:[^"\\]|\\.)*"', '""', b)
        b = re.sub(r'\(\s*(?:var|intptr_t|char\s*\*)\s*\)', '', b)
        b = re.sub(r'\bis\b', '==', b)
        b = re.sub(r'\bor\b', '||', b)
        b = re.sub(r'\s+', '', b)
        al = r'header\(self\)->alloc'
        thr = r'throw\(ValueError,""(?:,[^;{}]*)?\);'
        g1 = r'if\(%s==AllocStack\|\|%s==AllocStatic\)\{%s\}' % (al, al, thr)
        g2 = r'switch\(%s\)\{caseAllocStack:caseAllocStatic:%s(?:break;)?default:break;\}' % (al, thr)
        if re.fullmatch(r'\{#ifCELLO_ALLOC_CHECK==1(?:%s|%s)#endif\}' % (g1, g2), b):
            names.add(m.group(1))
    return names


def compact(b):
    """normal form of a function body (see module docstring)"""
    b = re.sub(r'"(?:[^"\\]|\\.)*"', '""', b)
    for g in GUARDS:
        b = re.sub(r'\b%s\s*\(\s*self\s*(?:,\s*""\s*)?\)\s*;' % re.escape(g), ' ', b)
    b = re.sub(r'#if\s+CELLO_\w+_CHECK\s*==\s*1\s*if\s*\([^{}]*\)\s*\{\s*throw\s*\([^;]*\)\s*;\s*\}\s*#endif', ' ', b)
    b = re.sub(r'\(\s*(?:const\s+)?(?:char\s*\*|int|size_t)\s*\)', '', b)
    b = re.sub(r'\bconst\s+', '', b)
    b = re.sub(r'\bisnt\b', '!=', b)
    b = re.sub(r'\bis\b', '==', b)
    b = re.sub(r'\bnot\s+', '!', b)
    b = re.sub(r'\band\b', '&&', b)
    b = re.sub(r'\s+', ' ', b)
    b = re.sub(r' ?([^\w ]) ?', r'\1', b)
    return b.strip()


def inline_locals(b, keep):
    """inline `T name = expr;` definitions of scalar / pointer locals that are never assigned again
    (one definition each; sound where nothing between definition and use changes what expr reads)"""
    keep = set(keep)
    while True:
        cand = [m for m in re.finditer(r'(?:char\*|size_t |int )(\w+)=([^;]*);', b) if m.group(1) not in keep]
        if not cand:
            return b
        m = cand[0]
        name, ex = m.group(1), m.group(2)
        rest = b[:m.start()] + b[m.end():]
        if re.search(r'\b%s(?:=[^=]|\+\+|--|[+\-*/]=)' % name, rest):
            keep.add(name)                     # assigned again: leave it alone
            continue
        if re.search(r'[+\-<>?:]', ex.replace('->', '')):
            ex = '(' + ex + ')'
        b = re.sub(r'\b%s\b' % name, lambda _: ex, rest)


NL = r'strlen\(c->c_str\(obj\)\)'
Z0 = r"'\\0'"


def generate(repo, emit, src, func_body):
    s = src('src/String.c')
    GUARDS.clear()
    GUARDS.update(guard_helpers(s))

    def fn(name):
        b = func_body(s, r'static\s+[\w\*\s]+?[\s\*]%s\s*\([^)]*\)\s*\{' % name)
        return b

    # ------------------------------------------------------------------ String_Assign
    b = fn('String_Assign')
    c = compact(b) if b else ''
    e = safe = ra = None
    m = re.fullmatch(r'\{struct String\*s=self;char\*val=c_str\(obj\);s->val=realloc\(s->val,(?P<e>[^;]*)\);strcpy\(s->val,val\);\}', c)
    if m:
        ra, e, safe = m.group('e'), _expr(m.group('e'), {'strlen(val)': 'vl'}, False), 'false'
    m = re.fullmatch(r'\{struct String\*s=self;size_t n=strlen\(c_str\(obj\)\);s->val=realloc\(s->val,(?P<e>[^;]*)\);memmove\(s->val,c_str\(obj\),n\+1\);\}', c)
    if m:
        ra, e, safe = m.group('e'), _expr(m.group('e'), {'n': 'vl'}, False), 'true'
    emit('string_assign_alloc', ('Definition string_assign_alloc (vl : nat) : nat := %s.   (* source: realloc(s->val, %s) *)' % (e, ra)) if e else None)
    emit('string_assign_self_safe', ('Definition string_assign_self_safe : bool := %s.   (* %s *)'
                                     % (safe, 'length first, memmove from c_str(obj) after the realloc' if safe == 'true'
                                        else 'strcpy from a pointer fetched before the realloc')) if e else None)

    # ------------------------------------------------------------------ String_Concat
    b = fn('String_Concat')
    c = compact(b) if b else ''
    e = safe = ra = why = None
    m = re.fullmatch(r'\{struct String\*s=self;s->val=realloc\(s->val,(?P<e>[^;]*)\);strcat\(s->val,c_str\(obj\)\);\}', c)
    if m:
        ra, e, safe, why = m.group('e'), _expr(m.group('e'), {'strlen(s->val)': 'sl', 'strlen(c_str(obj))': 'vl'}, False), 'false', 'strcat(s->val, c_str(obj))'
    decl = r'(?:size_t n=strlen\(s->val\);size_t m=strlen\(c_str\(obj\)\);|size_t m=strlen\(c_str\(obj\)\);size_t n=strlen\(s->val\);)'
    m = re.fullmatch(r'\{struct String\*s=self;' + decl + r's->val=realloc\(s->val,(?P<e>[^;]*)\);'
                     r'(?:(?P<f1>memcpy|memmove)\(s->val\+n,c_str\(obj\),m\);s->val\[n\+m\]=' + Z0 + r';|(?P<f2>memcpy|memmove)\(s->val\+n,c_str\(obj\),m\+1\);)\}', c)
    if m:
        ra, e = m.group('e'), _expr(m.group('e'), {'n': 'sl', 'm': 'vl'}, False)
        if m.group('f1'):
            safe, why = 'true', 'lengths first, %s of m bytes from c_str(obj) after the realloc, explicit terminator' % m.group('f1')
        elif m.group('f2') == 'memmove':
            safe, why = 'true', 'lengths first, memmove of m+1 bytes (terminator included) from c_str(obj) after the realloc'
        else:
            safe, why = 'false', 'memcpy of m+1 bytes: source and destination share byte n when obj is the String itself'
    emit('string_concat_alloc', ('Definition string_concat_alloc (sl vl : nat) : nat := %s.   (* source: realloc(s->val, %s) *)' % (e, ra)) if e else None)
    emit('string_concat_self_safe', ('Definition string_concat_self_safe : bool := %s.   (* %s *)' % (safe, why)) if e else None)

    # ------------------------------------------------------------------ String_Resize
    b = fn('String_Resize')
    c = compact(b) if b else ''
    dst = r'(?:&s->val\[m\]|s->val\+m)'
    head = r'\{struct String\*s=self;size_t m=String_Len\(self\);(?P<same>if\((?:n==m|m==n)\)\{return;\})?s->val=realloc\(s->val,(?P<e>[^;]*)\);'
    forms = [
        # if (GROW) { memset } else { val[n] = 0 }
        head + r'if\((?P<grow>n>m|m<n|n>=m|m<=n)\)\{memset\(' + dst + r',0,(?P<f>[^;]*)\);\}else\{s->val\[n\]=' + Z0 + r';\}\}',
        # if (SHRINK) { val[n] = 0; return; } memset     |     if (SHRINK) { val[n] = 0; } else { memset }
        head + r'if\((?P<shr>n<m|m>n|n<=m|m>=n)\)\{s->val\[n\]=' + Z0 + r';return;\}memset\(' + dst + r',0,(?P<f>[^;]*)\);\}',
        head + r'if\((?P<shr>n<m|m>n|n<=m|m>=n)\)\{s->val\[n\]=' + Z0 + r';\}else\{memset\(' + dst + r',0,(?P<f>[^;]*)\);\}\}',
    ]
    e = ra = shr = fill = same = condtxt = None
    for f in forms:
        m = re.fullmatch(f, c)
        if m:
            ra, e = m.group('e'), _expr(m.group('e'), {'n': 'n'}, False)
            g = m.groupdict()
            if g.get('grow'):
                condtxt = 'grows when ' + g['grow']
                shr = 'n <=? m' if g['grow'] in ('n>m', 'm<n') else 'n <? m'
            else:
                condtxt = 'truncates when ' + g['shr']
                shr = 'n <? m' if g['shr'] in ('n<m', 'm>n') else 'n <=? m'
            fill = _expr(m.group('f'), {'n': 'n', 'm': 'm'}, True)
            same = 'true' if m.group('same') else 'false'
            ftxt = m.group('f')
            break
    ok = e and fill
    emit('string_resize_alloc', ('Definition string_resize_alloc (n : nat) : nat := %s.   (* source: realloc(s->val, %s) *)' % (e, ra)) if ok else None)
    emit('string_resize_same_returns', ('Definition string_resize_same_returns : bool := %s.   (* if (n == m) return; before the realloc *)' % same) if ok else None)
    emit('string_resize_shrinks', ('Definition string_resize_shrinks (n m : nat) : bool := %s.   (* source: %s; that path is s->val[n] = 0 *)' % (shr, condtxt)) if ok else None)
    emit('string_resize_fill', ('Definition string_resize_fill (n m : Z) : Z := (%s)%%Z.   (* source: memset(s->val + m, 0, %s) *)' % (fill, ftxt)) if ok else None)
    emit('string_resize_shape_ok', 'Definition string_resize_shape_ok : bool := true.   (* whole body matched an accepted shape *)' if ok else None)

    # ------------------------------------------------------------------ String_Format_To (generic branch after the last #else)
    b = fn('String_Format_To')
    if b and '#else' in b:
        b = b[b.rfind('#else'):]
    c = compact(b) if b else ''
    e = ra = safe = cap = hw = why = None
    pre0 = r'#else va_list va_tmp;va_copy\(va_tmp,va\);int size=vsnprintf\(NULL,0,fmt,va_tmp\);va_end\(va_tmp\);'
    real = r's->val=realloc\(s->val,(?P<e>[^;]*)\);'
    m = re.fullmatch(pre0 + real + r'return vsprintf\(s->val\+pos,fmt,va\);#endif\}', c)
    if m:
        ra, safe, cap, hw, why = m.group('e'), 'false', '0', 'true', 'vsprintf(s->val + pos, fmt, va) after the realloc'
    m = re.fullmatch(pre0 + r'char\*tmp=malloc\(size\+1\);vsprintf\(tmp,fmt,va\);' + real +
                     r'memcpy\(s->val\+pos,tmp,size\+1\);free\(tmp\);return size;#endif\}', c)
    if m:
        ra, safe, cap, hw, why = m.group('e'), 'true', '0', 'true', 'rendered into a heap temporary before the realloc'
    # a local buffer filled while measuring; the heap temporary only when COND
    mb = re.match(r'#else char (?P<buf>\w+)\[(?P<cap>\d+)\];', c)
    if mb:
        B, K = re.escape(mb.group('buf')), mb.group('cap')
        pre1 = (r'#else char %s\[%s\];va_list va_tmp;va_copy\(va_tmp,va\);int size=vsnprintf\(%s,(?:sizeof\(%s\)|sizeof %s|%s),fmt,va_tmp\);va_end\(va_tmp\);'
                % (B, K, B, B, B, K))
        cond = r'(?P<lhs>size|size\+1)(?P<op>>=|>)(?:sizeof\(%s\)|sizeof %s|%s)' % (B, B, K)
        tail = real + r'memcpy\(s->val\+pos,tmp,size\+1\);if\(tmp!=%s\)\{free\(tmp\);\}return size;#endif\}' % B
        m = re.fullmatch(pre1 + r'char\*tmp=%s;if\(%s\)\{tmp=malloc\(size\+1\);vsprintf\(tmp,fmt,va\);\}' % (B, cond) + tail, c) or \
            re.fullmatch(pre1 + r'char\*tmp=%s\?malloc\(size\+1\):%s;if\(tmp!=%s\)\{vsprintf\(tmp,fmt,va\);\}' % (cond, B, B) + tail, c)
        if m:
            ra, safe, cap = m.group('e'), 'true', K
            lhs = 'size' if m.group('lhs') == 'size' else 'size + 1'
            hw = ('cap <=? %s' if m.group('op') == '>=' else 'cap <? %s') % lhs
            why = ('measured into a local buffer of %s bytes, heap temporary when %s %s %s; both before the realloc'
                   % (K, m.group('lhs'), m.group('op'), K))
    e = _expr(ra, {'pos': 'pos', 'size': 'size'}, False) if ra else None
    emit('string_format_alloc', ('Definition string_format_alloc (pos size : nat) : nat := %s.   (* source: realloc(s->val, %s) *)' % (e, ra)) if e else None)
    emit('string_format_self_safe', ('Definition string_format_self_safe : bool := %s.   (* %s *)' % (safe, why)) if e else None)
    emit('string_format_local_cap', ('Definition string_format_local_cap : nat := %s.   (* size of the local buffer the measuring vsnprintf renders into; 0 = none *)' % cap) if e else None)
    emit('string_format_heap_when', ('Definition string_format_heap_when (size cap : nat) : bool := %s.   (* when the text is rendered again into a heap temporary *)' % hw) if e else None)

    # ------------------------------------------------------------------ String_Rem
    b = fn('String_Rem')
    c = inline_locals(compact(b), keep={'pos'}) if b else ''
    early = r'(?:if\((?:%s==0|0==%s|!%s)\)\{return;\})' % (NL, NL, NL)
    chk = r'(?P<chk>if\((?:pos==NULL|NULL==pos|!pos)\)\{throw\(ValueError,"",obj\);\})?'
    m = re.fullmatch(r'\{struct C_Str\*c=instance\(obj,C_Str\);if\(c&&c->c_str\)\{(?P<e1>' + early + r')?'
                     r'char\*pos=strstr\(String_C_Str\(self\),c->c_str\(obj\)\);' + chk + r'(?P<e2>' + early + r')?'
                     r'memmove\(pos,\(?pos\+' + NL + r'\)?,(?P<cnt>[^;]*)\);(?:return;)?\}(?:throw\(ValueError,"",obj\);)?\}', c)
    cnt = None
    if m:
        nl = 'strlen(c->c_str(obj))'
        cnt = _expr(m.group('cnt'), {'strlen(String_C_Str(self))': 'hl', 'strlen(pos)': 'pl', nl: 'nl',
                                     # pos points at a match of nl bytes: strlen(pos + nl) = strlen(pos) - nl
                                     'strlen(pos+%s)' % nl: '(pl - nl)', 'strlen((pos+%s))' % nl: '(pl - nl)'}, True)
    emit('string_rem_count', ('Definition string_rem_count (hl pl nl : Z) : Z := (%s)%%Z.   (* source (locals inlined): memmove(pos, pos + nl, %s)%s *)'
                              % (cnt, m.group('cnt').replace('strlen(c->c_str(obj))', 'nl'),
                                 '; an empty needle returns at once' if (m.group('e1') or m.group('e2')) else '')) if cnt else None)
    if cnt:
        emit('string_rem_checks', 'Definition string_rem_checks : bool := %s.   (* %s *)'
             % (('true', 'source: if (pos is NULL) throw(ValueError, ..) before the move') if m.group('chk')
                else ('false', 'source: no NULL check after strstr')))
    else:
        emit('string_rem_checks', None)

    # ------------------------------------------------------------------ observers: no state of their own
    def whole(name, pats, inline=False):
        b = fn(name)
        if not b:
            return False
        c = compact(b)
        if inline:
            c = inline_locals(c, keep=set())
        return any(re.fullmatch(p_, c) for p_ in pats)

    hash_ok = whole('String_Hash', [r'\{struct String\*s=self;return hash_data\(s->val,strlen\(s->val\)\);\}',
                                    r'\{return hash_data\(String_C_Str\(self\),(?:String_Len\(self\)|strlen\(String_C_Str\(self\)\))\);\}'], inline=True)
    emit('string_hash_stateless', 'Definition string_hash_stateless : bool := true.   (* String_Hash is exactly hash_data(s->val, strlen(s->val)): no static, nothing remembered *)'
         if hash_ok else None)
    obs_ok = whole('String_Len', [r'\{struct String\*s=self;return strlen\(s->val\);\}', r'\{return strlen\(String_C_Str\(self\)\);\}']) and \
        whole('String_C_Str', [r'\{struct String\*s=self;return s->val;\}']) and \
        whole('String_Cmp', [r'\{return strcmp\(String_C_Str\(self\),c_str\(obj\)\);\}']) and \
        whole('String_Mem', [r'\{struct C_Str\*c=instance\(obj,C_Str\);if\(c&&c->c_str\)\{return strstr\(String_C_Str\(self\),c->c_str\(obj\)\)(?:!=NULL)?;\}return false;\}'])
    emit('string_observers_pure', 'Definition string_observers_pure : bool := true.   (* String_Len / C_Str / Cmp / Mem are single libc calls on s->val *)'
         if obs_ok else None)
