"""genx_str.py — re-extracts from src/String.c the small rules the String model (C16) relies on:
the realloc sizes of String_Assign / String_Concat / String_Resize / String_Format_To, the byte
count String_Rem hands to memmove, whether String_Rem raises ValueError for an absent needle,
and shape checks for the parts of String_Resize / String_Rem that are modelled structurally.
Called by tools/gen_params.py: generate(repo, emit, src, func_body)."""
import re


def _expr(text, terms, signed):
    """Translate a C size expression built from known terms, integer literals, + and - into Coq.
    terms: {c_text_without_spaces: coq_var}.  nat expressions may only use +."""
    t = re.sub(r'\s+', '', text)
    for c in sorted(terms, key=len, reverse=True):
        t = t.replace(c, '@' + terms[c] + '@')
    toks = re.findall(r'@[a-z]+@|\d+|[+\-]|.', t)
    out = []
    expect_operand = True
    for k in toks:
        if expect_operand:
            if re.fullmatch(r'@[a-z]+@', k):
                out.append(k.strip('@'))
            elif re.fullmatch(r'\d+', k):
                out.append(k)
            else:
                return None
            expect_operand = False
        else:
            if k == '+' or (k == '-' and signed):
                out.append(k)
            else:
                return None
            expect_operand = True
    if expect_operand:
        return None
    return ' '.join(out)


def _realloc_arg(body):
    """second argument of the LAST `s->val = realloc(s->val, <expr>);` in body"""
    ms = re.findall(r's->val\s*=\s*realloc\s*\(\s*s->val\s*,([^;]*)\)\s*;', body)
    return ms[-1] if ms else None


def generate(repo, emit, src, func_body):
    s = src('src/String.c')

    def fn(name, ret=r'(?:static\s+)?[\w\*\s]+?'):
        return func_body(s, r'static\s+\w+\s+%s\s*\([^)]*\)\s*\{' % name)

    # --- String_Assign: two accepted shapes
    #   old: char* val = c_str(obj); .. realloc(s->val, strlen(val) + 1); .. strcpy(s->val, val);
    #   new: size_t n = strlen(c_str(obj)); .. realloc(s->val, n + 1); .. memmove(s->val, c_str(obj), n + 1);
    b = fn('String_Assign')
    ra = _realloc_arg(b) if b else None
    e, safe = None, None
    if ra and re.search(r'char\s*\*\s*val\s*=\s*c_str\s*\(\s*obj\s*\)', b) and re.search(r'strcpy\s*\(\s*s->val\s*,\s*val\s*\)', b):
        e, safe = _expr(ra, {'strlen(val)': 'vl'}, False), 'false'
    elif ra and re.search(r'size_t\s+n\s*=\s*strlen\s*\(\s*c_str\s*\(\s*obj\s*\)\s*\)\s*;', b) and \
            re.search(r'memmove\s*\(\s*s->val\s*,\s*c_str\s*\(\s*obj\s*\)\s*,\s*n\s*\+\s*1\s*\)', b) and \
            b.find('memmove') > b.find('realloc(') > b.find('size_t n'):
        e, safe = _expr(ra, {'n': 'vl'}, False), 'true'
    emit('string_assign_alloc', ('Definition string_assign_alloc (vl : nat) : nat := %s.   (* source: realloc(s->val, %s) *)'
                                 % (e, ra.strip())) if e else None)
    emit('string_assign_self_safe', ('Definition string_assign_self_safe : bool := %s.   (* %s *)'
                                     % (safe, 'length first, memmove from c_str(obj) after the realloc' if safe == 'true'
                                        else 'strcpy from a pointer fetched before the realloc')) if e else None)

    # --- String_Concat: two accepted shapes
    #   old: realloc(s->val, strlen(s->val) + strlen(c_str(obj)) + 1); .. strcat(s->val, c_str(obj));
    #   new: size_t n = strlen(s->val); size_t m = strlen(c_str(obj)); realloc(s->val, n + m + 1); ..
    #        memcpy(s->val + n, c_str(obj), m); s->val[n + m] = '\0';
    b = fn('String_Concat')
    ra = _realloc_arg(b) if b else None
    e, safe = None, None
    if ra and re.search(r'strcat\s*\(\s*s->val\s*,\s*c_str\s*\(\s*obj\s*\)\s*\)', b):
        e, safe = _expr(ra, {'strlen(s->val)': 'sl', 'strlen(c_str(obj))': 'vl'}, False), 'false'
    elif ra and re.search(r'size_t\s+n\s*=\s*strlen\s*\(\s*s->val\s*\)\s*;\s*size_t\s+m\s*=\s*strlen\s*\(\s*c_str\s*\(\s*obj\s*\)\s*\)\s*;', b) and \
            re.search(r'mem(?:cpy|move)\s*\(\s*s->val\s*\+\s*n\s*,\s*c_str\s*\(\s*obj\s*\)\s*,\s*m\s*\)\s*;\s*s->val\s*\[\s*n\s*\+\s*m\s*\]\s*=\s*\'\\0\'\s*;', b) and \
            b.find('memcpy') + b.find('memmove') + 1 > b.find('realloc(') > b.find('size_t m'):
        e, safe = _expr(ra, {'n': 'sl', 'm': 'vl'}, False), 'true'
    emit('string_concat_alloc', ('Definition string_concat_alloc (sl vl : nat) : nat := %s.   (* source: realloc(s->val, %s) *)'
                                 % (e, ra.strip())) if e else None)
    emit('string_concat_self_safe', ('Definition string_concat_self_safe : bool := %s.   (* %s *)'
                                     % (safe, 'lengths first, memcpy from c_str(obj) after the realloc, explicit terminator' if safe == 'true'
                                        else 'strcat(s->val, c_str(obj))')) if e else None)

    # --- String_Resize
    b = fn('String_Resize')
    e = _expr(_realloc_arg(b), {'n': 'n'}, False) if b and _realloc_arg(b) else None
    shape = b and re.search(r'size_t\s+m\s*=\s*String_Len\s*\(\s*self\s*\)\s*;\s*s->val\s*=\s*realloc', b) and \
        re.search(r'if\s*\(\s*n\s*>\s*m\s*\)\s*\{\s*memset\s*\(\s*&\s*s->val\s*\[\s*m\s*\]\s*,\s*0\s*,\s*n\s*-\s*m\s*\)\s*;\s*\}'
                  r'\s*else\s*\{\s*s->val\s*\[\s*n\s*\]\s*=\s*\'\\0\'\s*;\s*\}', b)
    emit('string_resize_alloc', ('Definition string_resize_alloc (n : nat) : nat := %s.   (* source: realloc(s->val, %s) *)'
                                 % (e, _realloc_arg(b).strip())) if e else None)
    emit('string_resize_shape_ok', 'Definition string_resize_shape_ok : bool := true.   (* n > m ? memset(&val[m],0,n-m) : val[n] = 0 *)'
         if shape else None)

    # --- String_Format_To (the generic branch after the last #else): two accepted shapes
    #   old: size = vsnprintf(NULL, 0, ..); realloc(s->val, pos + size + 1); return vsprintf(s->val + pos, fmt, va);
    #   new: size = vsnprintf(NULL, 0, ..); tmp = malloc(size + 1); vsprintf(tmp, fmt, va); realloc(..);
    #        memcpy(s->val + pos, tmp, size + 1); free(tmp); return size;
    b = fn('String_Format_To')
    if b and '#else' in b:
        b = b[b.rfind('#else'):]
    ra = _realloc_arg(b) if b else None
    e = _expr(ra, {'pos': 'pos', 'size': 'size'}, False) if ra else None
    safe = None
    if e and re.search(r'int\s+size\s*=\s*vsnprintf\s*\(\s*NULL\s*,\s*0\s*,\s*fmt\s*,\s*va_tmp\s*\)', b):
        if re.search(r'return\s+vsprintf\s*\(\s*s->val\s*\+\s*pos\s*,\s*fmt\s*,\s*va\s*\)', b):
            safe = 'false'
        else:
            m1 = re.search(r'char\s*\*\s*tmp\s*=\s*malloc\s*\(\s*size\s*\+\s*1\s*\)\s*;', b)
            m2 = re.search(r'vsprintf\s*\(\s*tmp\s*,\s*fmt\s*,\s*va\s*\)\s*;', b)
            m3 = re.search(r'memcpy\s*\(\s*s->val\s*\+\s*pos\s*,\s*tmp\s*,\s*size\s*\+\s*1\s*\)\s*;\s*free\s*\(\s*tmp\s*\)\s*;\s*return\s+size\s*;', b)
            if m1 and m2 and m3 and m1.start() < m2.start() < b.find('realloc(') < m3.start():
                safe = 'true'
    emit('string_format_alloc', ('Definition string_format_alloc (pos size : nat) : nat := %s.   (* source: realloc(s->val, %s) *)'
                                 % (e, ra.strip())) if safe else None)
    emit('string_format_self_safe', ('Definition string_format_self_safe : bool := %s.   (* %s *)'
                                     % (safe, 'rendered into a temporary buffer before the realloc' if safe == 'true'
                                        else 'vsprintf(s->val + pos, fmt, va) after the realloc')) if safe else None)

    # --- String_Rem
    b = fn('String_Rem')
    cnt = None
    if b:
        m = re.search(r'size_t\s+count\s*=([^;]*);', b)
        if m:
            cnt = _expr(m.group(1), {'strlen(String_C_Str(self))': 'hl', 'strlen(pos)': 'pl',
                                     'strlen(c->c_str(obj))': 'nl'}, True)
    shape = b and re.search(r'char\s*\*\s*pos\s*=\s*strstr\s*\(\s*String_C_Str\s*\(\s*self\s*\)\s*,\s*c->c_str\s*\(\s*obj\s*\)\s*\)', b) and \
        re.search(r'memmove\s*\(\s*(?:\(char\s*\*\)\s*)?pos\s*,\s*pos\s*\+\s*strlen\s*\(\s*c->c_str\s*\(\s*obj\s*\)\s*\)\s*,\s*count\s*\)', b)
    emit('string_rem_count', ('Definition string_rem_count (hl pl nl : Z) : Z := (%s)%%Z.   (* source: size_t count =%s *)'
                              % (cnt, re.sub(r'\s+', ' ', m.group(1)))) if (cnt and shape) else None)
    if b and shape:
        chk = re.search(r'if\s*\(\s*(?:pos\s+is\s+NULL|pos\s*==\s*NULL|!\s*pos|not\s+pos)\s*\)\s*\{?\s*throw\s*\(\s*ValueError\b', b)
        # the check must come before the count is computed
        if chk and b.find('size_t count') > chk.start():
            emit('string_rem_checks', 'Definition string_rem_checks : bool := true.   (* source: if (pos is NULL) throw(ValueError, ..) *)')
        else:
            emit('string_rem_checks', 'Definition string_rem_checks : bool := false.   (* source: no NULL check after strstr *)')
    else:
        emit('string_rem_checks', None)
