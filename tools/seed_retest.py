#!/usr/bin/env python3
"""tools/seed_retest.py [<name> ...] [--all] — re-run the checks recorded in seeded/<name>/meta.json against
the seeded change (scratch worktree of /repo at main, or at meta.base_commit when the patch no longer applies),
and update meta.json (`detected_by`, `caught`).  Development-time helper after a check was strengthened."""
import sys, os, json, subprocess, shutil, re, glob, time
V = os.path.dirname(os.path.dirname(os.path.abspath(__file__)))
ST = '/tmp/st'


def sh(cmd, **kw):
    try:
        p = subprocess.run(cmd, stdout=subprocess.PIPE, stderr=subprocess.STDOUT, text=True, errors='replace', **kw)
        return p.returncode, p.stdout
    except subprocess.TimeoutExpired:
        return -9, 'TIMEOUT'


def main():
    a = [x for x in sys.argv[1:] if not x.startswith('--')]
    if '--all' in sys.argv:
        a = sorted(os.path.basename(os.path.dirname(p)) for p in glob.glob(os.path.join(V, 'seeded', 'C*', 'meta.json')))
    os.makedirs(ST, exist_ok=True)
    for name in a:
        d = os.path.join(V, 'seeded', name)
        mp = os.path.join(d, 'meta.json')
        meta = json.load(open(mp))
        checks = list(meta.get('detected_by', {}).keys()) or [meta['property']]
        rd = os.path.join(ST, 'retest_' + name)
        sh(['git', '-C', '/repo', 'worktree', 'remove', '--force', rd]); shutil.rmtree(rd, ignore_errors=True)
        sh(['git', '-C', '/repo', 'worktree', 'prune'])
        sh(['git', '-C', '/repo', 'worktree', 'add', '--detach', '-f', rd, 'main'])
        rc, o = sh(['git', '-C', rd, 'apply', '--whitespace=nowarn', os.path.join(d, 'patch.diff')])
        if rc != 0 and meta.get('base_commit'):
            sh(['git', '-C', '/repo', 'worktree', 'remove', '--force', rd]); shutil.rmtree(rd, ignore_errors=True)
            sh(['git', '-C', '/repo', 'worktree', 'add', '--detach', '-f', rd, meta['base_commit']])
            rc, o = sh(['git', '-C', rd, 'apply', '--whitespace=nowarn', os.path.join(d, 'patch.diff')])
        if rc != 0:
            print(name, 'PATCH-DOES-NOT-APPLY'); continue
        det = {}
        try:
            for c in checks:
                t = time.time()
                env = dict(os.environ, CELLO_REPO=rd, VERIF_SEED='1')
                rc, o = sh([sys.executable, 'check.py', c, '--tier', 'quick'], cwd=V, env=env, timeout=3600)
                viol = [l for l in o.splitlines() if l.startswith('VIOLATION')]
                det[c] = {'rc': rc, 'violation': viol[:1], 'wall_s': round(time.time() - t, 1)}
                if viol:
                    rp = re.search(r'replay=(\S+)', viol[0])
                    if rp and os.path.exists(rp.group(1)):
                        rj = json.load(open(rp.group(1)))
                        det[c]['replay'] = {x: str(rj[x])[:400] for x in ('kind', 'case', 'why', 'theorem_or_file') if x in rj}
        finally:
            sh(['git', '-C', '/repo', 'worktree', 'remove', '--force', rd]); shutil.rmtree(rd, ignore_errors=True)
            sh(['git', '-C', V, 'checkout', '--', 'evidence'])
        old = {c: (v.get('violation') or ['silent'])[0] for c, v in meta.get('detected_by', {}).items()}
        meta.setdefault('history_of_runs', []).append({'before': old})
        meta['detected_by'] = det
        meta['caught'] = any(v['rc'] == 1 and v['violation'] for v in det.values())
        json.dump(meta, open(mp, 'w'), indent=1)
        print(name, 'CAUGHT' if meta['caught'] else 'MISSED', {c: (v['violation'][0][:110] if v['violation'] else 'silent') for c, v in det.items()})


if __name__ == '__main__':
    main()
