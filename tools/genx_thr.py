"""genx_thr.py — data of Thread.c / Exception.c / GC.c the C13 model and proofs rely on.

  thr_statics              mutable file-scope statics of Thread.c, Exception.c, GC.c (name list, in order
                           of appearance, duplicates from #if branches removed).  ThreadsProofs.v compares
                           it with the audited list: a new static is a broken obligation to be looked at.
  thr_exc_via_tls          Exception_Current is `return get(current(Thread), $S(EXCEPTION_TLS_KEY));`
  thr_gc_via_tls           GC_Current is        `return get(current(Thread), $S(GC_TLS_KEY));`
  thr_current_via_key      Thread_Current reads pthread_getspecific(Thread_Key_Wrapper) and Thread_Init_Run
                           stores the new thread's own wrapper with pthread_setspecific first
  thr_init_own_records     Thread_Init_Run creates a fresh GC and a fresh Exception for the thread and
                           deletes both after the function returned
  thr_trylock_busy_result  what Mutex_Trylock returns when pthread_mutex_trylock says EBUSY
  thr_clear_on_catch       exception_catch resets `active` when it hands the exception out (repair D3)
  thr_join_waits           Thread_Join calls pthread_join on the thread's handle
  thr_with_is_lock_unlock  Mutex's Start instance is (Mutex_Lock, Mutex_Unlock)
  thr_lock_blocking        Mutex_Lock's UNIX branch is a plain `int err = pthread_mutex_lock(&m->mutex);` (no timed /
                           try variant whose failure could be mistaken for an acquisition)
  thr_mark_own_tls_only    Thread_Mark returns at once unless self is the current thread (repair 6bcc387)
"""
import re


def _b(x):
    return 'true' if x else 'false'


def generate(repo, emit, src, func_body):
    th, ex, gc = src('src/Thread.c'), src('src/Exception.c'), src('src/GC.c')

    # ---- mutable file-scope statics
    names = []
    ok = True
    for fn, s in (('Thread.c', th), ('Exception.c', ex), ('GC.c', gc)):
        for m in re.finditer(r'^static\s+([^;{}()=]*?)\b([A-Za-z_][A-Za-z0-9_]*)\s*(\[[^\]]*\])?\s*(=[^;]*)?;', s, re.M):
            decl = m.group(1)
            if re.search(r'\bconst\b', decl):
                continue
            n = fn[:-2] + '.' + m.group(2)
            if n not in names:
                names.append(n)
    emit('thr_statics', 'Definition thr_statics : list string := [%s]%%string.' % '; '.join('"%s"' % n for n in names) if ok else None)

    # ---- per-thread singletons are found through the thread's TLS
    b = func_body(ex, r'static\s+var\s+Exception_Current\s*\(\s*void\s*\)\s*\{')
    okx = bool(b) and re.sub(r'\s+', '', b) == '{returnget(current(Thread),$S(EXCEPTION_TLS_KEY));}'
    emit('thr_exc_via_tls', 'Definition thr_exc_via_tls : bool := true.' if okx else None)
    b = func_body(gc, r'static\s+var\s+GC_Current\s*\(\s*void\s*\)\s*\{')
    okg = bool(b) and re.sub(r'\s+', '', b) == '{returnget(current(Thread),$S(GC_TLS_KEY));}'
    emit('thr_gc_via_tls', 'Definition thr_gc_via_tls : bool := true.' if okg else None)

    b = func_body(th, r'static\s+var\s+Thread_Current\s*\(\s*void\s*\)\s*\{')
    r = func_body(th, r'static\s+var\s+Thread_Init_Run\s*\(\s*var\s+self\s*\)\s*\{')
    # accepted forms of the lookup (both return the value stored under the pthread key whenever it is not NULL;
    # the NULL case - the main thread - may be inlined or live in a helper):
    #   var wrapper = pthread_getspecific(K); ... if (wrapper is NULL) { <main> } return wrapper;
    #   var wrapper = pthread_getspecific(K); if (wrapper isnt NULL) { return wrapper; } return <main helper>();
    okc = bool(b) and bool(r) and re.search(r'var\s+wrapper\s*=\s*pthread_getspecific\(\s*Thread_Key_Wrapper\s*\)', b) \
        and (re.search(r'if\s*\(\s*wrapper\s+is\s+NULL\s*\)\s*\{.*\}\s*return\s+wrapper\s*;', b, re.S)
             or re.search(r'if\s*\(\s*wrapper\s+isnt\s+NULL\s*\)\s*\{\s*return\s+wrapper\s*;\s*\}', b)) \
        and re.search(r'struct\s+Thread\s*\*\s*t\s*=\s*self\s*;\s*pthread_setspecific\(\s*Thread_Key_Wrapper\s*,\s*t\s*\)', r)
    emit('thr_current_via_key', 'Definition thr_current_via_key : bool := true.' if okc else None)
    oki = bool(r) and re.search(r'var\s+gc\s*=\s*new_raw\(\s*GC\s*,', r) and re.search(r'var\s+exc\s*=\s*new_raw\(\s*Exception\s*\)', r) \
        and re.search(r'call_with\(\s*t->func\s*,\s*t->args\s*\)[^}]*del_raw\(\s*exc\s*\)[^}]*del_raw\(\s*gc\s*\)', r, re.S)
    emit('thr_init_own_records', 'Definition thr_init_own_records : bool := true.' if oki else None)

    # ---- Mutex_Trylock on EBUSY
    b = func_body(th, r'static\s+bool\s+Mutex_Trylock\s*\(\s*var\s+self\s*\)\s*\{')
    # accepted forms: `int err = pthread_mutex_trylock(..); if (err == EBUSY) { return X; }` and
    # `switch (pthread_mutex_trylock(..)) { case EBUSY: return X; ...` - X is read from the source either way
    m = b and (re.search(r'pthread_mutex_trylock\([^)]*\)\s*;\s*if\s*\(\s*err\s*(?:==|is)\s*EBUSY\s*\)\s*\{\s*return\s+(true|false)\s*;', b)
               or re.search(r'switch\s*\(\s*pthread_mutex_trylock\([^)]*\)\s*\)\s*\{[^}]*?case\s+EBUSY\s*:\s*return\s+(true|false)\s*;', b, re.S))
    emit('thr_trylock_busy_result', ('Definition thr_trylock_busy_result : bool := %s.   (* source: if (err == EBUSY) { return %s; } *)'
                                     % ((m.group(1) or m.group(2)), (m.group(1) or m.group(2)))) if m else None)

    # ---- exception_catch: is `active` cleared when the exception is handed out?
    b = func_body(ex, r'var\s+exception_catch\s*\(\s*var\s+args\s*\)\s*\{')
    if b:
        clears = bool(re.search(r'active\s*=\s*false', b))
        emit('thr_clear_on_catch', 'Definition thr_clear_on_catch : bool := %s.' % _b(clears))
    else:
        emit('thr_clear_on_catch', None)

    # ---- Thread_Mark walks only the current thread's TLS table (repair of the C13 defect)
    b = func_body(th, r'static\s+void\s+Thread_Mark\s*\([^{]*\{')
    if b and re.search(r'mark\(\s*t->tls\s*,\s*gc\s*,\s*f\s*\)', b):
        own = bool(re.search(r'if\s*\(\s*self\s+isnt\s+Thread_Current\(\)\s*\)\s*\{\s*return\s*;\s*\}[^}]*mark\(\s*t->tls', b, re.S))
        emit('thr_mark_own_tls_only', 'Definition thr_mark_own_tls_only : bool := %s.' % _b(own))
    else:
        emit('thr_mark_own_tls_only', None)

    # ---- Mutex_Lock blocks without a deadline: plain pthread_mutex_lock in the UNIX branch
    b = func_body(th, r'static\s+void\s+Mutex_Lock\s*\(\s*var\s+self\s*\)\s*\{')
    if b:
        m = re.search(r'#if\s+defined\(CELLO_UNIX\)(.*?)#elif', b, re.S)
        unix = m.group(1) if m else b
        plain = bool(re.search(r'int\s+err\s*=\s*pthread_mutex_lock\(\s*&m->mutex\s*\)\s*;', unix)) and \
            not re.search(r'timedlock|clocklock|trylock', unix)
        emit('thr_lock_blocking', 'Definition thr_lock_blocking : bool := %s.   (* Mutex_Lock: plain blocking pthread_mutex_lock *)' % _b(plain))
    else:
        emit('thr_lock_blocking', None)

    # ---- join / with
    b = func_body(th, r'static\s+void\s+Thread_Join\s*\(\s*var\s+self\s*\)\s*\{')
    okj = bool(b) and re.search(r'if\s*\(\s*not\s+t->thread\s*\)\s*\{\s*return\s*;\s*\}\s*int\s+err\s*=\s*pthread_join\(\s*t->thread\s*,\s*NULL\s*\)', b)
    emit('thr_join_waits', 'Definition thr_join_waits : bool := true.' if okj else None)
    okw = re.search(r'Instance\(\s*Start\s*,\s*Mutex_Lock\s*,\s*Mutex_Unlock\s*,', th) and \
        re.search(r'Instance\(\s*Lock\s*,\s*Mutex_Lock\s*,\s*Mutex_Unlock\s*,\s*Mutex_Trylock\s*\)', th)
    emit('thr_with_is_lock_unlock', 'Definition thr_with_is_lock_unlock : bool := true.' if okw else None)
