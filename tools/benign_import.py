#!/usr/bin/env python3
"""tools/benign_import.py <id> : take /tmp/seed/B<id>/out/{patchK.diff,demoK.c,noteK.txt} into benign/<id>-bK/
(after confirming: patch applies to /repo's HEAD in a scratch worktree, builds, suite passes, demo passes with and without)."""
import sys, os, re, glob, json, shutil, subprocess
V = os.path.dirname(os.path.dirname(os.path.abspath(__file__)))
pid = sys.argv[1]; src = '/tmp/seed/B%s/out' % pid
def sh(cmd, **kw):
    try:
        p = subprocess.run(cmd, stdout=subprocess.PIPE, stderr=subprocess.STDOUT, text=True, errors='replace', **kw); return p.returncode, p.stdout
    except subprocess.TimeoutExpired:
        return -9, 'TIMEOUT'
def demo(rd, d, exe):
    rc, o = sh(['gcc', '-std=gnu99', '-I', rd + '/include', d, rd + '/libCello.a', '-lpthread', '-lm', '-ldl', '-rdynamic', '-o', exe])
    if rc: return rc, o
    return sh([exe], cwd=rd, timeout=600)
for patch in sorted(glob.glob(src + '/patch*.diff')):
    k = re.search(r'patch(\w+)\.diff', patch).group(1)
    name = '%s-b%s' % (pid, k); rd = '/tmp/benign_imp_' + name
    sh(['git', '-C', '/repo', 'worktree', 'remove', '--force', rd]); shutil.rmtree(rd, ignore_errors=True); sh(['git', '-C', '/repo', 'worktree', 'prune'])
    sh(['git', '-C', '/repo', 'worktree', 'add', '--detach', '-f', rd, 'main'])
    try:
        sh(['make', '-s'], cwd=rd, timeout=600)
        d = src + '/demo%s.c' % k
        rc0, o0 = demo(rd, d, rd + '/bdemo')
        rc, o = sh(['git', '-C', rd, 'apply', '--whitespace=nowarn', patch])
        if rc: print(name, 'patch does not apply'); continue
        sh(['make', '-s', 'clean'], cwd=rd); rc, o = sh(['make', '-s'], cwd=rd, timeout=600)
        if rc: print(name, 'does not build'); continue
        rc, o = sh(['sh', V + '/tools/repo_check.sh', rd], timeout=900)
        m = re.search(r'Total\s+(\d+)\s+\|\s+Passed\s+(\d+)\s+\|\s+Failed\s+(\d+)', o)
        if not m or m.group(3) != '0': print(name, 'suite fails'); continue
        sh(['make', '-s'], cwd=rd, timeout=600)
        rc1, o1 = demo(rd, d, rd + '/bdemo')
        if rc0 != 0 or rc1 != 0: print(name, 'demo: clean rc %d, patched rc %d — not accepted' % (rc0, rc1)); continue
        dd = os.path.join(V, 'benign', name); os.makedirs(dd, exist_ok=True)
        shutil.copy(patch, dd + '/patch.diff'); shutil.copy(d, dd + '/demo.c')
        note = open(src + '/note%s.txt' % k).read() if os.path.exists(src + '/note%s.txt' % k) else ''
        json.dump({'what': note, 'property': pid, 'author': 'independent sub-agent given only the property text and a scratch worktree; asked for a change that PRESERVES the property',
                   'confirmed': 'suite 133/133 with the patch; the author\'s demo passes with and without it'}, open(dd + '/meta.json', 'w'), indent=1)
        print(name, 'ACCEPTED')
    finally:
        sh(['git', '-C', '/repo', 'worktree', 'remove', '--force', rd]); shutil.rmtree(rd, ignore_errors=True)
