#!/usr/bin/env python3
"""Assemble MANIFEST.json and known_findings.json from the per-property fragments
manifest.d/<id>.json (one check entry each) and findings.d/<id>.json (list of findings).
Properties without a fragment are listed under not_applicable with the reason found in
manifest.d/not_applicable.json (default: under construction)."""
import json, os, glob, sys
V = os.path.dirname(os.path.dirname(os.path.abspath(__file__)))
props = [json.loads(l) for l in open(os.path.join(V, 'properties.jsonl'))]
checks = {}
for f in sorted(glob.glob(os.path.join(V, 'manifest.d', 'C*.json'))):
    c = json.load(open(f)); checks[c['property_id']] = c
na_reasons = {}
p = os.path.join(V, 'manifest.d', 'not_applicable.json')
if os.path.exists(p):
    na_reasons = json.load(open(p))
m = {
 "version": 1, "setup_cmd": "python3 setup.py",
 "hooks": {"guard": "CELLO_VERIF",
           "enable": "checks compile /repo/src/*.c themselves with -DCELLO_VERIF into a temp dir; no guarded source change exists (white-box access is obtained by #including src/X.c into the harness translation unit)",
           "baseline_off_cmd": "cd /repo && make check", "source_commits": [], "add_only": True},
 "engines": [{"name": "coq-model+correspondence", "path": "check.py", "serves_properties": sorted(checks),
              "kind_free_text": "Coq 8.16.1 theorems over executable Gallina models (coq/*.v); coq/Generated.v re-extracted from the C sources on every run; differential correspondence of the OCaml-extracted model and spec against the library built from /repo's working tree"}],
 "checks": [checks[k] for k in sorted(checks)],
 "notes": "See DESIGN.md; known_findings.json lists fixed and open findings; seeded/ holds independently written breaking changes and which check catches them.",
 "not_applicable": [{"property_id": p['id'], "reason": na_reasons.get(p['id'], "check under construction in this session; not yet claimed")}
                    for p in props if p['id'] not in checks],
}
json.dump(m, open(os.path.join(V, 'MANIFEST.json'), 'w'), indent=1)
fs = []
for f in sorted(glob.glob(os.path.join(V, 'findings.d', '*.json'))):
    fs += json.load(open(f))
json.dump({"_format": "status=open: genuine defect recorded rather than repaired; the check prints `KNOWN-FINDING: property=<id> <what>` and does not count a failing case whose `signature` matches. status=fixed: suppresses nothing; `line` is the record required by the interface. Assembled from findings.d/ by tools/assemble.py at development time; never written by a check.",
           "findings": fs}, open(os.path.join(V, 'known_findings.json'), 'w'), indent=1)
print('checks:', sorted(checks), 'findings:', len(fs))
