"""genx_disp.py — data for property C08 (type-class dispatch), re-extracted from the C sources.

Emits into coq/Generated.v:
  cache_wiring      : list (nat * string)   the `Type_Cache_Entry(i, Class)` lines of Type_Instance, in order
  builtin_objects   : list string           every `var X = Cello(X, ...)` / `CelloEmpty(X, ...)` object of src/*.c
  builtin_classes   : list (string * nat)   those whose `struct X` in Cello.h consists of function pointers only, with
                                            the number of members
  builtin_types     : list (string * list (string * list bool))
                                            per object its `Instance(Class, m0, m1, ...)` list in declaration order;
                                            the bool list says which members are non-NULL (padded to the class size)
  disp_*_shape_ok   : bool                  the small rules the model of Dispatch.v encodes are still the text of the
                                            source (whitespace-insensitive): cache entry macro, Type_Scan's two loops,
                                            Type_Instance, Type_Implements, the two ClassError exits of
                                            Type_Method_At_Offset, Type_Implements_Method_At_Offset, cast, the
                                            Instance/CelloObject macros, CELLO_NBUILTINS and Type_New's triples.
Also usable as a module by props/C08.py (`parse(repo)`) to generate the C table of the harness from the SAME parse.
"""
import os, re, glob


def _strip(s):
    """remove comments and the contents of string/char literals"""
    s = re.sub(r'/\*.*?\*/', ' ', s, flags=re.S)
    s = re.sub(r'//[^\n]*', ' ', s)
    s = re.sub(r'"(?:\\.|[^"\\\n])*"', '""', s)
    s = re.sub(r"'(?:\\.|[^'\\\n])'", "' '", s)
    return s


def _balanced(s, i):
    """s[i] == '(' -> index just after the matching ')'"""
    depth = 0
    j = i
    while j < len(s):
        if s[j] == '(':
            depth += 1
        elif s[j] == ')':
            depth -= 1
            if depth == 0:
                return j + 1
        j += 1
    return None


def _split_top(s):
    out, depth, cur = [], 0, []
    for ch in s:
        if ch in '([{':
            depth += 1
        elif ch in ')]}':
            depth -= 1
        if ch == ',' and depth == 0:
            out.append(''.join(cur).strip()); cur = []
        else:
            cur.append(ch)
    if ''.join(cur).strip() or out:
        out.append(''.join(cur).strip())
    return out


def _norm(s):
    return re.sub(r'\s+', '', s)


def parse(repo):
    """-> dict(wiring=[(i, name)], objects=[name], classes=[(name, nmembers)], types=[(name, [(cls, [bool])])],
               cache_num=int, problems=[str])"""
    problems = []
    hdr = _strip(open(os.path.join(repo, 'include', 'Cello.h'), errors='replace').read())
    # class structs: every field a function pointer
    structs = {}
    for m in re.finditer(r'\bstruct\s+(\w+)\s*\{([^{}]*)\}\s*;', hdr):
        fields = [f for f in m.group(2).split(';') if f.strip()]
        nfn = sum(1 for f in fields if re.search(r'\(\s*\*\s*\w+\s*\)\s*\(', f))
        structs[m.group(1)] = (len(fields), nfn)
    objects, types = [], []
    for path in sorted(glob.glob(os.path.join(repo, 'src', '*.c'))):
        s = _strip(open(path, errors='replace').read())
        for m in re.finditer(r'\bvar\s+(\w+)\s*=\s*(Cello|CelloEmpty|CelloStruct)\s*\(', s):
            end = _balanced(s, m.end() - 1)
            if end is None:
                problems.append('unbalanced declaration of %s' % m.group(1)); continue
            body = s[m.end():end - 1]
            if '#' in body:
                problems.append('preprocessor line inside the declaration of %s' % m.group(1))
            parts = _split_top(body)
            if not parts or parts[0] != m.group(1):
                problems.append('declaration of %s names %r' % (m.group(1), parts[:1])); continue
            insts = []
            for p in parts[1:]:
                mi = re.match(r'Instance\s*\((.*)\)\s*$', p, flags=re.S)
                if not mi:
                    problems.append('declaration of %s: entry %r is not Instance(...)' % (m.group(1), p[:40])); continue
                a = _split_top(mi.group(1))
                insts.append((a[0], [x != 'NULL' and x != '' for x in a[1:]]))
            objects.append(m.group(1))
            types.append((m.group(1), insts))
    classes = []
    for o in objects:
        if o in structs and structs[o][0] == structs[o][1] and structs[o][0] > 0:
            classes.append((o, structs[o][0]))
    cn = dict(classes)
    # pad member lists; an instance of something that is not a class, or with too many members, is a problem
    ptypes = []
    for (t, insts) in types:
        pi = []
        for (c, mem) in insts:
            if c not in cn:
                problems.append('%s declares Instance(%s) but struct %s is not a class struct' % (t, c, c)); continue
            if len(mem) > cn[c]:
                problems.append('%s: Instance(%s) has %d members, struct has %d' % (t, c, len(mem), cn[c])); continue
            pi.append((c, mem + [False] * (cn[c] - len(mem))))
        ptypes.append((t, pi))
    # cache wiring
    tc = _strip(open(os.path.join(repo, 'src', 'Type.c'), errors='replace').read())
    wiring = None
    m = re.search(r'static\s+var\s+Type_Instance\s*\(\s*var\s+self\s*,\s*var\s+cls\s*\)\s*\{(.*?)\n\}', tc, flags=re.S)
    wiring_form = None
    if m:
        wiring = [(int(a), b) for a, b in re.findall(r'Type_Cache_Entry\s*\(\s*(\d+)\s*,\s*(\w+)\s*\)\s*;', m.group(1))]
        wiring_form = 'chain'
        if not wiring:
            # table form: the position of a class in Type_Cache_Classes[] is its slot; the loop of Type_Instance runs
            # over exactly sizeof(table)/sizeof(table[0]) entries
            mt = re.search(r'static\s+var\s*\*\s*const\s+Type_Cache_Classes\s*\[\s*\]\s*=\s*\{([^}]*)\}\s*;', tc)
            me = re.search(r'TYPE_CACHE_CLASSES\s*=\s*sizeof\s*\(\s*Type_Cache_Classes\s*\)\s*/\s*sizeof\s*\(\s*Type_Cache_Classes\s*\[\s*0\s*\]\s*\)', tc)
            if mt and me:
                ents = [e.strip() for e in mt.group(1).split(',') if e.strip()]
                if all(re.fullmatch(r'&\s*\w+', e) for e in ents):
                    wiring = [(i, e.lstrip('&').strip()) for i, e in enumerate(ents)]
                    wiring_form = 'table'
    mc = re.search(r'#ifndef\s+CELLO_CACHE\b.*?#define\s+CELLO_CACHE_NUM\s+(\d+)', hdr, flags=re.S)
    return dict(wiring=wiring, objects=objects, classes=classes, types=ptypes, problems=problems,
                cache_num=int(mc.group(1)) if mc else None, type_c=tc, hdr=hdr,
                type_instance_body=m.group(1) if m else None, wiring_form=wiring_form)


def _coq_str(s):
    return '"%s"%%string' % s


# ---------------------------------------------------------------------------------------------------------------
# Accepted forms of the modelled rules.  Texts are compared after removing comments, the contents of string literals
# (message wording is free) and all white space.  Every form beyond the first is an equivalent shape with its
# justification; a form selects MODEL PARAMETERS (second component) for which the theorems are proved universally,
# never a different theorem.  Anything else is a missing definition = broken obligation.
TYPE_CHECK_INLINE = '#ifCELLO_METHOD_CHECK==1if(type_of(self)isntType){returnthrow(TypeError,"",type_of(self));}#endif'
TYPE_CHECK_CALL = 'Type_Check(self);'      # helper with the same test; throw does not return (outside the model: TypeError exit)
TYPE_CHECK_BODY = '{#ifCELLO_METHOD_CHECK==1if(type_of(self)isntType){throw(TypeError,"",type_of(self));}#endif}'

ENTRY_MACRO = {
    # original: read word, NULL -> scan, store (also a NULL), return the scanned value
    'if(clsislit){varinst=((var*)self)[i];if(instisNULL){inst=Type_Scan(self,lit);((var*)self)[i]=inst;}returninst;}':
        dict(skipnull=False, reread=False, helper=None),
    # helper form: `if (*slot is NULL) *slot = Type_Scan(self, cls); return *slot;` - the word is READ AGAIN for the result
    # (model parameter reread; proved: a filled word never changes and holds the declared instance)
    'if(clsislit){returnType_Cache_Fetch(self,lit,i);}':
        dict(skipnull=False, reread=True,
             helper='{var*slot=((var*)self)+i;if(*slotisNULL){*slot=Type_Scan(self,cls);}return*slot;}'),
}
INSTANCE_CHAIN = ['#ifCELLO_CACHE==1#endifreturnType_Scan(self,cls);',
                  'returnType_Scan(self,cls);']       # the #if moved around the macro definition (empty macro when the cache is off)
# table form: same first-match chain (position = slot), scan with cls (= the matched literal), store only a non-NULL
# result (model parameter skipnull; a NULL result never changes the word, which is NULL at that point)
INSTANCE_TABLE = ('#ifCELLO_CACHE==1var*slots=self;for(size_ti=0;i<TYPE_CACHE_CLASSES;i++){if(clsisnt*Type_Cache_Classes[i]){continue;}'
                  'if(slots[i]isntNULL){returnslots[i];}varinst=Type_Scan(self,cls);if(instisntNULL){slots[i]=inst;}returninst;}'
                  '#endifreturnType_Scan(self,cls);')
SCAN_FORMS = [
    'structType*t;t=(structType*)self+CELLO_NBUILTINS;while(t->name){if(t->clsiscls){returnt->inst;}t++;}'
    't=(structType*)self+CELLO_NBUILTINS;while(t->name){if(strcmp(t->name,Type_Builtin_Name(cls))is0){'
    't->cls=cls;returnt->inst;}t++;}returnNULL;}',
    # indexed loops over the same entries; pass 2 bounded by the entry count of pass 1 (names never change, so the count is
    # the same); `num is 0 -> NULL` = pass 2 over no entries; first-character test before strcmp (strings differing in their
    # first character are different; both are valid C strings, index 0 is readable): same comparisons in the same order,
    # same single store
    'structType*constinsts=(structType*)self+CELLO_NBUILTINS;size_tnum=0;for(num=0;insts[num].nameisntNULL;num++){'
    'if(insts[num].clsiscls){returninsts[num].inst;}}if(numis0){returnNULL;}constchar*cls_name=Type_Builtin_Name(cls);'
    'for(size_ti=0;i<num;i++){constchar*ins_name=insts[i].name;if(ins_name[0]isntcls_name[0]){continue;}'
    'if(strcmp(ins_name,cls_name)isnt0){continue;}insts[i].cls=cls;returninsts[i].inst;}returnNULL;}',
]
IMPLEMENTS_FORMS = {
    '{returnType_Scan(self,cls)isntNULL;}': False,
    # through the cache: same answer (theorem: both entry points return the declared instance); the entry point becomes a
    # KInstance lookup in the model (generated flag implements_uses_cache)
    '{Type_Check(self);returnType_Instance(self,cls)isntNULL;}': True,
}
MEMBER_HELPER = '{varmember;memcpy(&member,(char*)inst+offset,sizeof(var));returnmember;}'     # = *(var*)((char*)inst + offset)
THROW2 = 'returnthrow(ClassError,"",$S(Type_Builtin_Name(self)),$S(Type_Builtin_Name(cls)));'
THROW3 = 'returnthrow(ClassError,"",$S(Type_Builtin_Name(self)),$S(Type_Builtin_Name(cls)),$(String,(char*)method_name));'
METHOD_FORMS = {
    '{varinst=Type_Instance(self,cls);#ifCELLO_METHOD_CHECK==1if(instisNULL){' + THROW2 + '}#endif'
    '#ifCELLO_METHOD_CHECK==1varmeth=*((var*)(((char*)inst)+offset));if(methisNULL){' + THROW3 + '}#endifreturninst;}': None,
    # merged test (`or` short-circuits: the member is fetched only from a non-NULL instance) and both ClassError throws in a helper
    '{varinst=Type_Instance(self,cls);#ifCELLO_METHOD_CHECK==1if(instisNULLorType_Member_At_Offset(inst,offset)isNULL){'
    'returnType_Method_Missing(self,cls,inst,method_name);}#endifreturninst;}':
        '{if(instisntNULL){' + THROW3 + '}' + THROW3 + '}',
}
IMPL_METHOD_FORMS = {
    '{varinst=Type_Scan(self,cls);if(instisNULL){returnfalse;}varmeth=*((var*)(((char*)inst)+offset));'
    'if(methisNULL){returnfalse;}returntrue;}': (False, False),
    '{varinst=Type_Scan(self,cls);returninstisntNULLandType_Member_At_Offset(inst,offset)isntNULL;}': (False, True),
    '{Type_Check(self);varinst=Type_Instance(self,cls);if(instisNULL){returnfalse;}return*((var*)(((char*)inst)+offset))isntNULL;}': (True, False),
}
CAST_FORMS = [
    '{structCast*c=instance(self,Cast);if(candc->cast){returnc->cast(self,type);}if(type_of(self)istype){returnself;}'
    'else{returnthrow(ValueError,"",$S(c_str(type_of(self))),$S(c_str(type)));}}',
    # type_of(self) computed once, branches swapped
    '{structCast*c=instance(self,Cast);if(candc->cast){returnc->cast(self,type);}varactual=type_of(self);'
    'if(actualisnttype){returnthrow(ValueError,"",$S(c_str(actual)),$S(c_str(type)));}returnself;}',
]


def _shapes(P, func_body):
    """-> (name -> bool : the rule is one of the accepted forms,  params : dict or None)"""
    tc, hdr = P['type_c'], P['hdr']
    sh = {}
    par = dict(skipnull=False, reread=False, implements_cache=False, implements_method_cache=False)

    def body(rx):
        b = func_body(tc, rx)
        return _norm(b) if b else None
    tcheck_ok = body(r'static\s+void\s+Type_Check\s*\(\s*var\s+self\s*\)\s*\{') == TYPE_CHECK_BODY
    member_ok = body(r'static\s+var\s+Type_Member_At_Offset\s*\(\s*var\s+inst\s*,\s*size_t\s+offset\s*\)\s*\{') == MEMBER_HELPER
    # cache entry + Type_Instance
    b = P['type_instance_body']
    if P.get('wiring_form') == 'table':
        sh['disp_cache_entry_shape_ok'] = True
        sh['disp_type_instance_shape_ok'] = b is not None and _norm(b) == INSTANCE_TABLE
        par['skipnull'] = True
    else:
        macros = [_norm(x.group(1).replace('\\\n', ' ')) for x in
                  re.finditer(r'#define\s+Type_Cache_Entry\s*\(\s*i\s*,\s*lit\s*\)((?:.*\\\n)*.*)', tc)]
        macros = [x for x in macros if x]          # an empty definition belongs to the cache-off branch
        form = ENTRY_MACRO.get(macros[0]) if len(macros) == 1 else None
        ok = form is not None
        if ok and form['helper']:
            ok = body(r'static\s+var\s+Type_Cache_Fetch\s*\(\s*var\s+self\s*,\s*var\s+cls\s*,\s*size_t\s+i\s*\)\s*\{') == form['helper']
        sh['disp_cache_entry_shape_ok'] = ok
        if ok:
            par['skipnull'], par['reread'] = form['skipnull'], form['reread']
        ok = b is not None
        if ok:
            rest = re.sub(r'Type_Cache_Entry\s*\(\s*\d+\s*,\s*\w+\s*\)\s*;', '', b)
            ok = _norm(rest) in INSTANCE_CHAIN
        sh['disp_type_instance_shape_ok'] = ok
    # Type_Scan
    b = body(r'static\s+var\s+Type_Scan\s*\(\s*var\s+self\s*,\s*var\s+cls\s*\)\s*\{')
    ok = False
    if b:
        for f in SCAN_FORMS:
            if b == '{' + TYPE_CHECK_INLINE + f or (b == '{' + TYPE_CHECK_CALL + f and tcheck_ok):
                ok = True
    sh['disp_type_scan_shape_ok'] = ok and \
        bool(re.search(r'static\s+char\*\s*Type_Builtin_Name\s*\(\s*struct\s+Type\*\s*t\s*\)\s*\{\s*return\s+t\[\(CELLO_CACHE_NUM\s*/\s*3\)\+0\]\.inst;\s*\}', tc))
    # implements
    b = body(r'static\s+bool\s+Type_Implements\s*\(\s*var\s+self\s*,\s*var\s+cls\s*\)\s*\{')
    ok = b in IMPLEMENTS_FORMS and (not IMPLEMENTS_FORMS[b] or tcheck_ok)
    if ok:
        par['implements_cache'] = IMPLEMENTS_FORMS[b]
    sh['disp_implements_shape_ok'] = ok and \
        bool(re.search(r'bool\s+implements\s*\(\s*var\s+self\s*,\s*var\s+cls\s*\)\s*\{\s*return\s+Type_Implements\s*\(\s*Type_Of\s*\(\s*self\s*\)\s*,\s*cls\s*\)\s*;\s*\}', tc)) and \
        bool(re.search(r'var\s+instance\s*\(\s*var\s+self\s*,\s*var\s+cls\s*\)\s*\{\s*return\s+Type_Instance\s*\(\s*Type_Of\s*\(\s*self\s*\)\s*,\s*cls\s*\)\s*;\s*\}', tc))
    # method_at_offset
    b = body(r'static\s+var\s+Type_Method_At_Offset\s*\([^)]*\)\s*\{')
    ok = b in METHOD_FORMS
    if ok and METHOD_FORMS[b]:
        ok = member_ok and body(r'static\s+var\s+Type_Method_Missing\s*\([^)]*\)\s*\{') == METHOD_FORMS[b]
    sh['disp_method_check_shape_ok'] = ok
    b = body(r'static\s+bool\s+Type_Implements_Method_At_Offset\s*\([^)]*\)\s*\{')
    ok = b in IMPL_METHOD_FORMS
    if ok:
        cached, needs_member = IMPL_METHOD_FORMS[b]
        ok = (not needs_member or member_ok) and (not cached or tcheck_ok)
        par['implements_method_cache'] = cached
    sh['disp_implements_method_shape_ok'] = ok
    sh['disp_cast_shape_ok'] = body(r'\nvar\s+cast\s*\(\s*var\s+self\s*,\s*var\s+type\s*\)\s*\{') in CAST_FORMS
    ok = bool(re.search(r'#define\s+Instance\s*\(\s*I\s*,\s*\.\.\.\s*\)\s+NULL\s*,\s*#I\s*,\s*&\(\(struct\s+I\)\{__VA_ARGS__\}\)', hdr))
    m = re.search(r'#define\s+CelloObject\s*\(\s*T\s*,\s*S\s*,\s*\.\.\.\s*\)((?:.*\\\n)*.*)', hdr)
    want = ('(var)((char*)((var[]){NULL,CELLO_ALLOC_HEADERCELLO_MAGIC_HEADERCELLO_CACHE_HEADERNULL,"",#T,NULL,"",(var)S,'
            '##__VA_ARGS__,NULL,NULL,NULL})+sizeof(structHeader))')
    ok = ok and bool(m) and _norm(m.group(1).replace('\\\n', ' ')) == want
    ok = ok and bool(re.search(r'CELLO_NBUILTINS\s*=\s*2\s*\+\s*\(CELLO_CACHE_NUM\s*/\s*3\)', tc))
    ok = ok and bool(re.search(r't\[CELLO_NBUILTINS-2\+i\]\s*=\s*\(struct\s+Type\)\s*\{\s*NULL\s*,\s*\(var\)c_str\(type_of\(ins\)\)\s*,\s*ins\s*\}\s*;', tc))
    ok = ok and bool(re.search(r't\[CELLO_NBUILTINS\+len\(args\)-2\]\s*=\s*\(struct\s+Type\)\s*\{\s*NULL\s*,\s*NULL\s*,\s*NULL\s*\}\s*;', tc))
    m = re.search(r'#define\s+CELLO_CACHE_HEADER\s*\\\n((?:.*\\\n)*.*)', hdr)
    ok = ok and P['cache_num'] is not None and bool(m) and \
        _norm(m.group(1).replace('\\\n', ' ')) == 'NULL,' * P['cache_num']
    sh['disp_declaration_shape_ok'] = ok
    return sh, par


def fresh_type_facts(P, func_body):
    """how a run-time type's cache words start: (Type_Alloc zeroes the block?, number of leading words Type_New clears)"""
    tc, n = P['type_c'], P['cache_num']
    b = func_body(tc, r'static\s+var\s+Type_Alloc\s*\(\s*void\s*\)\s*\{')
    zeroed = None
    if b:
        nb = _norm(b)
        if 'structHeader*head=calloc(1,' in nb:
            zeroed = True
        elif 'structHeader*head=malloc(' in nb:
            zeroed = False
    b = func_body(tc, r'static\s+void\s+Type_New\s*\(\s*var\s+self\s*,\s*var\s+args\s*\)\s*\{')
    cleared = None
    if b and n is not None:
        nb = _norm(b)
        if 'structType*t=self;' in nb and 'size_tcache_entries=CELLO_CACHE_NUM/3;' in nb:
            if 'for(size_ti=0;i<cache_entries;i++){t[i]=(structType){NULL,NULL,NULL};}' in nb:
                cleared = 3 * (n // 3)
            elif 'memset(t,0,sizeof(structType)*cache_entries);' in nb:
                cleared = 3 * (n // 3)
            elif 'memset(t,0,sizeof(var)*cache_entries);' in nb:
                cleared = n // 3
            elif 'memset(t,0,sizeof(var)*CELLO_CACHE_NUM);' in nb:
                cleared = n
            else:
                cleared = 0
    return zeroed, cleared


def generate(repo, emit, src, func_body):
    P = parse(repo)
    w = P['wiring']
    emit('cache_wiring', None if not w else
         'Definition cache_wiring : list (nat * string) := [%s].' % '; '.join('(%d, %s)' % (i, _coq_str(c)) for i, c in w))
    bad = P['problems']
    emit('builtin_objects', None if bad or not P['objects'] else
         'Definition builtin_objects : list string := [%s].' % '; '.join(_coq_str(o) for o in P['objects']))
    emit('builtin_classes', None if bad or not P['classes'] else
         'Definition builtin_classes : list (string * nat) := [%s].' % '; '.join('(%s, %d)' % (_coq_str(c), n) for c, n in P['classes']))

    def bl(xs):
        return '[' + '; '.join('true' if x else 'false' for x in xs) + ']'
    emit('builtin_types', None if bad or not P['types'] else
         'Definition builtin_types : list (string * list (string * list bool)) := [\n%s].' % ';\n'.join(
             '  (%s, [%s])' % (_coq_str(t), '; '.join('(%s, %s)' % (_coq_str(c), bl(m)) for c, m in insts))
             for t, insts in P['types']))
    sh, par = _shapes(P, func_body)
    for k, v in sorted(sh.items()):
        emit(k, ('Definition %s : bool := true.' % k) if v else None)

    def cb(x):
        return 'true' if x else 'false'
    # parameters selected by the recognised forms (the theorems quantify over them)
    emit('cache_write_skips_null', 'Definition cache_write_skips_null : bool := %s.' % cb(par['skipnull']))
    emit('cache_fetch_rereads', 'Definition cache_fetch_rereads : bool := %s.' % cb(par['reread']))
    emit('implements_uses_cache', 'Definition implements_uses_cache : bool := %s.' % cb(par['implements_cache']))
    emit('implements_method_uses_cache', 'Definition implements_method_uses_cache : bool := %s.' % cb(par['implements_method_cache']))
    zeroed, cleared = fresh_type_facts(P, func_body)
    emit('type_alloc_zeroed', None if zeroed is None else 'Definition type_alloc_zeroed : bool := %s.' % cb(zeroed))
    emit('type_new_cleared_words', None if cleared is None else 'Definition type_new_cleared_words : nat := %d.' % cleared)
