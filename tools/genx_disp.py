"""genx_disp.py — data for property C08 (type-class dispatch), re-extracted from the C sources.

Emits into coq/Generated.v:
  cache_wiring      : list (nat * string)   the `Type_Cache_Entry(i, Class)` lines of Type_Instance, in order
  builtin_objects   : list string           every `var X = Cello(X, ...)` / `CelloEmpty(X, ...)` object of src/*.c
  builtin_classes   : list (string * nat)   those whose `struct X` in Cello.h consists of function pointers only, with
                                            the number of members
  builtin_types     : list (string * list (string * list bool))
                                            per object its `Instance(Class, m0, m1, ...)` list in declaration order;
                                            the bool list says which members are non-NULL (padded to the class size)
  disp_*_shape_ok   : bool                  the small rules the model of Dispatch.v encodes are still the text of the
                                            source (whitespace-insensitive): cache entry macro, Type_Scan's two loops,
                                            Type_Instance, Type_Implements, the two ClassError exits of
                                            Type_Method_At_Offset, Type_Implements_Method_At_Offset, cast, the
                                            Instance/CelloObject macros, CELLO_NBUILTINS and Type_New's triples.
Also usable as a module by props/C08.py (`parse(repo)`) to generate the C table of the harness from the SAME parse.
"""
import os, re, glob


def _strip(s):
    """remove comments and the contents of string/char literals"""
    s = re.sub(r'/\*.*?\*/', ' ', s, flags=re.S)
    s = re.sub(r'//[^\n]*', ' ', s)
    s = re.sub(r'"(?:\\.|[^"\\\n])*"', '""', s)
    s = re.sub(r"'(?:\\.|[^'\\\n])'", "' '", s)
    return s


def _balanced(s, i):
    """s[i] == '(' -> index just after the matching ')'"""
    depth = 0
    j = i
    while j < len(s):
        if s[j] == '(':
            depth += 1
        elif s[j] == ')':
            depth -= 1
            if depth == 0:
                return j + 1
        j += 1
    return None


def _split_top(s):
    out, depth, cur = [], 0, []
    for ch in s:
        if ch in '([{':
            depth += 1
        elif ch in ')]}':
            depth -= 1
        if ch == ',' and depth == 0:
            out.append(''.join(cur).strip()); cur = []
        else:
            cur.append(ch)
    if ''.join(cur).strip() or out:
        out.append(''.join(cur).strip())
    return out


def _norm(s):
    return re.sub(r'\s+', '', s)


def parse(repo):
    """-> dict(wiring=[(i, name)], objects=[name], classes=[(name, nmembers)], types=[(name, [(cls, [bool])])],
               cache_num=int, problems=[str])"""
    problems = []
    hdr = _strip(open(os.path.join(repo, 'include', 'Cello.h'), errors='replace').read())
    # class structs: every field a function pointer
    structs = {}
    for m in re.finditer(r'\bstruct\s+(\w+)\s*\{([^{}]*)\}\s*;', hdr):
        fields = [f for f in m.group(2).split(';') if f.strip()]
        nfn = sum(1 for f in fields if re.search(r'\(\s*\*\s*\w+\s*\)\s*\(', f))
        structs[m.group(1)] = (len(fields), nfn)
    objects, types = [], []
    for path in sorted(glob.glob(os.path.join(repo, 'src', '*.c'))):
        s = _strip(open(path, errors='replace').read())
        for m in re.finditer(r'\bvar\s+(\w+)\s*=\s*(Cello|CelloEmpty|CelloStruct)\s*\(', s):
            end = _balanced(s, m.end() - 1)
            if end is None:
                problems.append('unbalanced declaration of %s' % m.group(1)); continue
            body = s[m.end():end - 1]
            if '#' in body:
                problems.append('preprocessor line inside the declaration of %s' % m.group(1))
            parts = _split_top(body)
            if not parts or parts[0] != m.group(1):
                problems.append('declaration of %s names %r' % (m.group(1), parts[:1])); continue
            insts = []
            for p in parts[1:]:
                mi = re.match(r'Instance\s*\((.*)\)\s*$', p, flags=re.S)
                if not mi:
                    problems.append('declaration of %s: entry %r is not Instance(...)' % (m.group(1), p[:40])); continue
                a = _split_top(mi.group(1))
                insts.append((a[0], [x != 'NULL' and x != '' for x in a[1:]]))
            objects.append(m.group(1))
            types.append((m.group(1), insts))
    classes = []
    for o in objects:
        if o in structs and structs[o][0] == structs[o][1] and structs[o][0] > 0:
            classes.append((o, structs[o][0]))
    cn = dict(classes)
    # pad member lists; an instance of something that is not a class, or with too many members, is a problem
    ptypes = []
    for (t, insts) in types:
        pi = []
        for (c, mem) in insts:
            if c not in cn:
                problems.append('%s declares Instance(%s) but struct %s is not a class struct' % (t, c, c)); continue
            if len(mem) > cn[c]:
                problems.append('%s: Instance(%s) has %d members, struct has %d' % (t, c, len(mem), cn[c])); continue
            pi.append((c, mem + [False] * (cn[c] - len(mem))))
        ptypes.append((t, pi))
    # cache wiring
    tc = _strip(open(os.path.join(repo, 'src', 'Type.c'), errors='replace').read())
    wiring = None
    m = re.search(r'static\s+var\s+Type_Instance\s*\(\s*var\s+self\s*,\s*var\s+cls\s*\)\s*\{(.*?)\n\}', tc, flags=re.S)
    if m:
        wiring = [(int(a), b) for a, b in re.findall(r'Type_Cache_Entry\s*\(\s*(\d+)\s*,\s*(\w+)\s*\)\s*;', m.group(1))]
    mc = re.search(r'#ifndef\s+CELLO_CACHE\b.*?#define\s+CELLO_CACHE_NUM\s+(\d+)', hdr, flags=re.S)
    return dict(wiring=wiring, objects=objects, classes=classes, types=ptypes, problems=problems,
                cache_num=int(mc.group(1)) if mc else None, type_c=tc, hdr=hdr,
                type_instance_body=m.group(1) if m else None)


def _coq_str(s):
    return '"%s"%%string' % s


def _shapes(P, func_body):
    """name -> bool : the rule is textually what Dispatch.v models"""
    tc, hdr = P['type_c'], P['hdr']
    sh = {}
    m = re.search(r'#define\s+Type_Cache_Entry\s*\(\s*i\s*,\s*lit\s*\)((?:.*\\\n)*.*)', tc)
    want = 'if(clsislit){varinst=((var*)self)[i];if(instisNULL){inst=Type_Scan(self,lit);((var*)self)[i]=inst;}returninst;}'
    sh['disp_cache_entry_shape_ok'] = bool(m) and _norm(m.group(1).replace('\\\n', ' ')) == want
    b = P['type_instance_body']
    ok = b is not None
    if ok:
        rest = re.sub(r'Type_Cache_Entry\s*\(\s*\d+\s*,\s*\w+\s*\)\s*;', '', b)
        ok = _norm(rest) == '#ifCELLO_CACHE==1#endifreturnType_Scan(self,cls);'
    sh['disp_type_instance_shape_ok'] = ok
    b = func_body(tc, r'static\s+var\s+Type_Scan\s*\(\s*var\s+self\s*,\s*var\s+cls\s*\)\s*\{')
    want = ('structType*t;t=(structType*)self+CELLO_NBUILTINS;while(t->name){if(t->clsiscls){returnt->inst;}t++;}'
            't=(structType*)self+CELLO_NBUILTINS;while(t->name){if(strcmp(t->name,Type_Builtin_Name(cls))is0){'
            't->cls=cls;returnt->inst;}t++;}returnNULL;}')
    sh['disp_type_scan_shape_ok'] = bool(b) and _norm(b).endswith(want) and 'Type_Builtin_Name' in tc and \
        bool(re.search(r'static\s+char\*\s*Type_Builtin_Name\s*\(\s*struct\s+Type\*\s*t\s*\)\s*\{\s*return\s+t\[\(CELLO_CACHE_NUM\s*/\s*3\)\+0\]\.inst;\s*\}', tc))
    b = func_body(tc, r'static\s+bool\s+Type_Implements\s*\(\s*var\s+self\s*,\s*var\s+cls\s*\)\s*\{')
    sh['disp_implements_shape_ok'] = bool(b) and _norm(b) == '{returnType_Scan(self,cls)isntNULL;}' and \
        bool(re.search(r'bool\s+implements\s*\(\s*var\s+self\s*,\s*var\s+cls\s*\)\s*\{\s*return\s+Type_Implements\s*\(\s*Type_Of\s*\(\s*self\s*\)\s*,\s*cls\s*\)\s*;\s*\}', tc)) and \
        bool(re.search(r'var\s+instance\s*\(\s*var\s+self\s*,\s*var\s+cls\s*\)\s*\{\s*return\s+Type_Instance\s*\(\s*Type_Of\s*\(\s*self\s*\)\s*,\s*cls\s*\)\s*;\s*\}', tc))
    b = func_body(tc, r'static\s+var\s+Type_Method_At_Offset\s*\([^)]*\)\s*\{')
    want = ('{varinst=Type_Instance(self,cls);#ifCELLO_METHOD_CHECK==1if(instisNULL){returnthrow(ClassError,"",$S(Type_Builtin_Name(self)),$S(Type_Builtin_Name(cls)));}#endif'
            '#ifCELLO_METHOD_CHECK==1varmeth=*((var*)(((char*)inst)+offset));if(methisNULL){returnthrow(ClassError,"",'
            '$S(Type_Builtin_Name(self)),$S(Type_Builtin_Name(cls)),$(String,(char*)method_name));}#endifreturninst;}')
    sh['disp_method_check_shape_ok'] = bool(b) and _norm(b) == want
    b = func_body(tc, r'static\s+bool\s+Type_Implements_Method_At_Offset\s*\([^)]*\)\s*\{')
    want = ('{varinst=Type_Scan(self,cls);if(instisNULL){returnfalse;}varmeth=*((var*)(((char*)inst)+offset));'
            'if(methisNULL){returnfalse;}returntrue;}')
    sh['disp_implements_method_shape_ok'] = bool(b) and _norm(b) == want
    b = func_body(tc, r'\nvar\s+cast\s*\(\s*var\s+self\s*,\s*var\s+type\s*\)\s*\{')
    want = ('{structCast*c=instance(self,Cast);if(candc->cast){returnc->cast(self,type);}if(type_of(self)istype){returnself;}'
            'else{returnthrow(ValueError,"",$S(c_str(type_of(self))),$S(c_str(type)));}}')
    sh['disp_cast_shape_ok'] = bool(b) and _norm(b) == want
    ok = bool(re.search(r'#define\s+Instance\s*\(\s*I\s*,\s*\.\.\.\s*\)\s+NULL\s*,\s*#I\s*,\s*&\(\(struct\s+I\)\{__VA_ARGS__\}\)', hdr))
    m = re.search(r'#define\s+CelloObject\s*\(\s*T\s*,\s*S\s*,\s*\.\.\.\s*\)((?:.*\\\n)*.*)', hdr)
    want = ('(var)((char*)((var[]){NULL,CELLO_ALLOC_HEADERCELLO_MAGIC_HEADERCELLO_CACHE_HEADERNULL,"",#T,NULL,"",(var)S,'
            '##__VA_ARGS__,NULL,NULL,NULL})+sizeof(structHeader))')
    ok = ok and bool(m) and _norm(m.group(1).replace('\\\n', ' ')) == want
    ok = ok and bool(re.search(r'CELLO_NBUILTINS\s*=\s*2\s*\+\s*\(CELLO_CACHE_NUM\s*/\s*3\)', tc))
    ok = ok and bool(re.search(r't\[CELLO_NBUILTINS-2\+i\]\s*=\s*\(struct\s+Type\)\s*\{\s*NULL\s*,\s*\(var\)c_str\(type_of\(ins\)\)\s*,\s*ins\s*\}\s*;', tc))
    ok = ok and bool(re.search(r't\[CELLO_NBUILTINS\+len\(args\)-2\]\s*=\s*\(struct\s+Type\)\s*\{\s*NULL\s*,\s*NULL\s*,\s*NULL\s*\}\s*;', tc))
    m = re.search(r'#define\s+CELLO_CACHE_HEADER\s*\\\n((?:.*\\\n)*.*)', hdr)
    ok = ok and P['cache_num'] is not None and bool(m) and \
        _norm(m.group(1).replace('\\\n', ' ')) == 'NULL,' * P['cache_num']
    sh['disp_declaration_shape_ok'] = ok
    return sh


def generate(repo, emit, src, func_body):
    P = parse(repo)
    w = P['wiring']
    emit('cache_wiring', None if not w else
         'Definition cache_wiring : list (nat * string) := [%s].' % '; '.join('(%d, %s)' % (i, _coq_str(c)) for i, c in w))
    bad = P['problems']
    emit('builtin_objects', None if bad or not P['objects'] else
         'Definition builtin_objects : list string := [%s].' % '; '.join(_coq_str(o) for o in P['objects']))
    emit('builtin_classes', None if bad or not P['classes'] else
         'Definition builtin_classes : list (string * nat) := [%s].' % '; '.join('(%s, %d)' % (_coq_str(c), n) for c, n in P['classes']))

    def bl(xs):
        return '[' + '; '.join('true' if x else 'false' for x in xs) + ']'
    emit('builtin_types', None if bad or not P['types'] else
         'Definition builtin_types : list (string * list (string * list bool)) := [\n%s].' % ';\n'.join(
             '  (%s, [%s])' % (_coq_str(t), '; '.join('(%s, %s)' % (_coq_str(c), bl(m)) for c, m in insts))
             for t, insts in P['types']))
    for k, v in sorted(_shapes(P, func_body).items()):
        emit(k, ('Definition %s : bool := true.' % k) if v else None)
