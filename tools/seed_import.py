#!/usr/bin/env python3
"""tools/seed_import.py <ID> [<srcdir>] [--checks Cxx,Cyy] — import independently written breaking
changes (written by a fresh sub-agent that saw only the property text and a scratch worktree)
from /tmp/seed/<ID>/out/{patchK.diff, demoK.c, noteK.txt} into /verif/seeded/<ID>-K/ after
CONFIRMING them in a scratch worktree of /repo (outside /repo and /verif, removed afterwards):
  1. clean tree: build, demo compiles and PASSES (exit 0)
  2. patch applies; library builds; `make check` passes completely; demo FAILS (non-zero exit,
     signal or timeout)
Then runs the check(s) of the property (and any given with --checks) against the patched scratch
tree (CELLO_REPO=<scratch>) and records in meta.json which checks report a VIOLATION.
A change that cannot be confirmed is not kept."""
import sys, os, json, subprocess, shutil, re, glob, time

V = os.path.dirname(os.path.dirname(os.path.abspath(__file__)))
ST = '/tmp/st'


def sh(cmd, **kw):
    try:
        p = subprocess.run(cmd, stdout=subprocess.PIPE, stderr=subprocess.STDOUT, text=True, errors='replace', **kw)
        return p.returncode, p.stdout
    except subprocess.TimeoutExpired as e:
        return -9, 'TIMEOUT'


DEMO_FLAGS = None   # --demo-flags "-O2 -DCELLO_NGC": build the demo together with the library sources in that configuration


def build_demo(rd, demo, exe):
    if DEMO_FLAGS is not None:
        return sh(['gcc', '-std=gnu99', '-DCELLO_NSTRACE'] + DEMO_FLAGS.split() + ['-I', os.path.join(rd, 'include'), demo] +
                  sorted(glob.glob(os.path.join(rd, 'src', '*.c'))) + ['-lpthread', '-lm', '-o', exe], timeout=600)
    rc, o = sh(['gcc', '-std=gnu99', '-I', os.path.join(rd, 'include'), demo, os.path.join(rd, 'libCello.a'),
                '-lpthread', '-lm', '-ldl', '-rdynamic', '-o', exe])
    return rc, o


def suite(rd):
    rc, o = sh(['sh', os.path.join(V, 'tools', 'repo_check.sh'), rd], timeout=900)
    m = re.search(r'Tests\s+\|\|\s+Total\s+(\d+)\s+\|\s+Passed\s+(\d+)\s+\|\s+Failed\s+(\d+)', o)
    return (m.group(0) if m else o[-300:]), bool(m and m.group(3) == '0' and int(m.group(1)) >= 133)


def main():
    a = sys.argv[1:]
    pid = a[0]
    src = os.path.abspath(a[1] if len(a) > 1 and not a[1].startswith('--') else '/tmp/seed/%s/out' % pid)
    checks = [pid]
    base = 'main'
    if '--base' in a:          # a seed written against an earlier head that no longer applies to main
        base = a[a.index('--base') + 1]
    only = a[a.index('--only') + 1].split(',') if '--only' in a else None
    tag = a[a.index('--tag') + 1] if '--tag' in a else ''     # second-round seeds: C02-r2-1 ...
    global DEMO_FLAGS
    if '--demo-flags' in a:
        DEMO_FLAGS = a[a.index('--demo-flags') + 1]
    if '--checks' in a:
        checks = a[a.index('--checks') + 1].split(',')
    os.makedirs(ST, exist_ok=True)
    for patch in sorted(glob.glob(os.path.join(src, 'patch*.diff'))):
        k = re.search(r'patch(\w+)\.diff', patch).group(1)
        if only and k not in only:
            continue
        demo = os.path.join(src, 'demo%s.c' % k)
        note = os.path.join(src, 'note%s.txt' % k)
        name = '%s-%s%s' % (pid, (tag + '-') if tag else '', k)
        rd = os.path.join(ST, 'seed_' + name)
        sh(['git', '-C', '/repo', 'worktree', 'remove', '--force', rd]); shutil.rmtree(rd, ignore_errors=True)
        sh(['git', '-C', '/repo', 'worktree', 'prune'])
        rc, o = sh(['git', '-C', '/repo', 'worktree', 'add', '--detach', '-f', rd, base])
        meta = {'property': pid, 'name': name, 'base_commit': sh(['git', '-C', '/repo', 'rev-parse', '--short', base])[1].strip(),
                'author': 'independent sub-agent given only the property text and a scratch worktree',
                'needs_to_manifest': open(note).read() if os.path.exists(note) else '', 'ran': []}
        ok = False
        try:
            sh(['make', '-s'], cwd=rd, timeout=600)
            exe = os.path.join(rd, 'seed_demo')
            rc, o = build_demo(rd, demo, exe)
            if rc != 0:
                print(name, 'demo does not build on the clean tree:', o[-300:]); continue
            rc, o = sh([exe], cwd=rd, timeout=120)
            meta['ran'].append('clean tree: demo exit %d%s' % (rc, (' (demo built with the library sources and ' + DEMO_FLAGS + ')') if DEMO_FLAGS is not None else ''))
            if rc != 0:
                print(name, 'demo FAILS on the clean tree (exit %d): %s' % (rc, o[-200:])); continue
            rc, o = sh(['git', '-C', rd, 'apply', '--whitespace=nowarn', patch])
            if rc != 0:
                print(name, 'patch does not apply:', o[-200:]); continue
            sh(['make', '-s', 'clean'], cwd=rd); rc, o = sh(['make', '-s'], cwd=rd, timeout=600)
            if rc != 0:
                print(name, 'patched tree does not build'); continue
            st, good = suite(rd)
            meta['ran'].append('patched tree: make check: ' + st)
            if not good:
                print(name, 'suite fails with the patch:', st); continue
            sh(['make', '-s'], cwd=rd, timeout=600)
            rc, o = build_demo(rd, demo, exe)
            rc, o = sh([exe], cwd=rd, timeout=120)
            meta['ran'].append('patched tree: demo exit %d: %s' % (rc, o.strip().splitlines()[-1][:160] if o.strip() else ''))
            if rc == 0:
                print(name, 'demo PASSES with the patch — not a confirmed break'); continue
            os.remove(exe)
            ok = True
            det = {}
            for c in checks:
                t = time.time()
                env = dict(os.environ, CELLO_REPO=rd, VERIF_SEED='1')
                rc, o = sh([sys.executable, 'check.py', c, '--tier', 'quick'], cwd=V, env=env, timeout=3600)
                viol = [l for l in o.splitlines() if l.startswith('VIOLATION')]
                det[c] = {'rc': rc, 'violation': viol[:1], 'wall_s': round(time.time() - t, 1)}
                if viol:
                    rp = re.search(r'replay=(\S+)', viol[0])
                    if rp and os.path.exists(rp.group(1)):
                        rj = json.load(open(rp.group(1)))
                        det[c]['replay'] = {x: str(rj[x])[:400] for x in ('kind', 'case', 'why', 'theorem_or_file') if x in rj}
                meta['ran'].append('CELLO_REPO=<patched scratch> VERIF_SEED=1 python3 check.py %s --tier quick -> exit %d %s' % (c, rc, viol[0] if viol else '(no VIOLATION line)'))
            meta['detected_by'] = det
            meta['caught'] = any(d['rc'] == 1 and d['violation'] for d in det.values())
        finally:
            sh(['git', '-C', '/repo', 'worktree', 'remove', '--force', rd]); shutil.rmtree(rd, ignore_errors=True)
            # evidence files were rewritten by the runs against the patched tree: restore them
            sh(['git', '-C', V, 'checkout', '--', 'evidence'])
        if ok:
            d = os.path.join(V, 'seeded', name)
            os.makedirs(d, exist_ok=True)
            shutil.copy(patch, os.path.join(d, 'patch.diff'))
            shutil.copy(demo, os.path.join(d, 'demo.c'))
            json.dump(meta, open(os.path.join(d, 'meta.json'), 'w'), indent=1)
            print(name, 'CONFIRMED;', 'CAUGHT' if meta['caught'] else 'MISSED',
                  {c: (v['violation'][0][:120] if v['violation'] else 'silent') for c, v in meta['detected_by'].items()})


if __name__ == '__main__':
    main()
