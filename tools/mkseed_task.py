#!/usr/bin/env python3
"""tools/mkseed_task.py <id> : scratch worktree + PROPERTY.txt + TASK.txt for an independent seeder (see mkseed.sh).
The task text is tools/seed_prompt.txt plus one line per EARLIER seeded change of the property (what it touched), so
that a new round picks other mechanisms.  The seeder sees nothing else from /verif."""
import sys, os, json, glob, subprocess, shutil
V = os.path.dirname(os.path.dirname(os.path.abspath(__file__)))
pid = sys.argv[1]
d = '/tmp/seed/' + pid
if os.path.isdir(d + '/out'):
    shutil.rmtree(d + '/out')
subprocess.run(['sh', os.path.join(V, 'tools', 'mkseed.sh'), pid], check=True, stdout=subprocess.DEVNULL)
t = open(os.path.join(V, 'tools', 'seed_prompt.txt')).read().replace('/tmp/seed/ID', d)
prev = []
for m in sorted(glob.glob(os.path.join(V, 'seeded', pid + '-*', 'meta.json'))):
    n = json.load(open(m)).get('needs_to_manifest', '').strip().replace('\n', ' ')
    if n:
        prev.append(' - ' + n[:330])
if prev:
    t += ('\nAdditional requirement: earlier seeded changes for this property already used the mechanisms below — choose DIFFERENT '
          'ones (different functions, different code paths, or different clauses of the property statement; read the whole statement '
          'and its quantifier and pick clauses, input classes or operation combinations not touched yet; changes that need two '
          'cooperating sites, a particular operation ORDER, an unusual-but-legal argument, or an interaction between two library '
          'features are especially welcome):\n' + '\n'.join(prev) + '\n')
t += ('\nHouse rules: never use broad process kills (no `pkill`, `killall`, `kill -1`): only kill processes you started, by PID. '
      'Do not leave background processes behind. Keep all files under ' + d + '.\n')
open(d + '/TASK.txt', 'w').write(t)
print(d + '/TASK.txt', len(prev), 'earlier mechanisms listed')
