"""gcmark_sym.py — a mini symbolic reading of the decision logic of the mark phase of src/GC.c (used by
tools/genx_gcmark.py; property C01).

Instead of comparing the TEXT of GC_Mark_Item / GC_Mark_And_Recurse / the root loop of GC_Mark with one pinned form,
the functions are read into DECISION TABLES over the facts the decision may depend on

    GC_Mark_Item(ptr), GC_Mark_And_Recurse(ptr):  A  ptr is word aligned        Lo  ptr >= gc->minptr   Hi  ptr <= gc->maxptr
                                                  F  ptr is in the table         M   its entry is marked (only when F)
                                                  T  type_of(ptr) is one of the types the code tests for (leaf types)
    root loop body (slot i):                      H  slot occupied               M   entry marked         R   entry is a root

and the table  facts -> (mark bit set?, number of GC_Recurse calls)  is compared with the model's
(MarkSweep.v: mark_item, mark_and_recurse, root_step).  Equivalent control flow gives the same table and is accepted; a depth
cap, a skipped case, a second trace give a different row, which is named.

What is read symbolically: loop-free code made of declarations, if / else, return, continue, assignments of the mark bit,
calls of GC_Recurse / GC_Mark_Item, and calls of HELPERS that are recognised by their own body:
  * lookup helpers — the robin-hood probe loop over gc->entries returning found / not found as bool, entry pointer / NULL, or
    slot index / gc->nslots (GC_Mem_Ptr, GC_Find, GC_Find_Slot ...); that the probe loop IS exact membership is C17's theorem;
  * boolean helpers whose body is `return <boolean expression>;` (GC_Maybe_Ptr, GC_In_Range, GC_Mem_Ptr as a wrapper).
The pinned GC_Mark_Item has the probe loop inline (mark inside the loop): that form is recognised by its normalised text and
yields the model's table by construction.  Reading the mark bit of an entry that was not found is rejected (NULL dereference).
Anything not understood returns None (the obligation stays broken): nothing is accepted that is not justified."""
import re
import itertools

TOK = re.compile(r'\s*(->|==|!=|>=|<=|&&|\|\||\+\+|--|[A-Za-z_]\w*|\d+|.)')
WORDS = {'is': '==', 'isnt': '!=', 'and': '&&', 'or': '||', 'not': '!'}


def tokens(text):
    out = []
    for m in TOK.finditer(text):
        t = m.group(1)
        if t.strip() == '':
            continue
        out.append(WORDS.get(t, t))
    return out


def norm(t):
    return re.sub(r'\s+', '', t or '')


class Unknown(Exception):
    pass


# ----------------------------------------------------------------------------- parsing
class P:
    def __init__(self, toks):
        self.t, self.i = toks, 0

    def peek(self, k=0):
        return self.t[self.i + k] if self.i + k < len(self.t) else None

    def eat(self, x=None):
        v = self.peek()
        if v is None or (x is not None and v != x):
            raise Unknown('expected %r, found %r' % (x, v))
        self.i += 1
        return v

    def paren(self):
        """tokens of a parenthesised group (without the outer parentheses)"""
        self.eat('(')
        depth, out = 1, []
        while True:
            v = self.eat()
            if v == '(':
                depth += 1
            elif v == ')':
                depth -= 1
                if depth == 0:
                    return out
            out.append(v)

    def stmt(self):
        v = self.peek()
        if v == '{':
            self.eat()
            body = []
            while self.peek() != '}':
                body.append(self.stmt())
            self.eat('}')
            return ('block', body)
        if v == 'if':
            self.eat()
            c = cond(self.paren())
            a = self.stmt()
            b = None
            if self.peek() == 'else':
                self.eat()
                b = self.stmt()
            return ('if', c, a, b)
        if v in ('while', 'for', 'do', 'switch', 'goto'):
            raise Unknown('loop / switch inside decision logic')
        if v == 'return':
            self.eat()
            e = []
            while self.peek() != ';':
                e.append(self.eat())
            self.eat(';')
            return ('return', e)
        if v in ('continue', 'break'):
            self.eat(); self.eat(';')
            return ('return', [])
        e = []
        depth = 0
        while not (self.peek() == ';' and depth == 0):
            x = self.eat()
            depth += x in '([' and 1 or 0
            depth -= x in ')]' and 1 or 0
            e.append(x)
        self.eat(';')
        return ('simple', e)


def cond(toks):
    """boolean tree over atoms: ('or', a, b) ('and', a, b) ('not', a) ('atom', text)"""
    def split(ts, op):
        depth, parts, cur = 0, [], []
        for x in ts:
            if x in '([':
                depth += 1
            elif x in ')]':
                depth -= 1
            if x == op and depth == 0:
                parts.append(cur); cur = []
            else:
                cur.append(x)
        parts.append(cur)
        return parts
    parts = split(toks, '||')
    if len(parts) > 1:
        r = cond(parts[0])
        for p in parts[1:]:
            r = ('or', r, cond(p))
        return r
    parts = split(toks, '&&')
    if len(parts) > 1:
        r = cond(parts[0])
        for p in parts[1:]:
            r = ('and', r, cond(p))
        return r
    if toks and toks[0] == '!':
        return ('not', cond(toks[1:]))
    if toks and toks[0] == '(' and matching(toks) == len(toks) - 1:
        return cond(toks[1:-1])
    return ('atom', ''.join(toks))


def matching(toks):
    depth = 0
    for i, x in enumerate(toks):
        if x == '(':
            depth += 1
        elif x == ')':
            depth -= 1
            if depth == 0:
                return i
    return -1


def parse_body(text):
    toks = tokens(text)
    p = P(toks)
    s = p.stmt()
    if p.peek() is not None:
        raise Unknown('trailing tokens')
    return s


# ----------------------------------------------------------------------------- helpers recognised by their body
# optional early "not found" for a pointer outside [minptr, maxptr]: a registered pointer is never outside (bounds invariant
# of C17), so the guarded probe loop is the same membership test
GUARD = r'(?:if\(notGC_In_Range\(gc,ptr\)\)\{return(?:false|NULL|gc->nslots);\})?'
STEP = r'(?:i=\(i\+1\)%gc->nslots;|i=GC_Next\(gc,i\);)'
LOOKUP_RE = [
    # probe loop, hash copied into h
    re.compile(r'^\{if\(gc->nslotsis0\)\{return(?P<nf0>false|NULL|gc->nslots);\}' + GUARD + r'uint64_ti=GC_Hash\(ptr\)%gc->nslots;uint64_tj=0;'
               r'while\(true\)\{uint64_th=gc->entries\[i\]\.hash;if\(his0orj>GC_Probe\(gc,i,h\)\)\{return(?P<nf>false|NULL|gc->nslots);\}'
               r'if\(gc->entries\[i\]\.ptr(?:==|is)ptr\)\{return(?P<f>true|&gc->entries\[i\]|i);\}' + STEP + r'j\+\+;\}\}$'),
    # probe loop through an entry pointer
    re.compile(r'^\{if\(gc->nslotsis0\)\{return(?P<nf0>false|NULL|gc->nslots);\}' + GUARD + r'uint64_ti=GC_Hash\(ptr\)%gc->nslots;uint64_tj=0;'
               r'while\(true\)\{structGCEntry\*e=&gc->entries\[i\];if\(e->hashis0orj>GC_Probe\(gc,i,e->hash\)\)\{return(?P<nf>false|NULL|gc->nslots);\}'
               r'if\(e->ptr(?:==|is)ptr\)\{return(?P<f>true|e|i);\}' + STEP + r'j\+\+;\}\}$'),
]


def lookup_kind(body_norm):
    """'bool' | 'entry' | 'index' when the body is the probe loop for `ptr`, else None"""
    for rx in LOOKUP_RE:
        m = rx.match(body_norm)
        if m and m.group('nf0') == m.group('nf'):
            k = {'false': 'bool', 'NULL': 'entry', 'gc->nslots': 'index'}[m.group('nf')]
            f = m.group('f')
            if (k == 'bool' and f == 'true') or (k == 'entry' and f in ('e', '&gc->entries[i]')) or (k == 'index' and f == 'i'):
                return k
    return None


class Reader:
    def __init__(self, gc_src, func_body, inline_text=None):
        self.src, self.func_body = gc_src, func_body
        self.inline_text = inline_text or (lambda t: t)
        self.lookups, self.bools = {}, {}
        for m in re.finditer(r'static\s+(bool|size_t|uint64_t|struct\s+GCEntry\s*\*)\s*(GC_\w+)\s*\(\s*struct\s+GC\s*\*\s*gc\s*,\s*(?:var|void\s*\*)\s+ptr\s*\)\s*\{', gc_src):
            name = m.group(2)
            body = func_body(gc_src, re.escape(m.group(0)[:-1]) + r'\{')
            if not body:
                continue
            nb = self.inline_text(norm(body))
            k = lookup_kind(nb)
            if k and 'GC_In_Range' in nb:
                rb = norm(func_body(gc_src, r'static\s+bool\s+GC_In_Range\s*\(\s*struct\s+GC\s*\*\s*gc\s*,\s*var\s+ptr\s*\)\s*\{'))
                if rb != '{uintptr_tpval=(uintptr_t)ptr;returnpval>=gc->minptrandpval<=gc->maxptr;}':
                    k = None
            if k:
                self.lookups[name] = k
                continue
            try:
                st = parse_body(body)
            except Unknown:
                continue
            # boolean helper: optional `uintptr_t pval = (uintptr_t)ptr;` then `return <expr>;`
            ss = [x for x in st[1] if not (x[0] == 'simple' and ''.join(x[1]) == 'uintptr_tpval=(uintptr_t)ptr')]
            if len(ss) == 1 and ss[0][0] == 'return' and ss[0][1]:
                self.bools[name] = cond(ss[0][1])

    # -- atoms
    def atom(self, a, env, binds):
        """-> (fact name, polarity)"""
        a = a.replace('(uintptr_t)ptr', 'pval')
        for v, b in binds.items():
            if b[0] == 'entry':
                a = re.sub(r'\b%s\b' % v, '@E', a)
            elif b[0] == 'index':
                a = re.sub(r'\b%s\b' % v, '@I', a)
            elif b[0] == 'slot':
                a = re.sub(r'\b%s->' % v, 'gc->entries[i].', a)
        table = {
            'pval%sizeof(var)!=0': ('A', False), 'pval%sizeof(var)==0': ('A', True),
            'pval<gc->minptr': ('Lo', False), 'pval>=gc->minptr': ('Lo', True),
            'pval>gc->maxptr': ('Hi', False), 'pval<=gc->maxptr': ('Hi', True),
            '@E==NULL': ('F', False), '@E!=NULL': ('F', True), '@E': ('F', True),
            '@I>=gc->nslots': ('F', False), '@I<gc->nslots': ('F', True), '@I==gc->nslots': ('F', False), '@I!=gc->nslots': ('F', True),
            '@E->marked': ('M?', True), 'gc->entries[@I].marked': ('M?', True),
            'gc->entries[i].marked': ('Ms', True), 'gc->entries[i].hash==0': ('H', False), 'gc->entries[i].hash!=0': ('H', True),
            'gc->entries[i].hash': ('H', True), 'gc->entries[i].root': ('R', True),
        }
        if a in table:
            return table[a]
        if re.fullmatch(r'type==[A-Z]\w*', a):
            return ('T', True)          # the object's type is one of the types the code singles out (leaf types)
        if re.fullmatch(r'type!=[A-Z]\w*', a):
            return ('T', False)
        m = re.match(r'^(GC_\w+)\(gc,ptr\)(!=NULL|==NULL|<gc->nslots|>=gc->nslots)?$', a)
        if m and m.group(1) in self.lookups:
            k, suf = self.lookups[m.group(1)], m.group(2)
            if (k, suf) in (('bool', None), ('entry', '!=NULL'), ('index', '<gc->nslots')):
                return ('F', True)
            if (k, suf) in (('entry', '==NULL'), ('index', '>=gc->nslots')):
                return ('F', False)
        raise Unknown('condition not understood: ' + a)

    def ev(self, c, env, binds):
        k = c[0]
        if k == 'or':
            return self.ev(c[1], env, binds) or self.ev(c[2], env, binds)
        if k == 'and':
            return self.ev(c[1], env, binds) and self.ev(c[2], env, binds)
        if k == 'not':
            return not self.ev(c[1], env, binds)
        a = c[1]
        m = re.match(r'^(GC_\w+)\(gc,ptr\)$', a)
        if m and m.group(1) in self.bools:
            return self.ev(self.bools[m.group(1)], env, binds)
        fact, pol = self.atom(a, env, binds)
        if fact == 'M?':
            if not env['F']:
                raise Unknown('reads the mark bit of an entry that was not found (row %s)' % row_s(env))
            fact = 'M'
        if fact == 'Ms':
            if not env['H']:
                # reading the mark bit of an empty slot is harmless (memory is there, zeroed) but then the value is false
                return (False) == pol
            fact = 'M'
        return env[fact] == pol

    # -- statements
    def run(self, st, env, binds, eff, item_table=None):
        """returns True when the function returned"""
        k = st[0]
        if k == 'block':
            for x in st[1]:
                if self.run(x, env, binds, eff, item_table):
                    return True
            return False
        if k == 'if':
            if self.ev(st[1], env, binds):
                return self.run(st[2], env, binds, eff, item_table)
            if st[3] is not None:
                return self.run(st[3], env, binds, eff, item_table)
            return False
        if k == 'return':
            return True
        s = ''.join(st[1])
        if s in ('structGC*gc=_gc', 'uintptr_tpval=(uintptr_t)ptr', 'vartype=type_of(ptr)'):
            return False
        m = re.match(r'^(?:structGCEntry\*|size_t|uint64_t)(\w+)=(GC_\w+)\(gc,ptr\)$', s)
        if m and m.group(2) in self.lookups and self.lookups[m.group(2)] in ('entry', 'index'):
            binds[m.group(1)] = (self.lookups[m.group(2)],)
            return False
        m = re.match(r'^structGCEntry\*(\w+)=&gc->entries\[i\]$', s)
        if m:
            binds[m.group(1)] = ('slot',)
            return False
        s2 = s
        for v, b in binds.items():
            if b[0] == 'entry':
                s2 = re.sub(r'\b%s->' % v, '@E->', s2)
            elif b[0] == 'index':
                s2 = re.sub(r'gc->entries\[%s\]' % v, 'gc->entries[@I]', s2)
            elif b[0] == 'slot':
                s2 = re.sub(r'\b%s->' % v, 'gc->entries[i].', s2)
        if s2 in ('@E->marked=true', 'gc->entries[@I].marked=true'):
            if not env.get('F'):
                raise Unknown('writes the mark bit of an entry that was not found (row %s)' % row_s(env))
            eff['mark'] = True
            return False
        if s2 == 'gc->entries[i].marked=true':
            if 'H' in env and not env['H']:
                raise Unknown('marks an empty slot (row %s)' % row_s(env))
            eff['mark'] = True
            return False
        if s2 in ('GC_Recurse(gc,ptr)', 'GC_Recurse(gc,@E->ptr)', 'GC_Recurse(gc,gc->entries[@I].ptr)', 'GC_Recurse(gc,gc->entries[i].ptr)'):
            if '@' in s2 and not env.get('F'):
                raise Unknown('uses an entry that was not found (row %s)' % row_s(env))
            eff['recurse'] += 1
            return False
        if s2 == 'GC_Mark_Item(gc,ptr)' and item_table is not None:
            key = tuple(env[f] for f in ITEM_FACTS)
            mk, rc = item_table[key]
            eff['mark'] = eff['mark'] or mk
            eff['recurse'] += rc
            return False
        raise Unknown('statement not understood: ' + s)

    def table(self, body, facts, item_table=None):
        st = parse_body(body)
        out = {}
        for vals in itertools.product([False, True], repeat=len(facts)):
            env = dict(zip(facts, vals))
            if 'F' in env and 'M' in env and not env['F'] and env['M']:
                continue                      # no entry, no mark bit
            if 'H' in env and not env['H'] and (env['M'] or env['R']):
                continue                      # an empty slot is zeroed
            eff = {'mark': False, 'recurse': 0}
            self.run(st, env, {}, eff, item_table)
            out[vals] = (eff['mark'], eff['recurse'])
        return out


def row_s(env):
    return ' '.join('%s=%d' % (k, v) for k, v in env.items())


# ----------------------------------------------------------------------------- the model's tables
# T: the object's type is a leaf type (Int Float String ...).  A registered object is marked WHATEVER its type; leaf-ness
# only prunes the recursion inside GC_Recurse, after the marking.
ITEM_FACTS = ('A', 'Lo', 'Hi', 'F', 'M', 'T')
ROOT_FACTS = ('H', 'M', 'R')


def model_item():
    out = {}
    for v in itertools.product([False, True], repeat=6):
        A, Lo, Hi, F, M, T = v
        if not F and M:
            continue
        go = A and Lo and Hi and F and not M
        out[v] = (go, 1 if go else 0)
    return out


def model_mar(guarded=True):
    it, out = model_item(), {}
    for v in it:
        A, Lo, Hi, F, M, T = v
        if guarded:
            out[v] = it[v] if F else (False, 1)
        else:
            out[v] = (it[v][0], it[v][1] + 1)
    return out


def model_root():
    out = {}
    for v in itertools.product([False, True], repeat=3):
        H, M, R = v
        if not H and (M or R):
            continue
        go = H and R and not M
        out[v] = (go, 1 if go else 0)
    return out


def diff(facts, got, want):
    """first differing row as text, or None.  On a leaf type (T) GC_Recurse returns at once, so the number of GC_Recurse
    calls is immaterial there: only the mark bit is compared in those rows."""
    ti = facts.index('T') if 'T' in facts else None

    def eff(v, e):
        if e is None: return None
        return (e[0], 0) if ti is not None and v[ti] else e
    for v in want:
        if eff(v, got.get(v)) != eff(v, want[v]):
            g = got.get(v)
            return '%s: source %s, model mark=%d recurse=%d' % (
                ' '.join('%s=%d' % (f, x) for f, x in zip(facts, v)),
                ('mark=%d recurse=%d' % (g[0], g[1])) if g else 'no row', want[v][0], want[v][1])
    return None
