#!/bin/sh
# tools/soak.sh <seed-from> <seed-to> [jobs] : run every claimed check's quick tier on the unchanged tree for a
# range of seeds, <jobs> checks at a time, from a private copy of /verif (so evidence/ and coq/ of /verif are not
# disturbed); prints one line per (check, seed): OK / ALARM, wall time.  Development-time flakiness test.
from=$1; to=$2; jobs=${3:-3}
d=/tmp/st/soak_verif; mkdir -p /tmp/st; rsync -a --delete --exclude .git --exclude replays /verif/ $d/
cd $d
ids=$(python3 -c "import json; print(' '.join(c['property_id'] for c in json.load(open('MANIFEST.json'))['checks']))")
for s in $(seq $from $to); do
  for c in $ids; do echo "$c $s"; done
done | xargs -P $jobs -L 1 sh -c 't0=$(date +%s); out=$(VERIF_SEED=$1 python3 check.py $0 2>&1); rc=$?; t1=$(date +%s); v=$(echo "$out" | grep -c "^VIOLATION"); if [ $rc -eq 0 ] && [ $v -eq 0 ]; then echo "OK    $0 seed=$1 $((t1-t0))s"; else echo "ALARM $0 seed=$1 rc=$rc $((t1-t0))s: $(echo "$out" | grep "^VIOLATION\|Error\|Traceback" | head -2)"; mkdir -p /tmp/st/soak_replays; cp -r replays /tmp/st/soak_replays/$0_$1 2>/dev/null; fi'
