"""genx_rt.py — data the C15 (show/look, print/scan round trip) proofs rely on, re-extracted from
src/String.c, src/Num.c and src/Show.c on every run (called by gen_params.py).

  rt_show_escapes : list (N * N)   byte -> escape letter   (switch of String_Show)
  rt_look_escapes : list (N * N)   escape letter -> byte   (switch of String_Look)
  rt_show_default_ok : bool        default: of String_Show writes the byte itself with "%c"
  rt_show_quotes_ok : bool         String_Show opens and closes with print_to(out, pos, "\"", ...)
  rt_look_continue : bool          the escape branch of String_Look ends with `continue;`
                                   (false = falls through and appends the escape letter too: defect D7)
  rt_int_show_li / rt_int_look_li : bool    Int_Show / Int_Look use "%li"
  rt_float_show_f : bool           Float_Show uses "%f"
  rt_float_look_long : bool        Float_Look uses "%lf" (false = "%f": reads single precision, defect D8)
  rt_scan_float_l_rule : bool      scan_from_with stores through double* iff the directive contains 'l'
  rt_scan_int_signext : bool       scan_from_with sign-extends what a d/i directive without a length
                                   modifier stored into its `long tmp` (false = zero-extension, F6)
  rt_scan_int_signext_narrow : bool  the same for h / hh directives ((short)tmp, (signed char)tmp)
  rt_scan_lit_measures : bool      literal pieces of the scan format advance pos by what scanf consumed
                                   ("%n" appended); false = by the length of the piece (D22)
  rt_scan_pct_measures : bool      the "%%" piece advances pos by what scanf consumed; false = by 2 (D23)
"""
import re

C_ESC = {'a': 7, 'b': 8, 'f': 12, 'n': 10, 'r': 13, 't': 9, 'v': 11, '\\': 92, "'": 39, '"': 34, '?': 63, '0': 0}


def c_unescape(body):
    """bytes of the inside of a C char/string literal (simple escapes only); None if unsupported."""
    out, i = [], 0
    while i < len(body):
        ch = body[i]
        if ch == '\\':
            if i + 1 >= len(body) or body[i + 1] not in C_ESC:
                return None
            out.append(C_ESC[body[i + 1]]); i += 2
        else:
            if ord(ch) > 255:
                return None
            out.append(ord(ch)); i += 1
    return out


def table(name, pairs):
    return 'Definition %s : list (N * N) := [%s]%%N.' % (name, '; '.join('(%d, %d)' % p for p in pairs))


def boolean(name, v, comment=''):
    return 'Definition %s : bool := %s.%s' % (name, 'true' if v else 'false', ('   (* %s *)' % comment) if comment else '')


def matching_brace(s, i):
    depth = 0
    for j in range(i, len(s)):
        if s[j] == '{':
            depth += 1
        elif s[j] == '}':
            depth -= 1
            if depth == 0:
                return j
    return -1


def tok(x):
    """regex for C text x with arbitrary white space between tokens"""
    parts = re.findall(r'[A-Za-z_0-9]+|"(?:\\.|[^"\\])*"|\S', x)
    return r'\s*'.join(re.escape(p) for p in parts)


def show_form_runs(s, show):
    """form B of String_Show -> (pairs, plain_ok, quotes_ok) or None when the body is not of that form.
    Same function as form A: each iteration writes the two-character escape of *v (v in ESC; the letter is
    LET[index of its first occurrence]) or the next min(run, CAP) >= 1 plain characters verbatim ("%.*s" with a
    byte count; a run holds no NUL and no member of ESC), and advances v by what it wrote."""
    Q = r'print_to\s*\(\s*out\s*,\s*pos\s*,\s*"\\""\s*(?:,\s*self\s*)?\)'
    pat = (r'\{\s*' + tok('struct String* s = self;') + r'\s*pos\s*=\s*' + Q + r'\s*;\s*(?:const\s+)?' + tok('char* v = s->val;')
           + r'\s*' + tok('while (*v) { int off; size_t run = strcspn(v,') + r'\s*(?P<esc>\w+)\s*' + tok(');')
           + r'\s*if\s*\(\s*run\s*(?:is|==)\s*0\s*\)\s*\{\s*' + tok('size_t which = strchr(') + r'\s*(?P=esc)\s*' + tok(', *v) -')
           + r'\s*(?P=esc)\s*;\s*' + tok('off = format_to(out, pos, "\\\\%c",') + r'\s*(?P<let>\w+)\s*' + tok('[which]); run = 1; } else {')
           + r'\s*(?:' + tok('if (run >') + r'\s*(?P<cap>\w+)\s*' + tok(') { run =') + r'\s*(?P=cap)\s*' + tok('; }') + r')?\s*'
           + tok('off = format_to(out, pos, "%.*s", (int)run, v); }')
           + r'\s*' + tok('if (off < 0) { throw(FormatError,') + r'\s*"(?:\\.|[^"\\])*"\s*' + tok('); }')
           + r'\s*' + tok('pos += off; v += run; }') + r'\s*return\s+' + Q + r'\s*;\s*\}')
    m = re.fullmatch(pat, show.strip(), re.S)
    if not m:
        return None

    def strconst(name):
        mm = re.search(r'static\s+const\s+char\s+%s\s*\[\s*\]\s*=\s*"((?:\\.|[^"\\])*)"\s*;' % re.escape(name), s)
        return c_unescape(mm.group(1)) if mm else None
    esc, let = strconst(m.group('esc')), strconst(m.group('let'))
    cap_ok = True
    if m.group('cap'):
        c = m.group('cap')
        if not c.isdigit():
            mm = re.search(r'#\s*define\s+%s\s+\(?\s*(\d+)\s*\)?' % re.escape(c), s)
            c = mm.group(1) if mm else ''
        cap_ok = c.isdigit() and int(c) >= 1
    pairs = None
    if esc and let and 0 not in esc and len(let) >= len(esc) and 0 not in let[:len(esc)]:
        pairs = [(e, l) for e, l in zip(esc, let)]
    return pairs, cap_ok, True


def show_form_runs_first(s, show):
    """form C of String_Show (benign/C15-b1): the run is measured and capped first; a non-empty run is written
    with "%.*s" and the loop continues; otherwise *v is in ESC and backslash + LET[strchr(ESC, *v) - ESC] is written
    through print_to("\\%c", $I(letter)).  Same text as forms A and B (same argument)."""
    Q = r'print_to\s*\(\s*out\s*,\s*pos\s*,\s*"\\""\s*(?:,\s*self\s*)?\)'
    pat = (r'\{\s*' + tok('struct String* s = self;') + r'\s*pos\s*=\s*' + Q + r'\s*;\s*(?:const\s+)?' + tok('char* v = s->val;')
           + r'\s*' + tok('while (*v) { size_t run = strcspn(v,') + r'\s*(?P<esc>\w+)\s*' + tok(');')
           + r'\s*(?:' + tok('if (run >') + r'\s*(?P<cap>\w+)\s*' + tok(') { run =') + r'\s*(?P=cap)\s*' + tok('; }') + r')?\s*'
           + r'if\s*\(\s*run\s*(?:>\s*0|isnt\s+0|!=\s*0)\s*\)\s*\{\s*' + tok('int off = format_to(out, pos, "%.*s", (int)run, v);')
           + r'\s*' + tok('if (off < 0) { throw(FormatError,') + r'\s*"(?:\\.|[^"\\])*"\s*' + tok('); }')
           + r'\s*' + tok('pos += off; v += run; continue; }')
           + r'\s*(?:const\s+)?' + tok('char* esc = strchr(') + r'\s*(?P=esc)\s*' + tok(', *v);')
           + r'\s*' + tok('pos = print_to(out, pos, "\\\\%c", $I(') + r'\s*(?P<let>\w+)\s*' + tok('[esc -') + r'\s*(?P=esc)\s*' + tok(']));')
           + r'\s*' + tok('v++; }') + r'\s*return\s+' + Q + r'\s*;\s*\}')
    m = re.fullmatch(pat, show.strip(), re.S)
    if not m:
        return None
    return tables_of(s, m.group('esc'), m.group('let'), m.group('cap'))


def tables_of(s, escname, letname, cap):
    def strconst(name):
        mm = re.search(r'static\s+const\s+char\s+%s\s*\[\s*\]\s*=\s*"((?:\\.|[^"\\])*)"\s*;' % re.escape(name), s)
        return c_unescape(mm.group(1)) if mm else None
    esc, let = strconst(escname), strconst(letname)
    cap_ok = True
    if cap:
        c = cap
        if not c.isdigit():
            mm = (re.search(r'#\s*define\s+%s\s+\(?\s*(\d+)\s*\)?' % re.escape(c), s)
                  or re.search(r'enum\s*\{[^}]*\b%s\s*=\s*(\d+)\s*[,}]' % re.escape(c), s)
                  or re.search(r'static\s+const\s+(?:size_t|int|unsigned)\s+%s\s*=\s*(\d+)\s*;' % re.escape(c), s))
            c = mm.group(1) if mm else ''
        cap_ok = c.isdigit() and int(c) >= 1
    pairs = None
    if esc and let and 0 not in esc and len(let) >= len(esc) and 0 not in let[:len(esc)]:
        pairs = [(e, l) for e, l in zip(esc, let)]
    return pairs, cap_ok, True


def generate(repo, emit, src, func_body):
    s = src('src/String.c')
    show = func_body(s, r'static\s+int\s+String_Show\s*\([^)]*\)\s*\{')
    look = func_body(s, r'static\s+int\s+String_Look\s*\([^)]*\)\s*\{')

    # ---- String_Show, two accepted forms (design.d/C15.md "Benign changes"):
    #  A  while (*v) { switch (*v) { case '<c>': pos = print_to(out, pos, "\\<l>"); break; ... default: "%c" } v++; }
    #  B  runs of plain characters found with strcspn(v, ESC) and written with "%.*s", an escaped character
    #     written with "\\%c" of LET[strchr(ESC, *v) - ESC]; ESC / LET are parallel string constants
    if not show:
        emit('rt_show_escapes', None); emit('rt_show_default_ok', None); emit('rt_show_quotes_ok', None)
    else:
        formb = show_form_runs(s, show) or show_form_runs_first(s, show)
        if formb is not None:
            pairs, plain_ok, quotes_ok = formb
            emit('rt_show_escapes', table('rt_show_escapes', pairs) if pairs else None)
            emit('rt_show_default_ok', boolean('rt_show_default_ok', True, 'source: plain runs written with "%.*s"') if plain_ok else None)
            emit('rt_show_quotes_ok', boolean('rt_show_quotes_ok', True) if quotes_ok else None)
        else:
            pairs, ok = [], True
            cases = re.findall(r"case\s+'((?:\\.|[^'\\]))'\s*:\s*(.*?)\bbreak\s*;", show, re.S)
            ncase = len(re.findall(r'\bcase\b', show))
            for ch, stmt in cases:
                m = re.fullmatch(r'\s*pos\s*=\s*print_to\s*\(\s*out\s*,\s*pos\s*,\s*"((?:\\.|[^"\\])*)"\s*\)\s*;\s*', stmt)
                c = c_unescape(ch)
                t = c_unescape(m.group(1)) if m else None
                if not c or len(c) != 1 or t is None or len(t) != 2 or t[0] != 92:
                    ok = False; break
                pairs.append((c[0], t[1]))
            if not ok or ncase != len(cases) or not cases:
                emit('rt_show_escapes', None)
            else:
                emit('rt_show_escapes', table('rt_show_escapes', pairs))
            d = re.search(r'default\s*:\s*pos\s*=\s*print_to\s*\(\s*out\s*,\s*pos\s*,\s*"%c"\s*,\s*\$I\s*\(\s*\*v\s*\)\s*\)\s*;', show)
            loop = re.search(r'while\s*\(\s*\*v\s*\)\s*\{\s*switch\s*\(\s*\*v\s*\)', show) and re.search(r'\}\s*v\+\+\s*;\s*\}', show)
            emit('rt_show_default_ok', boolean('rt_show_default_ok', True) if (d and loop) else None)
            # the quotes: print_to(out, pos, "\"") with or without the unused extra argument `self`
            q = re.findall(r'print_to\s*\(\s*out\s*,\s*pos\s*,\s*"\\""\s*(?:,\s*self\s*)?\)', show)
            emit('rt_show_quotes_ok', boolean('rt_show_quotes_ok', True) if len(q) == 2 else None)

    # ---- String_Look: case '<l>': String_Concat(self, $S("<c>")); break;   and the `continue`
    if not look:
        emit('rt_look_escapes', None); emit('rt_look_continue', None)
    else:
        i = look.find('switch')
        j = look.find('{', i) if i >= 0 else -1
        k = matching_brace(look, j) if j >= 0 else -1
        if k < 0:
            emit('rt_look_escapes', None); emit('rt_look_continue', None)
        else:
            sw = look[j:k + 1]
            cases = re.findall(r"case\s+'((?:\\.|[^'\\]))'\s*:\s*(.*?)\bbreak\s*;", sw, re.S)
            ncase = len(re.findall(r'\bcase\b', sw))
            pairs, ok = [], True
            for ch, stmt in cases:
                m = re.fullmatch(r'\s*String_Concat\s*\(\s*self\s*,\s*\$S\s*\(\s*"((?:\\.|[^"\\])*)"\s*\)\s*\)\s*;\s*', stmt)
                c = c_unescape(ch)
                t = c_unescape(m.group(1)) if m else None
                if not c or len(c) != 1 or t is None or len(t) != 1:
                    ok = False; break
                pairs.append((c[0], t[0]))
            dflt = re.search(r'default\s*:\s*throw\s*\(\s*FormatError', sw)
            if not ok or ncase != len(cases) or not cases or not dflt:
                emit('rt_look_escapes', None)
            else:
                emit('rt_look_escapes', table('rt_look_escapes', pairs))
            # what follows the switch inside the `if (c_int(chr) == '\\') { ... }` block
            e = look.find('}', k + 1)
            tail = look[k + 1:e] if e >= 0 else None
            if tail is None:
                emit('rt_look_continue', None)
            elif re.fullmatch(r'\s*continue\s*;\s*', tail):
                emit('rt_look_continue', boolean('rt_look_continue', True, 'source: `continue;` after the escape switch'))
            elif tail.strip() == '':
                emit('rt_look_continue', boolean('rt_look_continue', False, 'source: the escape branch falls through to the common append'))
            else:
                emit('rt_look_continue', None)

    # ---- Num.c: the format strings of Int_Show/Int_Look/Float_Show/Float_Look
    n = src('src/Num.c')

    def fmt_of(fn, call):
        b = func_body(n, r'\b%s\s*\([^)]*\)\s*\{' % fn)
        if not b:
            return None
        m = re.fullmatch(r'\{\s*return\s+%s\s*\(\s*\w+\s*,\s*pos\s*,\s*"([^"]*)"\s*,\s*self\s*\)\s*;\s*\}' % call, b)
        return m.group(1) if m else None

    # inlined forms (design.d/C15.md "Benign changes"): the same format_to / format_from call that print_to_with /
    # scan_from_with end up making for these one-directive formats, the same error test, pos + what the sink reported
    STR = r'\s*"(?:\\.|[^"\\])*"\s*'
    THROW = lambda: tok('{ throw(FormatError,') + STR + tok('); }')

    def inl(fn, pat):
        b = func_body(n, r'\b%s\s*\([^)]*\)\s*\{' % fn)
        return re.fullmatch(pat, b.strip(), re.S) if b else None

    def show_inlined(fn, getter, ctype):
        a = (r'\{\s*(?:' + ctype + r'\s+val\s*=\s*(?:' + getter + r'|c_\w+)\s*\(\s*self\s*\)\s*;\s*)?'
             + tok('int off = format_to(output, pos,') + r'\s*"(?P<fmt>[^"]*)"\s*,\s*(?:val|(?:' + getter + r'|c_\w+)\s*\(\s*self\s*\))\s*\)\s*;\s*'
             + tok('if (off < 0)') + r'\s*' + THROW() + r'\s*' + tok('return pos + off; }'))
        m = inl(fn, a)
        return m.group('fmt') if m else None

    def look_inlined(fn, struct, ctype):
        a = (r'\{\s*' + tok('struct %s*' % struct) + r'\s*(?P<p>\w+)\s*=\s*self\s*;\s*' + ctype + r'\s+val\s*=\s*0\s*;\s*'
             + tok('int off = 0; int err = format_from(input, pos,') + r'\s*"(?P<fmt>[^"]*)"\s*' + tok(', &val, &off);')
             + r'\s*' + tok('if (err < 1)') + r'\s*' + THROW() + r'\s*(?P=p)\s*->\s*val\s*=\s*val\s*;\s*' + tok('return pos + off; }'))
        m = inl(fn, a)
        return m.group('fmt') if m else None

    f = fmt_of('Int_Show', 'print_to') or show_inlined('Int_Show', 'Int_C_Int', r'(?:long|int64_t)')
    emit('rt_int_show_li', boolean('rt_int_show_li', True) if f == '%li' else None)
    f = fmt_of('Int_Look', 'scan_from')
    if f is None and look_inlined('Int_Look', 'Int', 'long') == '%li%n':
        f = '%li'
    emit('rt_int_look_li', boolean('rt_int_look_li', True) if f == '%li' else None)
    f = fmt_of('Float_Show', 'print_to') or show_inlined('Float_Show', 'Float_C_Float', 'double')
    emit('rt_float_show_f', boolean('rt_float_show_f', True) if f == '%f' else None)
    f = fmt_of('Float_Look', 'scan_from')
    if f is None:
        if look_inlined('Float_Look', 'Float', 'double') == '%lf%n':
            f = '%lf'                     # a double is stored: what scan_from_with does for a directive with `l`
        elif look_inlined('Float_Look', 'Float', 'float') == '%f%n':
            f = '%f'                      # a float is stored and widened: single precision (D8)
    emit('rt_float_look_long', boolean('rt_float_look_long', f == '%lf', 'source: "%s"' % f) if f in ('%f', '%lf') else None)

    # ---- Show.c: the numeric branches of scan_from_with
    sh = src('src/Show.c')
    b = func_body(sh, r'\bint\s+scan_from_with\s*\([^)]*\)\s*\{')
    if not b:
        emit('rt_scan_float_l_rule', None); emit('rt_scan_int_signext', None); emit('rt_scan_int_signext_narrow', None)
        emit('rt_scan_lit_measures', None); emit('rt_scan_pct_measures', None)
        return
    nb = re.sub(r'\s+', ' ', b)
    lit_old = ('if (start isnt fmt) { memcpy(fmt_buf, start, fmt - start); fmt_buf[fmt - start] = \'\\0\'; '
               'format_from(input, pos, fmt_buf); pos += (int)(fmt - start); continue; }')
    lit_new = ('if (start isnt fmt) { int off = (int)(fmt - start); memcpy(fmt_buf, start, fmt - start); '
               'strcpy(fmt_buf + (fmt - start), "%n"); format_from(input, pos, fmt_buf, &off); pos += off; continue; }')
    if lit_new in nb:
        emit('rt_scan_lit_measures', boolean('rt_scan_lit_measures', True, 'source: literal piece scanned with a trailing %n'))
    elif lit_old in nb:
        emit('rt_scan_lit_measures', boolean('rt_scan_lit_measures', False, 'source: pos += length of the literal piece'))
    else:
        emit('rt_scan_lit_measures', None)
    pct_old = ('if (*fmt is \'%\' and *(fmt+1) is \'%\') { int err = format_from(input, pos, "%%"); '
               'if (err < 0) { throw(FormatError, "Unable to input \'%%%%\'!"); } pos += 2; fmt += 2; continue; }')
    pct_new = ('if (*fmt is \'%\' and *(fmt+1) is \'%\') { int off = 0; int err = format_from(input, pos, "%%%n", &off); '
               'if (err < 0) { throw(FormatError, "Unable to input \'%%%%\'!"); } pos += off; fmt += 2; continue; }')
    if pct_new in nb:
        emit('rt_scan_pct_measures', boolean('rt_scan_pct_measures', True, 'source: "%%%n"'))
    elif pct_old in nb:
        emit('rt_scan_pct_measures', boolean('rt_scan_pct_measures', False, 'source: pos += 2'))
    else:
        emit('rt_scan_pct_measures', None)
    fl = re.search(r'strchr\s*\(\s*"fFeEgGaA"\s*,\s*\*fmt\s*\)\s*\)\s*\{\s*if\s*\(\s*strchr\s*\(\s*fmt_buf\s*,\s*\'l\'\s*\)\s*\)\s*\{\s*double\s+tmp\s*=\s*0\s*;'
                   r'.*?assign\s*\(\s*a\s*,\s*\$F\s*\(\s*tmp\s*\)\s*\)\s*;\s*\}\s*else\s*\{\s*float\s+tmp\s*=\s*0\s*;.*?assign\s*\(\s*a\s*,\s*\$F\s*\(\s*tmp\s*\)\s*\)\s*;\s*\}', b, re.S)
    emit('rt_scan_float_l_rule', boolean('rt_scan_float_l_rule', True) if fl else None)
    ib = re.search(r'strchr\s*\(\s*"diouxX"\s*,\s*\*fmt\s*\)\s*\)\s*\{\s*long\s+tmp\s*=\s*0\s*;\s*int\s+err\s*=\s*format_from\s*\(\s*input\s*,\s*pos\s*,\s*fmt_buf\s*,\s*&tmp\s*,\s*&off\s*\)\s*;'
                   r'(.*?)assign\s*\(\s*a\s*,\s*\$I\s*\(\s*tmp\s*\)\s*\)\s*;', b, re.S)
    def both(a, b_, ca='', cb=''):
        emit('rt_scan_int_signext', None if a is None else boolean('rt_scan_int_signext', a, ca))
        emit('rt_scan_int_signext_narrow', None if b_ is None else boolean('rt_scan_int_signext_narrow', b_, cb))
    if not ib:
        both(None, None)
    else:
        mid = re.sub(r'\s+', ' ', ib.group(1))
        base = re.fullmatch(r' ?if \(err < 1\) \{ throw\(FormatError, "Unable to input Int!"\); \} pos \+= off; ?(.*)', mid)
        if not base:
            both(None, None)
        else:
            rest = re.sub(r'\s+', ' ', base.group(1).strip())
            fixed = ('if (strchr("di", *fmt) and not strpbrk(fmt_buf, "hljztqL")) { tmp = (int)tmp; }')
            fixed2 = ('if (strchr("di", *fmt) and not strpbrk(fmt_buf, "ljztqL")) { '
                      'tmp = strstr(fmt_buf, "hh") ? (signed char)tmp : strchr(fmt_buf, \'h\') ? (short)tmp : (int)tmp; }')
            if rest == '':
                both(False, False, 'source: the long is handed on as stored (zero-extension of an int store)', 'same')
            elif rest == fixed:
                both(True, False, 'source: tmp = (int)tmp for d/i without a length modifier', 'source: h / hh results are handed on as stored')
            elif rest == fixed2:
                both(True, True, 'source: tmp = (int)tmp for d/i without a length modifier', 'source: (short)tmp for h, (signed char)tmp for hh')
            else:
                both(None, None)
