#!/bin/sh
# runs the repository's own test suite (guard off) and prints the summary lines
cd "${1:-/repo}" && make check 2>&1 | sed 's/\x1b\[[0-9;]*m//g' | grep -E "Suites|Tests  |Asserts|Error|error:" | tail -4
