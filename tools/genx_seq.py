"""genx_seq.py — rules of src/Array.c the capacity lemmas of C04 rely on, re-extracted on every run.

  Array_Reserve_More:  if (a->nitems > a->nslots) { a->nslots = a->nitems + a->nitems / 2; ...realloc... }
  Array_Reserve_Less:  if (a->nslots > a->nitems + a->nitems / 2) { a->nslots = a->nitems; ...realloc... }

The condition and the new capacity are translated (tiny expression translator: a->nitems, a->nslots,
decimal literals, + - * /, parentheses, one comparison) into Gallina functions over nat:
  array_grow_cond  nitems nslots : bool      array_grow_size  nitems nslots : nat
  array_shrink_cond nitems nslots : bool     array_shrink_size nitems nslots : nat
A body that no longer has the shape `if (<cond>) { a->nslots = <expr>; a->data = realloc(a->data, Array_Step(a) * a->nslots); [memory check] }`
or an expression outside the little language leaves the definition out (broken obligation).
nat subtraction is truncated, C's size_t wraps: a rule using `-` is translated but the capacity lemmas then
have to prove the side condition themselves (they fail if they cannot)."""
import re


class Bad(Exception):
    pass


def tokens(s):
    out = []
    s = s.strip()
    i = 0
    while i < len(s):
        c = s[i]
        if c.isspace():
            i += 1
        elif s.startswith('a->nitems', i):
            out.append('nitems'); i += 9
        elif s.startswith('a->nslots', i):
            out.append('nslots'); i += 9
        elif c.isdigit():
            j = i
            while j < len(s) and s[j].isdigit():
                j += 1
            if j < len(s) and (s[j].isalpha() or s[j] in '._'):
                raise Bad(s)
            out.append(s[i:j]); i = j
        elif s[i:i + 2] in ('>=', '<=', '=='):
            out.append(s[i:i + 2]); i += 2
        elif c in '+-*/()<>':
            out.append(c); i += 1
        else:
            raise Bad(s)
    return out


def expr(toks):
    """sum := term (('+'|'-') term)* ; term := atom (('*'|'/') atom)* ; -> Coq text, left associative"""
    def atom():
        if not toks:
            raise Bad('eof')
        t = toks.pop(0)
        if t == '(':
            e = summ()
            if not toks or toks.pop(0) != ')':
                raise Bad('paren')
            return '(' + e + ')'
        if t in ('nitems', 'nslots') or t.isdigit():
            return t
        raise Bad(t)

    def term():
        e = atom()
        while toks and toks[0] in '*/':
            op = toks.pop(0)
            e = '(%s %s %s)' % (e, op, atom())
        return e

    def summ():
        e = term()
        while toks and toks[0] in '+-':
            op = toks.pop(0)
            e = '(%s %s %s)' % (e, op, term())
        return e
    return summ()


def cond(text):
    toks = tokens(text)
    for k, t in enumerate(toks):
        if t in ('>', '<', '>=', '<=') and toks[:k].count('(') == toks[:k].count(')'):
            l, r = expr(toks[:k]), expr(toks[k + 1:])
            return {'>': '%s <? %s' % (r, l), '<': '%s <? %s' % (l, r),
                    '>=': '%s <=? %s' % (r, l), '<=': '%s <=? %s' % (l, r)}[t]
    raise Bad(text)


def rule(body):
    """-> (cond_text, size_text) or raises"""
    b = re.sub(r'#if.*?#endif', ' ', body, flags=re.S)
    m = re.match(r'\{\s*if\s*\((.*?)\)\s*\{\s*a->nslots\s*=\s*([^;]*);\s*'
                 r'a->data\s*=\s*realloc\s*\(\s*a->data\s*,\s*Array_Step\s*\(\s*a\s*\)\s*\*\s*a->nslots\s*\)\s*;\s*\}\s*\}\s*$', b, re.S)
    if not m:
        raise Bad('shape')
    c = cond(m.group(1))
    toks = tokens(m.group(2))
    e = expr(toks)
    if toks:
        raise Bad('trailing')
    return c, e, ' '.join(m.group(1).split()), ' '.join(m.group(2).split())


def generate(repo, emit, src, func_body):
    s = src('src/Array.c')
    for fn, name in (('Array_Reserve_More', 'array_grow'), ('Array_Reserve_Less', 'array_shrink')):
        b = func_body(s, r'static\s+void\s+%s\s*\(\s*struct\s+Array\s*\*\s*a\s*\)\s*\{' % fn)
        try:
            if not b:
                raise Bad('missing')
            c, e, csrc, esrc = rule(b)
            emit(name, 'Definition %s_cond (nitems nslots : nat) : bool := %s.   (* source: if (%s) *)\n'
                       'Definition %s_size (nitems nslots : nat) : nat := %s.   (* source: a->nslots = %s *)'
                 % (name, c, csrc, name, e, esrc))
        except Bad:
            emit(name, None)
