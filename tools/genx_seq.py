"""genx_seq.py — the capacity POLICY of src/Array.c, re-read on every run and handed to the C04 models
as parameters (the theorems hold for every admissible policy: new capacity >= items).

Array_Reserve_More / Array_Reserve_Less are run symbolically over a small statement language:
    if (<cond>) { ... } [else { ... }]      return;      a->nslots = <expr>;
    a->data = realloc(a->data, Array_Step(a) * a->nslots);      free(a->data);      a->data = NULL;
(`#if ... #endif` blocks — the out-of-memory check — are dropped, numeric `#define`s of the file are
substituted).  Expressions: a->nitems, a->nslots, decimal literals, + - * /, parentheses, `c ? x : y`;
conditions: < > <= >= == != is isnt, and or not && || !.  The result is a decision tree
"under which condition does nslots become which expression"; it is emitted as
    array_grow_cond  nitems nslots : bool      array_grow_size  nitems nslots : nat
    array_shrink_cond nitems nslots : bool     array_shrink_size nitems nslots : nat
(cond = a path that assigns nslots is taken, size = the value assigned on that path).  Justification of the
accepted shapes: early `return`s, nested/else branches and ternaries are control flow over the two integers
only, so the tree denotes the same function of (nitems, nslots) as the C text; a path that assigns nslots
must also reallocate (or free and clear when the new capacity is 0), otherwise the shape is rejected.
nat subtraction is truncated while size_t wraps: a policy using `-` is translated, the capacity lemma
(SeqCapacity.v) then has to prove admissibility for the truncated reading and the white-box comparison of
nslots shows any difference.

If a body is outside this language the policy is NOT recognised: the pinned policy is emitted instead,
`array_policy_from_source := false`, and the correspondence check compares the capacity for admissibility
only (nslots >= nitems after every operation, white-box) instead of exactly — capacity is tuning, the
property speaks about contents."""
import re


class Bad(Exception):
    pass


# ---------------------------------------------------------------- expressions
TOK = re.compile(r'\s*(a->nitems|a->nslots|\d+|<=|>=|==|!=|&&|\|\||[-+*/()<>!?:]|\b(?:is|isnt|and|or|not)\b)')


def tokens(s):
    out, i = [], 0
    s = s.strip()
    while i < len(s):
        m = TOK.match(s, i)
        if not m:
            raise Bad('token: ' + s[i:i + 20])
        out.append(m.group(1)); i = m.end()
    return out


class P:
    """precedence climbing:  ternary < or < and < not < comparison < sum < term < atom; -> AST tuples"""

    def __init__(self, toks):
        self.t = toks

    def peek(self):
        return self.t[0] if self.t else None

    def eat(self, x=None):
        if not self.t or (x is not None and self.t[0] != x):
            raise Bad('expected %s' % x)
        return self.t.pop(0)

    def ternary(self):
        c = self.orx()
        if self.peek() == '?':
            self.eat('?'); a = self.ternary(); self.eat(':'); b = self.ternary()
            return ('ite', c, a, b)
        return c

    def orx(self):
        e = self.andx()
        while self.peek() in ('or', '||'):
            self.eat(); e = ('or', e, self.andx())
        return e

    def andx(self):
        e = self.notx()
        while self.peek() in ('and', '&&'):
            self.eat(); e = ('and', e, self.notx())
        return e

    def notx(self):
        if self.peek() in ('not', '!'):
            self.eat(); return ('not', self.notx())
        return self.cmp()

    def cmp(self):
        l = self.summ()
        if self.peek() in ('<', '>', '<=', '>=', '==', '!=', 'is', 'isnt'):
            op = self.eat(); r = self.summ()
            op = {'is': '==', 'isnt': '!='}.get(op, op)
            return ('cmp', op, l, r)
        return l

    def summ(self):
        e = self.term()
        while self.peek() in ('+', '-'):
            op = self.eat(); e = ('bin', op, e, self.term())
        return e

    def term(self):
        e = self.atom()
        while self.peek() in ('*', '/'):
            op = self.eat(); e = ('bin', op, e, self.atom())
        return e

    def atom(self):
        t = self.eat()
        if t == '(':
            e = self.ternary(); self.eat(')'); return e
        if t == 'a->nitems':
            return ('var', 'nitems')
        if t == 'a->nslots':
            return ('var', 'nslots')
        if t.isdigit():
            return ('num', t)
        raise Bad('atom ' + t)


def parse_expr(s):
    p = P(tokens(s))
    e = p.ternary()
    if p.t:
        raise Bad('trailing ' + ' '.join(p.t))
    return e


def is_bool(e):
    return e[0] in ('cmp', 'and', 'or', 'not', 'true', 'false') or (e[0] == 'ite' and is_bool(e[2]))


def mentions(e, v):
    return e == ('var', v) or any(isinstance(x, tuple) and mentions(x, v) for x in e[1:])


def coq(e):
    k = e[0]
    if k == 'var':
        return e[1]
    if k == 'num':
        return e[1]
    if k == 'bin':
        if e[2][0] == 'num' and e[3][0] == 'num':          # fold closed arithmetic (8 / 2 -> 4)
            a, b = int(e[2][1]), int(e[3][1])
            return str({'+': a + b, '-': max(a - b, 0), '*': a * b, '/': a // b if b else 0}[e[1]])
        return '(%s %s %s)' % (coq(e[2]), e[1], coq(e[3]))
    if k == 'cmp':
        op, l, r = e[1], coq(e[2]), coq(e[3])
        return {'<': '(%s <? %s)' % (l, r), '>': '(%s <? %s)' % (r, l), '<=': '(%s <=? %s)' % (l, r),
                '>=': '(%s <=? %s)' % (r, l), '==': '(%s =? %s)' % (l, r), '!=': '(negb (%s =? %s))' % (l, r)}[op]
    if k == 'and':
        return '(%s && %s)' % (coq(e[1]), coq(e[2]))
    if k == 'or':
        return '(%s || %s)' % (coq(e[1]), coq(e[2]))
    if k == 'not':
        return '(negb %s)' % coq(e[1])
    if k == 'ite':
        return '(if %s then %s else %s)' % (coq(e[1]), coq(e[2]), coq(e[3]))
    if k == 'true' or k == 'false':
        return k
    raise Bad(k)


# ---------------------------------------------------------------- statements
def parse_block(s, i):
    """statements from position i (after an optional '{') up to the matching '}' or end -> (list, next i)"""
    out = []
    while True:
        while i < len(s) and s[i].isspace():
            i += 1
        if i >= len(s):
            return out, i
        if s[i] == '}':
            return out, i + 1
        st, i = parse_stmt(s, i)
        out.append(st)


def match_paren(s, i):
    assert s[i] == '('
    d = 0
    for j in range(i, len(s)):
        if s[j] == '(':
            d += 1
        elif s[j] == ')':
            d -= 1
            if d == 0:
                return j
    raise Bad('paren')


def parse_body(s, i):
    while i < len(s) and s[i].isspace():
        i += 1
    if i < len(s) and s[i] == '{':
        return parse_block(s, i + 1)
    st, i = parse_stmt(s, i)
    return [st], i


def parse_stmt(s, i):
    m = re.compile(r'if\s*\(').match(s, i)
    if m:
        j = match_paren(s, m.end() - 1)
        c = parse_expr(s[m.end():j])
        th, i = parse_body(s, j + 1)
        el = []
        m2 = re.compile(r'\s*else\b').match(s, i)
        if m2:
            el, i = parse_body(s, m2.end())
        return ('if', c, th, el), i
    j = s.find(';', i)
    if j < 0:
        raise Bad('statement')
    t = ' '.join(s[i:j].split())
    if t == 'return':
        return ('return',), j + 1
    m = re.match(r'a->nslots = (.*)$', t)
    if m:
        return ('set', parse_expr(m.group(1)), m.group(1)), j + 1
    if re.match(r'a->data = realloc ?\( ?a->data ?, ?Array_Step ?\( ?a ?\) ?\* ?a->nslots ?\)$', t) or \
       re.match(r'a->data = realloc ?\( ?a->data ?, ?a->nslots ?\* ?Array_Step ?\( ?a ?\) ?\)$', t):
        return ('realloc',), j + 1
    if re.match(r'free ?\( ?a->data ?\)$', t):
        return ('free',), j + 1
    if re.match(r'a->data = NULL$', t):
        return ('null',), j + 1
    raise Bad('statement: ' + t)


def run(stmts, new, mem):
    """symbolic execution -> tree ('if', c, t, e) | ('leaf', expr or None);  new = nslots assigned so far,
    mem = what was done to the block on this path (subset of {'realloc', 'free', 'null'})"""
    if not stmts:
        return leaf(new, mem)
    st, rest = stmts[0], stmts[1:]
    if st[0] == 'return':
        return leaf(new, mem)
    if st[0] == 'set':
        if new is not None:
            raise Bad('nslots assigned twice on one path')
        return run(rest, st[1], mem)
    if st[0] in ('realloc', 'free', 'null'):
        if st[0] == 'realloc' and new is None:
            raise Bad('realloc without a new capacity')
        return run(rest, new, (mem or frozenset()) | {st[0]})
    if st[0] == 'if':
        if new is not None and mentions(st[1], 'nslots'):
            raise Bad('condition on the new nslots')
        return ('if', st[1], run(st[2] + rest, new, mem), run(st[3] + rest, new, mem))
    raise Bad(st[0])


def leaf(new, mem):
    if new is None:
        if mem:
            raise Bad('block changed without a new capacity')
        return ('leaf', None)
    if mem == frozenset({'realloc'}) or (mem == frozenset({'free', 'null'}) and new == ('num', '0')):
        return ('leaf', new)
    raise Bad('capacity assigned without reallocating')


def tree_cond(t):
    if t[0] == 'leaf':
        return ('true',) if t[1] is not None else ('false',)
    a, b = tree_cond(t[2]), tree_cond(t[3])
    if a == b:
        return a
    if a == ('true',) and b == ('false',):
        return t[1]
    if a == ('false',) and b == ('true',):
        return ('not', t[1])
    return ('ite', t[1], a, b)


def tree_size(t):
    if t[0] == 'leaf':
        return t[1] if t[1] is not None else ('var', 'nslots')
    a, b = tree_size(t[2]), tree_size(t[3])
    if a == b:
        return a
    return ('ite', t[1], a, b)


def policy(body, defines):
    b = re.sub(r'#\s*if.*?#\s*endif', ' ', body, flags=re.S)
    for k, v in defines.items():
        b = re.sub(r'\b%s\b' % re.escape(k), v, b)
    b = b.strip()
    if not (b.startswith('{') and b.endswith('}')):
        raise Bad('body')
    stmts, _ = parse_block(b, 1)
    t = run(stmts, None, None)
    if t[0] == 'if' and t[2][0] == 'leaf' and t[2][1] is not None and t[3] == ('leaf', None):
        return t[1], t[2][1]                      # the plain shape: if (c) { nslots = e; realloc }
    return tree_cond(t), tree_size(t)


PINNED = {
    'array_grow': ('nslots <? nitems', '(nitems + (nitems / 2))'),
    'array_shrink': ('(nitems + (nitems / 2)) <? nslots', 'nitems'),
}


def generate(repo, emit, src, func_body):
    s = src('src/Array.c')
    defines = dict(re.findall(r'^\s*#\s*define\s+(\w+)\s+(\d+)\s*$', s, re.M))
    recognised = True
    for fn, name in (('Array_Reserve_More', 'array_grow'), ('Array_Reserve_Less', 'array_shrink')):
        b = func_body(s, r'static\s+void\s+%s\s*\(\s*struct\s+Array\s*\*\s*a\s*\)\s*\{' % fn)
        try:
            if not b:
                raise Bad('missing')
            c, e = policy(b, defines)
            if is_bool(e) or not is_bool(c):
                raise Bad('types')
            emit(name, 'Definition %s_cond (nitems nslots : nat) : bool := %s.   (* read from %s *)\n'
                       'Definition %s_size (nitems nslots : nat) : nat := %s.'
                 % (name, coq(c), fn, name, coq(e)))
        except (Bad, AssertionError, IndexError) as ex:
            recognised = False
            c, e = PINNED[name]
            emit(name, '(* %s is outside the policy language of tools/genx_seq.py (%s): pinned policy, capacity compared for admissibility only *)\n'
                       'Definition %s_cond (nitems nslots : nat) : bool := %s.\n'
                       'Definition %s_size (nitems nslots : nat) : nat := %s.'
                 % (fn, str(ex)[:60].replace('*)', '* )'), name, c, name, e))
    emit('array_policy_from_source', 'Definition array_policy_from_source : bool := %s.' % ('true' if recognised else 'false'))
