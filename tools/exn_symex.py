"""exn_symex.py — translation of the small C functions of src/Exception.c into Gallina state transformers
(used by tools/genx_exn.py; property C07).

A mini symbolic executor over the statement forms these functions use: field assignments on `e`, ++/--,
array store/load on e->buffers, local temporaries, if/else, return, an index loop over `args` whose body
is `if (cond) { ...; return ...; }`, and calls to a fixed set of helpers (fprintf: ignored; abort; longjmp;
Exception_Error; print_to_with on e->msg; len/get/eq/$I; Exception_Len and Exception_Buffer, inlined).
The result is, per function, a Gallina term of type cout: a decision tree over the ENTRY state whose leaves
carry the final state (obj, msg, depth, active, buffers) as expressions of the entry state.  Statement
order, temporaries and index arithmetic are therefore not part of the tie: ExnProofs.v proves that each
translated transformer simulates the model's function, whatever shape it has.  Anything outside the
fragment raises Untranslatable (= the definition is not emitted = broken obligation).

Deliberately NOT accepted: `foreach (x in args)` — iteration over a Tuple finds its cursor by pointer and
is not the index walk (second repaired defect)."""
import re

TOK = re.compile(r'"(?:[^"\\]|\\.)*"|[A-Za-z_][A-Za-z0-9_]*|\d+|->|\+\+|--|>=|<=|==|!=|&&|\|\||\.\.\.|\S')
ALIAS = {'is': '==', 'isnt': '!=', 'and': '&&', 'or': '||', 'not': '!'}
TYPES = {'size_t', 'bool', 'int', 'var', 'jmp_buf', 'const', 'char', 'struct', 'unsigned', 'long', 'volatile'}


class Untranslatable(Exception):
    pass


# ------------------------------------------------------------------------------ parser
class Parser:
    def __init__(self, text):
        self.t = [ALIAS.get(x, x) for x in TOK.findall(text)]
        self.i = 0

    def peek(self, k=0):
        return self.t[self.i + k] if self.i + k < len(self.t) else None

    def next(self):
        x = self.peek()
        if x is None: raise Untranslatable('unexpected end')
        self.i += 1
        return x

    def expect(self, x):
        y = self.next()
        if y != x: raise Untranslatable('expected %s, found %s' % (x, y))

    def block(self):
        self.expect('{')
        out = []
        while self.peek() != '}':
            out.append(self.stmt())
        self.expect('}')
        return ('block', out)

    def stmt(self):
        p = self.peek()
        if p == '{': return self.block()
        if p == ';': self.next(); return ('block', [])
        if p == 'if':
            self.next(); self.expect('('); c = self.expr(); self.expect(')')
            a = self.stmt()
            b = ('block', [])
            if self.peek() == 'else':
                self.next(); b = self.stmt()
            return ('if', c, a, b)
        if p == 'return':
            self.next()
            if self.peek() == ';': self.next(); return ('return', None)
            e = self.expr(); self.expect(';'); return ('return', e)
        if p == 'for':
            self.next(); self.expect('(')
            while self.peek() in TYPES: self.next()
            v = self.next(); self.expect('='); init = self.expr(); self.expect(';')
            c = self.expr(); self.expect(';')
            step = self.expr(); self.expect(')')
            body = self.stmt()
            if init != ('num', 0) or c[0] != 'bin' or c[1] != '<' or c[2] != ('id', v) or step not in (('post', '++', ('id', v)), ('pre', '++', ('id', v))):
                raise Untranslatable('for loop is not `for (i = 0; i < n; i++)`')
            return ('for', v, c[3], body)
        if p in ('foreach', 'while', 'do', 'switch', 'goto'):
            raise Untranslatable('statement form `%s` is outside the fragment' % p)
        if p in TYPES:
            # declaration: type tokens (struct Exception *, size_t, ..), then the name, [= expr] ;
            while (self.peek() in TYPES or self.peek() == '*'
                   or (re.match(r'^[A-Za-z_]', self.peek() or '') and (self.peek(1) == '*' or re.match(r'^[A-Za-z_]', self.peek(1) or '')))):
                self.next()
            name = self.next()
            init = None
            if self.peek() == '=':
                self.next(); init = self.expr()
            self.expect(';')
            return ('decl', name, init)
        e = self.expr()
        if self.peek() == '=':
            self.next(); r = self.expr(); self.expect(';')
            return ('assign', e, r)
        self.expect(';')
        return ('expr', e)

    # precedence climbing
    def expr(self): return self.p_or()

    def p_or(self):
        a = self.p_and()
        while self.peek() == '||':
            self.next(); a = ('bin', '||', a, self.p_and())
        return a

    def p_and(self):
        a = self.p_cmp()
        while self.peek() == '&&':
            self.next(); a = ('bin', '&&', a, self.p_cmp())
        return a

    def p_cmp(self):
        a = self.p_add()
        while self.peek() in ('==', '!=', '<', '>', '<=', '>='):
            op = self.next(); a = ('bin', op, a, self.p_add())
        return a

    def p_add(self):
        a = self.p_un()
        while self.peek() in ('+', '-'):
            op = self.next(); a = ('bin', op, a, self.p_un())
        return a

    def p_un(self):
        p = self.peek()
        if p == '!': self.next(); return ('un', '!', self.p_un())
        if p == '*': self.next(); return ('un', '*', self.p_un())
        if p == '&': self.next(); return ('un', '&', self.p_un())
        if p in ('++', '--'): self.next(); return ('pre', p, self.p_un())
        return self.p_post()

    def p_post(self):
        a = self.p_prim()
        while True:
            p = self.peek()
            if p == '->': self.next(); a = ('field', a, self.next())
            elif p == '[': self.next(); i = self.expr(); self.expect(']'); a = ('index', a, i)
            elif p == '(' and a[0] == 'id':
                self.next(); args = []
                while self.peek() != ')':
                    args.append(self.expr())
                    if self.peek() == ',': self.next()
                self.expect(')'); a = ('call', a[1], args)
            elif p in ('++', '--'): self.next(); a = ('post', p, a)
            else: return a

    def p_prim(self):
        p = self.next()
        if p == '(':
            if self.peek() in TYPES:          # a cast
                while self.peek() != ')': self.next()
                self.expect(')'); return self.p_un()
            e = self.expr(); self.expect(')'); return e
        if p == '$':
            n = self.next(); self.expect('('); args = []
            while self.peek() != ')':
                args.append(self.expr())
                if self.peek() == ',': self.next()
            self.expect(')'); return ('call', '$' + n, args)
        if re.match(r'^\d+$', p): return ('num', int(p))
        if p[0] == '"': return ('str', p)
        if re.match(r'^[A-Za-z_]', p): return ('id', p)
        raise Untranslatable('unexpected token %s' % p)


# ------------------------------------------------------------------------------ symbolic execution
FIELDS = ('obj', 'msg', 'depth', 'active', 'buf')


def entry_state(s='s'):
    return {'obj': '(c_obj %s)' % s, 'msg': '(c_msg %s)' % s, 'depth': '(c_depth %s)' % s,
            'active': '(c_active %s)' % s, 'buf': '(c_buf %s)' % s}


def st_term(st):
    return '(CS %s %s %s %s %s)' % tuple(st[f] for f in FIELDS)


class Exec:
    """helpers: {name: (params, body_ast)} — functions that may be inlined (one level is all these need)"""

    def __init__(self, helpers, consts):
        self.helpers, self.consts = helpers, consts
        self.fresh = 0

    # values are (type, term); types: nat bool obj optbool list elem void
    def eval(self, e, st, env, k):
        t = e[0]
        if t == 'num': return k(('nat', str(e[1])))
        if t == 'id':
            n = e[1]
            if n in env: return k(env[n])
            if n in self.consts: return k(('nat', self.consts[n]))
            if n == 'NULL': return k(('obj', 'None'))
            if n in ('true', 'false'): return k(('bool', n))
            raise Untranslatable('unknown name %s' % n)
        if t == 'field':
            if e[1] not in (('id', 'e'), ('id', 'self')) or env.get('e') != ('rec', 'e'):
                raise Untranslatable('field access on something else than the exception record')
            f = e[2]
            if f == 'depth': return k(('nat', st['depth']))
            if f == 'active': return k(('bool', st['active']))
            if f == 'obj': return k(('obj', st['obj']))
            if f == 'msg': return k(('msg', st['msg']))
            if f == 'buffers': return k(('buf', st['buf']))
            raise Untranslatable('unknown field %s' % f)
        if t == 'index':
            return self.eval(e[1], st, env, lambda b: self.need(b, 'buf') and
                             self.eval(e[2], st, env, lambda i: self.need(i, 'nat') and k(('nat', '(%s %s)' % (b[1], i[1])))))
        if t == 'un':
            if e[1] == '!':
                return self.eval(e[2], st, env, lambda v: self.need(v, 'bool') and k(('bool', '(negb %s)' % v[1])))
            if e[1] == '*':        # *Exception_Buffer(e): the jmp_buf the pointer designates = the pointer, in the model
                return self.eval(e[2], st, env, k)
            raise Untranslatable('unary %s' % e[1])
        if t == 'bin':
            op = e[1]
            def both(a, b):
                if op in ('&&', '||'):
                    self.need(a, 'bool'); self.need(b, 'bool')
                    return k(('bool', '(%s %s %s)' % ('andb' if op == '&&' else 'orb', a[1], b[1])))
                if op in ('+', '-'):
                    self.need(a, 'nat'); self.need(b, 'nat')
                    return k(('nat', '(%s %s %s)' % (a[1], op, b[1])))
                if a[0] == 'nat' and b[0] == 'nat':
                    tm = {'==': '(%s =? %s)', '!=': '(negb (%s =? %s))', '<': '(%s <? %s)', '<=': '(%s <=? %s)',
                          '>': '(%s <? %s)', '>=': '(%s <=? %s)'}[op]
                    x, y = (b[1], a[1]) if op in ('>', '>=') else (a[1], b[1])
                    return k(('bool', tm % (x, y)))
                if a[0] == 'bool' and b[0] == 'bool' and op in ('==', '!='):
                    z = '(Bool.eqb %s %s)' % (a[1], b[1])
                    return k(('bool', z if op == '==' else '(negb %s)' % z))
                if a[0] == 'obj' and b == ('obj', 'None') and op in ('==', '!='):
                    z = '(match %s with None => true | Some _ => false end)' % a[1]
                    return k(('bool', z if op == '==' else '(negb %s)' % z))
                raise Untranslatable('comparison %s of %s and %s' % (op, a[0], b[0]))
            return self.eval(e[2], st, env, lambda a: self.eval(e[3], st, env, lambda b: both(a, b)))
        if t == 'call':
            f, args = e[1], e[2]
            if f == 'current' and args == [('id', 'Exception')]: return k(('rec', 'e'))
            if f == 'len' and len(args) == 1:
                return self.eval(args[0], st, env, lambda a: self.need(a, 'list') and k(('nat', '(List.length %s)' % a[1])))
            if f == '$I' and len(args) == 1:
                return self.eval(args[0], st, env, k)
            if f == 'get' and len(args) == 2:
                def got(a, i):
                    self.need(a, 'list')
                    if i[0] != 'loopvar': raise Untranslatable('get with an index that is not the loop variable')
                    return k(('elem', i[1]))
                return self.eval(args[0], st, env, lambda a: self.eval(args[1], st, env, lambda i: got(a, i)))
            if f == 'eq' and len(args) == 2:
                def eqq(a, b):
                    if a[0] == 'elem' and b[0] == 'obj': return k(('optbool', '(c_eq eqf %s %s)' % (a[1], b[1])))
                    raise Untranslatable('eq on %s and %s' % (a[0], b[0]))
                return self.eval(args[0], st, env, lambda a: self.eval(args[1], st, env, lambda b: eqq(a, b)))
            if f in self.helpers:
                params, body = self.helpers[f]
                if len(params) != len(args): raise Untranslatable('arity of %s' % f)
                def bind(vals, rest):
                    if not rest:
                        env2 = dict(zip(params, vals))
                        if env2.get('e') == ('rec', 'e') or env2.get('self') == ('rec', 'e'):
                            env2['e'] = ('rec', 'e')
                        return self.block([body], st, env2, lambda st2, env3: k(('void', '')), lambda st2, v: k(v))
                    return self.eval(rest[0], st, env, lambda v: bind(vals + [v], rest[1:]))
                return bind([], args)
            raise Untranslatable('call of %s in an expression' % f)
        raise Untranslatable('expression form %s' % t)

    def need(self, v, ty):
        if v[0] != ty: raise Untranslatable('expected %s, found %s' % (ty, v[0]))
        return True

    def block(self, stmts, st, env, k, ret):
        """k(st, env): what follows the statements; ret(st, value): what a `return` does"""
        if not stmts:
            return k(st, env)
        s, rest = stmts[0], stmts[1:]
        go = lambda st2, env2: self.block(rest, st2, env2, k, ret)
        t = s[0]
        if t == 'block':
            return self.block(s[1], st, env, lambda st2, env2: go(st2, {n: v for n, v in env2.items() if n in env}), ret)
        if t == 'decl':
            if s[2] is None: return go(st, dict(env, **{s[1]: ('undef', '')}))
            return self.eval(s[2], st, env, lambda v: go(st, dict(env, **{s[1]: v})))
        if t == 'assign':
            lv = s[1]
            def store(v):
                st2 = dict(st)
                if lv[0] == 'field' and lv[1] == ('id', 'e') and env.get('e') == ('rec', 'e'):
                    f = lv[2]
                    want = {'depth': 'nat', 'active': 'bool', 'obj': 'obj'}.get(f)
                    if want is None: raise Untranslatable('assignment to e->%s' % f)
                    self.need(v, want); st2[f] = v[1]
                    return go(st2, env)
                if lv[0] == 'index' and lv[1] == ('field', ('id', 'e'), 'buffers'):
                    self.need(v, 'nat')
                    return self.eval(lv[2], st, env, lambda i: self.need(i, 'nat') and
                                     go(dict(st, buf='(upd %s %s %s)' % (st['buf'], i[1], v[1])), env))
                if lv[0] == 'id' and lv[1] in env and env[lv[1]][0] in ('nat', 'bool', 'obj', 'undef'):
                    return go(st, dict(env, **{lv[1]: v}))
                raise Untranslatable('assignment target')
            return self.eval(s[2], st, env, store)
        if t == 'expr':
            e = s[1]
            if e[0] in ('post', 'pre'):
                tgt = e[2]
                if tgt == ('field', ('id', 'e'), 'depth') and env.get('e') == ('rec', 'e'):
                    return go(dict(st, depth='(%s %s 1)' % (st['depth'], '+' if e[1] == '++' else '-')), env)
                raise Untranslatable('++/-- on something else than e->depth')
            if e[0] == 'call':
                f, args = e[1], e[2]
                if f in ('fprintf', 'fflush'): return go(st, env)
                if f == 'abort' and not args: return 'CAbort'
                if f == 'Exception_Error' and args == [('id', 'e')]: return 'CDie %s' % st_term(st)
                if f == 'longjmp' and len(args) == 2 and args[1] == ('num', 1):
                    return self.eval(args[0], st, env, lambda v: self.need(v, 'nat') and 'CJump %s %s' % (st_term(st), v[1]))
                if f == 'print_to_with':
                    if len(args) != 4 or args[0] != ('field', ('id', 'e'), 'msg') or args[1] != ('num', 0):
                        raise Untranslatable('print_to_with is not print_to_with(e->msg, 0, fmt, args)')
                    self.fresh += 1
                    s1 = 's%d' % self.fresh
                    st2 = entry_state(s1)
                    st2['msg'] = '(setmsg %s)' % st2['msg']
                    return 'CFormat %s (fun %s => %s)' % (st_term(st), s1, self.block(rest, st2, env, k, ret))
                raise Untranslatable('call of %s as a statement' % f)
            raise Untranslatable('expression statement')
        if t == 'if':
            def br(c):
                self.need(c, 'bool')
                a = self.block([s[2]], st, env, go, ret)
                b = self.block([s[3]], st, env, go, ret)
                return '(if %s then %s else %s)' % (c[1], a, b)
            return self.eval(s[1], st, env, br)
        if t == 'return':
            if s[1] is None: return ret(st, ('void', ''))
            return self.eval(s[1], st, env, lambda v: ret(st, v))
        if t == 'for':
            v, bound, body = s[1], s[2], s[3]
            def loop(n):
                if n != ('nat', '(List.length args)'):
                    raise Untranslatable('loop bound is not len(args)')
                inner = body[1] if body[0] == 'block' else [body]
                if len(inner) != 1 or inner[0][0] != 'if' or inner[0][3] != ('block', []):
                    raise Untranslatable('loop body is not a single `if (cond) { ...; return ...; }`')
                a = 'a%d' % (self.fresh + 1); self.fresh += 1
                env2 = dict(env, **{v: ('loopvar', a)})
                def cond(c):
                    if c[0] == 'bool': c = ('optbool', '(Some %s)' % c[1])
                    self.need(c, 'optbool')
                    def fell(st2, env3): raise Untranslatable('loop body does not return')
                    hit = self.block([inner[0][2]], st, env, fell, ret)     # evaluated without the loop variable
                    miss = go(st, env)
                    return ('(match c_exists (fun %s => %s) args with None => CWild | Some true => %s | Some false => %s end)'
                            % (a, c[1], hit, miss))
                return self.eval(inner[0][1], st, env2, cond)
            return self.eval(bound, st, env, loop)
        raise Untranslatable('statement form %s' % t)


def translate(body_text, params, helpers, consts):
    """Gallina term (string) of type cout for a function body; params: {C name: value}"""
    ast = Parser(body_text).block()
    ex = Exec(helpers, consts)

    def ret(st, v):
        if v[0] == 'obj': return 'CRet %s %s' % (st_term(st), v[1])
        if v[0] == 'void': return 'CRet %s None' % st_term(st)
        raise Untranslatable('returns a %s' % v[0])
    term = ex.block([ast], entry_state('s'), dict(params), lambda st, env: ret(st, ('void', '')), ret)
    return term


PRELUDE = '''Module ExnTr.
(* the record of struct Exception as the C functions see it: depth and the buffers array apart *)
Record cstate : Type := CS { c_obj : option nat; c_msg : nat; c_depth : nat; c_active : bool; c_buf : nat -> nat }.
Inductive cout : Type :=
| CRet (s : cstate) (v : option nat)          (* return (v: the object returned, None = NULL / void) *)
| CJump (s : cstate) (t : nat)                 (* longjmp of the buffer t *)
| CDie (s : cstate)                            (* Exception_Error(e) *)
| CAbort                                       (* abort() *)
| CWild                                        (* eq on a NULL object *)
| CFormat (s : cstate) (k : cstate -> cout).   (* print_to_with(e->msg, 0, fmt, args): runs the Show methods of the
                                                  arguments (program code) on state s, goes on with k *)
Definition upd (f : nat -> nat) (i v : nat) : nat -> nat := fun j => if j =? i then v else f j.
Fixpoint c_exists (cond : nat -> option bool) (l : list nat) : option bool :=
  match l with
  | nil => Some false
  | a :: r => match cond a with None => None | Some true => Some true | Some false => c_exists cond r end
  end.
Definition c_eq (eqf : nat -> nat -> bool) (a : nat) (o : option nat) : option bool :=
  match o with Some k => Some (eqf a k) | None => None end.
'''


def gallina(bodies, max_name='exc_max_depth'):
    """bodies: {C function name: body text}; returns the text of Module ExnTr or raises Untranslatable"""
    helpers = {}
    for name, params in (('Exception_Len', ['self']), ('Exception_Buffer', ['e'])):
        if bodies.get(name) is None: raise Untranslatable('%s not found' % name)
        helpers[name] = (params, Parser(bodies[name]).block())
    consts = {'EXCEPTION_MAX_DEPTH': max_name}
    out = [PRELUDE]
    specs = (('exception_try', 'tr_exception_try', '(env : nat)', {'env': ('nat', 'env')}),
             ('exception_try_end', 'tr_exception_try_end', '', {}),
             ('exception_try_fail', 'tr_exception_try_fail', '', {}),
             ('exception_throw', 'tr_exception_throw', '(setmsg : nat -> nat) (o : nat)', {'obj': ('obj', '(Some o)'), 'fmt': ('fmt', ''), 'args': ('fargs', '')}),
             ('exception_catch', 'tr_exception_catch', '(eqf : nat -> nat -> bool) (args : list nat)', {'args': ('list', 'args')}))
    for cname, gname, binders, params in specs:
        if bodies.get(cname) is None: raise Untranslatable('%s not found' % cname)
        term = translate(bodies[cname], params, helpers, consts)
        out.append('(* %s *)\nDefinition %s %s (s : cstate) : cout :=\n  %s.\n' % (cname, gname, binders, term))
    out.append('End ExnTr.')
    return '\n'.join(out)
