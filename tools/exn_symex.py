"""exn_symex.py — translation of the small C functions of src/Exception.c into Gallina state transformers
(used by tools/genx_exn.py; property C07).

A mini symbolic executor over the statement forms these functions use: field assignments on `e`, ++/--,
array store/load on e->buffers, local temporaries, if/else, return, an index loop over `args` whose body
is `if (cond) { ...; return ...; }`, and calls to a fixed set of helpers (fprintf: ignored; abort; longjmp;
Exception_Error; print_to_with on e->msg; len/get/eq/$I; Exception_Len and Exception_Buffer, inlined).
The result is, per function, a Gallina term of type cout: a decision tree over the ENTRY state whose leaves
carry the final state (obj, msg, depth, active, buffers) as expressions of the entry state.  Statement
order, temporaries and index arithmetic are therefore not part of the tie: ExnProofs.v proves that each
translated transformer simulates the model's function, whatever shape it has.  Anything outside the
fragment raises Untranslatable (= the definition is not emitted = broken obligation).

Deliberately NOT accepted: `foreach (x in args)` — iteration over a Tuple finds its cursor by pointer and
is not the index walk (second repaired defect)."""
import re

TOK = re.compile(r'"(?:[^"\\]|\\.)*"|[A-Za-z_][A-Za-z0-9_]*|\d+|->|\+\+|--|>=|<=|==|!=|&&|\|\||\.\.\.|\S')
ALIAS = {'is': '==', 'isnt': '!=', 'and': '&&', 'or': '||', 'not': '!'}
TYPES = {'size_t', 'bool', 'int', 'var', 'jmp_buf', 'const', 'char', 'struct', 'unsigned', 'long', 'volatile'}


class Untranslatable(Exception):
    pass


# ------------------------------------------------------------------------------ parser
class Parser:
    def __init__(self, text):
        self.t = [ALIAS.get(x, x) for x in TOK.findall(text)]
        self.i = 0

    def peek(self, k=0):
        return self.t[self.i + k] if self.i + k < len(self.t) else None

    def next(self):
        x = self.peek()
        if x is None: raise Untranslatable('unexpected end')
        self.i += 1
        return x

    def expect(self, x):
        y = self.next()
        if y != x: raise Untranslatable('expected %s, found %s' % (x, y))

    def block(self):
        self.expect('{')
        out = []
        while self.peek() != '}':
            out.append(self.stmt())
        self.expect('}')
        return ('block', out)

    def stmt(self):
        p = self.peek()
        if p == '{': return self.block()
        if p == ';': self.next(); return ('block', [])
        if p == 'if':
            self.next(); self.expect('('); c = self.expr(); self.expect(')')
            a = self.stmt()
            b = ('block', [])
            if self.peek() == 'else':
                self.next(); b = self.stmt()
            return ('if', c, a, b)
        if p == 'return':
            self.next()
            if self.peek() == ';': self.next(); return ('return', None)
            e = self.expr(); self.expect(';'); return ('return', e)
        if p == 'for':
            self.next(); self.expect('(')
            while self.peek() in TYPES or self.peek() == '*': self.next()
            v = self.next(); self.expect('='); init = self.expr(); self.expect(';')
            c = self.expr(); self.expect(';')
            step = self.expr(); self.expect(')')
            body = self.stmt()
            if step not in (('post', '++', ('id', v)), ('pre', '++', ('id', v))):
                raise Untranslatable('for loop does not step by ++')
            return ('for', v, init, c, body)
        if p in ('foreach', 'while', 'do', 'switch', 'goto'):
            raise Untranslatable('statement form `%s` is outside the fragment' % p)
        if p in TYPES:
            # declaration: type tokens (struct Exception *, size_t, ..), then the name, [= expr] ;
            while (self.peek() in TYPES or self.peek() == '*'
                   or (re.match(r'^[A-Za-z_]', self.peek() or '') and (self.peek(1) == '*' or re.match(r'^[A-Za-z_]', self.peek(1) or '')))):
                self.next()
            name = self.next()
            init = None
            if self.peek() == '=':
                self.next(); init = self.expr()
            self.expect(';')
            return ('decl', name, init)
        e = self.expr()
        if self.peek() == '=':
            self.next(); r = self.expr(); self.expect(';')
            return ('assign', e, r)
        self.expect(';')
        return ('expr', e)

    # precedence climbing
    def expr(self): return self.p_or()

    def p_or(self):
        a = self.p_and()
        while self.peek() == '||':
            self.next(); a = ('bin', '||', a, self.p_and())
        return a

    def p_and(self):
        a = self.p_cmp()
        while self.peek() == '&&':
            self.next(); a = ('bin', '&&', a, self.p_cmp())
        return a

    def p_cmp(self):
        a = self.p_add()
        while self.peek() in ('==', '!=', '<', '>', '<=', '>='):
            op = self.next(); a = ('bin', op, a, self.p_add())
        return a

    def p_add(self):
        a = self.p_un()
        while self.peek() in ('+', '-'):
            op = self.next(); a = ('bin', op, a, self.p_un())
        return a

    def p_un(self):
        p = self.peek()
        if p == '!': self.next(); return ('un', '!', self.p_un())
        if p == '*': self.next(); return ('un', '*', self.p_un())
        if p == '&': self.next(); return ('un', '&', self.p_un())
        if p in ('++', '--'): self.next(); return ('pre', p, self.p_un())
        return self.p_post()

    def p_post(self):
        a = self.p_prim()
        while True:
            p = self.peek()
            if p == '->': self.next(); a = ('field', a, self.next())
            elif p == '[': self.next(); i = self.expr(); self.expect(']'); a = ('index', a, i)
            elif p == '(' and a[0] == 'id':
                self.next(); args = []
                while self.peek() != ')':
                    args.append(self.expr())
                    if self.peek() == ',': self.next()
                self.expect(')'); a = ('call', a[1], args)
            elif p in ('++', '--'): self.next(); a = ('post', p, a)
            else: return a

    def p_prim(self):
        p = self.next()
        if p == '(':
            if self.peek() in TYPES:          # a cast
                while self.peek() != ')': self.next()
                self.expect(')'); return self.p_un()
            e = self.expr(); self.expect(')'); return e
        if p == '$':
            n = '' if self.peek() == '(' else self.next()
            self.expect('('); args = []
            while self.peek() != ')':
                args.append(self.expr())
                if self.peek() == ',': self.next()
            self.expect(')'); return ('call', '$' + n, args)
        if re.match(r'^\d+$', p): return ('num', int(p))
        if p[0] == '"': return ('str', p)
        if re.match(r'^[A-Za-z_]', p): return ('id', p)
        raise Untranslatable('unexpected token %s' % p)


# ------------------------------------------------------------------------------ symbolic execution
FIELDS = ('obj', 'msg', 'depth', 'active', 'buf')


def entry_state(s='s'):
    return {'obj': '(c_obj %s)' % s, 'msg': '(c_msg %s)' % s, 'depth': '(c_depth %s)' % s,
            'active': '(c_active %s)' % s, 'buf': '(c_buf %s)' % s}


def st_term(st):
    return '(CS %s %s %s %s %s)' % tuple(st[f] for f in FIELDS)


class Exec:
    """helpers: {name: (params, body_ast)} — static functions of Exception.c, inlined where they are called
    (at most two levels deep).  Values are (type, term); types: nat bool optbool obj msg buf list elem
    items items_end ptrvar loopvar rec void."""

    def __init__(self, helpers, consts):
        self.helpers, self.consts = helpers, consts
        self.fresh = 0
        self.inline_depth = 0
        self.uses_is_tuple = False

    def need(self, v, ty):
        if v[0] != ty: raise Untranslatable('expected %s, found %s' % (ty, v[0]))
        return True

    def as_nat(self, v):
        if v == ('obj', 'None'): return ('nat', '0')          # NULL as a jmp_buf pointer
        self.need(v, 'nat'); return v

    def is_rec(self, e, env):
        return e[0] == 'id' and env.get(e[1]) == ('rec', 'e')

    def evals(self, es, st, env, k, acc=None):
        acc = acc or []
        if not es: return k(acc, st)
        return self.eval(es[0], st, env, lambda v, st2: self.evals(es[1:], st2, env, k, acc + [v]))

    def eval(self, e, st, env, k):
        """k(value, state): expressions may change the state (depth++ inside an index) or abort (helpers)"""
        t = e[0]
        if t == 'num': return k(('nat', str(e[1])), st)
        if t == 'id':
            n = e[1]
            if n in env: return k(env[n], st)
            if n in self.consts: return k(('nat', self.consts[n]), st)
            if n == 'NULL': return k(('obj', 'None'), st)
            if n in ('true', 'false'): return k(('bool', n), st)
            if n == 'Tuple': return k(('type', 'Tuple'), st)
            raise Untranslatable('unknown name %s' % n)
        if t == 'field':
            if self.is_rec(e[1], env):
                f = e[2]
                if f == 'depth': return k(('nat', st['depth']), st)
                if f == 'active': return k(('bool', st['active']), st)
                if f == 'obj': return k(('obj', st['obj']), st)
                if f == 'msg': return k(('msg', st['msg']), st)
                if f == 'buffers': return k(('buf', st['buf']), st)
                raise Untranslatable('unknown field %s' % f)
            if e[1][0] == 'id' and env.get(e[1][1]) == ('list', 'args') and e[2] == 'items':
                return k(('items', 'args'), st)         # ((struct Tuple*)args)->items
            raise Untranslatable('field access on something else than the exception record')
        if t == 'index':
            return self.eval(e[1], st, env, lambda b, st1: self.need(b, 'buf') and
                             self.eval(e[2], st1, env, lambda i, st2: self.need(i, 'nat') and
                                       k(('nat', '(%s %s)' % (b[1], i[1])), st2)))
        if t in ('post', 'pre'):
            tgt = e[2]
            if tgt[0] == 'field' and self.is_rec(tgt[1], env) and tgt[2] == 'depth':
                old = st['depth']
                new = '(%s %s 1)' % (old, '+' if e[1] == '++' else '-')
                return k(('nat', old if t == 'post' else new), dict(st, depth=new))
            raise Untranslatable('++/-- on something else than e->depth')
        if t == 'un':
            if e[1] == '!':
                def neg(v, st1):
                    if v[0] == 'optbool': return k(('optbool', '(option_map negb %s)' % v[1]), st1)
                    self.need(v, 'bool'); return k(('bool', '(negb %s)' % v[1]), st1)
                return self.eval(e[2], st, env, neg)
            if e[1] == '*':
                def deref(v, st1):
                    if v[0] == 'ptrvar': return k(('elem', v[1]), st1)      # *item in the pointer walk
                    return k(v, st1)                                        # *Exception_Buffer(e): the buffer itself
                return self.eval(e[2], st, env, deref)
            raise Untranslatable('unary %s' % e[1])
        if t == 'bin':
            op = e[1]
            def both(a, b, st2):
                if op in ('&&', '||'):
                    self.need(a, 'bool'); self.need(b, 'bool')
                    return k(('bool', '(%s %s %s)' % ('andb' if op == '&&' else 'orb', a[1], b[1])), st2)
                if op == '+' and a[0] == 'items' and b == ('nat', '(List.length args)'):
                    return k(('items_end', 'args'), st2)
                if op in ('+', '-'):
                    self.need(a, 'nat'); self.need(b, 'nat')
                    return k(('nat', '(%s %s %s)' % (a[1], op, b[1])), st2)
                if a[0] == 'bool' and b[0] == 'bool' and op in ('==', '!='):
                    z = '(Bool.eqb %s %s)' % (a[1], b[1])
                    return k(('bool', z if op == '==' else '(negb %s)' % z), st2)
                if a[0] == 'obj' and a[1] != 'None' and b == ('obj', 'None') and op in ('==', '!='):
                    z = '(match %s with None => true | Some _ => false end)' % a[1]
                    return k(('bool', z if op == '==' else '(negb %s)' % z), st2)
                if a[0] == 'typeof' and b == ('type', 'Tuple') and op == '==':
                    self.uses_is_tuple = True
                    return k(('bool', 'args_is_tuple'), st2)
                if (a[0] == 'nat' or a == ('obj', 'None')) and (b[0] == 'nat' or b == ('obj', 'None')):
                    a, b = self.as_nat(a), self.as_nat(b)
                    tm = {'==': '(%s =? %s)', '!=': '(negb (%s =? %s))', '<': '(%s <? %s)', '<=': '(%s <=? %s)',
                          '>': '(%s <? %s)', '>=': '(%s <=? %s)'}[op]
                    x, y = (b[1], a[1]) if op in ('>', '>=') else (a[1], b[1])
                    return k(('bool', tm % (x, y)), st2)
                raise Untranslatable('operator %s on %s and %s' % (op, a[0], b[0]))
            return self.eval(e[2], st, env, lambda a, st1: self.eval(e[3], st1, env, lambda b, st2: both(a, b, st2)))
        if t == 'call':
            f, args = e[1], e[2]
            if f == 'current' and args == [('id', 'Exception')]: return k(('rec', 'e'), st)
            if f == 'type_of' and len(args) == 1:
                return self.eval(args[0], st, env, lambda a, st1: self.need(a, 'list') and k(('typeof', a[1]), st1))
            if f == 'len' and len(args) == 1:
                return self.eval(args[0], st, env, lambda a, st1: self.need(a, 'list') and k(('nat', '(List.length %s)' % a[1]), st1))
            if f == '$I' and len(args) == 1:
                return self.eval(args[0], st, env, k)
            if f == 'get' and len(args) == 2:
                def got(vs, st1):
                    self.need(vs[0], 'list')
                    if vs[1][0] != 'loopvar': raise Untranslatable('get with an index that is not the loop variable')
                    return k(('elem', vs[1][1]), st1)
                return self.evals(args, st, env, got)
            if f == 'eq' and len(args) == 2:
                def eqq(vs, st1):
                    if vs[0][0] == 'elem' and vs[1][0] == 'obj': return k(('optbool', '(c_eq eqf %s %s)' % (vs[0][1], vs[1][1])), st1)
                    raise Untranslatable('eq on %s and %s' % (vs[0][0], vs[1][0]))
                return self.evals(args, st, env, eqq)
            if f in self.helpers:
                return self.inline(f, args, st, env, lambda st2: k(('void', ''), st2), lambda st2, v: k(v, st2))
            raise Untranslatable('call of %s in an expression' % f)
        raise Untranslatable('expression form %s' % t)

    def inline(self, f, args, st, env, fell, ret):
        params, body = self.helpers[f]
        if isinstance(body, str):                 # parsed on first use
            body = Parser(body).block()
            self.helpers[f] = (params, body)
        if len(params) != len(args): raise Untranslatable('arity of %s' % f)
        if self.inline_depth >= 3: raise Untranslatable('helper calls nested too deep')
        def run(vals, st1):
            self.inline_depth += 1
            try:
                return self.block([body], st1, dict(zip(params, vals)), lambda st2, env2: fell(st2), ret)
            finally:
                self.inline_depth -= 1
        return self.evals(args, st, env, run)

    def cond(self, c, yes, no):
        """a two-way decision on a bool or on an eq result (None = eq applied to NULL: wild)"""
        if c[0] == 'optbool':
            return '(match %s with None => CWild | Some true => %s | Some false => %s end)' % (c[1], yes(), no())
        self.need(c, 'bool')
        if c[1] == 'true': return yes()
        if c[1] == 'false': return no()
        return '(if %s then %s else %s)' % (c[1], yes(), no())

    def block(self, stmts, st, env, k, ret):
        """k(st, env): what follows the statements; ret(st, value): what a `return` does"""
        if not stmts:
            return k(st, env)
        s, rest = stmts[0], stmts[1:]
        go = lambda st2, env2: self.block(rest, st2, env2, k, ret)
        t = s[0]
        if t == 'block':
            return self.block(s[1], st, env, lambda st2, env2: go(st2, {n: v for n, v in env2.items() if n in env}), ret)
        if t == 'decl':
            if s[2] is None: return go(st, dict(env, **{s[1]: ('undef', '')}))
            return self.eval(s[2], st, env, lambda v, st2: go(st2, dict(env, **{s[1]: v})))
        if t == 'assign':
            lv = s[1]
            def store(v, st1):
                if lv[0] == 'field' and self.is_rec(lv[1], env):
                    f = lv[2]
                    want = {'depth': 'nat', 'active': 'bool', 'obj': 'obj'}.get(f)
                    if want is None: raise Untranslatable('assignment to e->%s' % f)
                    self.need(v, want)
                    return go(dict(st1, **{f: v[1]}), env)
                if lv[0] == 'index' and lv[1][0] == 'field' and self.is_rec(lv[1][1], env) and lv[1][2] == 'buffers':
                    v = self.as_nat(v)
                    return self.eval(lv[2], st1, env, lambda i, st2: self.need(i, 'nat') and
                                     go(dict(st2, buf='(upd %s %s %s)' % (st2['buf'], i[1], v[1])), env))
                if lv[0] == 'id' and lv[1] in env and env[lv[1]][0] in ('nat', 'bool', 'optbool', 'obj', 'undef'):
                    return go(st1, dict(env, **{lv[1]: v}))
                raise Untranslatable('assignment target')
            # C evaluates the right-hand side and the index in unspecified order; the functions at hand
            # never have side effects on both sides
            return self.eval(s[2], st, env, store)
        if t == 'expr':
            e = s[1]
            if e[0] in ('post', 'pre'):
                return self.eval(e, st, env, lambda v, st2: go(st2, env))
            if e[0] == 'call':
                f, args = e[1], e[2]
                if f in ('fprintf', 'fflush'): return go(st, env)
                if f == 'abort' and not args: return 'CAbort'
                if f == 'Exception_Error' and len(args) == 1 and self.is_rec(args[0], env): return 'CDie %s' % st_term(st)
                if f == 'longjmp' and len(args) == 2 and args[1] == ('num', 1):
                    return self.eval(args[0], st, env, lambda v, st2: self.need(v, 'nat') and 'CJump %s %s' % (st_term(st2), v[1]))
                if f == 'print_to_with':
                    if len(args) != 4 or args[0][0] != 'field' or not self.is_rec(args[0][1], env) or args[0][2] != 'msg' or args[1] != ('num', 0):
                        raise Untranslatable('print_to_with is not print_to_with(e->msg, 0, fmt, args)')
                    self.fresh += 1
                    s1 = 's%d' % self.fresh
                    st2 = entry_state(s1)
                    st2['msg'] = '(setmsg %s)' % st2['msg']
                    return 'CFormat %s (fun %s => %s)' % (st_term(st), s1, self.block(rest, st2, env, k, ret))
                if f in self.helpers:
                    return self.inline(f, args, st, env, lambda st2: go(st2, env), lambda st2, v: go(st2, env))
                raise Untranslatable('call of %s as a statement' % f)
            raise Untranslatable('expression statement')
        if t == 'if':
            return self.eval(s[1], st, env, lambda c, st1: self.cond(
                c, lambda: self.block([s[2]], st1, env, go, ret), lambda: self.block([s[3]], st1, env, go, ret)))
        if t == 'return':
            if s[1] is None: return ret(st, ('void', ''))
            return self.eval(s[1], st, env, lambda v, st2: ret(st2, v))
        if t == 'for':
            return self.loop(s, st, env, go, ret)
        raise Untranslatable('statement form %s' % t)

    def loop(self, s, st, env, go, ret):
        """the loop forms these functions use — all of them a first-match search over the filter, in order:
           A  for (i = 0; i < len(args); i++)              { if (COND) { ...; return ..; } }
           A' for (i = 0; i < len(args) && !flag; i++)      { flag = COND; }
           B  for (p = items; p != items + len(args); p++)  { if (COND on *p) { ...; return ..; } }   (Tuple walked by pointer)"""
        v, init, c, body = s[1], s[2], s[3], s[4]
        inner = body[1] if body[0] == 'block' else [body]
        self.fresh += 1
        a = 'a%d' % self.fresh

        def search(condexpr, env2, hit, miss):
            def got(cv, st1):
                if cv[0] == 'bool': cv = ('optbool', '(Some %s)' % cv[1])
                self.need(cv, 'optbool')
                return ('(match c_exists (fun %s => %s) args with None => CWild | Some true => %s | Some false => %s end)'
                        % (a, cv[1], hit(), miss()))
            return self.eval(condexpr, st, env2, got)

        def single_if():
            if len(inner) != 1 or inner[0][0] != 'if' or inner[0][3] != ('block', []):
                raise Untranslatable('loop body is not a single `if (cond) { ...; return ...; }`')
            def fell(st2, env3): raise Untranslatable('loop body does not return')
            return inner[0][1], lambda: self.block([inner[0][2]], st, env, fell, ret)

        def bound_is_len(n):
            if n != ('nat', '(List.length args)'): raise Untranslatable('loop bound is not len(args)')

        def start(iv, st1):
            if iv == ('nat', '0') and c[0] == 'bin' and c[1] == '<' and c[2] == ('id', v):
                def b1(n, st2):
                    bound_is_len(n)
                    condexpr, hit = single_if()
                    return search(condexpr, dict(env, **{v: ('loopvar', a)}), hit, lambda: go(st, env))
                return self.eval(c[3], st1, env, b1)
            if (iv == ('nat', '0') and c[0] == 'bin' and c[1] == '&&' and c[2][0] == 'bin' and c[2][1] == '<' and c[2][2] == ('id', v)
                    and c[3][0] == 'un' and c[3][1] == '!' and c[3][2][0] == 'id'):
                flag = c[3][2][1]
                def b2(n, st2):
                    bound_is_len(n)
                    if len(inner) != 1 or inner[0][0] != 'assign' or inner[0][1] != ('id', flag) or env.get(flag, ('?',))[0] != 'bool':
                        raise Untranslatable('loop with a flag is not `for (..; i < n && !flag; ..) { flag = COND; }`')
                    f0 = env[flag]
                    def got(cv, st3):
                        if cv[0] == 'bool': cv = ('optbool', '(Some %s)' % cv[1])
                        self.need(cv, 'optbool')
                        val = ('optbool', '(if %s then Some true else c_exists (fun %s => %s) args)' % (f0[1], a, cv[1]))
                        return go(st, dict(env, **{flag: val}))
                    return self.eval(inner[0][2], st, dict(env, **{v: ('loopvar', a)}), got)
                return self.eval(c[2][3], st1, env, b2)
            if iv == ('items', 'args') and c[0] == 'bin' and c[1] == '!=' and c[2] == ('id', v):
                def b3(n, st2):
                    if n != ('items_end', 'args'): raise Untranslatable('pointer walk does not end at items + len(args)')
                    condexpr, hit = single_if()
                    return search(condexpr, dict(env, **{v: ('ptrvar', a)}), hit, lambda: go(st, env))
                return self.eval(c[3], st1, env, b3)
            raise Untranslatable('loop form')
        return self.eval(init, st, env, start)


def translate(body_text, params, helpers, consts):
    """Gallina term (string) of type cout for a function body; params: {C name: value}"""
    ast = Parser(body_text).block()
    ex = Exec(helpers, consts)

    def ret(st, v):
        if v[0] == 'obj': return 'CRet %s %s' % (st_term(st), v[1])
        if v[0] == 'void': return 'CRet %s None' % st_term(st)
        raise Untranslatable('returns a %s' % v[0])
    term = ex.block([ast], entry_state('s'), dict(params), lambda st, env: ret(st, ('void', '')), ret)
    return term


PRELUDE = '''Module ExnTr.
(* the record of struct Exception as the C functions see it: depth and the buffers array apart *)
Record cstate : Type := CS { c_obj : option nat; c_msg : nat; c_depth : nat; c_active : bool; c_buf : nat -> nat }.
Inductive cout : Type :=
| CRet (s : cstate) (v : option nat)          (* return (v: the object returned, None = NULL / void) *)
| CJump (s : cstate) (t : nat)                 (* longjmp of the buffer t *)
| CDie (s : cstate)                            (* Exception_Error(e) *)
| CAbort                                       (* abort() *)
| CWild                                        (* eq on a NULL object *)
| CFormat (s : cstate) (k : cstate -> cout).   (* print_to_with(e->msg, 0, fmt, args): runs the Show methods of the
                                                  arguments (program code) on state s, goes on with k *)
Definition upd (f : nat -> nat) (i v : nat) : nat -> nat := fun j => if j =? i then v else f j.
Fixpoint c_exists (cond : nat -> option bool) (l : list nat) : option bool :=
  match l with
  | nil => Some false
  | a :: r => match cond a with None => None | Some true => Some true | Some false => c_exists cond r end
  end.
Definition c_eq (eqf : nat -> nat -> bool) (a : nat) (o : option nat) : option bool :=
  match o with Some k => Some (eqf a k) | None => None end.
'''


def gallina(bodies, helper_srcs, max_name='exc_max_depth'):
    """bodies: {C function name: body text} of the five translated functions; helper_srcs: {name: ([param
    names], body text)} of the static functions of the file (inlined where called).  Returns the text of
    Module ExnTr or raises Untranslatable"""
    consts = {'EXCEPTION_MAX_DEPTH': max_name}
    out = [PRELUDE]
    specs = (('exception_try', 'tr_exception_try', '(env : nat)', {'env': ('nat', 'env')}),
             ('exception_try_end', 'tr_exception_try_end', '', {}),
             ('exception_try_fail', 'tr_exception_try_fail', '', {}),
             ('exception_throw', 'tr_exception_throw', '(setmsg : nat -> nat) (o : nat)', {'obj': ('obj', '(Some o)'), 'fmt': ('fmt', ''), 'args': ('fargs', '')}),
             ('exception_catch', 'tr_exception_catch', '(eqf : nat -> nat -> bool) (args_is_tuple : bool) (args : list nat)', {'args': ('list', 'args')}))
    for cname, gname, binders, params in specs:
        if bodies.get(cname) is None: raise Untranslatable('%s not found' % cname)
        term = translate(bodies[cname], params, dict(helper_srcs), consts)
        out.append('(* %s *)\nDefinition %s %s (s : cstate) : cout :=\n  %s.\n' % (cname, gname, binders, term))
    out.append('End ExnTr.')
    return '\n'.join(out)
