"""genx_err.py — static tie for property C12 ("argument validation before mutation").
For every function of src/*.c that contains a throw inside a `#if CELLO_<X>_CHECK == 1` block with
X in BOUND, NULL, ALLOC, METHOD, MAGIC (the argument checks; MEMORY = out of memory after an allocation is
not an argument check) and for every function that validates with `cast(`, reports whether any MUTATING
statement (store through `->`, memmove/memcpy/memset/realloc/free/destruct/assign/link/unlink/rehash/
reserve/alloc/swap call) textually precedes the last such check.  Emitted into coq/Generated.v as
  err_guard_order : list (string * bool)      (function name, checks-precede-mutation)
Properties_C12.v proves `forallb snd err_guard_order = true` by computation: a bounds / NULL / allocation-
class / type check moved below a mutation is a broken obligation (and the matrix finds the input)."""
import re, glob, os

MUT = re.compile(r'(->\s*\w+\s*(\[[^\]]*\])?\s*(=(?!=)|\+=|-=|\+\+|--))|(\+\+|--)\s*\w+\s*->|'
                 r'\b(memmove|memcpy|memset|realloc|free|destruct|assign|List_Unlink|List_Link|List_Free|Table_Rehash|'
                 r'Table_Set_Move|Array_Reserve_More|Array_Reserve_Less|Array_Alloc|List_Alloc|Tree_Alloc|swap|GC_Set_Ptr|GC_Rem_Ptr)\s*\(')
ARG = ('BOUND', 'NULL', 'ALLOC', 'METHOD', 'MAGIC')
# constructors initialise a fresh object before they can check anything about it: not an "operation on an object"
SKIP = re.compile(r'_New$|^Type_Alloc$|^header_init$|^alloc_by$')


def generate(repo, emit, src, func_body):
    rows = []
    for f in sorted(glob.glob(os.path.join(repo, 'src', '*.c'))):
        s = src(os.path.join('src', os.path.basename(f)))
        for m in re.finditer(r'\n(?:static\s+)?[\w\*\s]+?\b(\w+)\s*\([^;{)]*\)\s*\{', s):
            name = m.group(1)
            if name in ('if', 'for', 'while', 'switch') or SKIP.search(name):
                continue
            i = m.end() - 1
            d, j = 0, i
            while j < len(s):
                if s[j] == '{':
                    d += 1
                elif s[j] == '}':
                    d -= 1
                    if d == 0:
                        break
                j += 1
            body = s[i:j + 1]
            if '#ifdef CELLO_WINDOWS' in body and '#else' in body:
                body = body[body.rfind('#else'):]        # platform variants: the generic branch is the one built here
            checks = [g for g in re.finditer(r'#if\s+CELLO_(\w+)_CHECK\s*==\s*1(.*?)#endif', body, flags=re.S)
                      if 'throw' in g.group(2) and g.group(1) in ARG]
            casts = list(re.finditer(r'=\s*cast\s*\(', body))
            if not checks and not casts:
                continue
            last = max([g.start() for g in checks] + [c.start() for c in casts])
            pre = re.sub(r'#if\s+CELLO_\w+_CHECK\s*==\s*1.*?#endif', ' ', body[:last], flags=re.S)
            rows.append((name, not MUT.search(pre)))
    if not rows:
        emit('err_guard_order', None)
        return
    txt = '; '.join('("%s", %s)' % (n, 'true' if ok else 'false') for n, ok in rows)
    emit('err_guard_order', 'Definition err_guard_order : list (string * bool) := [%s]%%string.' % txt)
